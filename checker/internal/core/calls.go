package core

import (
	"go/types"

	"golang.org/x/tools/go/ssa"
)

// Call is a classified call site.
type Call struct {
	Instr  ssa.CallInstruction
	Common *ssa.CallCommon
	Static *ssa.Function // statically known callee (function, method, closure literal) or nil
	Obj    *types.Func   // resolved callee object: interface method for invoke, declared func/method for static calls
	Invoke bool
}

// CallOf classifies an instruction; nil if it is not a call/go/defer.
func CallOf(in ssa.Instruction) *Call {
	ci, ok := in.(ssa.CallInstruction)
	if !ok {
		return nil
	}
	cc := ci.Common()
	c := &Call{Instr: ci, Common: cc}
	if cc.IsInvoke() {
		c.Invoke = true
		c.Obj = cc.Method
		return c
	}
	c.Static = cc.StaticCallee()
	if c.Static != nil {
		if o, ok := c.Static.Object().(*types.Func); ok {
			c.Obj = o
		} else if c.Static.Synthetic != "" {
			// bound method / wrapper: resolve to the declared method
			if o := unwrapSynthetic(c.Static); o != nil {
				c.Obj = o
			}
		}
	}
	return c
}

func unwrapSynthetic(f *ssa.Function) *types.Func {
	for _, b := range f.Blocks {
		for _, in := range b.Instrs {
			if ci, ok := in.(ssa.CallInstruction); ok {
				cc := ci.Common()
				if cc.IsInvoke() {
					return cc.Method
				}
				if sc := cc.StaticCallee(); sc != nil {
					if o, ok := sc.Object().(*types.Func); ok {
						return o
					}
				}
			}
		}
	}
	return nil
}

// Is reports whether the call's resolved callee object is one of objs.
func (c *Call) Is(objs ...*types.Func) bool {
	if c == nil || c.Obj == nil {
		return false
	}
	for _, o := range objs {
		if o != nil && (c.Obj == o || c.Obj.Origin() == o) {
			return true
		}
	}
	return false
}

// Builtin returns the builtin's name if the call is to a builtin.
func (c *Call) Builtin() string {
	if c == nil || c.Invoke {
		return ""
	}
	if b, ok := c.Common.Value.(*ssa.Builtin); ok {
		return b.Name()
	}
	return ""
}

// Recv returns the receiver value (invoke receiver or first arg of a static method call), or nil.
func (c *Call) Recv() ssa.Value {
	if c.Invoke {
		return c.Common.Value
	}
	if c.Obj != nil {
		if sig, ok := c.Obj.Type().(*types.Signature); ok && sig.Recv() != nil && len(c.Common.Args) > 0 {
			return c.Common.Args[0]
		}
	}
	return nil
}

// Args returns the arguments without the receiver.
func (c *Call) Args() []ssa.Value {
	if c.Invoke {
		return c.Common.Args
	}
	if c.Obj != nil {
		if sig, ok := c.Obj.Type().(*types.Signature); ok && sig.Recv() != nil && len(c.Common.Args) > 0 {
			return c.Common.Args[1:]
		}
	}
	return c.Common.Args
}

// Arg returns the i-th non-receiver argument or nil.
func (c *Call) Arg(i int) ssa.Value {
	a := c.Args()
	if i < 0 || i >= len(a) {
		return nil
	}
	return a[i]
}

// Value returns the call's result value (nil for go/defer).
func (c *Call) Value() ssa.Value {
	if v, ok := c.Instr.(*ssa.Call); ok {
		return v
	}
	return nil
}

// CallsIn lists the classified calls of a function in block/instruction order.
func CallsIn(fn *ssa.Function) []*Call {
	var out []*Call
	for _, b := range fn.Blocks {
		for _, in := range b.Instrs {
			if c := CallOf(in); c != nil {
				out = append(out, c)
			}
		}
	}
	return out
}

// CallsTo lists the calls in fn whose callee object is one of objs.
func CallsTo(fn *ssa.Function, objs ...*types.Func) []*Call {
	var out []*Call
	for _, c := range CallsIn(fn) {
		if c.Is(objs...) {
			out = append(out, c)
		}
	}
	return out
}

// buildIndexes computes static callers and closure creation sites over module functions.
func (p *Prog) buildIndexes() {
	if p.callers != nil {
		return
	}
	p.callers = map[*ssa.Function][]ssa.CallInstruction{}
	p.closures = map[*ssa.Function][]*ssa.MakeClosure{}
	p.bound = map[*ssa.Function][]*ssa.MakeClosure{}
	for _, fn := range p.ModFuncs() {
		for _, b := range fn.Blocks {
			for _, in := range b.Instrs {
				if ci, ok := in.(ssa.CallInstruction); ok {
					if sc := ci.Common().StaticCallee(); sc != nil {
						p.callers[sc] = append(p.callers[sc], ci)
					}
				}
				if mc, ok := in.(*ssa.MakeClosure); ok {
					if f, ok := mc.Fn.(*ssa.Function); ok {
						p.closures[f] = append(p.closures[f], mc)
						if m := boundTarget(f); m != nil {
							p.bound[m] = append(p.bound[m], mc)
						}
					}
				}
			}
		}
	}
}

// StaticCallers returns the module call sites that statically call fn.
func (p *Prog) StaticCallers(fn *ssa.Function) []ssa.CallInstruction {
	p.buildIndexes()
	return p.callers[fn]
}

// boundTarget: f is the synthetic wrapper of a bound method value (x.m used as a function); returns the method m.
func boundTarget(f *ssa.Function) *ssa.Function {
	if f.Synthetic == "" || len(f.FreeVars) != 1 {
		return nil
	}
	for _, b := range f.Blocks {
		for _, in := range b.Instrs {
			if ci, ok := in.(ssa.CallInstruction); ok {
				if sc := ci.Common().StaticCallee(); sc != nil && len(ci.Common().Args) > 0 && ci.Common().Args[0] == ssa.Value(f.FreeVars[0]) {
					return sc
				}
			}
		}
	}
	return nil
}

// BoundSites returns the places where method fn is turned into a function value bound to a receiver (x.fn): the
// receiver is Bindings[0] of each.
func (p *Prog) BoundSites(fn *ssa.Function) []*ssa.MakeClosure {
	p.buildIndexes()
	return p.bound[fn]
}

// ClosureSites returns the MakeClosure instructions creating fn.
func (p *Prog) ClosureSites(fn *ssa.Function) []*ssa.MakeClosure {
	p.buildIndexes()
	return p.closures[fn]
}

// CalleesOf resolves a call to the set of module functions it may run:
// the static callee, a closure literal passed directly, or (for invoke) the
// module implementations of the interface method (CHA restricted to the program).
func (p *Prog) CalleesOf(c *Call) []*ssa.Function {
	if c.Static != nil {
		return []*ssa.Function{c.Static}
	}
	if c.Invoke {
		return p.Implementations(c.Obj)
	}
	// dynamic call through a function value: try to resolve to closures/functions
	var out []*ssa.Function
	for _, o := range p.Origins(c.Common.Value, 3) {
		switch v := o.V.(type) {
		case *ssa.Function:
			out = append(out, v)
		case *ssa.MakeClosure:
			if f, ok := v.Fn.(*ssa.Function); ok {
				out = append(out, f)
			}
		}
	}
	return out
}

// Reach computes the set of functions reachable from roots through CalleesOf
// (static calls, closures created, interface calls resolved by CHA over the program).
// follow may veto an edge. go-statements are followed too unless skipGo.
func (p *Prog) Reach(roots []*ssa.Function, follow func(from *ssa.Function, c *Call, to *ssa.Function) bool) map[*ssa.Function]bool {
	seen := map[*ssa.Function]bool{}
	var work []*ssa.Function
	for _, r := range roots {
		if r != nil && !seen[r] {
			seen[r] = true
			work = append(work, r)
		}
	}
	for len(work) > 0 {
		fn := work[len(work)-1]
		work = work[:len(work)-1]
		for _, b := range fn.Blocks {
			for _, in := range b.Instrs {
				if mc, ok := in.(*ssa.MakeClosure); ok {
					if f, ok := mc.Fn.(*ssa.Function); ok && !seen[f] {
						if follow == nil || follow(fn, nil, f) {
							seen[f] = true
							work = append(work, f)
						}
					}
				}
				c := CallOf(in)
				if c == nil {
					continue
				}
				for _, to := range p.CalleesOf(c) {
					if to == nil || seen[to] {
						continue
					}
					if follow != nil && !follow(fn, c, to) {
						continue
					}
					seen[to] = true
					work = append(work, to)
				}
			}
		}
	}
	return seen
}
