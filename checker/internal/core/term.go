package core

import (
	"fmt"
	"go/constant"
	"go/token"
	"go/types"
	"sort"
	"strings"

	"golang.org/x/tools/go/ssa"
)

// Term renders the canonical term of a value: a tree over parameters, free
// variables, constants, fields, loads, calls, with conversions made
// transparent and comparisons normalised. go/ssa does no CSE, so two loads of
// the same field are two registers but one term.
func Term(v ssa.Value) string {
	return termDepth(v, 0, nil)
}

// TermOn renders the term with phis resolved along a path.
func TermOn(v ssa.Value, phi map[*ssa.Phi]ssa.Value) string {
	return termDepth(v, 0, phi)
}

// TermSubst renders the term with phis resolved along a path and inlined callee parameters replaced by their arguments.
func TermSubst(v ssa.Value, phi map[*ssa.Phi]ssa.Value, params map[*ssa.Parameter]ssa.Value) string {
	if len(params) == 0 {
		return termDepth(v, 0, phi)
	}
	paramSubst = params
	defer func() { paramSubst = nil }()
	return termDepth(v, 0, phi)
}

var paramSubst map[*ssa.Parameter]ssa.Value

func fieldName(t types.Type, idx int) string {
	if p, ok := t.Underlying().(*types.Pointer); ok {
		t = p.Elem()
	}
	if st, ok := t.Underlying().(*types.Struct); ok && idx < st.NumFields() {
		return st.Field(idx).Name()
	}
	return fmt.Sprintf("#%d", idx)
}

func calleeName(cc *ssa.CallCommon) string {
	if cc.IsInvoke() {
		return "iface:" + cc.Method.FullName()
	}
	if sc := cc.StaticCallee(); sc != nil {
		if o := sc.Object(); o != nil {
			if f, ok := o.(*types.Func); ok {
				return f.FullName()
			}
		}
		return sc.String()
	}
	if b, ok := cc.Value.(*ssa.Builtin); ok {
		return "builtin:" + b.Name()
	}
	return "dyn:" + termDepth(cc.Value, 1, nil)
}

func termDepth(v ssa.Value, d int, phi map[*ssa.Phi]ssa.Value) string {
	if v == nil {
		return "nil"
	}
	if d > 30 {
		return "…"
	}
	switch x := v.(type) {
	case *ssa.Parameter:
		if paramSubst != nil {
			if r, ok := paramSubst[x]; ok && r != ssa.Value(x) {
				return termDepth(r, d+1, phi)
			}
		}
		for i, p := range x.Parent().Params {
			if p == x {
				return fmt.Sprintf("P%d", i)
			}
		}
		return "P?"
	case *ssa.FreeVar:
		// resolve through a unique closure creation site
		if b := freeVarBinding(x); b != nil {
			return termDepth(b, d+1, phi)
		}
		for i, fv := range x.Parent().FreeVars {
			if fv == x {
				return fmt.Sprintf("FV%d", i)
			}
		}
		return "FV?"
	case *ssa.Const:
		if x.Value == nil {
			return "nil"
		}
		if x.Value.Kind() == constant.String {
			return fmt.Sprintf("%q", constant.StringVal(x.Value))
		}
		return x.Value.ExactString()
	case *ssa.Global:
		return "G:" + x.String()
	case *ssa.Function:
		return "F:" + x.String()
	case *ssa.Builtin:
		return "builtin:" + x.Name()
	case *ssa.Alloc:
		if sv := CellValue(x); sv != nil {
			return "&" + termDepth(sv, d+1, phi)
		}
		return fmt.Sprintf("alloc@%d", x.Pos())
	case *ssa.FieldAddr:
		return "&(" + stripAddr(termDepth(x.X, d+1, phi)) + ")." + fieldName(x.X.Type(), x.Field)
	case *ssa.Field:
		return "(" + termDepth(x.X, d+1, phi) + ")." + fieldName(x.X.Type(), x.Field)
	case *ssa.IndexAddr:
		return "&(" + stripAddrOrLoad(termDepth(x.X, d+1, phi)) + ")[" + termDepth(x.Index, d+1, phi) + "]"
	case *ssa.Index:
		return "(" + termDepth(x.X, d+1, phi) + ")[" + termDepth(x.Index, d+1, phi) + "]"
	case *ssa.Lookup:
		return "(" + termDepth(x.X, d+1, phi) + ")[" + termDepth(x.Index, d+1, phi) + "]"
	case *ssa.UnOp:
		switch x.Op {
		case token.MUL:
			a := termDepth(x.X, d+1, phi)
			if strings.HasPrefix(a, "&") {
				return a[1:]
			}
			return "*" + a
		case token.NOT:
			return negate(termDepth(x.X, d+1, phi))
		case token.ARROW:
			return "<-" + termDepth(x.X, d+1, phi)
		}
		return x.Op.String() + termDepth(x.X, d+1, phi)
	case *ssa.BinOp:
		a, b := termDepth(x.X, d+1, phi), termDepth(x.Y, d+1, phi)
		op := x.Op
		switch op {
		case token.GTR:
			a, b, op = b, a, token.LSS
		case token.GEQ:
			a, b, op = b, a, token.LEQ
		case token.EQL, token.NEQ, token.ADD, token.MUL, token.AND, token.OR, token.XOR:
			if _, isStr := x.X.Type().Underlying().(*types.Basic); !(op == token.ADD && isStr && x.X.Type().Underlying().(*types.Basic).Info()&types.IsString != 0) {
				if a > b {
					a, b = b, a
				}
			}
		}
		if op == token.NEQ {
			return "!((" + a + " == " + b + "))"
		}
		return "(" + a + " " + op.String() + " " + b + ")"
	case *ssa.Call:
		args := make([]string, 0, len(x.Call.Args)+1)
		if x.Call.IsInvoke() {
			args = append(args, termDepth(x.Call.Value, d+1, phi))
		}
		for _, a := range x.Call.Args {
			args = append(args, termDepth(a, d+1, phi))
		}
		return calleeName(&x.Call) + "(" + strings.Join(args, ",") + ")"
	case *ssa.Extract:
		return fmt.Sprintf("%s#%d", termDepth(x.Tuple, d+1, phi), x.Index)
	case *ssa.TypeAssert:
		if x.CommaOk {
			return "assert[" + types.TypeString(x.AssertedType, nil) + "](" + termDepth(x.X, d+1, phi) + ")"
		}
		return termDepth(x.X, d+1, phi)
	case *ssa.ChangeType:
		return termDepth(x.X, d+1, phi)
	case *ssa.Convert:
		return termDepth(x.X, d+1, phi)
	case *ssa.ChangeInterface:
		return termDepth(x.X, d+1, phi)
	case *ssa.MakeInterface:
		return termDepth(x.X, d+1, phi)
	case *ssa.Slice:
		if x.Low == nil && x.High == nil {
			return stripAddrOrLoad(termDepth(x.X, d+1, phi))
		}
		return "slice(" + termDepth(x.X, d+1, phi) + "," + termDepth(x.Low, d+1, phi) + "," + termDepth(x.High, d+1, phi) + ")"
	case *ssa.Phi:
		if phi != nil {
			if r, ok := phi[x]; ok {
				return termDepth(r, d+1, phi)
			}
		}
		parts := []string{}
		seen := map[string]bool{}
		for _, e := range x.Edges {
			if e == ssa.Value(x) {
				continue
			}
			s := termDepth(e, d+3, phi)
			if !seen[s] {
				seen[s] = true
				parts = append(parts, s)
			}
		}
		sort.Strings(parts)
		if len(parts) == 1 {
			return parts[0]
		}
		return "phi(" + strings.Join(parts, "|") + ")"
	case *ssa.MakeClosure:
		return "closure:" + x.Fn.String()
	case *ssa.Select:
		return fmt.Sprintf("select@%d", x.Pos())
	case *ssa.Next:
		return "next(" + termDepth(x.Iter, d+1, phi) + ")"
	case *ssa.Range:
		return "range(" + termDepth(x.X, d+1, phi) + ")"
	case *ssa.MakeMap:
		return fmt.Sprintf("makemap@%d", x.Pos())
	case *ssa.MakeSlice:
		return fmt.Sprintf("makeslice@%d", x.Pos())
	case *ssa.MakeChan:
		return fmt.Sprintf("makechan@%d", x.Pos())
	}
	return fmt.Sprintf("%T@%d", v, v.Pos())
}

func stripAddr(s string) string {
	if strings.HasPrefix(s, "&") {
		return s[1:]
	}
	return "*" + s
}
func stripAddrOrLoad(s string) string {
	if strings.HasPrefix(s, "&") {
		return s[1:]
	}
	return s
}

func negate(s string) string {
	if strings.HasPrefix(s, "!(") && strings.HasSuffix(s, ")") && balanced(s[2:len(s)-1]) {
		return s[2 : len(s)-1]
	}
	return "!(" + s + ")"
}

func balanced(s string) bool {
	n := 0
	for _, c := range s {
		if c == '(' {
			n++
		} else if c == ')' {
			n--
			if n < 0 {
				return false
			}
		}
	}
	return n == 0
}

// CellValue resolves an Alloc used as a captured-variable cell or single-assignment
// local: exactly one Store into it (besides zeroing) and otherwise only loads and
// closure bindings. Returns the stored value, or nil.
func CellValue(a *ssa.Alloc) ssa.Value {
	refs := a.Referrers()
	if refs == nil {
		return nil
	}
	var stored ssa.Value
	n := 0
	for _, r := range *refs {
		switch u := r.(type) {
		case *ssa.Store:
			if u.Addr == ssa.Value(a) {
				stored = u.Val
				n++
			} else {
				return nil // address escapes into memory
			}
		case *ssa.UnOp, *ssa.MakeClosure, *ssa.DebugRef:
		default:
			return nil
		}
	}
	// closures may also store into the cell
	for _, r := range *refs {
		if mc, ok := r.(*ssa.MakeClosure); ok {
			fn := mc.Fn.(*ssa.Function)
			for i, b := range mc.Bindings {
				if b == ssa.Value(a) && i < len(fn.FreeVars) {
					if fvStored(fn.FreeVars[i]) {
						return nil
					}
				}
			}
		}
	}
	if n == 1 {
		return stored
	}
	return nil
}

func fvStored(fv *ssa.FreeVar) bool {
	refs := fv.Referrers()
	if refs == nil {
		return false
	}
	for _, r := range *refs {
		switch u := r.(type) {
		case *ssa.Store:
			if u.Addr == ssa.Value(fv) {
				return true
			}
		case *ssa.MakeClosure:
			fn := u.Fn.(*ssa.Function)
			for i, b := range u.Bindings {
				if b == ssa.Value(fv) && i < len(fn.FreeVars) && fvStored(fn.FreeVars[i]) {
					return true
				}
			}
		}
	}
	return false
}

// freeVarBinding returns the value bound to a free variable when the closure
// has exactly one creation site in its parent.
func freeVarBinding(fv *ssa.FreeVar) ssa.Value {
	fn := fv.Parent()
	parent := fn.Parent()
	if parent == nil {
		return nil
	}
	idx := -1
	for i, f := range fn.FreeVars {
		if f == fv {
			idx = i
		}
	}
	if idx < 0 {
		return nil
	}
	var found ssa.Value
	n := 0
	for _, b := range parent.Blocks {
		for _, in := range b.Instrs {
			if mc, ok := in.(*ssa.MakeClosure); ok && mc.Fn == ssa.Value(fn) {
				if idx < len(mc.Bindings) {
					found = mc.Bindings[idx]
					n++
				}
			}
		}
	}
	if n == 1 {
		return found
	}
	return nil
}

// FreeVarBinding exposes freeVarBinding.
func FreeVarBinding(fv *ssa.FreeVar) ssa.Value { return freeVarBinding(fv) }
