package core

import (
	"fmt"
	"go/constant"
	"go/token"
	"strings"

	"golang.org/x/tools/go/ssa"
)

// Cond is one branch decision taken on a path.
type Cond struct {
	Term string // canonical term of the (positive) condition
	V    ssa.Value
	Val  bool
	At   *ssa.BasicBlock
	Step int // index into Path.Blocks of the block this condition terminates
}

// Path is one acyclic (each CFG edge at most EdgeVisits times) path through a region.
type Path struct {
	Fn     *ssa.Function
	Blocks []*ssa.BasicBlock
	Conds  []Cond
	Phi    map[*ssa.Phi]ssa.Value
	Exit   ssa.Instruction // *ssa.Return or *ssa.Panic; nil if Cut
	Cut    bool            // ended at a Stop block or because no edge was left

	live map[string]bool      // term -> value, currently valid atoms
	eq   map[string]string    // term == const known
	neq  map[string][]string  // term != consts known
	edge map[[2]int]int
}

// PathOpts configures EnumPaths.
type PathOpts struct {
	Start      *ssa.BasicBlock
	Stop       func(b *ssa.BasicBlock) bool
	Assume     func(p *Path, cond ssa.Value, term string) (val, known bool)
	MaxPaths    int
	BlockVisits int // how often one block may be entered on a path (default 2: one loop iteration; 3: two iterations)
}

func (p *Path) clone() *Path {
	q := &Path{Fn: p.Fn, Exit: p.Exit, Cut: p.Cut}
	q.Blocks = append([]*ssa.BasicBlock(nil), p.Blocks...)
	q.Conds = append([]Cond(nil), p.Conds...)
	q.Phi = make(map[*ssa.Phi]ssa.Value, len(p.Phi))
	for k, v := range p.Phi {
		q.Phi[k] = v
	}
	q.live = make(map[string]bool, len(p.live))
	for k, v := range p.live {
		q.live[k] = v
	}
	q.eq = make(map[string]string, len(p.eq))
	for k, v := range p.eq {
		q.eq[k] = v
	}
	q.neq = make(map[string][]string, len(p.neq))
	for k, v := range p.neq {
		q.neq[k] = append([]string(nil), v...)
	}
	q.edge = make(map[[2]int]int, len(p.edge))
	for k, v := range p.edge {
		q.edge[k] = v
	}
	return q
}

// Resolve follows the phis chosen on this path.
func (p *Path) Resolve(v ssa.Value) ssa.Value {
	for i := 0; i < 32; i++ {
		ph, ok := v.(*ssa.Phi)
		if !ok {
			return v
		}
		r, ok := p.Phi[ph]
		if !ok {
			return v
		}
		v = r
	}
	return v
}

// ResolveMem is Resolve, plus: a load of a non-escaping local resolves to the
// value last stored into it along this path (defer-spilled results, flags).
func (p *Path) ResolveMem(v ssa.Value) ssa.Value {
	for i := 0; i < 8; i++ {
		v = p.Resolve(v)
		ld, ok := v.(*ssa.UnOp)
		if !ok || ld.Op != token.MUL {
			return v
		}
		al, ok := ld.X.(*ssa.Alloc)
		if !ok || addrEscapes(al) {
			return v
		}
		var last ssa.Value
		lastIdx := -1
		for bi, b := range p.Blocks {
			if b == ld.Block() {
				lastIdx = bi
			}
		}
	scan:
		for bi, b := range p.Blocks {
			if bi > lastIdx {
				break
			}
			for _, in := range b.Instrs {
				if bi == lastIdx && in == ssa.Instruction(ld) {
					break scan
				}
				if st, ok := in.(*ssa.Store); ok && st.Addr == ssa.Value(al) {
					last = st.Val
				}
			}
		}
		if last == nil {
			return v
		}
		v = last
	}
	return v
}

// Term renders the canonical term of v with this path's phi choices.
func (p *Path) Term(v ssa.Value) string { return TermOn(v, p.Phi) }

// CondVal returns the value this path took for the atom with the given positive term.
func (p *Path) CondVal(term string) (val, known bool) {
	neg := false
	for strings.HasPrefix(term, "!(") && strings.HasSuffix(term, ")") && balanced(term[2:len(term)-1]) {
		term = term[2 : len(term)-1]
		neg = !neg
	}
	for i := len(p.Conds) - 1; i >= 0; i-- {
		if p.Conds[i].Term == term {
			return p.Conds[i].Val != neg, true
		}
	}
	return false, false
}

// CondWhere returns the value of the last atom whose term satisfies pred.
func (p *Path) CondWhere(pred func(term string, c Cond) bool) (val, known bool) {
	for i := len(p.Conds) - 1; i >= 0; i-- {
		if pred(p.Conds[i].Term, p.Conds[i]) {
			return p.Conds[i].Val, true
		}
	}
	return false, false
}

func splitNeg(term string) (string, bool) {
	neg := false
	for strings.HasPrefix(term, "!(") && strings.HasSuffix(term, ")") && balanced(term[2:len(term)-1]) {
		term = term[2 : len(term)-1]
		neg = !neg
	}
	return term, neg
}

// eqParts splits "(a == c)" where c is a constant-looking operand.
func eqConst(v ssa.Value, p *Path) (key, c string, ok bool) {
	b, isb := v.(*ssa.BinOp)
	if !isb || (b.Op != token.EQL && b.Op != token.NEQ) {
		return "", "", false
	}
	x, y := p.Resolve(b.X), p.Resolve(b.Y)
	if cy, ok := y.(*ssa.Const); ok {
		return p.Term(x), constKey(cy), true
	}
	if cx, ok := x.(*ssa.Const); ok {
		return p.Term(y), constKey(cx), true
	}
	return "", "", false
}

func constKey(c *ssa.Const) string {
	if c.Value == nil {
		return "nil"
	}
	if c.Value.Kind() == constant.String {
		return fmt.Sprintf("%q", constant.StringVal(c.Value))
	}
	return c.Value.ExactString()
}

// EnumPaths enumerates the paths of fn from opts.Start (default: entry).
func EnumPaths(fn *ssa.Function, opts PathOpts) ([]*Path, error) {
	if len(fn.Blocks) == 0 {
		return nil, fmt.Errorf("function %s has no body", fn)
	}
	if opts.MaxPaths == 0 {
		opts.MaxPaths = 100000
	}
	if opts.BlockVisits == 0 {
		opts.BlockVisits = 2
	}
	start := opts.Start
	if start == nil {
		start = fn.Blocks[0]
	}
	var out []*Path
	var err error
	loops := Loops(fn)
	init := &Path{Fn: fn, Phi: map[*ssa.Phi]ssa.Value{}, live: map[string]bool{}, eq: map[string]string{}, neq: map[string][]string{}, edge: map[[2]int]int{}}
	var rec func(p *Path, b *ssa.BasicBlock, from *ssa.BasicBlock)
	rec = func(p *Path, b *ssa.BasicBlock, from *ssa.BasicBlock) {
		if err != nil {
			return
		}
		if len(out) >= opts.MaxPaths {
			err = fmt.Errorf("more than %d paths in %s", opts.MaxPaths, fn)
			return
		}
		if from != nil {
			// phis
			pi := -1
			for i, pr := range b.Preds {
				if pr == from {
					pi = i
				}
			}
			newPhi := map[*ssa.Phi]ssa.Value{}
			for _, in := range b.Instrs {
				ph, ok := in.(*ssa.Phi)
				if !ok {
					break
				}
				if pi >= 0 && pi < len(ph.Edges) {
					newPhi[ph] = p.Resolve(ph.Edges[pi])
				}
			}
			for k, v := range newPhi {
				p.Phi[k] = v
			}
		}
		if opts.Stop != nil && from != nil && opts.Stop(b) {
			p.Blocks = append(p.Blocks, b)
			p.Cut = true
			out = append(out, p)
			return
		}
		// re-entering a block (next loop iteration): facts about conditions evaluated inside that loop are stale
		revisit := false
		for _, vb := range p.Blocks {
			if vb == b {
				revisit = true
			}
		}
		if revisit {
			var inLoop map[*ssa.BasicBlock]bool
			for _, l := range loops {
				if l.Blocks[b] && (inLoop == nil || len(l.Blocks) > len(inLoop)) {
					inLoop = l.Blocks
				}
			}
			stale := map[string]bool{}
			for _, cd := range p.Conds {
				if inLoop == nil || inLoop[cd.At] {
					stale[cd.Term] = true
					if k, _, ok := eqConst(cd.V, p); ok {
						stale["eq:"+k] = true
					}
				}
			}
			for t := range p.live {
				if stale[t] {
					delete(p.live, t)
				}
			}
			for t := range p.eq {
				if stale["eq:"+t] {
					delete(p.eq, t)
				}
			}
			for t := range p.neq {
				if stale["eq:"+t] {
					delete(p.neq, t)
				}
			}
		}
		p.Blocks = append(p.Blocks, b)
		// stores invalidate atoms
		for _, in := range b.Instrs {
			if s, ok := in.(*ssa.Store); ok {
				loc := stripAddr(p.Term(s.Addr))
				if strings.HasPrefix(loc, "*") {
					loc = loc[1:]
				}
				for t := range p.live {
					if strings.Contains(t, loc) {
						delete(p.live, t)
					}
				}
				for t := range p.eq {
					if strings.Contains(t, loc) {
						delete(p.eq, t)
					}
				}
				for t := range p.neq {
					if strings.Contains(t, loc) {
						delete(p.neq, t)
					}
				}
			}
		}
		last := b.Instrs[len(b.Instrs)-1]
		switch t := last.(type) {
		case *ssa.Return:
			p.Exit = t
			out = append(out, p)
			return
		case *ssa.Panic:
			if c, ok := t.X.(*ssa.MakeInterface); ok {
				if k, ok := c.X.(*ssa.Const); ok && k.Value != nil && k.Value.Kind() == constant.String &&
					strings.Contains(constant.StringVal(k.Value), "blocking select matched no case") {
					return // infeasible
				}
			}
			p.Exit = t
			out = append(out, p)
			return
		case *ssa.If:
			cv := p.Resolve(t.Cond)
			var val, known bool
			if c, ok := cv.(*ssa.Const); ok && c.Value != nil && c.Value.Kind() == constant.Bool {
				val, known = constant.BoolVal(c.Value), true
			}
			term, neg := splitNeg(p.Term(cv))
			if !known && opts.Assume != nil {
				if v, k := opts.Assume(p, cv, term); k {
					val, known = v != neg, true
					// note: Assume speaks about the positive term
					val = v
					if neg {
						val = !v
					}
				}
			}
			if !known {
				if v, ok := p.live[term]; ok {
					val, known = v != neg, true
				}
			}
			ekey, ec, isEq := eqConst(cv, p)
			if !known && isEq {
				eqv, has := false, false
				if c, ok := p.eq[ekey]; ok {
					eqv, has = c == ec, true
				} else {
					for _, n := range p.neq[ekey] {
						if n == ec {
							eqv, has = false, true
						}
					}
				}
				if has {
					b := cv.(*ssa.BinOp)
					if b.Op == token.NEQ {
						val = !eqv
					} else {
						val = eqv
					}
					known = true
				}
			}
			take := func(q *Path, branch bool) {
				posVal := branch != neg
				q.Conds = append(q.Conds, Cond{Term: term, V: cv, Val: posVal, At: b, Step: len(q.Blocks) - 1})
				q.live[term] = posVal
				if isEq {
					bo := cv.(*ssa.BinOp)
					isEqual := branch
					if bo.Op == token.NEQ {
						isEqual = !branch
					}
					if isEqual {
						q.eq[ekey] = ec
					} else {
						q.neq[ekey] = append(q.neq[ekey], ec)
					}
				}
				succ := b.Succs[0]
				if !branch {
					succ = b.Succs[1]
				}
				k := [2]int{succ.Index, 0}
				if q.edge[k] >= opts.BlockVisits {
					return
				}
				q.edge[k]++
				rec(q, succ, b)
			}
			if known {
				take(p, val)
			} else {
				q := p.clone()
				take(p, true)
				take(q, false)
			}
			return
		default:
			if len(b.Succs) == 0 {
				p.Cut = true
				out = append(out, p)
				return
			}
			succ := b.Succs[0]
			k := [2]int{succ.Index, 0}
			if p.edge[k] >= opts.BlockVisits {
				return
			}
			p.edge[k]++
			rec(p, succ, b)
		}
	}
	init.edge[[2]int{start.Index, 0}] = 1
	rec(init, start, nil)
	return out, err
}

// PathInstr is an instruction met along a path; Deferred marks a deferred call executed at rundefers.
type PathInstr struct {
	In       ssa.Instruction
	Deferred bool
}

// Instrs lists the instructions along the path in execution order; deferred
// calls are replayed (LIFO) where the path runs its defers.
func (p *Path) Instrs() []PathInstr {
	var out []PathInstr
	var defers []*ssa.Defer
	for _, b := range p.Blocks {
		for _, in := range b.Instrs {
			switch x := in.(type) {
			case *ssa.Defer:
				defers = append(defers, x)
				out = append(out, PathInstr{In: in})
			case *ssa.RunDefers:
				for i := len(defers) - 1; i >= 0; i-- {
					out = append(out, PathInstr{In: defers[i], Deferred: true})
				}
				defers = nil
			default:
				out = append(out, PathInstr{In: in})
			}
		}
	}
	return out
}

// PathCall is a call executed on a path.
type PathCall struct {
	*Call
	Deferred bool
	Seq      int
}

// Calls lists the calls executed along the path, in order (a defer counts where it runs, a go where it is spawned).
func (p *Path) Calls() []PathCall {
	var out []PathCall
	for i, pi := range p.Instrs() {
		if _, isDefer := pi.In.(*ssa.Defer); isDefer && !pi.Deferred {
			continue
		}
		if c := CallOf(pi.In); c != nil {
			out = append(out, PathCall{Call: c, Deferred: pi.Deferred, Seq: i})
		}
	}
	return out
}

// ReturnsNilError reports, for a path ending in a Return whose last result is of
// type error, whether that result is definitely nil / definitely non-nil on this path.
func (p *Path) ReturnsNilError() (isNil, known bool) {
	r, ok := p.Exit.(*ssa.Return)
	if !ok || len(r.Results) == 0 {
		return false, false
	}
	v := p.ResolveMem(r.Results[len(r.Results)-1])
	if c, ok := v.(*ssa.Const); ok {
		return c.Value == nil, true
	}
	// err variable tested on this path? (by value identity: the last test of this very value)
	for i := len(p.Conds) - 1; i >= 0; i-- {
		cd := p.Conds[i]
		if bo, ok := cd.V.(*ssa.BinOp); ok && (bo.Op == token.EQL || bo.Op == token.NEQ) {
			x, y := p.Resolve(bo.X), p.Resolve(bo.Y)
			if cx, ok := x.(*ssa.Const); ok && cx.Value == nil && y == v {
				return cd.Val, true
			}
			if cy, ok := y.(*ssa.Const); ok && cy.Value == nil && x == v {
				return cd.Val, true
			}
		}
	}
	switch x := v.(type) {
	case *ssa.MakeInterface:
		return false, true
	case *ssa.UnOp:
		// a package-level error sentinel (var ErrX = errors.New(...)) is non-nil
		if g, ok := x.X.(*ssa.Global); ok && x.Op == token.MUL && strings.HasPrefix(g.Name(), "Err") {
			return false, true
		}
	case *ssa.Call:
		if sc := x.Call.StaticCallee(); sc != nil && sc.Pkg != nil {
			switch sc.Pkg.Pkg.Path() + "." + sc.Name() {
			case "errors.New", "fmt.Errorf":
				return false, true
			}
		}
		if x.Call.IsInvoke() && x.Call.Method.Name() == "Err" && x.Call.Method.Pkg() != nil && x.Call.Method.Pkg().Path() == "context" {
			// ctx.Err() after <-ctx.Done() is non-nil
			return false, true
		}
	}
	return false, false
}

// Describe renders the path for reports.
func (p *Path) Describe(pr *Prog) string {
	var sb strings.Builder
	for i, c := range p.Conds {
		if i > 0 {
			sb.WriteString(" ∧ ")
		}
		if !c.Val {
			sb.WriteString("¬")
		}
		t := c.Term
		if len(t) > 90 {
			t = t[:90] + "…"
		}
		sb.WriteString(t)
	}
	if p.Exit != nil {
		fmt.Fprintf(&sb, " → exit %s", pr.Pos(p.Exit.Pos()))
	}
	return sb.String()
}

// ---- dominance helpers ----

// InstrIndex returns the index of an instruction in its block.
func InstrIndex(in ssa.Instruction) int {
	for i, x := range in.Block().Instrs {
		if x == in {
			return i
		}
	}
	return -1
}

// Dominates reports whether instruction a dominates instruction b (same function).
func Dominates(a, b ssa.Instruction) bool {
	if a.Parent() != b.Parent() {
		return false
	}
	if a.Block() == b.Block() {
		return InstrIndex(a) <= InstrIndex(b)
	}
	return a.Block().Dominates(b.Block())
}

// ReachableAvoiding reports whether, starting right after instruction from, an
// instruction satisfying target can be reached without executing an
// instruction satisfying avoid.
func ReachableAvoiding(from ssa.Instruction, target, avoid func(ssa.Instruction) bool) bool {
	type pos struct {
		b *ssa.BasicBlock
		i int
	}
	seen := map[*ssa.BasicBlock]bool{}
	var scan func(b *ssa.BasicBlock, i int) bool
	scan = func(b *ssa.BasicBlock, i int) bool {
		for ; i < len(b.Instrs); i++ {
			in := b.Instrs[i]
			if avoid != nil && avoid(in) {
				return false
			}
			if target(in) {
				return true
			}
		}
		for _, s := range b.Succs {
			if !seen[s] {
				seen[s] = true
				if scan(s, 0) {
					return true
				}
			}
		}
		return false
	}
	return scan(from.Block(), InstrIndex(from)+1)
}

// IsReturn is a target predicate for ReachableAvoiding.
func IsReturn(in ssa.Instruction) bool { _, ok := in.(*ssa.Return); return ok }

// ---- loops ----

// Loop is a natural loop.
type Loop struct {
	Header *ssa.BasicBlock
	Blocks map[*ssa.BasicBlock]bool
}

// Loops returns the natural loops of fn (one per header; bodies of back edges to the same header merged).
func Loops(fn *ssa.Function) []*Loop {
	byHeader := map[*ssa.BasicBlock]*Loop{}
	var order []*ssa.BasicBlock
	for _, b := range fn.Blocks {
		for _, s := range b.Succs {
			if s.Dominates(b) { // back edge b -> s
				l := byHeader[s]
				if l == nil {
					l = &Loop{Header: s, Blocks: map[*ssa.BasicBlock]bool{s: true}}
					byHeader[s] = l
					order = append(order, s)
				}
				// collect body: nodes that reach b without passing s
				var stack []*ssa.BasicBlock
				if !l.Blocks[b] {
					l.Blocks[b] = true
					stack = append(stack, b)
				}
				for len(stack) > 0 {
					x := stack[len(stack)-1]
					stack = stack[:len(stack)-1]
					for _, pr := range x.Preds {
						if !l.Blocks[pr] {
							l.Blocks[pr] = true
							stack = append(stack, pr)
						}
					}
				}
			}
		}
	}
	var out []*Loop
	for _, h := range order {
		out = append(out, byHeader[h])
	}
	return out
}

// InnermostLoop returns the smallest loop containing b, or nil.
func InnermostLoop(loops []*Loop, b *ssa.BasicBlock) *Loop {
	var best *Loop
	for _, l := range loops {
		if l.Blocks[b] && (best == nil || len(l.Blocks) < len(best.Blocks)) {
			best = l
		}
	}
	return best
}
