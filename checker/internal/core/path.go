package core

import (
	"fmt"
	"go/constant"
	"go/token"
	"strings"

	"golang.org/x/tools/go/ssa"
)

// Cond is one branch decision taken on a path.
type Cond struct {
	Term string // canonical term of the (positive) condition
	V    ssa.Value
	Val  bool
	At   *ssa.BasicBlock
	Step int // index into Path.Blocks of the block this condition terminates
	// X, Y: for a comparison, its operands as the phis stood when the branch was taken (Path.Phi keeps only the last
	// choice of each phi: on a path that goes round a loop twice, resolving an operand afterwards gives the value of
	// the last iteration)
	X, Y ssa.Value
	// Baked: V is the constant that the inlined callee returned for the tested result on this path (Val is the value
	// the branch taken requires of it); Term is still the term of the original condition
	Baked bool
}

// Path is one acyclic (each CFG edge at most EdgeVisits times) path through a region.
type Path struct {
	Fn     *ssa.Function
	Blocks []*ssa.BasicBlock
	Conds  []Cond
	Phi    map[*ssa.Phi]ssa.Value
	Exit   ssa.Instruction // *ssa.Return or *ssa.Panic; nil if Cut
	Cut    bool            // ended at a Stop block or because no edge was left

	// set on paths produced by ExpandInline
	flat   []PathInstr                  // instructions in execution order, callee bodies spliced in after their call
	Params map[*ssa.Parameter]ssa.Value // inlined callee parameter -> argument at the call site
	Rets   map[ssa.Value][]ssa.Value    // inlined call -> the values its callee path returned

	live map[string]bool     // term -> value, currently valid atoms
	eq   map[string]string   // term == const known
	neq  map[string][]string // term != consts known
	edge map[[2]int]int
}

// PathOpts configures EnumPaths.
type PathOpts struct {
	Start       *ssa.BasicBlock
	Stop        func(b *ssa.BasicBlock) bool
	Assume      func(p *Path, cond ssa.Value, term string) (val, known bool)
	MaxPaths    int
	BlockVisits int // how often one block may be entered on a path (default 2: one loop iteration; 3: two iterations)
}

func (p *Path) clone() *Path {
	q := &Path{Fn: p.Fn, Exit: p.Exit, Cut: p.Cut}
	q.Blocks = append([]*ssa.BasicBlock(nil), p.Blocks...)
	q.Conds = append([]Cond(nil), p.Conds...)
	q.Phi = make(map[*ssa.Phi]ssa.Value, len(p.Phi))
	for k, v := range p.Phi {
		q.Phi[k] = v
	}
	q.live = make(map[string]bool, len(p.live))
	for k, v := range p.live {
		q.live[k] = v
	}
	q.eq = make(map[string]string, len(p.eq))
	for k, v := range p.eq {
		q.eq[k] = v
	}
	q.neq = make(map[string][]string, len(p.neq))
	for k, v := range p.neq {
		q.neq[k] = append([]string(nil), v...)
	}
	q.edge = make(map[[2]int]int, len(p.edge))
	for k, v := range p.edge {
		q.edge[k] = v
	}
	return q
}

// Resolve follows the phis chosen on this path.
func (p *Path) Resolve(v ssa.Value) ssa.Value {
	for i := 0; i < 32; i++ {
		switch x := v.(type) {
		case *ssa.Phi:
			r, ok := p.Phi[x]
			if !ok {
				return v
			}
			v = r
		case *ssa.Parameter:
			r, ok := p.Params[x]
			if !ok {
				return v
			}
			v = r
		case *ssa.Extract:
			rs, ok := p.Rets[x.Tuple]
			if !ok || x.Index >= len(rs) {
				return v
			}
			v = rs[x.Index]
		case *ssa.Call:
			rs, ok := p.Rets[x]
			if !ok || len(rs) != 1 {
				return v
			}
			v = rs[0]
		default:
			return v
		}
	}
	return v
}

// ResolveMemless is Resolve for values that may be results of inlined calls (no memory lookup).
func (p *Path) ResolveMemless(v ssa.Value) ssa.Value {
	r := p.Resolve(v)
	if r == v {
		return v
	}
	return r
}

// nilness reports whether v is known nil / non-nil on this path (constants, fresh values, or an earlier test of the same value).
func (p *Path) nilness(v ssa.Value, upto int) (isNil, known bool) {
	v = p.Resolve(v)
	switch x := v.(type) {
	case *ssa.Const:
		return x.Value == nil, x.Value == nil
	}
	if freshNonNil(v) {
		return false, true
	}
	for i := upto - 1; i >= 0; i-- {
		cd := p.Conds[i]
		bo, ok := cd.V.(*ssa.BinOp)
		if !ok || (bo.Op != token.EQL && bo.Op != token.NEQ) {
			continue
		}
		x, y := p.Resolve(bo.X), p.Resolve(bo.Y)
		if cx, ok := x.(*ssa.Const); ok && cx.Value == nil && y == v {
			return cd.Val, true
		}
		if cy, ok := y.(*ssa.Const); ok && cy.Value == nil && x == v {
			return cd.Val, true
		}
	}
	return false, false
}

// consistent: no nil-test on the path contradicts what is known about its operand from constants or earlier tests (used after inlining, where caller and callee conditions were forked independently).
func (p *Path) consistent() bool {
	for i, cd := range p.Conds {
		// a condition on the boolean result of an inlined callee whose path returned a constant
		{
			v0 := cd.V
			for {
				u, ok := v0.(*ssa.UnOp)
				if !ok || u.Op != token.NOT {
					break
				}
				v0 = u.X
			}
			// (baked by seeThroughResults when the occurrence was spliced in: Rets is keyed by the call instruction and
			// must not be consulted here, a later occurrence of the same call may have overwritten it)
			if k, ok := v0.(*ssa.Const); ok && cd.Baked && k.Value != nil && k.Value.Kind() == constant.Bool {
				if constant.BoolVal(k.Value) != cd.Val {
					return false
				}
				continue
			}
		}
		bo, ok := cd.V.(*ssa.BinOp)
		if !ok || (bo.Op != token.EQL && bo.Op != token.NEQ) {
			continue
		}
		var operand ssa.Value
		if k, ok := bo.Y.(*ssa.Const); ok && k.Value == nil {
			operand = bo.X
		} else if k, ok := bo.X.(*ssa.Const); ok && k.Value == nil {
			operand = bo.Y
		} else {
			continue
		}
		if isNil, known := p.nilness(operand, i); known && isNil != cd.Val {
			return false
		}
	}
	return true
}

// ResolveMem is Resolve, plus: a load of a non-escaping local resolves to the
// value last stored into it along this path (defer-spilled results, flags).
func (p *Path) ResolveMem(v ssa.Value) ssa.Value {
	for i := 0; i < 8; i++ {
		v = p.Resolve(v)
		ld, ok := v.(*ssa.UnOp)
		if !ok || ld.Op != token.MUL {
			return v
		}
		al, ok := ld.X.(*ssa.Alloc)
		if !ok || addrEscapes(al) {
			return v
		}
		var last ssa.Value
		lastIdx := -1
		for bi, b := range p.Blocks {
			if b == ld.Block() {
				lastIdx = bi
			}
		}
	scan:
		for bi, b := range p.Blocks {
			if bi > lastIdx {
				break
			}
			for _, in := range b.Instrs {
				if bi == lastIdx && in == ssa.Instruction(ld) {
					break scan
				}
				if st, ok := in.(*ssa.Store); ok && st.Addr == ssa.Value(al) {
					last = st.Val
				}
			}
		}
		if last == nil {
			return v
		}
		v = last
	}
	return v
}

// Term renders the canonical term of v with this path's phi choices.
func (p *Path) Term(v ssa.Value) string { return TermSubst(v, p.Phi, p.Params) }

// CondVal returns the value this path took for the atom with the given positive term.
func (p *Path) CondVal(term string) (val, known bool) {
	neg := false
	for strings.HasPrefix(term, "!(") && strings.HasSuffix(term, ")") && balanced(term[2:len(term)-1]) {
		term = term[2 : len(term)-1]
		neg = !neg
	}
	for i := len(p.Conds) - 1; i >= 0; i-- {
		if p.Conds[i].Term == term {
			return p.Conds[i].Val != neg, true
		}
	}
	return false, false
}

// CondWhere returns the value of the last atom whose term satisfies pred.
func (p *Path) CondWhere(pred func(term string, c Cond) bool) (val, known bool) {
	for i := len(p.Conds) - 1; i >= 0; i-- {
		if pred(p.Conds[i].Term, p.Conds[i]) {
			return p.Conds[i].Val, true
		}
	}
	return false, false
}

func splitNeg(term string) (string, bool) {
	neg := false
	for strings.HasPrefix(term, "!(") && strings.HasSuffix(term, ")") && balanced(term[2:len(term)-1]) {
		term = term[2 : len(term)-1]
		neg = !neg
	}
	return term, neg
}

// eqParts splits "(a == c)" where c is a constant-looking operand.
func eqConst(v ssa.Value, p *Path) (key, c string, ok bool) {
	b, isb := v.(*ssa.BinOp)
	if !isb || (b.Op != token.EQL && b.Op != token.NEQ) {
		return "", "", false
	}
	x, y := p.Resolve(b.X), p.Resolve(b.Y)
	if cy, ok := y.(*ssa.Const); ok {
		return p.Term(x), constKey(cy), true
	}
	if cx, ok := x.(*ssa.Const); ok {
		return p.Term(y), constKey(cx), true
	}
	return "", "", false
}

func constKey(c *ssa.Const) string {
	if c.Value == nil {
		return "nil"
	}
	if c.Value.Kind() == constant.String {
		return fmt.Sprintf("%q", constant.StringVal(c.Value))
	}
	return c.Value.ExactString()
}

// EnumPaths enumerates the paths of fn from opts.Start (default: entry).
func EnumPaths(fn *ssa.Function, opts PathOpts) ([]*Path, error) {
	if len(fn.Blocks) == 0 {
		return nil, fmt.Errorf("function %s has no body", fn)
	}
	if opts.MaxPaths == 0 {
		opts.MaxPaths = 100000
	}
	if opts.BlockVisits == 0 {
		opts.BlockVisits = 2
	}
	start := opts.Start
	if start == nil {
		start = fn.Blocks[0]
	}
	var out []*Path
	var err error
	loops := Loops(fn)
	init := &Path{Fn: fn, Phi: map[*ssa.Phi]ssa.Value{}, live: map[string]bool{}, eq: map[string]string{}, neq: map[string][]string{}, edge: map[[2]int]int{}}
	var rec func(p *Path, b *ssa.BasicBlock, from *ssa.BasicBlock)
	rec = func(p *Path, b *ssa.BasicBlock, from *ssa.BasicBlock) {
		if err != nil {
			return
		}
		if len(out) >= opts.MaxPaths {
			err = fmt.Errorf("more than %d paths in %s", opts.MaxPaths, fn)
			return
		}
		if from != nil {
			// phis
			pi := -1
			for i, pr := range b.Preds {
				if pr == from {
					pi = i
				}
			}
			newPhi := map[*ssa.Phi]ssa.Value{}
			for _, in := range b.Instrs {
				ph, ok := in.(*ssa.Phi)
				if !ok {
					break
				}
				if pi >= 0 && pi < len(ph.Edges) {
					newPhi[ph] = p.Resolve(ph.Edges[pi])
				}
			}
			for k, v := range newPhi {
				p.Phi[k] = v
			}
		}
		if opts.Stop != nil && from != nil && opts.Stop(b) {
			p.Blocks = append(p.Blocks, b)
			p.Cut = true
			out = append(out, p)
			return
		}
		// re-entering a block (next loop iteration): facts about conditions evaluated inside that loop are stale
		revisit := false
		for _, vb := range p.Blocks {
			if vb == b {
				revisit = true
			}
		}
		if revisit {
			var inLoop map[*ssa.BasicBlock]bool
			for _, l := range loops {
				if l.Blocks[b] && (inLoop == nil || len(l.Blocks) > len(inLoop)) {
					inLoop = l.Blocks
				}
			}
			stale := map[string]bool{}
			for _, cd := range p.Conds {
				if inLoop == nil || inLoop[cd.At] {
					stale[cd.Term] = true
					if k, _, ok := eqConst(cd.V, p); ok {
						stale["eq:"+k] = true
					}
				}
			}
			for t := range p.live {
				if stale[t] {
					delete(p.live, t)
				}
			}
			for t := range p.eq {
				if stale["eq:"+t] {
					delete(p.eq, t)
				}
			}
			for t := range p.neq {
				if stale["eq:"+t] {
					delete(p.neq, t)
				}
			}
		}
		p.Blocks = append(p.Blocks, b)
		// stores invalidate atoms
		for _, in := range b.Instrs {
			if s, ok := in.(*ssa.Store); ok {
				loc := stripAddr(p.Term(s.Addr))
				if strings.HasPrefix(loc, "*") {
					loc = loc[1:]
				}
				for t := range p.live {
					if strings.Contains(t, loc) {
						delete(p.live, t)
					}
				}
				for t := range p.eq {
					if strings.Contains(t, loc) {
						delete(p.eq, t)
					}
				}
				for t := range p.neq {
					if strings.Contains(t, loc) {
						delete(p.neq, t)
					}
				}
			}
		}
		last := b.Instrs[len(b.Instrs)-1]
		switch t := last.(type) {
		case *ssa.Return:
			p.Exit = t
			out = append(out, p)
			return
		case *ssa.Panic:
			if c, ok := t.X.(*ssa.MakeInterface); ok {
				if k, ok := c.X.(*ssa.Const); ok && k.Value != nil && k.Value.Kind() == constant.String &&
					strings.Contains(constant.StringVal(k.Value), "blocking select matched no case") {
					return // infeasible
				}
			}
			p.Exit = t
			out = append(out, p)
			return
		case *ssa.If:
			cv := p.Resolve(t.Cond)
			var val, known bool
			if c, ok := cv.(*ssa.Const); ok && c.Value != nil && c.Value.Kind() == constant.Bool {
				val, known = constant.BoolVal(c.Value), true
			}
			term, neg := splitNeg(p.Term(cv))
			if !known && opts.Assume != nil {
				if v, k := opts.Assume(p, cv, term); k {
					val, known = v != neg, true
					// note: Assume speaks about the positive term
					val = v
					if neg {
						val = !v
					}
				}
			}
			if !known {
				if v, ok := p.live[term]; ok {
					val, known = v != neg, true
				}
			}
			ekey, ec, isEq := eqConst(cv, p)
			if !known && isEq {
				eqv, has := false, false
				if c, ok := p.eq[ekey]; ok {
					eqv, has = c == ec, true
				} else {
					for _, n := range p.neq[ekey] {
						if n == ec {
							eqv, has = false, true
						}
					}
				}
				if has {
					b := cv.(*ssa.BinOp)
					if b.Op == token.NEQ {
						val = !eqv
					} else {
						val = eqv
					}
					known = true
				}
			}
			take := func(q *Path, branch bool) {
				posVal := branch != neg
				nc := Cond{Term: term, V: cv, Val: posVal, At: b, Step: len(q.Blocks) - 1}
				if bo, ok := cv.(*ssa.BinOp); ok {
					nc.X, nc.Y = q.Resolve(bo.X), q.Resolve(bo.Y)
				}
				q.Conds = append(q.Conds, nc)
				q.live[term] = posVal
				if isEq {
					bo := cv.(*ssa.BinOp)
					isEqual := branch
					if bo.Op == token.NEQ {
						isEqual = !branch
					}
					if isEqual {
						q.eq[ekey] = ec
					} else {
						q.neq[ekey] = append(q.neq[ekey], ec)
					}
				}
				succ := b.Succs[0]
				if !branch {
					succ = b.Succs[1]
				}
				k := [2]int{succ.Index, 0}
				if q.edge[k] >= opts.BlockVisits {
					return
				}
				q.edge[k]++
				rec(q, succ, b)
			}
			if known {
				take(p, val)
			} else {
				q := p.clone()
				take(p, true)
				take(q, false)
			}
			return
		default:
			if len(b.Succs) == 0 {
				p.Cut = true
				out = append(out, p)
				return
			}
			succ := b.Succs[0]
			k := [2]int{succ.Index, 0}
			if p.edge[k] >= opts.BlockVisits {
				return
			}
			p.edge[k]++
			rec(p, succ, b)
		}
	}
	init.edge[[2]int{start.Index, 0}] = 1
	rec(init, start, nil)
	return out, err
}

// PathInstr is an instruction met along a path; Deferred marks a deferred call executed at rundefers.
type PathInstr struct {
	In       ssa.Instruction
	Deferred bool
}

// Instrs lists the instructions along the path in execution order; deferred
// calls are replayed (LIFO) where the path runs its defers.
func (p *Path) Instrs() []PathInstr {
	if p.flat != nil {
		return p.flat
	}
	var out []PathInstr
	var defers []*ssa.Defer
	for _, b := range p.Blocks {
		for _, in := range b.Instrs {
			switch x := in.(type) {
			case *ssa.Defer:
				defers = append(defers, x)
				out = append(out, PathInstr{In: in})
			case *ssa.RunDefers:
				for i := len(defers) - 1; i >= 0; i-- {
					out = append(out, PathInstr{In: defers[i], Deferred: true})
				}
				defers = nil
			default:
				out = append(out, PathInstr{In: in})
			}
		}
	}
	return out
}

// ExpandInline splices, into each path, the paths of the callees selected by pick (a static callee worth
// looking into, or nil), recursively up to depth levels. enum enumerates a callee's own paths. Callee parameters are
// bound to the call's arguments (Path.Params) and the callee's conditions are re-rendered in the caller's terms.
func ExpandInline(paths []*Path, pick func(*Call) *ssa.Function, enum func(*ssa.Function) ([]*Path, error), depth, maxPaths int) ([]*Path, error) {
	if depth <= 0 {
		return paths, nil
	}
	if maxPaths == 0 {
		maxPaths = 200000
	}
	cache := map[*ssa.Function][]*Path{}
	calleePaths := func(g *ssa.Function) ([]*Path, error) {
		if ps, ok := cache[g]; ok {
			return ps, nil
		}
		cache[g] = nil // recursion guard
		ps, err := enum(g)
		if err != nil {
			return nil, err
		}
		ps, err = ExpandInline(ps, pick, enum, depth-1, maxPaths)
		if err != nil {
			return nil, err
		}
		var rets []*Path
		for _, q := range ps {
			if _, ok := q.Exit.(*ssa.Return); ok {
				rets = append(rets, q)
			}
		}
		cache[g] = rets
		return rets, nil
	}
	type item struct {
		p    *Path
		from int // first flat index not yet examined
	}
	var out []*Path
	work := []item{}
	for _, p := range paths {
		work = append(work, item{p, 0})
	}
	for len(work) > 0 {
		it := work[len(work)-1]
		work = work[:len(work)-1]
		p := it.p
		flat := p.Instrs()
		expanded := false
		for k := it.from; k < len(flat); k++ {
			pi := flat[k]
			if _, isDefer := pi.In.(*ssa.Defer); isDefer && !pi.Deferred {
				continue
			}
			if _, isGo := pi.In.(*ssa.Go); isGo {
				continue
			}
			cl := CallOf(pi.In)
			if cl == nil {
				continue
			}
			g := pick(cl)
			if g == nil || len(g.Blocks) == 0 {
				continue
			}
			qs, err := calleePaths(g)
			if err != nil {
				return nil, err
			}
			if len(qs) == 0 {
				continue
			}
			// step of the call in the caller's block sequence
			step := topStep(p, flat, k)
			// the next time the path runs this same call (next loop iteration): the conditions in between test this occurrence's results
			nextStep := int(^uint(0) >> 1)
			for j := k + 1; j < len(flat); j++ {
				if flat[j].In == pi.In && !flat[j].Deferred {
					if ns := topStep(p, flat, j); ns > step {
						nextStep = ns
					}
					break
				}
			}
			for _, q := range qs {
				np := &Path{Fn: p.Fn, Blocks: p.Blocks, Exit: p.Exit, Cut: p.Cut, Phi: map[*ssa.Phi]ssa.Value{}, Params: map[*ssa.Parameter]ssa.Value{}, Rets: map[ssa.Value][]ssa.Value{}}
				for a, b := range p.Rets {
					np.Rets[a] = b
				}
				for a, b := range q.Rets {
					np.Rets[a] = b
				}
				if cv := cl.Value(); cv != nil {
					if r, ok := q.Exit.(*ssa.Return); ok {
						var rs []ssa.Value
						for _, x := range r.Results {
							rs = append(rs, q.ResolveMem(x))
						}
						np.Rets[cv] = rs
					}
				}
				for a, b := range p.Phi {
					np.Phi[a] = b
				}
				for a, b := range q.Phi {
					np.Phi[a] = b
				}
				for a, b := range p.Params {
					np.Params[a] = b
				}
				for a, b := range q.Params {
					np.Params[a] = b
				}
				for i, prm := range g.Params {
					if i < len(cl.Common.Args) {
						np.Params[prm] = p.Resolve(cl.Common.Args[i])
					}
				}
				qf := q.Instrs()
				np.flat = make([]PathInstr, 0, len(flat)+len(qf))
				np.flat = append(np.flat, flat[:k+1]...)
				np.flat = append(np.flat, qf...)
				np.flat = append(np.flat, flat[k+1:]...)
				// conditions: callee's go where the call sits
				ins := len(p.Conds)
				if p.flat == nil && step >= 0 {
					for ci, cd := range p.Conds {
						if cd.Step >= step {
							ins = ci
							break
						}
					}
				} else if p.flat != nil {
					ins = len(p.Conds) // already flattened: append (order among callee conditions is not used by rules)
				}
				np.Conds = append(np.Conds, p.Conds[:ins]...)
				for _, cd := range q.Conds {
					t, neg := splitNeg(TermSubst(cd.V, np.Phi, np.Params))
					_ = neg
					np.Conds = append(np.Conds, Cond{Term: t, V: cd.V, Val: cd.Val, At: cd.At, Step: step})
				}
				np.Conds = append(np.Conds, p.Conds[ins:]...)
				if cv := cl.Value(); cv != nil && pi.In.Parent() == p.Fn {
					np.seeThroughResults(cv, np.Rets[cv], step, nextStep)
				}
				if !np.consistent() {
					continue
				}
				if len(out)+len(work) > maxPaths {
					return nil, fmt.Errorf("more than %d paths after inlining in %s", maxPaths, p.Fn)
				}
				work = append(work, item{np, k + 1 + len(qf)})
			}
			expanded = true
			break
		}
		if !expanded {
			out = append(out, p)
		}
	}
	return out, nil
}

// nonNegative: v is provably >= 0: a non-negative constant, a length, the index of a range loop (φ(-1, i+1) + 1), sums
// and φs of such values.
func nonNegative(v ssa.Value, depth int) bool {
	if depth > 6 {
		return false
	}
	switch x := v.(type) {
	case *ssa.Const:
		return x.Value != nil && x.Value.Kind() == constant.Int && constant.Sign(x.Value) >= 0
	case *ssa.Call:
		if b, ok := x.Call.Value.(*ssa.Builtin); ok && (b.Name() == "len" || b.Name() == "cap") {
			return true
		}
	case *ssa.Convert:
		return nonNegative(x.X, depth+1)
	case *ssa.Phi:
		for _, e := range x.Edges {
			if e == ssa.Value(x) {
				continue
			}
			if !nonNegative(e, depth+1) {
				return false
			}
		}
		return true
	case *ssa.BinOp:
		if x.Op != token.ADD {
			return false
		}
		// range index: φ(-1, this) + 1
		if k, ok := x.Y.(*ssa.Const); ok && k.Value != nil && k.Value.Kind() == constant.Int && constant.Sign(k.Value) > 0 {
			if ph, ok := x.X.(*ssa.Phi); ok {
				all := true
				for _, e := range ph.Edges {
					if e == ssa.Value(x) {
						continue
					}
					if ke, ok := e.(*ssa.Const); ok && ke.Value != nil && ke.Value.Kind() == constant.Int {
						if s, _ := constant.Int64Val(constant.BinaryOp(ke.Value, token.ADD, k.Value)); s >= 0 {
							continue
						}
					}
					all = false
				}
				if all {
					return true
				}
			}
		}
		return nonNegative(x.X, depth+1) && nonNegative(x.Y, depth+1)
	}
	return false
}

// topStep returns the index into p.Blocks of the block occurrence in which flat[k] runs, for an instruction of the
// path's own function (blocks repeat on a path that goes round a loop: the first occurrence is not always the one);
// -1 for instructions of inlined callees and replayed deferred calls.
func topStep(p *Path, flat []PathInstr, k int) int {
	if flat[k].In.Parent() != p.Fn || flat[k].Deferred {
		return -1
	}
	bi, last := 0, -1
	for j := 0; j <= k; j++ {
		in := flat[j].In
		if in.Parent() != p.Fn || flat[j].Deferred {
			continue
		}
		idx := InstrIndex(in)
		if bi < len(p.Blocks) && p.Blocks[bi] == in.Block() && idx > last {
			last = idx
			continue
		}
		// a new block occurrence
		nb := bi + 1
		for nb < len(p.Blocks) && p.Blocks[nb] != in.Block() {
			nb++
		}
		if nb >= len(p.Blocks) {
			// not found ahead (should not happen): fall back to the first occurrence
			for fb, b := range p.Blocks {
				if b == in.Block() {
					return fb
				}
			}
			return -1
		}
		bi, last = nb, idx
	}
	return bi
}

// seeThroughResults rewrites the conditions of the path's own function that test a result of the inlined call cv
// (if w.registered(s) { … }) — those met from this occurrence of the call (block index step) up to its next occurrence
// on the path — into what the callee returned on the spliced path (rs): the expression (w.local.Get(s.ID()) != nil),
// keeping the branch taken, or the constant, which consistent() then compares with the branch taken. The rewriting is
// done when the occurrence is spliced in, because Rets is keyed by the call instruction and a later occurrence of the
// same call (next loop iteration) overwrites it.
func (p *Path) seeThroughResults(cv ssa.Value, rs []ssa.Value, step, nextStep int) {
	if step < 0 || len(rs) == 0 {
		return
	}
	for i, cd := range p.Conds {
		if cd.At == nil || cd.At.Parent() != p.Fn || cd.Step < step || cd.Step >= nextStep {
			continue
		}
		v0, nots := cd.V, 0
		for {
			u, ok := v0.(*ssa.UnOp)
			if !ok || u.Op != token.NOT {
				break
			}
			v0 = u.X
			nots++
		}
		resultOf := func(v ssa.Value) ssa.Value {
			switch x := v.(type) {
			case *ssa.Call:
				if ssa.Value(x) == cv && len(rs) == 1 {
					return rs[0]
				}
			case *ssa.Extract:
				if x.Tuple == cv && x.Index < len(rs) {
					return rs[x.Index]
				}
			}
			return nil
		}
		r := resultOf(v0)
		if r == nil {
			// a comparison of a result with a constant (if idx >= 0 { … } after idx, ok := find(…)): decided when the
			// callee returned a constant on the spliced path (return -1, found)
			if bo, ok := v0.(*ssa.BinOp); ok {
				switch bo.Op {
				case token.EQL, token.NEQ, token.LSS, token.LEQ, token.GTR, token.GEQ:
					x, y := bo.X, bo.Y
					touched := false
					if rx := resultOf(x); rx != nil {
						x, touched = p.Resolve(rx), true
					}
					if ry := resultOf(y); ry != nil {
						y, touched = p.Resolve(ry), true
					}
					kx, okx := x.(*ssa.Const)
					ky, oky := y.(*ssa.Const)
					// a loop index (or a length) compared with zero
					if touched && oky && !okx && ky.Value != nil && ky.Value.Kind() == constant.Int && constant.Sign(ky.Value) == 0 && nonNegative(x, 0) && (bo.Op == token.GEQ || bo.Op == token.LSS) {
						_, neg := splitNeg(p.Term(cd.V))
						branch := cd.Val != neg
						v0val := branch != (nots%2 == 1)
						p.Conds[i] = Cond{Term: cd.Term, V: ssa.NewConst(constant.MakeBool(bo.Op == token.GEQ), bo.Type()), Val: v0val, At: cd.At, Step: cd.Step, Baked: true}
						continue
					}
					if touched && okx && oky && kx.Value != nil && ky.Value != nil && kx.Value.Kind() == constant.Int && ky.Value.Kind() == constant.Int {
						res := constant.Compare(kx.Value, bo.Op, ky.Value)
						_, neg := splitNeg(p.Term(cd.V))
						branch := cd.Val != neg
						v0val := branch != (nots%2 == 1)
						p.Conds[i] = Cond{Term: cd.Term, V: ssa.NewConst(constant.MakeBool(res), bo.Type()), Val: v0val, At: cd.At, Step: cd.Step, Baked: true}
					}
				}
			}
			continue
		}
		r = p.Resolve(r)
		_, neg := splitNeg(p.Term(cd.V))
		branch := cd.Val != neg
		v0val := branch != (nots%2 == 1)
		if _, isConst := r.(*ssa.Const); isConst {
			// keep the term (rules look conditions up by it); the value is now the constant itself
			p.Conds[i] = Cond{Term: cd.Term, V: r, Val: v0val, At: cd.At, Step: cd.Step, Baked: true}
			continue
		}
		t, neg2 := splitNeg(TermSubst(r, p.Phi, p.Params))
		p.Conds[i] = Cond{Term: t, V: r, Val: v0val != neg2, At: cd.At, Step: cd.Step}
	}
}

// PathCall is a call executed on a path.
type PathCall struct {
	*Call
	Deferred bool
	Seq      int
}

// Calls lists the calls executed along the path, in order (a defer counts where it runs, a go where it is spawned).
func (p *Path) Calls() []PathCall {
	var out []PathCall
	for i, pi := range p.Instrs() {
		if _, isDefer := pi.In.(*ssa.Defer); isDefer && !pi.Deferred {
			continue
		}
		if c := CallOf(pi.In); c != nil {
			out = append(out, PathCall{Call: c, Deferred: pi.Deferred, Seq: i})
		}
	}
	return out
}

// ReturnsNilError reports, for a path ending in a Return whose last result is of
// type error, whether that result is definitely nil / definitely non-nil on this path.
func (p *Path) ReturnsNilError() (isNil, known bool) {
	r, ok := p.Exit.(*ssa.Return)
	if !ok || len(r.Results) == 0 {
		return false, false
	}
	v := p.ResolveMem(r.Results[len(r.Results)-1])
	if c, ok := v.(*ssa.Const); ok {
		return c.Value == nil, true
	}
	// err variable tested on this path? (by value identity: the last test of this very value)
	for i := len(p.Conds) - 1; i >= 0; i-- {
		cd := p.Conds[i]
		if bo, ok := cd.V.(*ssa.BinOp); ok && (bo.Op == token.EQL || bo.Op == token.NEQ) {
			x, y := p.Resolve(bo.X), p.Resolve(bo.Y)
			if cx, ok := x.(*ssa.Const); ok && cx.Value == nil && y == v {
				return cd.Val, true
			}
			if cy, ok := y.(*ssa.Const); ok && cy.Value == nil && x == v {
				return cd.Val, true
			}
		}
	}
	if freshNonNil(v) {
		// includes package-level error sentinels (var ErrX = errors.New(...))
		return false, true
	}
	switch x := v.(type) {
	case *ssa.Call:
		if x.Call.IsInvoke() && x.Call.Method.Name() == "Err" && x.Call.Method.Pkg() != nil && x.Call.Method.Pkg().Path() == "context" {
			// ctx.Err() after <-ctx.Done() is non-nil
			return false, true
		}
	}
	return false, false
}

// Describe renders the path for reports.
func (p *Path) Describe(pr *Prog) string {
	var sb strings.Builder
	for i, c := range p.Conds {
		if i > 0 {
			sb.WriteString(" ∧ ")
		}
		if !c.Val {
			sb.WriteString("¬")
		}
		t := c.Term
		if len(t) > 90 {
			t = t[:90] + "…"
		}
		sb.WriteString(t)
	}
	if p.Exit != nil {
		fmt.Fprintf(&sb, " → exit %s", pr.Pos(p.Exit.Pos()))
	}
	return sb.String()
}

// ---- dominance helpers ----

// InstrIndex returns the index of an instruction in its block.
func InstrIndex(in ssa.Instruction) int {
	for i, x := range in.Block().Instrs {
		if x == in {
			return i
		}
	}
	return -1
}

// Dominates reports whether instruction a dominates instruction b (same function).
func Dominates(a, b ssa.Instruction) bool {
	if a.Parent() != b.Parent() {
		return false
	}
	if a.Block() == b.Block() {
		return InstrIndex(a) <= InstrIndex(b)
	}
	return a.Block().Dominates(b.Block())
}

// ReachableAvoiding reports whether, starting right after instruction from, an
// instruction satisfying target can be reached without executing an
// instruction satisfying avoid.
func ReachableAvoiding(from ssa.Instruction, target, avoid func(ssa.Instruction) bool) bool {
	type pos struct {
		b *ssa.BasicBlock
		i int
	}
	seen := map[*ssa.BasicBlock]bool{}
	var scan func(b *ssa.BasicBlock, i int) bool
	scan = func(b *ssa.BasicBlock, i int) bool {
		for ; i < len(b.Instrs); i++ {
			in := b.Instrs[i]
			if avoid != nil && avoid(in) {
				return false
			}
			if target(in) {
				return true
			}
		}
		for _, s := range b.Succs {
			if !seen[s] {
				seen[s] = true
				if scan(s, 0) {
					return true
				}
			}
		}
		return false
	}
	return scan(from.Block(), InstrIndex(from)+1)
}

// IsReturn is a target predicate for ReachableAvoiding.
func IsReturn(in ssa.Instruction) bool { _, ok := in.(*ssa.Return); return ok }

// ---- loops ----

// Loop is a natural loop.
type Loop struct {
	Header *ssa.BasicBlock
	Blocks map[*ssa.BasicBlock]bool
}

// Loops returns the natural loops of fn (one per header; bodies of back edges to the same header merged).
func Loops(fn *ssa.Function) []*Loop {
	byHeader := map[*ssa.BasicBlock]*Loop{}
	var order []*ssa.BasicBlock
	for _, b := range fn.Blocks {
		for _, s := range b.Succs {
			if s.Dominates(b) { // back edge b -> s
				l := byHeader[s]
				if l == nil {
					l = &Loop{Header: s, Blocks: map[*ssa.BasicBlock]bool{s: true}}
					byHeader[s] = l
					order = append(order, s)
				}
				// collect body: nodes that reach b without passing s
				var stack []*ssa.BasicBlock
				if !l.Blocks[b] {
					l.Blocks[b] = true
					stack = append(stack, b)
				}
				for len(stack) > 0 {
					x := stack[len(stack)-1]
					stack = stack[:len(stack)-1]
					for _, pr := range x.Preds {
						if !l.Blocks[pr] {
							l.Blocks[pr] = true
							stack = append(stack, pr)
						}
					}
				}
			}
		}
	}
	var out []*Loop
	for _, h := range order {
		out = append(out, byHeader[h])
	}
	return out
}

// InnermostLoop returns the smallest loop containing b, or nil.
func InnermostLoop(loops []*Loop, b *ssa.BasicBlock) *Loop {
	var best *Loop
	for _, l := range loops {
		if l.Blocks[b] && (best == nil || len(l.Blocks) < len(best.Blocks)) {
			best = l
		}
	}
	return best
}
