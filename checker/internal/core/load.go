// Package core is the shared toolkit of waspcheck: loading the program under
// analysis, resolving anchors, canonical terms, path enumeration, provenance.
package core

import (
	"fmt"
	"go/token"
	"go/types"
	"os"
	"path/filepath"
	"sort"
	"strings"

	"golang.org/x/tools/go/packages"
	"golang.org/x/tools/go/ssa"
	"golang.org/x/tools/go/ssa/ssautil"
)

// Prog is the loaded, type-checked, SSA-lowered program.
type Prog struct {
	Dir       string
	Fset      *token.FileSet
	All       []*packages.Package // every package, dependencies included
	Mod       []*packages.Package // packages of the module under analysis
	SSA       *ssa.Program
	ModPath   string
	GoVersion string
	GOARCH    string

	byPath   map[string]*packages.Package
	modFuncs []*ssa.Function
	allFuncs map[*ssa.Function]bool
	callers  map[*ssa.Function][]ssa.CallInstruction
	closures map[*ssa.Function][]*ssa.MakeClosure
	bound    map[*ssa.Function][]*ssa.MakeClosure
}

// Load loads ./... of dir with full syntax for all dependencies and builds SSA.
func Load(dir, goarch string) (*Prog, error) {
	env := []string{}
	for _, e := range os.Environ() {
		if strings.HasPrefix(e, "GOFLAGS=") || strings.HasPrefix(e, "GOWORK=") || strings.HasPrefix(e, "GOPROXY=") ||
			strings.HasPrefix(e, "GOSUMDB=") || strings.HasPrefix(e, "GOTOOLCHAIN=") || strings.HasPrefix(e, "GOARCH=") || strings.HasPrefix(e, "GOOS=") {
			continue
		}
		env = append(env, e)
	}
	env = append(env, "GOFLAGS=-mod=mod", "GOPROXY=off", "GOSUMDB=off", "GOWORK=off", "GOTOOLCHAIN=local", "GOOS=linux")
	if goarch == "" {
		goarch = "amd64"
	}
	env = append(env, "GOARCH="+goarch)
	if goarch != "amd64" {
		env = append(env, "CGO_ENABLED=0")
	}
	cfg := &packages.Config{
		Mode:  packages.LoadAllSyntax | packages.NeedModule,
		Dir:   dir,
		Env:   env,
		Tests: false,
	}
	pkgs, err := packages.Load(cfg, "./...")
	if err != nil {
		return nil, fmt.Errorf("load: %v", err)
	}
	if len(pkgs) == 0 {
		return nil, fmt.Errorf("load: zero packages matched ./... in %s", dir)
	}
	p := &Prog{Dir: dir, byPath: map[string]*packages.Package{}, GOARCH: goarch}
	var errs []string
	packages.Visit(pkgs, nil, func(pkg *packages.Package) {
		p.All = append(p.All, pkg)
		p.byPath[pkg.PkgPath] = pkg
		for _, e := range pkg.Errors {
			errs = append(errs, e.Error())
		}
	})
	if len(errs) > 0 {
		sort.Strings(errs)
		if len(errs) > 10 {
			errs = errs[:10]
		}
		return nil, fmt.Errorf("load: type/parse errors:\n  %s", strings.Join(errs, "\n  "))
	}
	for _, pkg := range pkgs {
		if pkg.Module == nil {
			return nil, fmt.Errorf("load: package %s has no module", pkg.PkgPath)
		}
		if p.ModPath == "" {
			p.ModPath = pkg.Module.Path
			p.GoVersion = pkg.Module.GoVersion
		}
		p.Mod = append(p.Mod, pkg)
		p.Fset = pkg.Fset
	}
	sort.Slice(p.Mod, func(i, j int) bool { return p.Mod[i].PkgPath < p.Mod[j].PkgPath })
	prog, _ := ssautil.AllPackages(pkgs, ssa.InstantiateGenerics)
	prog.Build()
	p.SSA = prog
	computeSentinels(p)
	return p, nil
}

// IsModPkg reports whether the package belongs to the module under analysis.
func (p *Prog) IsModPkg(pkg *types.Package) bool {
	if pkg == nil {
		return false
	}
	return pkg.Path() == p.ModPath || strings.HasPrefix(pkg.Path(), p.ModPath+"/")
}

// Rel turns a module-relative package directory ("wasp/ack", "" for the root) into an import path.
func (p *Prog) Rel(rel string) string {
	if rel == "" || rel == "." {
		return p.ModPath
	}
	return p.ModPath + "/" + rel
}

// TypesPkg returns the type-checked package for an import path (module-relative if it does not contain a dot).
func (p *Prog) TypesPkg(path string) *types.Package {
	if pk, ok := p.byPath[path]; ok {
		return pk.Types
	}
	if pk, ok := p.byPath[p.Rel(path)]; ok {
		return pk.Types
	}
	return nil
}

// SSAPkg returns the SSA package for an import path (module-relative accepted).
func (p *Prog) SSAPkg(path string) *ssa.Package {
	tp := p.TypesPkg(path)
	if tp == nil {
		return nil
	}
	return p.SSA.Package(tp)
}

// Pos renders a position relative to the analysed directory.
func (p *Prog) Pos(pos token.Pos) string {
	if !pos.IsValid() {
		return "-"
	}
	ps := p.Fset.Position(pos)
	rel, err := filepath.Rel(p.Dir, ps.Filename)
	if err != nil || strings.HasPrefix(rel, "..") {
		rel = ps.Filename
		if i := strings.Index(rel, "/pkg/mod/"); i >= 0 {
			rel = rel[i+9:]
		}
	}
	return fmt.Sprintf("%s:%d", rel, ps.Line)
}

// File returns the file name (relative) of a position.
func (p *Prog) File(pos token.Pos) string {
	s := p.Pos(pos)
	if i := strings.LastIndex(s, ":"); i >= 0 {
		return s[:i]
	}
	return s
}

// IsGenerated reports whether a function comes from a *.pb.go file.
func (p *Prog) IsGenerated(fn *ssa.Function) bool {
	return strings.HasSuffix(p.File(fn.Pos()), ".pb.go")
}

// ModFuncs returns every function (methods, closures included) declared in
// non-generated files of the module, in deterministic order.
func (p *Prog) ModFuncs() []*ssa.Function {
	if p.modFuncs != nil {
		return p.modFuncs
	}
	for fn := range p.AllFuncs() {
		if fn.Pkg == nil && fn.Parent() == nil {
			continue
		}
		pkg := fn.Package()
		if pkg == nil || !p.IsModPkg(pkg.Pkg) {
			continue
		}
		if fn.Synthetic != "" || len(fn.Blocks) == 0 {
			continue
		}
		if p.IsGenerated(fn) {
			continue
		}
		p.modFuncs = append(p.modFuncs, fn)
	}
	sort.Slice(p.modFuncs, func(i, j int) bool {
		a, b := p.modFuncs[i], p.modFuncs[j]
		if a.Pos() != b.Pos() {
			return a.Pos() < b.Pos()
		}
		return a.String() < b.String()
	})
	return p.modFuncs
}

// AllFuncs returns every function of the whole program.
func (p *Prog) AllFuncs() map[*ssa.Function]bool {
	if p.allFuncs == nil {
		p.allFuncs = ssautil.AllFunctions(p.SSA)
	}
	return p.allFuncs
}

// FuncName is a stable printable name: pkgrel.(*T).m or pkgrel.f or parent$n.
func (p *Prog) FuncName(fn *ssa.Function) string {
	if fn == nil {
		return "<nil>"
	}
	s := fn.String()
	s = strings.ReplaceAll(s, p.ModPath+"/", "")
	s = strings.ReplaceAll(s, p.ModPath+".", "wasp-root.")
	return s
}

// Func finds a package-level function or a method by module-relative package and name.
// name is "F" for a function, "T.m" or "(*T).m" for a method (pointer-ness is ignored).
func (p *Prog) Func(pkgRel, name string) *ssa.Function {
	sp := p.SSAPkg(pkgRel)
	if sp == nil {
		return nil
	}
	name = strings.NewReplacer("(", "", ")", "", "*", "").Replace(name)
	if i := strings.Index(name, "."); i >= 0 {
		tn, mn := name[:i], name[i+1:]
		obj := sp.Pkg.Scope().Lookup(tn)
		if obj == nil {
			return nil
		}
		named, ok := obj.Type().(*types.Named)
		if !ok {
			return nil
		}
		for _, t := range []types.Type{named, types.NewPointer(named)} {
			ms := p.SSA.MethodSets.MethodSet(t)
			if sel := ms.Lookup(sp.Pkg, mn); sel != nil {
				if f := p.SSA.MethodValue(sel); f != nil && f.Synthetic == "" {
					return f
				}
			}
		}
		return nil
	}
	return sp.Func(name)
}

// Named looks up a named type.
func (p *Prog) Named(pkgPath, name string) *types.Named {
	tp := p.TypesPkg(pkgPath)
	if tp == nil {
		return nil
	}
	obj := tp.Scope().Lookup(name)
	if obj == nil {
		return nil
	}
	n, _ := obj.Type().(*types.Named)
	return n
}

// IfaceMethod looks up the *types.Func of an interface method (explicit or embedded).
func (p *Prog) IfaceMethod(pkgPath, iface, method string) *types.Func {
	n := p.Named(pkgPath, iface)
	if n == nil {
		return nil
	}
	it, ok := n.Underlying().(*types.Interface)
	if !ok {
		return nil
	}
	for i := 0; i < it.NumMethods(); i++ {
		if m := it.Method(i); m.Name() == method {
			return m
		}
	}
	return nil
}

// MethodObj looks up the *types.Func of a concrete method T.m / (*T).m.
func (p *Prog) MethodObj(pkgPath, typ, method string) *types.Func {
	n := p.Named(pkgPath, typ)
	if n == nil {
		return nil
	}
	for i := 0; i < n.NumMethods(); i++ {
		if m := n.Method(i); m.Name() == method {
			return m
		}
	}
	return nil
}

// FuncObj looks up a package-level function object.
func (p *Prog) FuncObj(pkgPath, name string) *types.Func {
	tp := p.TypesPkg(pkgPath)
	if tp == nil {
		return nil
	}
	f, _ := tp.Scope().Lookup(name).(*types.Func)
	return f
}

// Implementations returns the module's concrete methods implementing interface method m.
func (p *Prog) Implementations(m *types.Func) []*ssa.Function {
	sig := m.Type().(*types.Signature)
	recv := sig.Recv()
	if recv == nil {
		return nil
	}
	it, ok := recv.Type().Underlying().(*types.Interface)
	if !ok {
		return nil
	}
	var out []*ssa.Function
	seen := map[*ssa.Function]bool{}
	for _, pkg := range p.All {
		if pkg.Types == nil {
			continue
		}
		sc := pkg.Types.Scope()
		for _, nm := range sc.Names() {
			tn, ok := sc.Lookup(nm).(*types.TypeName)
			if !ok || tn.IsAlias() {
				continue
			}
			named, ok := tn.Type().(*types.Named)
			if !ok || types.IsInterface(named) || named.TypeParams().Len() > 0 {
				continue
			}
			for _, t := range []types.Type{named, types.NewPointer(named)} {
				if !types.Implements(t, it) {
					continue
				}
				sel := p.SSA.MethodSets.MethodSet(t).Lookup(m.Pkg(), m.Name())
				if sel == nil {
					continue
				}
				if f := p.SSA.MethodValue(sel); f != nil {
					for f.Synthetic != "" && len(f.Blocks) > 0 {
						// wrapper: follow to the wrapped declared method
						var next *ssa.Function
						for _, b := range f.Blocks {
							for _, in := range b.Instrs {
								if c, ok := in.(ssa.CallInstruction); ok {
									if sc := c.Common().StaticCallee(); sc != nil && sc.Name() == m.Name() {
										next = sc
									}
								}
							}
						}
						if next == nil {
							break
						}
						f = next
					}
					if !seen[f] {
						seen[f] = true
						out = append(out, f)
					}
				}
				break
			}
		}
	}
	sort.Slice(out, func(i, j int) bool { return out[i].String() < out[j].String() })
	return out
}

// sentinels: package-level variables that hold a non-nil value for the whole run: every store to them is in a package
// initialiser and stores a freshly made value (var ErrX = errors.New(...)).
var sentinels = map[*ssa.Global]bool{}

// Forget drops what is cached for a program.
func Forget(p *Prog) {
	for g := range sentinels {
		if g.Pkg != nil && g.Pkg.Prog == p.SSA {
			delete(sentinels, g)
		}
	}
}

func computeSentinels(p *Prog) {
	bad := map[*ssa.Global]bool{}
	good := map[*ssa.Global]bool{}
	for fn := range ssautil.AllFunctions(p.SSA) {
		isInit := fn.Name() == "init" || strings.HasPrefix(fn.Name(), "init#")
		for _, b := range fn.Blocks {
			for _, in := range b.Instrs {
				st, ok := in.(*ssa.Store)
				if !ok {
					continue
				}
				g, ok := st.Addr.(*ssa.Global)
				if !ok {
					continue
				}
				if isInit && freshNonNil(st.Val) {
					good[g] = true
				} else {
					bad[g] = true
				}
			}
		}
	}
	for g := range good {
		if !bad[g] {
			sentinels[g] = true
		}
	}
}

var freshDepth int

// freshNonNil: the value is non-nil by construction.
func freshNonNil(v ssa.Value) bool {
	switch x := v.(type) {
	case *ssa.MakeInterface, *ssa.Alloc, *ssa.MakeClosure, *ssa.MakeMap, *ssa.MakeSlice, *ssa.MakeChan:
		return true
	case *ssa.Call:
		if sc := x.Call.StaticCallee(); sc != nil && sc.Pkg != nil {
			switch sc.Pkg.Pkg.Path() + "." + sc.Name() {
			case "errors.New", "fmt.Errorf":
				return true
			}
			// a function with a body all of whose returns are fresh non-nil values (sessionError(msg) = errors.New(msg))
			if len(sc.Blocks) > 0 && sc.Signature.Results().Len() == 1 && freshDepth < 3 {
				freshDepth++
				defer func() { freshDepth-- }()
				n := 0
				for _, b := range sc.Blocks {
					if r, ok := b.Instrs[len(b.Instrs)-1].(*ssa.Return); ok {
						if len(r.Results) != 1 || !freshNonNil(r.Results[0]) {
							return false
						}
						n++
					}
				}
				return n > 0
			}
		}
	case *ssa.UnOp:
		if g, ok := x.X.(*ssa.Global); ok && x.Op == token.MUL && sentinels[g] {
			return true
		}
		// an element of the slice returned by a function that fills it with freshly allocated objects only
		// (out[i] = &T{}; … return out, nil): entries decoded from a store are never nil pointers
		if ia, ok := x.X.(*ssa.IndexAddr); ok && x.Op == token.MUL {
			return elementsFresh(ia.X)
		}
	}
	return false
}

func elementsFresh(s ssa.Value) bool {
	idx := 0
	if ex, ok := s.(*ssa.Extract); ok {
		s, idx = ex.Tuple, ex.Index
	}
	cv, ok := s.(*ssa.Call)
	if !ok {
		return false
	}
	g := cv.Call.StaticCallee()
	if g == nil || len(g.Blocks) == 0 {
		return false
	}
	var ms *ssa.MakeSlice
	for _, b := range g.Blocks {
		r, isRet := b.Instrs[len(b.Instrs)-1].(*ssa.Return)
		if !isRet || idx >= len(r.Results) {
			continue
		}
		switch rv := r.Results[idx].(type) {
		case *ssa.Const:
			if !rv.IsNil() {
				return false
			}
		case *ssa.MakeSlice:
			if ms != nil && ms != rv {
				return false
			}
			ms = rv
		default:
			return false
		}
	}
	if ms == nil {
		return false
	}
	n := 0
	for _, b := range g.Blocks {
		for _, in := range b.Instrs {
			st, isStore := in.(*ssa.Store)
			if !isStore {
				continue
			}
			if ia, isIA := st.Addr.(*ssa.IndexAddr); isIA && ia.X == ssa.Value(ms) {
				if _, isAlloc := st.Val.(*ssa.Alloc); !isAlloc {
					return false
				}
				n++
			}
		}
	}
	return n > 0
}
