package core

import (
	"go/token"

	"golang.org/x/tools/go/ssa"
)

// Origin is a leaf of the backward slice of a value.
type Origin struct {
	Kind  string    // param, freevar, const, call, field, global, alloc, func, closure, make, index, lookup, extract, binop, recv, next, select, unknown
	V     ssa.Value // the leaf value
	Base  ssa.Value // field/index/lookup: the container value
	Field string    // field: name
}

type provState struct {
	p     *Prog
	seen  map[ssa.Value]bool
	out   []Origin
	depth int
}

// Origins slices v backwards to its sources: through phis, conversions,
// interface boxing, slicing, single-store cells, captured variables, field
// loads that have a visible store in the same function (composite literals),
// and — up to depth call levels — from parameters to the arguments of the
// module's static call sites.
func (p *Prog) Origins(v ssa.Value, depth int) []Origin {
	st := &provState{p: p, seen: map[ssa.Value]bool{}, depth: depth}
	st.walk(v, depth)
	return st.out
}

func (st *provState) leaf(o Origin) { st.out = append(st.out, o) }

func (st *provState) walk(v ssa.Value, depth int) {
	if v == nil || st.seen[v] {
		return
	}
	st.seen[v] = true
	switch x := v.(type) {
	case *ssa.Parameter:
		fn := x.Parent()
		idx := -1
		for i, pp := range fn.Params {
			if pp == x {
				idx = i
			}
		}
		callers := st.p.StaticCallers(fn)
		if depth > 0 && len(callers) > 0 && idx >= 0 && fn.Parent() == nil {
			ok := true
			for _, c := range callers {
				if idx >= len(c.Common().Args) {
					ok = false
				}
			}
			if ok {
				for _, c := range callers {
					st.walk(c.Common().Args[idx], depth-1)
				}
				return
			}
		}
		st.leaf(Origin{Kind: "param", V: x})
	case *ssa.FreeVar:
		if b := freeVarBinding(x); b != nil {
			st.walk(b, depth)
			return
		}
		st.leaf(Origin{Kind: "freevar", V: x})
	case *ssa.Const:
		st.leaf(Origin{Kind: "const", V: x})
	case *ssa.Global:
		st.leaf(Origin{Kind: "global", V: x})
	case *ssa.Function:
		st.leaf(Origin{Kind: "func", V: x})
	case *ssa.MakeClosure:
		st.leaf(Origin{Kind: "closure", V: x})
	case *ssa.Alloc:
		st.leaf(Origin{Kind: "alloc", V: x})
	case *ssa.MakeMap, *ssa.MakeSlice, *ssa.MakeChan:
		st.leaf(Origin{Kind: "make", V: v})
	case *ssa.Call:
		st.leaf(Origin{Kind: "call", V: x})
	case *ssa.Phi:
		for _, e := range x.Edges {
			st.walk(e, depth)
		}
	case *ssa.ChangeType:
		st.walk(x.X, depth)
	case *ssa.Convert:
		st.walk(x.X, depth)
	case *ssa.ChangeInterface:
		st.walk(x.X, depth)
	case *ssa.MakeInterface:
		st.walk(x.X, depth)
	case *ssa.Slice:
		st.walk(x.X, depth)
	case *ssa.TypeAssert:
		st.walk(x.X, depth)
	case *ssa.Extract:
		if ta, ok := x.Tuple.(*ssa.TypeAssert); ok && x.Index == 0 {
			st.walk(ta.X, depth)
			return
		}
		st.leaf(Origin{Kind: "extract", V: x, Base: x.Tuple})
	case *ssa.Field:
		st.leaf(Origin{Kind: "field", V: x, Base: x.X, Field: fieldName(x.X.Type(), x.Field)})
	case *ssa.Index:
		st.leaf(Origin{Kind: "index", V: x, Base: x.X})
	case *ssa.Lookup:
		st.leaf(Origin{Kind: "lookup", V: x, Base: x.X})
	case *ssa.Next:
		st.leaf(Origin{Kind: "next", V: x, Base: x.Iter})
	case *ssa.BinOp:
		st.leaf(Origin{Kind: "binop", V: x})
	case *ssa.UnOp:
		switch x.Op {
		case token.MUL:
			st.load(x, x.X, depth)
		case token.ARROW:
			st.leaf(Origin{Kind: "recv", V: x, Base: x.X})
		default:
			st.leaf(Origin{Kind: "binop", V: x})
		}
	case *ssa.FieldAddr, *ssa.IndexAddr:
		st.leaf(Origin{Kind: "addr", V: v})
	case *ssa.Select:
		st.leaf(Origin{Kind: "select", V: x})
	default:
		st.leaf(Origin{Kind: "unknown", V: v})
	}
}

// load handles *addr.
func (st *provState) load(ld *ssa.UnOp, addr ssa.Value, depth int) {
	switch a := addr.(type) {
	case *ssa.Alloc:
		stores := storesTo(a)
		if len(stores) > 0 && !addrEscapes(a) {
			for _, s := range stores {
				st.walk(s.Val, depth)
			}
			return
		}
		st.leaf(Origin{Kind: "alloc", V: a})
	case *ssa.FreeVar:
		if b := freeVarBinding(a); b != nil {
			if al, ok := b.(*ssa.Alloc); ok {
				st.load(ld, al, depth)
				return
			}
			st.leaf(Origin{Kind: "freevar", V: a})
			return
		}
		st.leaf(Origin{Kind: "freevar", V: a})
	case *ssa.FieldAddr:
		// visible stores to the same field of the same base in this function?
		fn := ld.Parent()
		bt := Term(a.X)
		found := false
		for _, b := range fn.Blocks {
			for _, in := range b.Instrs {
				if s, ok := in.(*ssa.Store); ok {
					if fa, ok := s.Addr.(*ssa.FieldAddr); ok && fa.Field == a.Field && (fa.X == a.X || Term(fa.X) == bt) {
						found = true
						st.walk(s.Val, depth)
					}
				}
			}
		}
		if !found {
			st.leaf(Origin{Kind: "field", V: ld, Base: a.X, Field: fieldName(a.X.Type(), a.Field)})
		}
	case *ssa.IndexAddr:
		st.leaf(Origin{Kind: "index", V: ld, Base: a.X})
	case *ssa.Global:
		st.leaf(Origin{Kind: "global", V: a})
	default:
		st.leaf(Origin{Kind: "unknown", V: ld})
	}
}

func storesTo(a *ssa.Alloc) []*ssa.Store {
	var out []*ssa.Store
	if a.Referrers() == nil {
		return nil
	}
	for _, r := range *a.Referrers() {
		if s, ok := r.(*ssa.Store); ok && s.Addr == ssa.Value(a) {
			out = append(out, s)
		}
	}
	return out
}

func addrEscapes(a *ssa.Alloc) bool {
	if a.Referrers() == nil {
		return false
	}
	for _, r := range *a.Referrers() {
		switch u := r.(type) {
		case *ssa.Store:
			if u.Val == ssa.Value(a) {
				return true
			}
		case *ssa.UnOp, *ssa.DebugRef, *ssa.MakeClosure, *ssa.FieldAddr, *ssa.IndexAddr:
		default:
			return true
		}
	}
	return false
}

// DerivesFrom reports whether some origin of v satisfies pred.
func (p *Prog) DerivesFrom(v ssa.Value, depth int, pred func(Origin) bool) bool {
	for _, o := range p.Origins(v, depth) {
		if pred(o) {
			return true
		}
	}
	return false
}

// AllOrigins reports whether v has at least one origin and every origin satisfies pred.
func (p *Prog) AllOrigins(v ssa.Value, depth int, pred func(Origin) bool) (bool, *Origin) {
	os := p.Origins(v, depth)
	if len(os) == 0 {
		return false, nil
	}
	for i := range os {
		if !pred(os[i]) {
			return false, &os[i]
		}
	}
	return true, nil
}

// Strip removes value-preserving wrappers (conversions, interface boxing, single-store cells, unique closure bindings).
func Strip(v ssa.Value) ssa.Value {
	for i := 0; i < 20 && v != nil; i++ {
		switch x := v.(type) {
		case *ssa.ChangeType:
			v = x.X
		case *ssa.Convert:
			v = x.X
		case *ssa.ChangeInterface:
			v = x.X
		case *ssa.MakeInterface:
			v = x.X
		case *ssa.FreeVar:
			if b := freeVarBinding(x); b != nil {
				v = b
			} else {
				return v
			}
		case *ssa.UnOp:
			if x.Op == token.MUL {
				switch a := x.X.(type) {
				case *ssa.Alloc:
					if sv := CellValue(a); sv != nil {
						v = sv
						continue
					}
				case *ssa.FreeVar:
					if b := freeVarBinding(a); b != nil {
						if al, ok := b.(*ssa.Alloc); ok {
							if sv := CellValue(al); sv != nil {
								v = sv
								continue
							}
						}
					}
				}
			}
			return v
		case *ssa.Phi:
			var only ssa.Value
			for _, e := range x.Edges {
				if e == ssa.Value(x) {
					continue
				}
				if only == nil {
					only = e
				} else if only != e {
					return v
				}
			}
			if only == nil {
				return v
			}
			v = only
		default:
			return v
		}
	}
	return v
}
