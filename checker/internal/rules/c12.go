package rules

import (
	"fmt"
	"go/token"
	"go/types"

	"golang.org/x/tools/go/ssa"

	"waspcheck/internal/core"
)

func checkC12(c *Ctx) {
	c.R.Explanation = "Static rules over wasp/conn.go, wasp/packets.go, wasp/distributed/sessions.go: (R1) on every accepting CONNECT path the client id is resolved (within the session's mount point), a record found is deleted by its own session id before the new record is created, and record creation, registry insert, goroutine start and accepting CONNACK each happen exactly once; (R2) the PINGREQ arm answers only when the lookup succeeded and resolves to the asking session, every other row returns the session-ended error and writes nothing; (R3) teardown never deletes a session record that resolves to another session; (R4) every delete in teardown is keyed by the dying session's own id; (R5) deleting an absent or already removed record is not an error (a takeover racing with the old session's teardown still succeeds)."
	c.R.NotCovered = "Cross-node interleavings of gossip with takeover, authentication back ends that return a stable Principal.ID for a client."
	ru1 := c.R.Rule("C12-R1", "accepting CONNECT paths: ByClientID(mountpoint, clientID of the new session); a found record is deleted (by the found record's SessionID) before the new record is created; Create, registry insert, `go` and accepting CONNACK exactly once each", "E1 path table + E3", 1)
	handler, authCall := c.connectHandler(ru1)
	sa := c.setupAnchors(ru1)
	if handler != nil && sa != nil {
		c.R.Fn(c.fname(handler))
		paths, err := c.handlerPaths(handler, sa)
		if err != nil {
			ru1.Undecided("paths of the CONNECT handler", c.where(handler, handler), err.Error())
		} else {
			ru1.Evals(len(paths))
			bad, n := "", 0
			for _, p := range paths {
				if isNil, tested := authErrNil(p, authCall); !tested || !isNil {
					continue
				}
				accepting := false
				for _, pc := range p.Calls() {
					if pc.Is(sa.connAck) && connAckCodeOn(p, pc.Call) == 0 {
						accepting = true
					}
				}
				if !accepting {
					continue
				}
				n++
				var lookup, del, create *core.PathCall
				creates, regs, gos, acks := 0, 0, 0, 0
				calls := p.Calls()
				for i := range calls {
					pc := calls[i]
					switch {
					case pc.Is(sa.byClientID):
						lookup = &calls[i]
					case pc.Is(sa.sessDelete):
						del = &calls[i]
					case pc.Is(sa.sessCreate):
						create = &calls[i]
						creates++
					case pc.Is(sa.localCreate):
						regs++
					case isGo(pc):
						gos++
					case pc.Is(sa.connAck):
						acks++
					}
				}
				if creates != 1 || regs != 1 || gos != 1 || acks != 1 {
					bad = fmt.Sprintf("an accepting path performs record creation ×%d, registry insert ×%d, goroutine start ×%d, CONNACK ×%d (each must be exactly 1)", creates, regs, gos, acks)
					continue
				}
				if lookup == nil {
					bad = "an accepting path never resolves the client id: an earlier session with the same id stays the one every node resolves"
					continue
				}
				found, foundKnown := false, false
				for _, cd := range p.Conds {
					if bo, ok := cd.V.(*ssa.BinOp); ok {
						for _, side := range []ssa.Value{bo.X, bo.Y} {
							if ex, ok := p.Resolve(side).(*ssa.Extract); ok && ex.Tuple == lookup.Value() && types.Identical(ex.Type(), errorType) {
								found, foundKnown = cd.Val, true
							}
						}
					}
				}
				if !foundKnown {
					bad = "the result of the client-id lookup is not tested"
					continue
				}
				if found {
					if del == nil || del.Seq > create.Seq {
						bad = "the record found for the client id is not deleted before the new record is created"
						continue
					}
					if !depReaches(del.Arg(0), func(v ssa.Value) bool { return v == lookup.Value() }) || !stringsContains(core.Term(del.Arg(0)), ".SessionID") {
						bad = "the delete that precedes the takeover is not keyed by the SessionID of the record that was found"
					}
				} else if del != nil {
					bad = "a session record is deleted although no earlier session was found"
				}
			}
			ru1.Check(bad == "" && n > 0, "accepting paths of "+c.fname(handler), c.where(handler, handler), fmt.Sprintf("%d accepting path(s) follow lookup → delete old → create → register → serve → CONNACK", n), bad)
		}
	}

	// R2
	ru2 := c.R.Rule("C12-R2", "PINGREQ arm: PINGRESP is written only where the client-id lookup succeeded and resolves to the asking session; every other row returns the session-ended error and writes nothing", "E1 scenario rows in the type-switch arm", 1)
	proc := c.im(ru2, "wasp", "PacketProcessor", "Process")
	byCID := c.im(ru2, "wasp/distributed", "SessionMetadatasState", "ByClientID")
	sid := c.cm(ru2, "wasp/sessions", "Session", "ID")
	if proc != nil && byCID != nil && sid != nil {
		var disp *ssa.Function
		for _, f := range c.P.Implementations(proc) {
			if c.P.IsModPkg(f.Package().Pkg) {
				disp = f
			}
		}
		if ru2.Anchor(disp != nil, "dispatcher") {
			c.R.Fn(c.fname(disp))
			pktIdx := -1
			for i, p := range disp.Params {
				if isNamed(p.Type(), pkgPacket, "Packet") {
					pktIdx = i
				}
			}
			assume := func(p *core.Path, cond ssa.Value, term string) (bool, bool) {
				// scenario: the dispatched packet is a *packet.PingReq
				if ex, ok := cond.(*ssa.Extract); ok && ex.Index == 1 {
					if ta, ok := ex.Tuple.(*ssa.TypeAssert); ok && pktIdx >= 0 && same(ta.X, disp.Params[pktIdx]) {
						return isNamed(ta.AssertedType, pkgPacket, "PingReq"), true
					}
				}
				return false, false
			}
			paths, err := c.pathsInlined(disp, core.PathOpts{Assume: assume}, isAny(byCID), nil)
			if err != nil {
				ru2.Undecided("PINGREQ arm", c.where(disp, disp), err.Error())
			} else {
				ru2.Evals(len(paths))
				bad, nOK, nEnd := "", 0, 0
				for _, p := range paths {
					if _, ok := p.Exit.(*ssa.Return); !ok {
						continue
					}
					var lookup *core.Call
					resp := 0
					writes := 0
					for _, pc := range p.Calls() {
						if pc.Is(byCID) {
							lookup = pc.Call
						}
						if pc.Obj != nil && pc.Obj.Pkg() != nil && pc.Obj.Pkg().Path() == pkgEncoder {
							writes++
							if pc.Obj.Name() == "PingResp" || isNamed(boxedTypeArg(pc.Call), pkgPacket, "PingResp") {
								resp++
							}
						}
					}
					found, mine := tri{}, tri{}
					for _, cd := range p.Conds {
						bo, ok := cd.V.(*ssa.BinOp)
						if !ok || (bo.Op != token.EQL && bo.Op != token.NEQ) {
							continue
						}
						x, y := p.Resolve(bo.X), p.Resolve(bo.Y)
						for _, side := range []ssa.Value{x, y} {
							if ex, ok := side.(*ssa.Extract); ok && lookup != nil && ex.Tuple == lookup.Value() && types.Identical(ex.Type(), errorType) {
								found = tri{true, cd.Val}
							}
						}
						isOwn := func(v ssa.Value) bool {
							cv, ok := core.Strip(resolveCell(p, v)).(*ssa.Call)
							return ok && core.CallOf(cv).Is(sid)
						}
						fromLookup := func(v ssa.Value) bool {
							return lookup != nil && depReaches(v, func(z ssa.Value) bool { return z == lookup.Value() })
						}
						if (fromLookup(x) && isOwn(y)) || (fromLookup(y) && isOwn(x)) {
							mine = tri{true, cd.Val}
						}
					}
					okRow := found.known && found.val && mine.known && mine.val
					if okRow {
						nOK++
						if resp != 1 {
							bad = fmt.Sprintf("on the row lookup-ok ∧ own-session the ping is answered %d time(s)", resp)
						}
					} else {
						nEnd++
						if writes != 0 {
							bad = fmt.Sprintf("a PINGREQ is answered although the client id does not resolve to the asking session (lookup ok=%s, own=%s): a displaced session keeps being served", found, mine)
						}
						if isNil, known := p.ReturnsNilError(); !known || isNil {
							bad = fmt.Sprintf("the PINGREQ arm does not end the session when the client id does not resolve to it (lookup ok=%s, own=%s)", found, mine)
						}
					}
				}
				ru2.Check(bad == "" && nOK > 0 && nEnd > 0, "PINGREQ arm of "+c.fname(disp), c.where(disp, disp), fmt.Sprintf("%d answering path(s), %d ending path(s)", nOK, nEnd), bad)
			}
		}
	}

	ru3 := c.R.Rule("C12-R3", "teardown never deletes a session record when the client id resolves to another session (the record of the session that displaced this one survives)", "E1 decision table row FOUND∧¬MINE", 1)
	ru4 := c.R.Rule("C12-R4", "every subscription / session-record delete in teardown is keyed by the dying session's own ID()", "E3 provenance", 2)
	td := c.teardown(ru3)
	if td != nil {
		ru3.Evals(len(td.paths))
		bad, n := "", 0
		for _, tp := range td.paths {
			if tp.found.known && tp.found.val && tp.mine.known && !tp.mine.val {
				n++
				if len(tp.recDeletes) != 0 {
					bad = "teardown deletes a session record although the client id now resolves to a different session: the displacing session's record is removed"
				}
			}
			// unknown MINE with a delete is also wrong: the record is deleted without checking whose it is
			if tp.found.known && tp.found.val && !tp.mine.known && len(tp.recDeletes) > 0 {
				bad = "teardown deletes the session record without checking that the client id still resolves to this session"
			}
		}
		ru3.Check(bad == "" && n > 0, "row FOUND∧¬MINE of "+c.fname(td.fn), c.where(td.fn, td.fn), "no record delete", bad+map[bool]string{true: "", false: " (teardown never distinguishes a displaced session)"}[n > 0])
		for _, t := range []struct {
			obj  *types.Func
			name string
		}{{td.subsDelete, "Subscriptions.Delete"}, {td.sessDelete, "SessionMetadatas.Delete"}} {
			var calls []*core.Call
			bad := ""
			for _, tp := range td.paths {
				for _, pc := range tp.p.Calls() {
					if pc.Is(t.obj) {
						calls = append(calls, pc.Call)
						if !td.ownID(tp.p, pc.Arg(0)) {
							bad = t.name + " in teardown is keyed by something else than the dying session's ID(): " + short(core.Term(pc.Arg(0)), 80)
						}
					}
				}
			}
			ru4.Check(bad == "" && len(calls) > 0, t.name+" keys in "+c.fname(td.fn), c.where(td.fn, td.fn), "session.ID()", bad)
		}
	}

	// R5
	ru5 := c.R.Rule("C12-R5", "deleting a session record that is absent or already removed returns a nil error (the takeover path treats any Delete error as fatal)", "E1 path atoms in the Delete implementation", 1)
	d := c.dstate(ru5)
	if d != nil {
		impl := c.implOf(ru5, "wasp/distributed", "SessionMetadatasState", "Delete")
		if impl != nil {
			c.R.Fn(c.fname(impl))
			paths, err := core.EnumPaths(impl, core.PathOpts{})
			if err != nil {
				ru5.Undecided("paths of "+c.fname(impl), c.where(impl, impl), err.Error())
			} else {
				bad, n := "", 0
				for _, p := range paths {
					absent := false
					for _, cd := range p.Conds {
						if ex, ok := cd.V.(*ssa.Extract); ok && ex.Index == 1 {
							if lk, ok := ex.Tuple.(*ssa.Lookup); ok && lk.CommaOk && !cd.Val {
								absent = true
							}
						}
						if cv, ok := cd.V.(*ssa.Call); ok && core.CallOf(cv).Is(d.isRemoved) && cd.Val {
							absent = true
						}
					}
					if !absent {
						continue
					}
					n++
					if isNil, known := p.ReturnsNilError(); !known || !isNil {
						bad = "Delete of an absent / already removed record reports an error: a CONNECT that races with the old session's teardown is refused instead of taking over"
					}
				}
				ru5.Check(bad == "" && n > 0, "absent record in "+c.fname(impl), c.where(impl, impl), fmt.Sprintf("%d path(s), nil error", n), bad)
			}
		}
	}
}

func boxedTypeArg(cl *core.Call) types.Type {
	a := cl.Args()
	if len(a) < 2 {
		return types.Typ[types.Invalid]
	}
	return boxedType(a[1])
}

func checkC13(c *Ctx) {
	c.R.Explanation = "Static rules over wasp/conn.go, wasp/packets.go, wasp/nodes.go, wasp/sessions/session.go: (R1) teardown decision table for the will: never after DISCONNECT; exactly one publication through the normal publish path when the session died without DISCONNECT, has a will, and its record is absent or still ours; (R2) the Disconnected flag is set only where the dispatcher returned the session-ended sentinel, which only the DISCONNECT arm and the displaced-session row of PINGREQ return, and it is set before the loop ends; (R3) on peer failure each lost session's will is appended to the log once, qualified with that session's mount point; (R4) the will is captured field by field from CONNECT and the stored record receives session.LWT()."
	c.R.NotCovered = "'each matching subscriber exactly once' across nodes (needs matching semantics and run-time membership), will delay, retained wills."
	defer c.ruleWillHandOff("C13-R7")
	defer c.ruleRegisteredBeforeServed("C13-R8")
	defer func() {
		// R9: the peer-failure handler and its helpers keep no pointer to a loop variable (sessionsOf: out[i] = &session)
		ru9 := c.R.Rule("C13-R9a", "anchors", "", 0)
		if leave := c.implOf(ru9, "wasp", "NodeMemberManager", "NotifyGossipLeave"); leave != nil {
			c.ruleLoopAliasOf("C13-R9", "a pointer to a lost session's record kept inside a loop of the peer-failure handler (every will published would be the last session's)", c.reachInPkg(leave, leave.Package()), 1)
		}
	}()
	ru1 := c.R.Rule("C13-R1", "teardown: DISC ⇒ no will publication; ¬DISC ∧ WILL ∧ (¬FOUND ∨ MINE) ⇒ exactly one Process(ctx, session, nil, lwt) of the session's own will", "E1 decision table", 2)
	td := c.teardown(ru1)
	if td != nil {
		ru1.Evals(len(td.paths))
		badD, badW, nD, nW := "", "", 0, 0
		for _, tp := range td.paths {
			if !tp.first.consistent(true) {
				continue
			}
			if tp.disc.known && tp.disc.val {
				nD++
				if len(tp.wills) != 0 {
					badD = "the will is published although the client sent DISCONNECT [" + tp.atoms() + "]"
				}
			}
			if tp.disc.known && !tp.disc.val && tp.will.known && tp.will.val && ((tp.found.known && !tp.found.val) || (tp.mine.known && tp.mine.val)) {
				nW++
				if len(tp.wills) != 1 {
					badW = fmt.Sprintf("a session that died without DISCONNECT publishes its will %d time(s) [%s]", len(tp.wills), tp.atoms())
					continue
				}
				w := tp.wills[0]
				okArgs := same(tp.p.Resolve(core.Strip(w.Arg(1))), td.fn.Params[td.sessIdx])
				if k, ok := tp.p.Resolve(w.Arg(2)).(*ssa.Const); !ok || k.Value != nil {
					okArgs = false
				}
				if !depReaches(w.Arg(3), func(v ssa.Value) bool {
					cv, ok := v.(*ssa.Call)
					return ok && core.CallOf(cv).Is(td.lwt)
				}) {
					okArgs = false
				}
				if !okArgs {
					badW = "the will is not published as Process(ctx, this session, nil writer, session.LWT())"
				}
			}
			// a will published on a path where DISC was never tested
			if !tp.disc.known && len(tp.wills) > 0 {
				badD = "the will is published on a path that never tests whether DISCONNECT was seen"
			}
			// early exit before the will although it should be published: ¬DISC unknown because returned early with ¬FOUND
			if !tp.disc.known && tp.first.known && tp.first.val && tp.found.known && !tp.found.val {
				badW = "teardown returns before considering the will when the session record is not found: a session whose record is gone dies without its will [" + tp.atoms() + "]"
			}
		}
		ru1.Check(badD == "" && nD > 0, "row DISC of "+c.fname(td.fn), c.where(td.fn, td.fn), fmt.Sprintf("%d path(s), no will", nD), badD)
		ru1.Check(badW == "" && nW > 0, "row ¬DISC∧WILL∧(¬FOUND∨MINE) of "+c.fname(td.fn), c.where(td.fn, td.fn), fmt.Sprintf("%d path(s), exactly one will each", nW), badW+map[bool]string{true: "", false: " (no such path)"}[nW > 0])
	}

	// R2
	ru2 := c.R.Rule("C13-R2", "Session.Disconnected is stored true only where the dispatcher's result equals the session-ended sentinel; that sentinel is returned only from the DISCONNECT arm and from the PINGREQ arm; on the path where it was returned the flag is set before the per-packet step reports 'stop'", "E3 who-returns + E1", 2)
	proc := c.im(ru2, "wasp", "PacketProcessor", "Process")
	if proc != nil {
		sentinel := "ErrSessionDisconnected"
		// stores
		nStores := 0
		for _, f := range c.P.ModFuncs() {
			for _, b := range f.Blocks {
				for _, in := range b.Instrs {
					st, ok := in.(*ssa.Store)
					if !ok {
						continue
					}
					fa, ok := st.Addr.(*ssa.FieldAddr)
					if !ok || fieldNameOf(fa.X.Type(), fa.Field) != "Disconnected" || !isNamed(fa.X.Type(), "wasp/sessions", "Session") {
						continue
					}
					nStores++
					key := fmt.Sprintf("store #%d to Session.Disconnected in %s", nStores, c.fname(f))
					okc := false
					for _, cc := range controllingConds(b, nil) {
						bo, isb := cc.cond.(*ssa.BinOp)
						if !isb || bo.Op != token.EQL || !cc.pol {
							continue
						}
						isSent := func(v ssa.Value) bool { return stringsContains(core.Term(v), sentinel) }
						isRes := func(v ssa.Value) bool {
							return depReaches(v, func(x ssa.Value) bool {
								cv, ok := x.(*ssa.Call)
								return ok && core.CallOf(cv).Is(proc)
							})
						}
						if (isSent(bo.X) && isRes(bo.Y)) || (isSent(bo.Y) && isRes(bo.X)) {
							okc = true
						}
					}
					k, isK := st.Val.(*ssa.Const)
					ru2.Check(okc && isK && k.Value.String() == "true", key, c.whereI(st), "set true under Process(...) == ErrSessionDisconnected", "the DISCONNECT flag is written outside the branch where the dispatcher reported the session-ended sentinel: a lost connection can be mistaken for a clean disconnect (will suppressed) or vice versa")
				}
			}
		}
		ru2.Anchor(nStores >= 1, "a store to Session.Disconnected")
		// who returns the sentinel
		var disp *ssa.Function
		for _, f := range c.P.Implementations(proc) {
			if c.P.IsModPkg(f.Package().Pkg) {
				disp = f
			}
		}
		if ru2.Anchor(disp != nil, "dispatcher") {
			pktIdx := -1
			for i, p := range disp.Params {
				if isNamed(p.Type(), pkgPacket, "Packet") {
					pktIdx = i
				}
			}
			arms := map[string]int{}
			bad := ""
			// the dispatcher and the per-packet-type helpers its arms hand the work to
			var bodies []*ssa.BasicBlock
			for _, g := range c.funcsDeepStop(disp, 2, func(g *ssa.Function) bool { return g.Pkg != disp.Pkg }) {
				if g.Parent() != nil {
					continue
				}
				bodies = append(bodies, g.Blocks...)
			}
			for _, b := range bodies {
				for _, in := range b.Instrs {
					st, ok := in.(*ssa.Store)
					var v ssa.Value
					if ok {
						v = st.Val
					} else if r, ok := in.(*ssa.Return); ok && len(r.Results) == 1 {
						v = r.Results[0]
					} else {
						continue
					}
					if !types.Identical(v.Type(), errorType) || !stringsContains(core.Term(v), sentinel) {
						continue
					}
					if ld, ok := v.(*ssa.UnOp); !ok || ld.Op != token.MUL {
						continue
					}
					arm := "?"
					for _, at := range c.liftTo(disp, in) {
						for _, cc := range controllingConds(at.Block(), nil) {
							if ex, ok := cc.cond.(*ssa.Extract); ok && ex.Index == 1 && cc.pol {
								if ta, ok := ex.Tuple.(*ssa.TypeAssert); ok && pktIdx >= 0 && same(ta.X, disp.Params[pktIdx]) {
									arm = types.TypeString(ta.AssertedType, func(p *types.Package) string { return p.Name() })
								}
							}
						}
					}
					arms[arm]++
					if arm != "*packet.Disconnect" && arm != "*packet.PingReq" {
						bad = "the session-ended sentinel is returned from the arm of " + arm + ": that packet would suppress the will like a clean DISCONNECT"
					}
				}
			}
			ru2.Check(bad == "" && arms["*packet.Disconnect"] >= 1, "arms returning the sentinel in "+c.fname(disp), c.where(disp, disp), fmt.Sprintf("%v", arms), bad+map[bool]string{true: "", false: " the DISCONNECT arm does not return the sentinel"}[arms["*packet.Disconnect"] >= 1])
		}
	}

	// R3
	ru3 := c.R.Rule("C13-R3", "peer failure: for each session record of the failed peer (SessionMetadatas.ByPeer(id)) that has a will, one messageLog.Append of a publish whose topic is that will's topic qualified with that record's MountPoint", "E1 loop matcher + E3 provenance", 1)
	leave := c.implOf(ru3, "wasp", "NodeMemberManager", "NotifyGossipLeave")
	byPeer := c.im(ru3, "wasp/distributed", "SessionMetadatasState", "ByPeer")
	app := c.im(ru3, "wasp", "messageLog", "Append")
	prefixFn := c.fo(ru3, "wasp/sessions", "PrefixMountPoint")
	if leave != nil && byPeer != nil && app != nil && prefixFn != nil {
		c.R.Fn(c.fname(leave))
		apps := c.callsToDeep(leave, 2, app) // in the handler or a helper of it (publishWills(lost))
		bad := ""
		if len(apps) != 1 {
			bad = fmt.Sprintf("%d Append calls in the peer-failure handler, want 1 (inside the loop over the lost sessions)", len(apps))
		}
		for _, a := range apps {
			// the place where the publish is made for one lost session: the Append itself, or — when the wills are
			// first collected in a slice and appended to the log in a second loop — the append to that slice
			made, publish := a.Instr, a.Arg(0)
			if elem, at, ok := collectedElem(publish); ok {
				if !everyIteration(a.Instr) {
					bad = "the collected wills are not all appended to the log"
					continue
				}
				made, publish = at, elem
			}
			l := core.InnermostLoop(core.Loops(made.Parent()), made.Block())
			var loopSite ssa.CallInstruction
			if l == nil {
				// the body of the loop over the lost sessions may be a helper (publishWill(session.MountPoint, session.LWT))
				loopSite, l = c.callerLoop(made.Parent())
			}
			if l == nil {
				bad = "the will is not appended once per lost session (no loop)"
				continue
			}
			fromByPeer := func(v ssa.Value) bool {
				return depReaches(v, func(x ssa.Value) bool {
					cv, ok := x.(*ssa.Call)
					return ok && core.CallOf(cv).Is(byPeer) && reachesParam(cv.Call.Args[0], leave, paramIndexOfType(leave, "uint64"))
				})
			}
			readsField := func(v ssa.Value, typ, field string) bool {
				return depReaches(v, func(x ssa.Value) bool {
					fa, ok := x.(*ssa.FieldAddr)
					return ok && fieldNameOf(fa.X.Type(), fa.Field) == field && (isNamed(fa.X.Type(), "wasp/api", typ) || isNamed(fa.X.Type(), pkgPacket, typ))
				})
			}
			// the publish appended: a literal built here, or by a constructor called here (willPublish(mountPoint, lwt))
			built := c.builtObject(publish)
			var topic ssa.Value
			if built != nil {
				topic = built.field("Topic")
			}
			if topic == nil {
				// appended as is: raw will
				bad = "the stored will is appended as it is: its topic is the raw CONNECT will topic, outside the session's mount point"
				continue
			}
			pc, ok := core.Strip(topic).(*ssa.Call)
			if !ok || !core.CallOf(pc).Is(prefixFn) {
				bad = "the will topic is not qualified with sessions.PrefixMountPoint"
				continue
			}
			mp, tp := built.subst(pc.Call.Args[0]), built.subst(pc.Call.Args[1])
			if !readsField(mp, "SessionMetadatas", "MountPoint") || !fromByPeer(mp) {
				bad = "the mount point used for the will is not the lost session record's MountPoint"
			}
			if !readsField(tp, "SessionMetadatas", "LWT") || !readsField(tp, "Publish", "Topic") || !fromByPeer(tp) {
				bad = "the topic qualified is not the lost session's will topic"
			}
			payload := built.field("Payload")
			if payload == nil || !readsField(payload, "SessionMetadatas", "LWT") {
				bad = "the will payload is not carried over"
			}
			// the mount point and the will are those of one and the same record
			type elemKey struct{ x, i ssa.Value } // the same element: same slice, same index value (lost[idx] written twice)
			elemsOf := func(v ssa.Value) map[ssa.Value]bool {
				out := map[ssa.Value]bool{}
				depReaches(v, func(x ssa.Value) bool {
					if ia, ok := x.(*ssa.IndexAddr); ok {
						out[ia] = true
					}
					return false
				})
				return out
			}
			em, et := elemsOf(mp), elemsOf(tp)
			common := false
			keys := map[elemKey]bool{}
			for x := range em {
				ia := x.(*ssa.IndexAddr)
				keys[elemKey{core.Strip(ia.X), ia.Index}] = true
			}
			for x := range et {
				ia := x.(*ssa.IndexAddr)
				if keys[elemKey{core.Strip(ia.X), ia.Index}] {
					common = true
				}
			}
			if (len(em) > 0 || len(et) > 0) && !common {
				bad = "the mount point and the will do not come from the same session record (two different elements are read): a will is published under another session's mount point"
			}
			// guarded by LWT != nil
			guarded := false
			for _, cc := range controllingConds(made.Block(), nil) {
				if readsField(cc.cond, "SessionMetadatas", "LWT") {
					guarded = true
				}
			}
			if !guarded && loopSite != nil {
				// in the caller, around the call of the helper; or the loop ranges over records kept only when they have a will
				for _, cc := range controllingConds(loopSite.Block(), nil) {
					if readsField(cc.cond, "SessionMetadatas", "LWT") {
						guarded = true
					}
				}
			}
			if !guarded {
				for x := range et {
					ia := x.(*ssa.IndexAddr)
					src := core.Strip(ia.X)
					if cv, isCall := src.(*ssa.Call); isCall {
						if g := cv.Call.StaticCallee(); g != nil && len(g.Blocks) > 0 {
							if rvs := returnValues(g); len(rvs) == 1 {
								src = rvs[0]
							}
						}
					}
					if _, from, _, ok := sliceSources(src); ok && len(from) > 0 {
						all := true
						for _, ap := range from {
							has := false
							for _, cc := range controllingConds(ap.Block(), nil) {
								if readsField(cc.cond, "SessionMetadatas", "LWT") {
									has = true
								}
							}
							if !has {
								all = false
							}
						}
						if all {
							guarded = true
						}
					}
				}
			}
			if !guarded {
				bad = "sessions without a will are not skipped"
			}
		}
		ru3.Check(bad == "", "wills of a failed peer in "+c.fname(leave), c.where(leave, leave), "for each ByPeer(id) record with a will: Append(Publish{Topic: PrefixMountPoint(record.MountPoint, will.Topic), ...})", bad)
	}

	// R4
	ru4 := c.R.Rule("C13-R4", "will capture: the session constructor builds the will from CONNECT's WillTopic / WillPayload / WillQos / WillRetain field by field, only when a will topic is present; the CONNECT handler passes session.LWT() to SessionMetadatas.Create", "E3 provenance", 2)
	ns := c.P.Func("wasp/sessions", "NewSession")
	if ru4.Anchor(ns != nil, "sessions.NewSession") {
		reach := c.P.Reach([]*ssa.Function{ns}, func(from *ssa.Function, cl *core.Call, to *ssa.Function) bool { return to.Package() == ns.Package() })
		want := map[string]string{"Topic": "WillTopic", "Payload": "WillPayload", "Qos": "WillQos", "Retain": "WillRetain"}
		got := map[string]string{}
		for f := range reach {
			for _, b := range f.Blocks {
				for _, in := range b.Instrs {
					st, ok := in.(*ssa.Store)
					if !ok {
						continue
					}
					fa, ok := st.Addr.(*ssa.FieldAddr)
					if !ok {
						continue
					}
					n := fieldNameOf(fa.X.Type(), fa.Field)
					if src, ok := want[n]; ok && (isNamed(fa.X.Type(), pkgPacket, "Publish") || isNamed(fa.X.Type(), pkgPacket, "Header")) {
						t := core.Term(st.Val)
						for _, w := range want {
							if stringsContains(t, "."+w) {
								got[n] = w
							}
						}
						_ = src
					}
				}
			}
		}
		bad := ""
		for k, w := range want {
			if got[k] != w {
				bad += fmt.Sprintf("will.%s is taken from %q, want CONNECT.%s; ", k, got[k], w)
			}
		}
		ru4.Check(bad == "", "will fields captured by "+c.fname(ns), c.where(ns, ns), "Topic←WillTopic, Payload←WillPayload, Qos←WillQos, Retain←WillRetain", bad)
	}
	handler, _ := c.connectHandler(ru4)
	sa := c.setupAnchors(ru4)
	lwtM := c.cm(ru4, "wasp/sessions", "Session", "LWT")
	if handler != nil && sa != nil && lwtM != nil {
		bad := "SessionMetadatas.Create is not called"
		for _, cl := range c.callsToDeep(handler, 2, sa.sessCreate) { // in the handler or a helper of it (announce(session))
			cv, ok := deepStrip(cl.Arg(3)).(*ssa.Call)
			if !ok {
				cv, ok = core.Strip(cl.Arg(3)).(*ssa.Call)
			}
			if ok && core.CallOf(cv).Is(lwtM) {
				bad = ""
			} else {
				bad = "the session record is created without the session's will (4th argument is not session.LWT()): survivors cannot publish it when the hosting node fails"
			}
		}
		ru4.Check(bad == "", "will stored in the session record by "+c.fname(handler), c.where(handler, handler), "Create(..., session.LWT(), ...)", bad)
	}
	c.rulePeerRecordsOutliveWills("C13-R6")
	// survivors must learn that a session ended cleanly even when the removal overtakes the creation (otherwise its will is published on peer failure)
	ru5 := c.R.Rule("C13-R5", "replicated session records follow the merge decision table (a removal for a not-yet-known session is kept), so a cleanly ended session is never seen as live by the survivors of a later peer failure", "shared with C08-R3", 0)
	if d := c.dstate(ru5); d != nil {
		c.ruleMergeTable("C13-R5", d)
	}
}
