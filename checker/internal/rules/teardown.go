package rules

import (
	"fmt"
	"go/token"
	"go/types"

	"golang.org/x/tools/go/ssa"

	"waspcheck/internal/core"
	"waspcheck/internal/report"
)

// teardown describes the session teardown routine: the module function that calls LocalState.Delete.
type teardown struct {
	fn                                                  *ssa.Function
	sessIdx                                             int
	localDelete, subsDelete, sessDelete, byClientID     *types.Func
	getTopics, sessID, lwt, process, closeM, mountPoint *types.Func
	clientID                                            *types.Func
	paths                                               []*tdPath
}

// tdPath is one path of the teardown with its atoms and events.
type tdPath struct {
	p                                  *core.Path
	first, found, mine, disc, will     tri
	regDeletes, subDeletes, recDeletes []*core.Call
	wills                              []*core.Call
	closes                             int
}

type tri struct{ known, val bool }

func (t tri) String() string {
	if !t.known {
		return "?"
	}
	if t.val {
		return "T"
	}
	return "F"
}

func (t tri) consistent(v bool) bool { return !t.known || t.val == v }

func (c *Ctx) teardown(ru *report.Rule) *teardown {
	td := &teardown{
		localDelete: c.im(ru, "wasp", "LocalState", "Delete"),
		subsDelete:  c.im(ru, "wasp/distributed", "SubscriptionsState", "Delete"),
		sessDelete:  c.im(ru, "wasp/distributed", "SessionMetadatasState", "Delete"),
		byClientID:  c.im(ru, "wasp/distributed", "SessionMetadatasState", "ByClientID"),
		getTopics:   c.cm(ru, "wasp/sessions", "Session", "GetTopics"),
		sessID:      c.cm(ru, "wasp/sessions", "Session", "ID"),
		lwt:         c.cm(ru, "wasp/sessions", "Session", "LWT"),
		closeM:      c.cm(ru, "wasp/sessions", "Session", "Close"),
		mountPoint:  c.cm(ru, "wasp/sessions", "Session", "MountPoint"),
		clientID:    c.cm(ru, "wasp/sessions", "Session", "ClientID"),
		process:     c.im(ru, "wasp", "PacketProcessor", "Process"),
	}
	if td.localDelete == nil || td.subsDelete == nil || td.sessDelete == nil || td.byClientID == nil || td.getTopics == nil || td.sessID == nil || td.lwt == nil || td.process == nil || td.closeM == nil || td.mountPoint == nil || td.clientID == nil {
		return nil
	}
	fns := c.deepestReachingAll("wasp", td.localDelete, td.subsDelete, td.sessDelete)
	if !ru.Anchor(len(fns) == 1, fmt.Sprintf("the teardown routine (the innermost function of package wasp from which LocalState.Delete, Subscriptions.Delete and SessionMetadatas.Delete are all reached; found %d)", len(fns))) {
		return nil
	}
	td.fn = fns[0]
	td.sessIdx = -1
	for i, p := range td.fn.Params {
		if isNamed(p.Type(), "wasp/sessions", "Session") {
			td.sessIdx = i
		}
	}
	if !ru.Anchor(td.sessIdx >= 0, "session parameter of the teardown routine") {
		return nil
	}
	c.R.Fn(c.fname(td.fn))
	paths, err := c.pathsInlined(td.fn, core.PathOpts{}, isAny(td.localDelete, td.subsDelete, td.sessDelete, td.byClientID, td.process, td.closeM, td.lwt, td.getTopics), nil)
	if err != nil {
		ru.Undecided("paths of the teardown routine", c.where(td.fn, td.fn), err.Error())
		return nil
	}
	sess := ssa.Value(td.fn.Params[td.sessIdx])
	isSess := func(p *core.Path, v ssa.Value) bool { return same(p.Resolve(core.Strip(v)), sess) }
	for _, p := range paths {
		if _, ok := p.Exit.(*ssa.Return); !ok {
			continue
		}
		tp := &tdPath{p: p}
		for _, cd := range p.Conds {
			switch v := cd.V.(type) {
			case *ssa.BinOp:
				if v.Op != token.EQL && v.Op != token.NEQ {
					continue
				}
				x, y := p.Resolve(v.X), p.Resolve(v.Y)
				for _, pair := range [][2]ssa.Value{{x, y}, {y, x}} {
					isNilK := func(k ssa.Value) bool { kk, ok := k.(*ssa.Const); return ok && kk.Value == nil }
					if cv, ok := pair[0].(*ssa.Call); ok && isNilK(pair[1]) {
						cl := core.CallOf(cv)
						if cl.Is(td.localDelete) {
							tp.first = tri{true, !cd.Val} // positive term: Delete(..) == nil
						}
						if cl.Is(td.lwt) {
							tp.will = tri{true, !cd.Val}
						}
					}
					if ex, ok := pair[0].(*ssa.Extract); ok && isNilK(pair[1]) {
						if cv, ok := ex.Tuple.(*ssa.Call); ok && core.CallOf(cv).Is(td.byClientID) && types.Identical(ex.Type(), errorType) {
							tp.found = tri{true, cd.Val} // err == nil
						}
					}
				}
				// metadata.SessionID == session.ID()
				lt, rt := core.Term(x), core.Term(y)
				isMetaID := func(s string) bool { return stringsContains(s, ".SessionID") }
				isOwnID := func(v ssa.Value) bool {
					cv, ok := v.(*ssa.Call)
					return ok && core.CallOf(cv).Is(td.sessID) && isSess(p, cv.Call.Args[0])
				}
				if (isMetaID(lt) && isOwnID(y)) || (isMetaID(rt) && isOwnID(x)) {
					tp.mine = tri{true, cd.Val}
				}
			case *ssa.UnOp:
				if v.Op == token.MUL {
					if fa, ok := v.X.(*ssa.FieldAddr); ok && fieldNameOf(fa.X.Type(), fa.Field) == "Disconnected" && isSess(p, fa.X) {
						tp.disc = tri{true, cd.Val}
					}
				}
			}
		}
		for _, pc := range p.Calls() {
			switch {
			case pc.Is(td.localDelete):
				tp.regDeletes = append(tp.regDeletes, pc.Call)
			case pc.Is(td.subsDelete):
				tp.subDeletes = append(tp.subDeletes, pc.Call)
			case pc.Is(td.sessDelete):
				tp.recDeletes = append(tp.recDeletes, pc.Call)
			case pc.Is(td.process):
				tp.wills = append(tp.wills, pc.Call)
			case pc.Is(td.closeM):
				tp.closes++
			}
		}
		td.paths = append(td.paths, tp)
	}
	return td
}

// ownID: v is session.ID() of the teardown's session parameter (p resolves parameters of inlined helpers).
func (td *teardown) ownID(p *core.Path, v ssa.Value) bool {
	cv, ok := core.Strip(p.Resolve(core.Strip(v))).(*ssa.Call)
	return ok && core.CallOf(cv).Is(td.sessID) && same(p.Resolve(core.Strip(cv.Call.Args[0])), td.fn.Params[td.sessIdx])
}

func (tp *tdPath) atoms() string {
	return fmt.Sprintf("FIRST=%s FOUND=%s MINE=%s DISC=%s WILL=%s", tp.first, tp.found, tp.mine, tp.disc, tp.will)
}

// mustCall: on every returning path of fn (deferred calls included) a call satisfying pred runs, directly or inside a module function that itself must-call it.
func (c *Ctx) mustCall(fn *ssa.Function, pred func(*core.Call) bool, depth int, memo map[*ssa.Function]int) (bool, string) {
	if fn == nil || len(fn.Blocks) == 0 {
		return false, "no body"
	}
	if v, ok := memo[fn]; ok {
		return v == 1, "(memo)"
	}
	memo[fn] = 0
	paths, err := core.EnumPaths(fn, core.PathOpts{})
	if err != nil {
		return false, err.Error()
	}
	for _, p := range paths {
		if _, ok := p.Exit.(*ssa.Return); !ok {
			continue
		}
		found := false
		for _, pc := range p.Calls() {
			if _, isGo := pc.Instr.(*ssa.Go); isGo {
				continue
			}
			if pred(pc.Call) {
				found = true
				break
			}
			if depth > 0 && pc.Static != nil && pc.Static.Pkg != nil && c.P.IsModPkg(pc.Static.Pkg.Pkg) {
				if ok, _ := c.mustCall(pc.Static, pred, depth-1, memo); ok {
					found = true
					break
				}
			}
			if depth > 0 && pc.Static == nil && !pc.Invoke {
				if cf := closureArg(pc.Common.Value); cf != nil {
					if ok, _ := c.mustCall(cf, pred, depth-1, memo); ok {
						found = true
						break
					}
				}
			}
		}
		if !found {
			return false, "path " + fmtPath(p, c.P) + " of " + c.fname(fn)
		}
	}
	memo[fn] = 1
	return true, ""
}
