package rules

import (
	"fmt"
	"go/token"
	"go/types"
	"os"
	"strings"

	"golang.org/x/tools/go/ssa"

	"waspcheck/internal/core"
)

func init() {
	register("C01", checkC01)
	register("C06", checkC06)
	register("C07", checkC07)
}

// recursiveOverChildren: functions of the trie package reachable from entry that call themselves and range over a Node's children.
func (c *Ctx) trieRoutine(pkg string, entry *ssa.Function) []*ssa.Function {
	_, members := c.trieWalk(pkg, entry)
	return sortedFuncs(members)
}

// trieWalk finds the recursive routine behind a trie entry point: the functions of the package, reachable from entry,
// that lie on a call cycle (walk calling itself, or walk → descend → walk), and the head — the member entered from
// outside the cycle. Rules about one step of the recursion run on the head's paths with the other members and the
// package's helpers spliced in; a call back to a member is the recursive descent.
func (c *Ctx) trieWalk(pkg string, entry *ssa.Function) (head *ssa.Function, members map[*ssa.Function]bool) {
	members = map[*ssa.Function]bool{}
	if entry == nil {
		return nil, members
	}
	inPkg := func(f *ssa.Function) bool { return f.Package() != nil && f.Package().Pkg.Path() == c.P.Rel(pkg) }
	reach := c.P.Reach([]*ssa.Function{entry}, func(from *ssa.Function, cl *core.Call, to *ssa.Function) bool {
		return inPkg(to) && (cl == nil || !cl.Invoke)
	})
	callees := func(f *ssa.Function) []*ssa.Function {
		var out []*ssa.Function
		for _, cl := range core.CallsIn(f) {
			if cl.Static != nil && inPkg(cl.Static) {
				out = append(out, cl.Static)
			}
		}
		for _, af := range f.AnonFuncs {
			out = append(out, af)
		}
		return out
	}
	for f := range reach {
		// can f reach itself?
		seen := map[*ssa.Function]bool{}
		var walk func(g *ssa.Function, d int) bool
		walk = func(g *ssa.Function, d int) bool {
			for _, h := range callees(g) {
				if h == f {
					return true
				}
				if !seen[h] && d > 0 {
					seen[h] = true
					if walk(h, d-1) {
						return true
					}
				}
			}
			return false
		}
		if walk(f, 4) {
			members[f] = true
		}
	}
	// the routine is the first cycle met from the entry point (breadth first); other cycles reachable from it (a
	// subtree enumeration called from the walk) are routines of their own
	queue, seenQ := []*ssa.Function{entry}, map[*ssa.Function]bool{entry: true}
	for len(queue) > 0 && head == nil {
		f := queue[0]
		queue = queue[1:]
		if members[f] {
			head = f
			break
		}
		for _, h := range callees(f) {
			if !seenQ[h] {
				seenQ[h] = true
				queue = append(queue, h)
			}
		}
	}
	if head != nil {
		reaches := func(from, to *ssa.Function) bool {
			seen := map[*ssa.Function]bool{}
			var walk func(g *ssa.Function, d int) bool
			walk = func(g *ssa.Function, d int) bool {
				for _, h := range callees(g) {
					if h == to {
						return true
					}
					if !seen[h] && d > 0 {
						seen[h] = true
						if walk(h, d-1) {
							return true
						}
					}
				}
				return false
			}
			return walk(from, 4)
		}
		scc := map[*ssa.Function]bool{head: true}
		for f := range members {
			if f != head && reaches(head, f) && reaches(f, head) {
				scc[f] = true
			}
		}
		members = scc
	}
	return head, members
}

// ruleNonInterference implements C01-R3 / C07-R5.
func (c *Ctx) ruleNonInterference(id, pkg string, entry *ssa.Function, what string) {
	ru := c.R.Rule(id, "non-interference in "+what+": every condition that controls descent depends only on the topic token, the child key and the wildcard constants — never on a node's payload or on how many children a node has; a node's own payload may only gate emitting that payload", "E3 on branch conditions of the recursive routine", 1)
	_, payload, ok := c.nodeFields(pkg)
	if !ru.Anchor(ok && entry != nil, pkg+".Node / entry point") {
		return
	}
	head, members := c.trieWalk(pkg, entry)
	ru.Anchor(head != nil, "a recursive routine reachable from the entry point")
	if head == nil {
		return
	}
	// the routine and the package helpers that run as part of one step of it
	fns := c.funcsDeepStop(head, 3, func(g *ssa.Function) bool {
		return g.Package() == nil || g.Package().Pkg.Path() != c.P.Rel(pkg)
	})
	// the wrappers between the entry point and the routine run before the first step: their decisions count too
	inFns := map[*ssa.Function]bool{}
	for _, f := range fns {
		inFns[f] = true
	}
	for _, f := range c.funcsDeepStop(entry, 3, func(g *ssa.Function) bool {
		return g.Package() == nil || g.Package().Pkg.Path() != c.P.Rel(pkg) || members[g]
	}) {
		if !inFns[f] {
			inFns[f] = true
			fns = append(fns, f)
		}
	}
	children, _, _ := c.nodeFields(pkg)
	for _, f := range fns {
		c.R.Fn(c.fname(f))
		bad := ""
		n := 0
		for _, b := range f.Blocks {
			iff, ok := b.Instrs[len(b.Instrs)-1].(*ssa.If)
			if !ok {
				continue
			}
			n++
			if why := c.presenceTestSkips(f, iff, children, members); why != "" {
				bad = why
			}
			t := core.Term(iff.Cond)
			if os.Getenv("WASPCHECK_DEBUG") != "" {
				fmt.Fprintln(os.Stderr, "NI cond", c.fname(f), t)
			}
			readsPayload := strings.Contains(t, ")."+payload)
			readsFanout := strings.Contains(t, "builtin:len(") && strings.Contains(t, ").Children")
			if !readsPayload && !readsFanout {
				continue
			}
			if readsFanout {
				bad = "a matching decision depends on how many children a node has (" + short(t, 80) + "): whether a filter matches would depend on which other subscriptions exist"
				continue
			}
			// payload condition: the controlled region must not descend
			for _, rb := range f.Blocks {
				for _, s := range []*ssa.BasicBlock{b.Succs[0], b.Succs[1]} {
					if len(s.Preds) == 1 && s.Dominates(rb) {
						for _, cl := range core.CallsIn(f) {
							if cl.Instr.Block() == rb && cl.Static != nil && members[cl.Static] {
								bad = "descent into children is gated by a node's payload (" + short(t, 80) + "): matching depends on what is stored, not only on filter and topic"
							}
						}
					}
				}
			}
		}
		ru.Check(bad == "", "branch conditions of "+c.fname(f), c.where(f, f), fmt.Sprintf("%d condition(s), none lets other entries' data steer descent", n), bad)
	}
}

// presenceTestSkips: iff tests whether a particular child exists (the ok of a look-up in a node's children map). The
// code that runs only when the child exists may concern that child alone: if it also enumerates or looks up other
// children, or descends from a node that is not the child found, then the absence of one child suppresses work on the
// others (a fast path such as "no literal child, nothing to do" ignores the wildcard children). Returns the finding.
func (c *Ctx) presenceTestSkips(f *ssa.Function, iff *ssa.If, children string, members map[*ssa.Function]bool) string {
	cond, neg := iff.Cond, false
	for {
		u, ok := cond.(*ssa.UnOp)
		if !ok || u.Op != token.NOT {
			break
		}
		cond, neg = u.X, !neg
	}
	ex, ok := cond.(*ssa.Extract)
	if !ok || ex.Index != 1 {
		return ""
	}
	lk, ok := ex.Tuple.(*ssa.Lookup)
	if !ok || !lk.CommaOk {
		return ""
	}
	isChildrenOf := func(m ssa.Value) (node ssa.Value, ok bool) {
		ld, isLd := m.(*ssa.UnOp)
		if !isLd || ld.Op != token.MUL {
			return nil, false
		}
		fa, isFA := ld.X.(*ssa.FieldAddr)
		if !isFA || fieldNameOf(fa.X.Type(), fa.Field) != children {
			return nil, false
		}
		return fa.X, true
	}
	if _, ok := isChildrenOf(lk.X); !ok {
		return ""
	}
	var found ssa.Value
	if lk.Referrers() != nil {
		for _, r := range *lk.Referrers() {
			if e, ok := r.(*ssa.Extract); ok && e.Index == 0 {
				found = e
			}
		}
	}
	blk := iff.Block()
	present, absent := blk.Succs[0], blk.Succs[1]
	if neg {
		present, absent = absent, present
	}
	reach := func(from *ssa.BasicBlock) map[*ssa.BasicBlock]bool {
		seen := map[*ssa.BasicBlock]bool{from: true}
		work := []*ssa.BasicBlock{from}
		for len(work) > 0 {
			b := work[0]
			work = work[1:]
			for _, s := range b.Succs {
				if !seen[s] {
					seen[s] = true
					work = append(work, s)
				}
			}
		}
		return seen
	}
	rp, ra := reach(present), reach(absent)
	fromFound := func(v ssa.Value) bool {
		return found != nil && depReaches(v, func(w ssa.Value) bool { return w == found })
	}
	for b := range rp {
		if ra[b] {
			continue
		}
		for _, in := range b.Instrs {
			switch x := in.(type) {
			case *ssa.Range:
				if node, ok := isChildrenOf(x.X); ok && !fromFound(node) {
					return "the children of a node are enumerated only when one particular child exists (test at " + c.whereI(iff) + "): its absence suppresses the others — wildcard children included"
				}
			case *ssa.Lookup:
				if node, ok := isChildrenOf(x.X); ok && !fromFound(node) {
					return "another child is looked up only when one particular child exists (test at " + c.whereI(iff) + ")"
				}
			}
			if cl := core.CallOf(in); cl != nil && cl.Static != nil && members[cl.Static] && len(cl.Common.Args) > 0 && !fromFound(cl.Common.Args[0]) {
				return "the walk descends from a node other than the child found, and only when that child exists (test at " + c.whereI(iff) + "): without that one child nothing is matched, wildcard children included"
			}
		}
	}
	return ""
}

func checkC01(c *Ctx) {
	c.R.Explanation = "Static rules around recipient resolution: (R1) subscription queries return only entries for which IsEntryAdded holds (removed subscriptions are never recipients); (R2) in the writer's log branch the topic looked up is the Topic of the entry read back from the log at the job's offset, and that same entry is what is fanned out; (R3) non-interference in the subscription trie walk: descent decisions depend only on token, key and wildcard constants; (R4) per recipient exactly one PUBLISH write to that very session for QoS 0/1/2 and none when the session is not registered; (R5) the replicated subscription list follows the merge decision table (an unsubscribe that overtakes its subscribe is kept)."
	c.R.NotCovered = "MQTT matching semantics of the trie walk over all topic × filter pairs (parent-level '#', empty levels, topic names containing wildcard characters) — the core of the property — needs execution and is not decided; duplicate visits of a child for such names."
	ru0 := c.R.Rule("C01-R0", "anchors", "", 0)
	d := c.dstate(ru0)
	if d != nil {
		// R1 restricted to subscription queries
		sub := *d
		sub.queries = nil
		for _, q := range d.queries {
			if d.queryIface[q] == "SubscriptionsState" {
				sub.queries = append(sub.queries, q)
			}
		}
		c.ruleVisibility("C01-R1", &sub, 1)
		c.ruleMergeTable("C01-R5", d)
	}
	// R2
	ru2 := c.R.Rule("C01-R2", "log branch of the writer: recipients are resolved with the Topic of the entry returned by messageLog.Get(job offset), and that very entry is fanned out", "E3 provenance", 2)
	w := c.writerShape(ru2)
	byPattern := c.im(ru2, "wasp/distributed", "SubscriptionsState", "ByPattern")
	if w != nil && byPattern != nil {
		bad := "no ByPattern call after the read-back"
		var bp *core.Call
		for _, cl := range core.CallsTo(w.logFn, byPattern) {
			if core.Dominates(w.logGet.Instr, cl.Instr) {
				bp = cl
				a := cl.Arg(0)
				if strings.HasSuffix(core.Term(a), ".Topic") && depReaches(a, func(v ssa.Value) bool { return v == w.logGet.Value() }) {
					bad = ""
				} else {
					bad = "recipients are resolved with something else than the topic of the entry read back: " + short(core.Term(a), 80)
				}
			}
		}
		ru2.Check(bad == "", "topic used for recipient resolution in "+c.fname(w.run), c.whereI(w.logGet.Instr), "ByPattern(entry.Topic)", bad)
		fan := false
		fanCalls := core.CallsIn(w.logFn)
		viaJob := false
		if w.logFn != w.run {
			// the helper may complete the job it was handed and leave the fan-out to the loop
			for _, cl := range core.CallsIn(w.run) {
				if reachesInstr(w.logSite, cl.Instr) {
					fanCalls = append(fanCalls, cl)
				}
			}
			viaJob = true
		}
		for _, cl := range fanCalls {
			if cl.Static == nil || bp == nil || (cl.Instr.Parent() == w.logFn && !core.Dominates(bp.Instr, cl.Instr)) {
				continue
			}
			gotEntry, gotRecipients := false, false
			args := cl.Common.Args
			if viaJob && cl.Instr.Parent() == w.run {
				// arguments read from the job: what the helper stored there
				args = nil
				for _, a := range cl.Common.Args {
					if svs := w.jobFieldStores(a); len(svs) == 1 {
						args = append(args, svs[0])
					} else {
						args = append(args, a)
					}
				}
			}
			for _, a := range args {
				if ex, ok := core.Strip(a).(*ssa.Extract); ok && ex.Tuple == w.logGet.Value() && ex.Index == 0 {
					gotEntry = true
				}
				if sl, ok := a.Type().Underlying().(*types.Slice); ok {
					if bt, ok := sl.Elem().Underlying().(*types.Basic); ok && bt.Kind() == types.String {
						// recipients derived from the ByPattern result (filled in place or by a helper)
						ms, isMake := core.Strip(a).(*ssa.MakeSlice)
						if isMake {
							for _, b := range w.logFn.Blocks {
								for _, in := range b.Instrs {
									if st, ok := in.(*ssa.Store); ok {
										if ia, ok := st.Addr.(*ssa.IndexAddr); ok && (core.Strip(ia.X) == ssa.Value(ms) || w.jobFieldHolds(ia.X, ms)) && depReaches(st.Val, func(v ssa.Value) bool { return v == bp.Value() }) {
											gotRecipients = true
										}
									}
								}
							}
						} else if depReaches(a, func(v ssa.Value) bool { return v == bp.Value() }) {
							gotRecipients = true
						}
					}
				}
			}
			if gotEntry && gotRecipients {
				fan = true
			}
		}
		ru2.Check(fan, "fan-out call in "+c.fname(w.run), c.whereI(w.logGet.Instr), "fan-out(recipients from ByPattern, entry from Get)", "the entry read back and the recipients resolved for it are not handed together to the fan-out")
	}
	// R3
	walk := c.implOf(ru0, "subscriptions", "Tree", "Walk")
	c.ruleNonInterference("C01-R3", "subscriptions", walk, "the subscription trie walk")
	c.ruleVisitOnce("C01-R6", "subscriptions", walk)

	// R4
	c.rulePerRecipientWrites("C01-R4")
	c.ruleMultiLevelWildcardParent("C01-R7")
	c.ruleFullTraversal("C01-R8", 2)
}

// rulePerRecipientWrites implements C01-R4 / C06-R1: per recipient iteration of the fan-out.
func (c *Ctx) rulePerRecipientWrites(id string) {
	ru := c.R.Rule(id, "fan-out, per recipient: the session is looked up in the registry by the recipient's id; registered ⇒ exactly one PUBLISH goes out to that session — a direct encoder write for QoS 0, exactly one arming call (which writes it once) for QoS 1/2 with an identifier freshly taken from the pool; not registered ⇒ nothing is written or armed", "E1 per-iteration table", 1)
	o := c.outbound(ru)
	if o == nil {
		return
	}
	isArmCall := func(cl *core.Call) bool { return cl.Static != nil && o.arming[cl.Static] != nil }
	armOn := func(p *core.Path, cl *core.Call) *armSite {
		t, _ := c.armTarget(o, p, cl)
		return t
	}
	fan := c.fanOut(o)
	if !ru.Anchor(fan != nil, "the fan-out function (looks sessions up and calls the arming functions)") {
		return
	}
	c.R.Fn(c.fname(fan))
	lk := c.fanLookup(o, fan)
	g := lk.site
	if lk.helper != nil {
		c.R.Fn(c.fname(lk.helper))
	}
	loop, exitFn, exitLoop, callSite := c.fanLoop(o, fan, g)
	if loop == nil {
		ru.Fail("fan-out loop of "+c.fname(fan), c.where(fan, fan), "the registry lookup is not inside a loop over the recipients")
		return
	}
	directGet := func(f *ssa.Function) bool {
		return f != nil && f.Parent() == nil && o.arming[f] == nil && c.callsTransitively(f, 0, func(x *core.Call) bool { return x.Is(o.midGet) })
	}
	paths, err := c.pathsInlinedWorth(fan, core.PathOpts{Start: g.Instr.Block(), Stop: func(b *ssa.BasicBlock) bool { return loop.Header != nil && b == loop.Header }},
		func(cl *core.Call) bool {
			return isArmCall(cl) || cl.Is(o.midGet, o.midPut) || directGet(cl.Static) || (cl.Obj != nil && cl.Obj.Pkg() != nil && cl.Obj.Pkg().Path() == pkgEncoder)
		},
		func(f *ssa.Function) bool { return o.arming[f] != nil },
		func(f *ssa.Function) bool { return f == lk.helper })
	if err != nil {
		ru.Undecided("fan-out loop of "+c.fname(fan), c.where(fan, fan), err.Error())
		return
	}
	ru.Evals(len(paths))
	bad := ""
	rows := map[string]int{}
	takesIDMemo := map[*ssa.Function]bool{}
	takesID := func(f *ssa.Function) bool {
		if v, ok := takesIDMemo[f]; ok {
			return v
		}
		v := directGet(f)
		takesIDMemo[f] = v
		return v
	}
	for _, p := range paths {
		reg := tri{}
		for _, cd := range p.Conds {
			if bo, ok := cd.V.(*ssa.BinOp); ok && (bo.Op == token.EQL || bo.Op == token.NEQ) && (p.Resolve(bo.X) == lk.get.Value() || p.Resolve(bo.Y) == lk.get.Value()) {
				reg = tri{true, !cd.Val} // positive term: Get(..) == nil
			}
		}
		qos := int64(-1)
		for _, cd := range p.Conds {
			if bo, ok := cd.V.(*ssa.BinOp); ok && bo.Op == token.EQL && cd.Val && strings.HasSuffix(core.Term(bo.X), ".Qos") {
				if k, ok := constInt(bo.Y); ok {
					qos = k
				}
			}
		}
		writes, arms, midGets := 0, 0, 0
		failedEarly := errorNonNilOnPath(p)
		for _, pc := range p.Calls() {
			switch {
			case pc.Obj != nil && pc.Obj.Pkg() != nil && pc.Obj.Pkg().Path() == pkgEncoder:
				writes++
			case armOn(p, pc.Call) != nil:
				arms++
				tgt, off := c.armTarget(o, p, pc.Call)
				if tgt.sessIdx-off >= 0 && !same(p.Resolve(pc.Common.Args[tgt.sessIdx-off]), lk.get.Value()) && !same(p.Resolve(pc.Common.Args[tgt.sessIdx-off]), lk.sess) {
					bad = "the message is armed for a session other than the recipient looked up in this iteration"
				}
			case pc.Is(o.midGet) || (pc.Static != nil && pc.Static.Parent() == nil && o.arming[pc.Static] == nil && takesID(pc.Static)):
				midGets++
			}
		}
		switch {
		case !reg.known:
			if writes+arms > 0 {
				bad = "something is written for a recipient without checking that it is registered"
			}
		case !reg.val:
			rows["unregistered"]++
			if writes+arms+midGets > 0 {
				bad = "a recipient that is not registered still gets a write / an identifier"
			}
		default:
			switch qos {
			case 0:
				rows["qos0"]++
				if writes != 1 || arms != 0 {
					bad = fmt.Sprintf("QoS 0 recipient: %d direct writes, %d arming calls (want 1, 0)", writes, arms)
				}
			case 1, 2:
				rows[fmt.Sprintf("qos%d", qos)]++
				if failedEarly && arms == 0 {
					continue // could not obtain an identifier
				}
				if arms != 1 || writes != 0 || midGets != 1 {
					bad = fmt.Sprintf("QoS %d recipient: %d arming calls, %d direct writes, %d identifiers taken (want 1, 0, 1): the message would be delivered twice, or two identifiers bound to one delivery", qos, arms, writes, midGets)
				}
			}
		}
	}
	for _, r := range []string{"unregistered", "qos0", "qos1", "qos2"} {
		if rows[r] == 0 && bad == "" {
			bad = "no path of the fan-out iteration covers the case " + r
		}
	}
	ru.Check(bad == "", "per-recipient table of "+c.fname(fan), c.where(fan, fan), fmt.Sprintf("rows %v", rows), bad)
	// the recipient loop is left only through its normal end
	bad = ""
	for b := range exitLoop.Blocks {
		if _, isRet := b.Instrs[len(b.Instrs)-1].(*ssa.Return); isRet {
			bad = "return inside the recipient loop"
		}
		for _, sb := range b.Succs {
			if !exitLoop.Blocks[sb] && b != exitLoop.Header {
				bad = "the recipient loop can be left early at " + c.P.Pos(lastPos(b)) + ": when one recipient is missing or cannot be served, the recipients listed after it never receive the message"
			}
		}
	}
	if callSite != nil {
		// the loop body is the fan-out function itself: it must be called on every iteration
		for _, pr := range exitLoop.Header.Preds {
			if exitLoop.Blocks[pr] && !callSite.Block().Dominates(pr) {
				bad = "an iteration of the recipient loop can skip the call that serves its recipient (" + c.P.Pos(lastPos(pr)) + ")"
			}
		}
	}
	ru.Check(bad == "", "exits of the recipient loop in "+c.fname(exitFn), c.where(exitFn, exitFn), "only the loop's normal end", bad)
	// the packet armed for a recipient is that recipient's own object
	bad = ""
	nArm := 0
	for _, cl := range c.callsDeep(fan, 2) {
		tgt, off := c.armTarget(o, nil, cl)
		if tgt == nil || o.arming[cl.Instr.Parent()] != nil || enclosingTop(cl.Instr.Parent()) != cl.Instr.Parent() {
			continue
		}
		inLoop := false
		for _, at := range c.liftTo(fan, cl.Instr) {
			if loop.Blocks[at.Block()] {
				inLoop = true
			}
		}
		if tgt.pktIdx-off < 0 || !inLoop {
			continue
		}
		nArm++
		bo := c.builtObject(deepStrip(cl.Common.Args[tgt.pktIdx-off]))
		if bo == nil || bo.site.Parent() != fan {
			bad = "the packet handed to " + c.fname(tgt.fn) + " is not a packet built in the fan-out"
			continue
		}
		al := bo.alloc
		if !loop.Blocks[bo.site.Block()] {
			bad = "the packet armed for each recipient is one object allocated before the recipient loop and rewritten per recipient: every in-flight entry and retransmission closure of the delivery ends up pointing at the last recipient's identifier, QoS and topic"
		}
		// parts of the packet reached through a pointer (its header) are per recipient too when they are written per recipient
		if al.Parent() == fan && al.Referrers() != nil {
			for _, r := range *al.Referrers() {
				fa, ok := r.(*ssa.FieldAddr)
				if !ok || fa.Referrers() == nil {
					continue
				}
				for _, rr := range *fa.Referrers() {
					st, ok := rr.(*ssa.Store)
					if !ok || st.Addr != ssa.Value(fa) {
						continue
					}
					part, ok := core.Strip(st.Val).(*ssa.Alloc)
					if !ok || part.Parent() != fan || loop.Blocks[part.Block()] || part.Referrers() == nil {
						continue
					}
					for _, pr := range *part.Referrers() {
						pfa, ok := pr.(*ssa.FieldAddr)
						if !ok || pfa.Referrers() == nil {
							continue
						}
						for _, prr := range *pfa.Referrers() {
							if pst, ok := prr.(*ssa.Store); ok && pst.Addr == ssa.Value(pfa) && loop.Blocks[pst.Block()] {
								bad = "the " + fieldNameOf(fa.X.Type(), fa.Field) + " of every recipient's packet is one object allocated before the recipient loop (" + c.whereI(part) + ") and rewritten per recipient (" + c.whereI(pst) + "): the packets already registered in flight see the last recipient's values, so a retransmission goes out with another recipient's QoS"
							}
						}
					}
				}
			}
		}
	}
	ru.Check(bad == "" && nArm > 0, "per-recipient packet in "+c.fname(fan), c.where(fan, fan), fmt.Sprintf("%d arming call(s), each on a packet allocated in its own iteration", nArm), bad)
	// the lookup key is the recipient of this iteration
	keyOK := depReaches(g.Arg(0), func(v ssa.Value) bool {
		ia, ok := v.(*ssa.IndexAddr)
		if !ok {
			return false
		}
		if reachesParam(ia.X, fan, sliceStringParam(fan)) {
			return true
		}
		// the loop body called with the recipient itself: the element is taken in the caller, from its recipients parameter
		return exitFn != fan && reachesParam(ia.X, exitFn, sliceStringParam(exitFn))
	})
	ru.Check(keyOK, "registry key in "+c.fname(fan), c.whereI(g.Instr), "LocalState.Get(recipients[i])", "the session is not looked up by the recipient's id")
}

func lastPos(b *ssa.BasicBlock) token.Pos {
	for i := len(b.Instrs) - 1; i >= 0; i-- {
		if p := b.Instrs[i].Pos(); p.IsValid() {
			return p
		}
	}
	return b.Parent().Pos()
}

func sliceStringParam(f *ssa.Function) int {
	for i, p := range f.Params {
		if sl, ok := p.Type().Underlying().(*types.Slice); ok {
			if bt, ok := sl.Elem().Underlying().(*types.Basic); ok && bt.Kind() == types.String {
				return i
			}
		}
	}
	return -1
}

func checkC06(c *Ctx) {
	c.R.Explanation = "Only the ownership discipline around the identifier pool is decided: (R1) in the fan-out each identifier taken from the pool is bound to exactly one arming call for the recipient of that iteration, and released if arming fails; (R2) every terminal path of every outbound in-flight callback releases the identifier exactly once and non-terminal paths never do (decision table shared with C03); (R3) the pool's interval list is only touched under the pool mutex and its binary search uses a monotone predicate."
	c.R.NotCovered = "The allocator's interval arithmetic itself — uniqueness, idempotent release, exhaustion, panic-freedom over all Get/Put histories — is value-level and NOT decided by this check (reading suggests Get re-initialises on exhaustion and Put indexes [-1] on an empty list)."
	c.rulePerRecipientWrites("C06-R1")
	// R2: reuse the C03 decision table under C06 ids
	sub := &Ctx{P: c.P, R: c.R, Tier: c.Tier}
	checkC03Table(sub, "C06-R2")
	// R3
	ru3 := c.R.Rule("C06-R3", "the identifier pool's free list is read and written only under the pool mutex", "E5 lockset", 1)
	la := c.lockAnalysis()
	pool := c.idPool(ru3)
	found := false
	for _, m := range la.monitors {
		for n, mi := range m.fields {
			if mi.guardLock() == "" || pool == nil || m.named != pool.named {
				continue
			}
			found = true
			bad := ""
			for _, a := range mi.accesses {
				if a.ctor {
					continue
				}
				if ok, _ := la.accessOK(a, mi.guardLock()); !ok {
					bad = fmt.Sprintf("%s is accessed at %s without the pool mutex: two goroutines can be handed the same identifier", n, c.whereI(a.instr))
				}
			}
			ru3.Check(bad == "", "guarded member "+m.named.Obj().Name()+"."+n, c.P.Pos(m.named.Obj().Pos()), fmt.Sprintf("%d accesses under %s", len(mi.accesses), mi.guardLock()), bad)
		}
	}
	ru3.Anchor(found, "a mutex-guarded member in the identifier pool")
	c.checkSortSearchSites("C06-R4", func(f *ssa.Function) bool {
		if pool == nil || f.Signature.Recv() == nil {
			return false
		}
		n, ok := derefT(enclosingTop(f).Signature.Recv().Type()).(*types.Named)
		return ok && n == pool.named
	}, 1)
	c.ruleFreeListShrink("C06-R5")
	c.ruleFreeListBounds("C06-R6")
	c.ruleExhaustion("C06-R7")
	c.ruleSearchPostcondition("C06-R8")
	c.ruleAppendAliasing("C06-R9", "wasp")
	c.ruleNoLostUpdateOnCopy("C06-R10")
}

func checkC07(c *Ctx) {
	c.R.Explanation = "Static rules over wasp/packets.go, wasp/distributed/topics.go, topics/node.go: (R1) publish worker decision table on retain × payload: retain∧empty ⇒ one Topics.Delete(topic); retain∧non-empty ⇒ one Topics.Set(publish); ¬retain ⇒ neither; the retain flag is cleared after storing and before distributing (live copy unflagged, stored copy flagged); (R2) subscribe arm: after the SUBACK, for every filter subscribed Topics.Get(that filter) is called and each message returned is sent to this session only, with the QoS of that filter, the loop being left early only with an error; (R3) Topics.Get lists only IsEntryAdded entries; (R4) the outgoing copy takes its retain flag from the source publish; (R5) non-interference in the retained trie match; (R6) retained entries follow the merge decision table (a clear that overtakes its publish is kept)."
	c.R.NotCovered = "Trie match semantics over all filters, 'most recent' as a timestamp order (C08), exactly-once per matching topic across nodes."
	ru1 := c.R.Rule("C07-R1", "publish worker: retain∧empty payload ⇒ exactly one Topics.Delete(publish.Topic), no Set; retain∧payload ⇒ exactly one Topics.Set(publish), no Delete; ¬retain ⇒ neither; on retain paths Header.Retain is set false after the store and before Distribute", "E1 scenario rows + event order", 3)
	dist := c.cm(ru1, "wasp", "PublishDistributor", "Distribute")
	tset := c.im(ru1, "wasp/distributed", "TopicsState", "Set")
	tdel := c.im(ru1, "wasp/distributed", "TopicsState", "Delete")
	tget := c.im(ru1, "wasp/distributed", "TopicsState", "Get")
	if dist == nil || tset == nil || tdel == nil || tget == nil {
		return
	}
	var worker *ssa.Function
	for _, f := range c.P.ModFuncs() {
		if len(core.CallsTo(f, dist)) > 0 && c.reaches(f, 3, isAny(tset)) && c.reaches(f, 3, isAny(tdel)) {
			worker = f
		}
	}
	if ru1.Anchor(worker != nil, "the publish worker (calls Distribute and the retained store)") {
		c.R.Fn(c.fname(worker))
		d := core.CallsTo(worker, dist)[0]
		// region: from the block that starts handling a request to Distribute: use all paths from the function's blocks that reach Distribute's block, starting at the dominator that reads Retain
		var start *ssa.BasicBlock
		for _, b := range worker.Blocks {
			if iff, ok := b.Instrs[len(b.Instrs)-1].(*ssa.If); ok && strings.HasSuffix(core.Term(iff.Cond), ".Retain") && b.Dominates(d.Instr.Block()) {
				start = b
			}
		}
		if start == nil {
			ru1.Fail("retain handling in "+c.fname(worker), c.where(worker, worker), "the worker never tests the retain flag before distributing")
		} else {
			paths, err := c.pathsInlined(worker, core.PathOpts{Start: start, Stop: func(b *ssa.BasicBlock) bool { return b == start }}, isAny(tset, tdel), nil)
			if err != nil {
				ru1.Undecided("retain handling in "+c.fname(worker), c.where(worker, worker), err.Error())
			} else {
				ru1.Evals(len(paths))
				rows := map[string]string{}
				seen := map[string]int{}
				for _, p := range paths {
					hasDist := false
					for _, pc := range p.Calls() {
						if pc.Instr == d.Instr {
							hasDist = true
						}
					}
					if !hasDist {
						continue
					}
					retain, empty := tri{}, tri{}
					for _, cd := range p.Conds {
						t := cd.Term
						switch {
						case strings.HasSuffix(t, ".Retain"):
							retain = tri{true, cd.Val}
						case strings.Contains(t, ".Payload") && strings.Contains(t, "== nil"):
							if cd.Val {
								empty = tri{true, true}
							}
						case strings.Contains(t, "builtin:len(") && strings.Contains(t, ".Payload"):
							// (0 == len(payload))
							if strings.HasPrefix(t, "(0 == ") {
								empty = tri{true, cd.Val}
							}
						}
					}
					sets, dels := 0, 0
					var lastStore, clearAt, distAt = -1, -1, -1
					for i, pi := range p.Instrs() {
						if cl := core.CallOf(pi.In); cl != nil {
							if _, isDefer := pi.In.(*ssa.Defer); isDefer && !pi.Deferred {
								continue
							}
							switch {
							case cl.Is(tset):
								sets++
								lastStore = i
								if !isPublishPtr(cl.Arg(0).Type()) || core.Strip(p.Resolve(core.Strip(cl.Arg(0)))) != core.Strip(d.Common.Args[2]) {
									rows["provenance"] = "what is retained is not the publish being distributed"
								}
							case cl.Is(tdel):
								dels++
								lastStore = i
								if !strings.HasSuffix(p.Term(cl.Arg(0)), ".Topic") {
									rows["provenance"] = "the retained topic cleared is not the publish's topic"
								}
							case cl.Instr == d.Instr:
								distAt = i
							}
						}
						if st, ok := pi.In.(*ssa.Store); ok {
							if fa, ok := st.Addr.(*ssa.FieldAddr); ok && fieldNameOf(fa.X.Type(), fa.Field) == "Retain" {
								if k, ok := st.Val.(*ssa.Const); ok && k.Value.String() == "false" {
									clearAt = i
								}
							}
						}
					}
					var row, bad string
					switch {
					case retain.known && !retain.val:
						row = "¬retain"
						if sets+dels != 0 {
							bad = "a non-retained publish touches the retained store"
						}
					case retain.known && retain.val && empty.known && empty.val:
						row = "retain∧empty"
						if dels != 1 || sets != 0 {
							bad = fmt.Sprintf("retained publish with empty payload: %d Delete, %d Set (want 1, 0): the topic is not cleared", dels, sets)
						}
					case retain.known && retain.val && empty.known && !empty.val:
						row = "retain∧payload"
						if sets != 1 || dels != 0 {
							bad = fmt.Sprintf("retained publish with a payload: %d Set, %d Delete (want 1, 0)", sets, dels)
						}
					default:
						continue
					}
					seen[row]++
					if bad == "" && retain.val && !(lastStore >= 0 && clearAt > lastStore && distAt > clearAt) {
						bad = "the retain flag is not cleared between storing the message and distributing it: live copies arrive flagged as retained (or the stored copy loses its flag)"
					}
					if bad != "" {
						rows[row] = bad
					}
				}
				for _, row := range []string{"¬retain", "retain∧empty", "retain∧payload"} {
					ru1.Check(rows[row] == "" && rows["provenance"] == "" && seen[row] > 0, "row "+row+" of "+c.fname(worker), c.where(worker, worker), fmt.Sprintf("%d path(s)", seen[row]), rows[row]+rows["provenance"]+map[bool]string{true: "", false: " (no path covers this row)"}[seen[row] > 0])
				}
			}
		}
	}

	// R2
	ru2 := c.R.Rule("C07-R2", "subscribe arm: for each filter created (the same mounted value), after the SUBACK write, Topics.Get(filter) runs and every message returned is sent through Writer.Send to [this session] only with that filter's QoS; the replay loop is left early only with an error", "E1 loop matcher + E3", 1)
	proc := c.im(ru2, "wasp", "PacketProcessor", "Process")
	subsCreate := c.im(ru2, "wasp/distributed", "SubscriptionsState", "Create")
	wsend := c.im(ru2, "wasp", "Writer", "Send")
	sid := c.cm(ru2, "wasp/sessions", "Session", "ID")
	if proc != nil && subsCreate != nil && wsend != nil && sid != nil {
		var disp *ssa.Function
		for _, f := range c.P.Implementations(proc) {
			if c.P.IsModPkg(f.Package().Pkg) {
				disp = f
			}
		}
		if ru2.Anchor(disp != nil, "dispatcher") {
			c.R.Fn(c.fname(disp))
			bad := ""
			// the arm may be spread over helpers of the dispatcher (one per packet type, one per step)
			creates := c.callsToDeep(disp, 3, subsCreate)
			gets := c.callsToDeep(disp, 3, tget)
			sends := c.callsToDeep(disp, 3, wsend)
			var subacks []*core.Call
			for _, g := range c.funcsDeep(disp, 3) {
				subacks = append(subacks, c.encodesOf(g, "SubAck")...)
			}
			if len(creates) != 1 || len(gets) != 1 || len(sends) != 1 || len(subacks) != 1 {
				bad = fmt.Sprintf("subscribe arm shape: %d Create, %d Topics.Get, %d Writer.Send, %d SUBACK (want 1 each)", len(creates), len(gets), len(sends), len(subacks))
			} else {
				cr, g, s, ack := creates[0], gets[0], sends[0], subacks[0]
				// same filter slice feeds Create and Get
				srcOf := func(v ssa.Value) ssa.Value {
					var found ssa.Value
					depReaches(v, func(x ssa.Value) bool {
						if ms, ok := x.(*ssa.MakeSlice); ok {
							found = ms
							return true
						}
						if cv, ok := x.(*ssa.Call); ok {
							if _, isSlice := cv.Type().Underlying().(*types.Slice); isSlice && cv.Call.StaticCallee() != nil && cv.Call.StaticCallee().Pkg != nil && c.P.IsModPkg(cv.Call.StaticCallee().Pkg.Pkg) {
								found = cv
								return true
							}
						}
						return false
					})
					return found
				}
				if srcOf(cr.Arg(1)) == nil || srcOf(cr.Arg(1)) != srcOf(g.Arg(0)) {
					bad = "retained messages are looked up with other filters than the ones subscribed"
				}
				if !c.runsBefore(disp, ack.Instr, g.Instr) {
					bad = "retained messages are replayed before (or without) the SUBACK"
				}
				// recipients: single-element slice holding session.ID()
				okRec := false
				depReaches(s.Arg(1), func(x ssa.Value) bool {
					if cv, ok := x.(*ssa.Call); ok && core.CallOf(cv).Is(sid) {
						okRec = true
					}
					return false
				})
				if al, ok := core.Strip(s.Arg(1)).(*ssa.Slice); ok {
					if arr, ok := al.X.(*ssa.Alloc); ok {
						if at, ok := derefT(arr.Type()).Underlying().(*types.Array); !ok || at.Len() != 1 {
							okRec = false
						}
					}
				}
				if !okRec {
					bad = "retained messages are not sent to exactly [this session]"
				}
				if !strings.Contains(core.Term(s.Arg(3)), ".Publish") || !depReaches(s.Arg(3), func(x ssa.Value) bool { return x == g.Value() }) {
					bad = "what is replayed is not the publish of a message returned by Topics.Get"
				}
				if !depReaches(s.Arg(2), func(x ssa.Value) bool {
					fa, ok := x.(*ssa.FieldAddr)
					return ok && fieldNameOf(fa.X.Type(), fa.Field) == "Qos" && isNamed(fa.X.Type(), pkgPacket, "Subscribe")
				}) {
					bad = "the replay does not use the QoS granted for that filter"
				}
				// early exits of the replay loop
				gf := g.Instr.Parent()
				c.R.Fn(c.fname(gf))
				l := core.InnermostLoop(core.Loops(gf), g.Instr.Block())
				startBlock := g.Instr.Block()
				if l == nil {
					// the replay of one filter is a helper called once per filter (sendRetained(ctx, session, filter, qos))
					if site, cl := c.callerLoop(gf); cl != nil {
						gf, l, startBlock = site.Parent(), cl, site.Block()
						c.R.Fn(c.fname(gf))
					}
				}
				if l != nil {
					paths, err := core.EnumPaths(gf, core.PathOpts{Start: startBlock})
					if err == nil {
						ru2.Evals(len(paths))
						for _, p := range paths {
							if _, ok := p.Exit.(*ssa.Return); !ok {
								continue
							}
							// did the path leave from inside the loop (not through the header's exit)?
							leftInside := false
							for i := 1; i < len(p.Blocks); i++ {
								if l.Blocks[p.Blocks[i-1]] && !l.Blocks[p.Blocks[i]] && p.Blocks[i-1] != l.Header {
									leftInside = true
								}
							}
							if leftInside {
								if isNil, known := p.ReturnsNilError(); !known || isNil {
									bad = "the replay loop is left early without an error: the filters that follow in the same SUBSCRIBE get no retained messages — " + fmtPath(p, c.P)
								}
							}
						}
					}
				} else {
					bad = "Topics.Get is not called in a loop over the subscribed filters"
				}
			}
			ru2.Check(bad == "", "retained replay in the subscribe arm of "+c.fname(disp), c.where(disp, disp), "Create(f) … SUBACK … for each f: Get(f) → Send([session], qos(f), m.Publish)", bad)
		}
	}
	ru0 := c.R.Rule("C07-R0", "anchors", "", 0)
	if d := c.dstate(ru0); d != nil {
		sub := *d
		sub.queries = nil
		for _, q := range d.queries {
			if d.queryIface[q] == "TopicsState" {
				sub.queries = append(sub.queries, q)
			}
		}
		c.ruleVisibility("C07-R3", &sub, 1)
		c.ruleMergeTable("C07-R6", d)
		c.ruleSuccessWrites("C07-R8", d, "TopicsState")
	}
	c.ruleRetainedWildcardParent("C07-R7")
	// R4
	ru4 := c.R.Rule("C07-R4", "the per-recipient outgoing packet copies Header.Retain from the source publish (a replayed retained message arrives flagged; a live copy arrives unflagged because the worker cleared the flag)", "E3 provenance", 1)
	if o := c.outbound(ru4); o != nil {
		if fan := c.fanOut(o); ru4.Anchor(fan != nil, "the fan-out function") {
			srcIdx := -1
			for i, p := range fan.Params {
				if isPublishPtr(p.Type()) {
					srcIdx = i
				}
			}
			for i, pk := range c.deliveryPackets(o, fan) {
				c.R.Fn(c.fname(pk.alloc.Parent()))
				key := fmt.Sprintf("outgoing retain flag #%d (packet built in %s)", i+1, c.fname(pk.alloc.Parent()))
				hdr := c.sub(pk, "Header")
				var rv ssa.Value
				if hdr != nil {
					rv = hdr.field("Retain")
				}
				ok := false
				if rv != nil {
					if fa, isF := isLoadOfField(rv, "Retain"); isF && isNamed(fa.X.Type(), pkgPacket, "Header") && srcIdx >= 0 && reachesParam(rv, fan, srcIdx) {
						ok = true
					}
				}
				detail := "the outgoing copy does not take its retain flag from the source publish"
				if rv != nil {
					detail += ": " + short(core.Term(rv), 60)
				}
				ru4.Check(ok, key, c.whereI(pk.site), "copied from the source publish", detail)
			}
		}
	}
	match := c.implOf(ru0, "topics", "Store", "Match")
	c.ruleNonInterference("C07-R5", "topics", match, "the retained-message trie match")
}

// ruleVisitOnce implements C01-R6: within one step of the trie walk no child node is acted upon twice.
func (c *Ctx) ruleVisitOnce(id, pkg string, entry *ssa.Function) {
	ru := c.R.Rule(id, "one walk step acts on each child at most once: two actions (emit its subscribers / descend into it) that can happen on the same path never target children that may be the same node — same range iteration, or map lookups whose keys are not provably different (a topic level is client-chosen and may equal a wildcard character)", "E1 paths of the recursive routine + E3 source of each child", 1)
	head, members := c.trieWalk(pkg, entry)
	if !ru.Anchor(head != nil, "the recursive walk routine") {
		return
	}
	for _, f := range []*ssa.Function{head} {
		c.R.Fn(c.fname(f))
		paths, err := c.pathsInlinedPkg(f, core.PathOpts{}, nil)
		if err != nil {
			ru.Undecided("child visits in "+c.fname(f), c.where(f, f), err.Error())
			continue
		}
		ru.Evals(len(paths))
		type action struct {
			in     ssa.Instruction
			next   *ssa.Next
			lookup *ssa.Lookup
		}
		bad := ""
		for _, p := range paths {
			var acts []action
			for _, pc := range p.Calls() {
				var subject ssa.Value
				switch {
				case pc.Static != nil && members[pc.Static] && len(pc.Common.Args) > 0:
					subject = pc.Common.Args[0]
				case pc.Static == nil && !pc.Invoke && pc.Builtin() == "" && len(pc.Common.Args) > 0:
					subject = pc.Common.Args[0]
				default:
					continue
				}
				a := action{in: pc.Instr}
				containerReachesLoads(p.Resolve(subject), func(x ssa.Value) bool {
					switch y := x.(type) {
					case *ssa.Next:
						a.next = y
						return true
					case *ssa.Lookup:
						if _, isMap := y.X.Type().Underlying().(*types.Map); isMap {
							a.lookup = y
							return true
						}
					}
					return false
				})
				if a.next != nil || a.lookup != nil {
					acts = append(acts, a)
				}
			}
			for i := 0; i < len(acts); i++ {
				for j := i + 1; j < len(acts); j++ {
					a, b := acts[i], acts[j]
					switch {
					case a.next != nil && b.next != nil && a.next == b.next:
						bad = "two actions on the child of one range iteration (" + c.whereI(a.in) + " and " + c.whereI(b.in) + "): its subscribers are reported twice"
					case a.lookup != nil && b.lookup != nil:
						ka, kb := a.lookup.Index, b.lookup.Index
						ca, okA := ka.(*ssa.Const)
						cb, okB := kb.(*ssa.Const)
						if okA && okB && ca.Value.ExactString() != cb.Value.ExactString() {
							continue
						}
						ta, tb := core.Term(ka), core.Term(kb)
						distinct := false
						for _, cd := range p.Conds {
							if (cd.Term == "("+ta+" == "+tb+")" || cd.Term == "("+tb+" == "+ta+")") && !cd.Val {
								distinct = true
							}
						}
						if !distinct {
							bad = fmt.Sprintf("children fetched with keys %s and %s are both acted upon (%s, %s) without establishing that the keys differ: when a topic level equals that key the same child is visited twice and its subscribers receive the message twice", short(ta, 40), short(tb, 40), c.whereI(a.in), c.whereI(b.in))
						}
					case (a.next != nil) != (b.next != nil):
						bad = "a child reached by iteration and a child reached by lookup are both acted upon on one path: they may be the same node"
					}
				}
			}
		}
		ru.Check(bad == "", "child visits in "+c.fname(f), c.where(f, f), fmt.Sprintf("%d path(s), no child acted upon twice", len(paths)), bad)
	}
}

// ruleFreeListShrink implements C06-R5: an assignment to the pool's free list never discards more than one interval.
func (c *Ctx) ruleFreeListShrink(id string) {
	ru := c.R.Rule(id, "the pool's free list loses at most one interval per step: it is never re-sliced from a variable low bound (s = s[i:]) or to an arbitrary high bound, and a deletion by append(s[:h], s[l:]...) has l == h or l == h+1 — free identifiers never vanish en bloc", "E11 shape rule on stores to the guarded free list", 3)
	la := c.lockAnalysis()
	pool := c.idPool(ru)
	n := 0
	for _, m := range la.monitors {
		if pool == nil || m.named != pool.named {
			continue
		}
		for fname, mi := range m.fields {
			if mi.guardLock() == "" {
				continue
			}
			for _, a := range mi.accesses {
				st, ok := a.instr.(*ssa.Store)
				if !ok || a.ctor {
					continue
				}
				if _, isSlice := st.Val.Type().Underlying().(*types.Slice); !isSlice {
					continue
				}
				n++
				key := fmt.Sprintf("assignment #%d to %s.%s in %s", n, m.named.Obj().Name(), fname, c.fname(a.fn))
				isList := func(v ssa.Value) bool {
					ld, ok := v.(*ssa.UnOp)
					if !ok || ld.Op != token.MUL {
						return false
					}
					fa, ok := ld.X.(*ssa.FieldAddr)
					return ok && fieldNameOf(fa.X.Type(), fa.Field) == fname
				}
				bad := ""
				switch v := st.Val.(type) {
				case *ssa.Slice:
					if isList(v.X) {
						if v.Low != nil {
							if k, ok := constInt(v.Low); !ok || k > 1 {
								bad = "the free list is re-sliced from a variable low bound: every interval below it — identifiers that are free — is discarded"
							}
						}
						if v.High != nil && v.Low == nil {
							okHigh := false
							if bo, ok := v.High.(*ssa.BinOp); ok && bo.Op == token.SUB {
								if k, ok := constInt(bo.Y); ok && k == 1 {
									okHigh = true
								}
							}
							if !okHigh {
								bad = "the free list is truncated to an arbitrary length"
							}
						}
					}
				case *ssa.Call:
					if core.CallOf(v).Builtin() == "append" && len(v.Call.Args) == 2 {
						a0, okA := v.Call.Args[0].(*ssa.Slice)
						b0, okB := v.Call.Args[1].(*ssa.Slice)
						if okA && okB && isList(a0.X) && isList(b0.X) && a0.High != nil && b0.Low != nil && a0.Low == nil && b0.High == nil {
							h, l := a0.High, b0.Low
							same := h == l || core.Term(h) == core.Term(l)
							plusOne := false
							if bo, ok := l.(*ssa.BinOp); ok && bo.Op == token.ADD {
								if k, ok := constInt(bo.Y); ok && k == 1 && (bo.X == h || core.Term(bo.X) == core.Term(h)) {
									plusOne = true
								}
							}
							if bo, ok := h.(*ssa.BinOp); ok && bo.Op == token.SUB {
								if k, ok := constInt(bo.Y); ok && k == 1 && (bo.X == l || core.Term(bo.X) == core.Term(l)) {
									plusOne = true
								}
							}
							// through a helper's parameters (putBetween(idx-1, idx, mid)): base value and constant offset
							if hb, ho := affineOf(h); hb != nil {
								if lb, lo := affineOf(l); lb == hb && (lo == ho || lo == ho+1) {
									same = true
								}
							}
							if !same && !plusOne {
								bad = "append(s[:h], s[l:]...) with l not in {h, h+1}: more than one interval is dropped from the free list"
							}
						}
					}
				}
				ru.Check(bad == "", key, c.whereI(st), "no interval is lost en bloc", bad)
			}
		}
	}
}

// fanOut finds the fan-out function: it looks sessions up in the registry inside a loop and reaches the arming functions
// (directly or through per-QoS helpers), and is not itself arming.
func (c *Ctx) fanOut(o *outbound) *ssa.Function {
	isArmCall := func(cl *core.Call) bool { return cl.Static != nil && o.arming[cl.Static] != nil }
	var fan *ssa.Function
	for _, f := range c.P.ModFuncs() {
		if o.arming[f] != nil || f.Parent() != nil {
			continue
		}
		lk := c.fanLookup(o, f)
		if lk == nil {
			continue
		}
		inLoop := false
		if core.InnermostLoop(core.Loops(f), lk.site.Instr.Block()) != nil {
			inLoop = true
		} else if _, cl := c.callerLoop(f); cl != nil {
			inLoop = true // the body of the recipient loop is this function: one call per recipient
		}
		if inLoop && c.reaches(f, 3, isArmCall) {
			fan = f
		}
	}
	return fan
}

// fanLookup describes how function f looks a recipient up in the local registry: directly (LocalState.Get called in f),
// or through a look-up helper of its package that returns what LocalState.Get gave it (recipientSession(id) (s, ok)).
type fanLookupInfo struct {
	site   *core.Call    // the call in f: LocalState.Get itself, or the call of the helper
	get    *core.Call    // the LocalState.Get call (in f or in the helper)
	sess   ssa.Value     // the value that denotes the session found, in f
	helper *ssa.Function // nil for a direct look-up
}

func (c *Ctx) fanLookup(o *outbound, f *ssa.Function) *fanLookupInfo {
	if gets := core.CallsTo(f, o.localGet); len(gets) > 0 {
		return &fanLookupInfo{site: gets[0], get: gets[0], sess: gets[0].Value()}
	}
	for _, cl := range core.CallsIn(f) {
		h := cl.Static
		if h == nil || h == f || h.Pkg != f.Pkg || h.Parent() != nil || o.arming[h] != nil || cl.Value() == nil {
			continue
		}
		if _, isGo := cl.Instr.(*ssa.Go); isGo {
			continue
		}
		gets := core.CallsTo(h, o.localGet)
		if len(gets) != 1 || core.InnermostLoop(core.Loops(h), gets[0].Instr.Block()) != nil {
			continue
		}
		// which result carries the session
		gv := gets[0].Value()
		idx := -1
		for _, b := range h.Blocks {
			if r, ok := b.Instrs[len(b.Instrs)-1].(*ssa.Return); ok {
				for i, rv := range r.Results {
					if core.Strip(rv) == gv {
						idx = i
					}
				}
			}
		}
		if idx < 0 {
			continue
		}
		info := &fanLookupInfo{site: cl, get: gets[0], helper: h}
		if h.Signature.Results().Len() == 1 {
			info.sess = cl.Value()
		} else if cl.Value().Referrers() != nil {
			for _, r := range *cl.Value().Referrers() {
				if ex, ok := r.(*ssa.Extract); ok && ex.Index == idx {
					info.sess = ex
				}
			}
		}
		if info.sess == nil {
			continue
		}
		return info
	}
	return nil
}

// callerLoop: f is called from exactly one place in the module, inside a loop: the caller and that loop.
func (c *Ctx) callerLoop(f *ssa.Function) (ssa.CallInstruction, *core.Loop) {
	sites := c.P.StaticCallers(f)
	if len(sites) != 1 {
		return nil, nil
	}
	l := core.InnermostLoop(core.Loops(sites[0].Parent()), sites[0].Block())
	if l == nil {
		return nil, nil
	}
	return sites[0], l
}

// fanLoop returns the recipient loop as the per-recipient rules need it: the set of blocks that run once per recipient
// (the loop's blocks, or the whole fan-out function when it is the loop's body called from another function; Header
// is nil then), and the function and loop whose exits decide whether every recipient is served.
func (c *Ctx) fanLoop(o *outbound, fan *ssa.Function, g *core.Call) (iter *core.Loop, exitFn *ssa.Function, exitLoop *core.Loop, callSite ssa.CallInstruction) {
	if l := core.InnermostLoop(core.Loops(fan), g.Instr.Block()); l != nil {
		return l, fan, l, nil
	}
	site, cl := c.callerLoop(fan)
	if cl == nil {
		return nil, nil, nil, nil
	}
	blocks := map[*ssa.BasicBlock]bool{}
	for _, b := range fan.Blocks {
		blocks[b] = true
	}
	return &core.Loop{Blocks: blocks}, site.Parent(), cl, site
}

// deliveryPackets lists the per-recipient packets of the fan-out: what is handed to the arming functions and to the
// encoder's direct PUBLISH write (in the fan-out or its per-QoS helpers), resolved to the literal that builds them.
func (c *Ctx) deliveryPackets(o *outbound, fan *ssa.Function) []*builtObj {
	var out []*builtObj
	seen := map[*ssa.Alloc]bool{}
	for _, cl := range c.callsDeep(fan, 2) {
		if o.arming[cl.Instr.Parent()] != nil || enclosingTop(cl.Instr.Parent()) != cl.Instr.Parent() {
			continue
		}
		var pv ssa.Value
		switch {
		case armIdx(c, o, cl) >= 0:
			pv = cl.Common.Args[armIdx(c, o, cl)]
		case cl.Obj != nil && cl.Obj.Pkg() != nil && cl.Obj.Pkg().Path() == pkgEncoder && cl.Obj.Name() == "Publish" && len(cl.Args()) == 2:
			pv = cl.Args()[1]
		default:
			continue
		}
		if b := c.builtObject(deepStrip(pv)); b != nil && !seen[b.alloc] {
			seen[b.alloc] = true
			out = append(out, b)
		}
	}
	return out
}

// armIdx: the index, among the call's arguments, of the packet handed to an arming function (-1 if cl is not an arming call).
func armIdx(c *Ctx, o *outbound, cl *core.Call) int {
	tgt, off := c.armTarget(o, nil, cl)
	if tgt == nil || tgt.pktIdx-off < 0 || tgt.pktIdx-off >= len(cl.Common.Args) {
		return -1
	}
	return tgt.pktIdx - off
}

// affineOf writes an integer value as base + constant, seeing through conversions, ±constant and the parameters of
// helpers with one call site (the argument passed there).
func affineOf(v ssa.Value) (ssa.Value, int64) {
	off := int64(0)
	for i := 0; i < 12; i++ {
		v = deepStrip(v)
		bo, ok := v.(*ssa.BinOp)
		if !ok {
			return v, off
		}
		k, isK := constInt(bo.Y)
		if !isK {
			return v, off
		}
		switch bo.Op {
		case token.ADD:
			off += k
		case token.SUB:
			off -= k
		default:
			return v, off
		}
		v = bo.X
	}
	return v, off
}
