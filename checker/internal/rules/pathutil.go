package rules

import (
	"go/token"

	"golang.org/x/tools/go/ssa"

	"waspcheck/internal/core"
)

// decided is one two-way branch taken along a (possibly inlined) path: the tested value, the way it went and the
// position of the test in the path's instruction sequence.
type decided struct {
	Cond ssa.Value // the value tested, negations removed
	Val  bool      // the value it had on this path
	Seq  int
	If   *ssa.If
}

// decisions lists the two-way branches along p in execution order. The polarity is read off the instruction
// sequence itself (which successor follows the If), so it is exact for inlined callee bodies too.
func decisions(p *core.Path) []decided {
	flat := p.Instrs()
	var out []decided
	for i, pi := range flat {
		ifi, ok := pi.In.(*ssa.If)
		if !ok || i+1 >= len(flat) {
			continue
		}
		succs := ifi.Block().Succs
		if len(succs) != 2 || succs[0] == succs[1] {
			continue
		}
		nb := flat[i+1].In.Block()
		var val bool
		switch nb {
		case succs[0]:
			val = true
		case succs[1]:
			val = false
		default:
			continue
		}
		cv := ifi.Cond
		for {
			u, isU := cv.(*ssa.UnOp)
			if !isU || u.Op != token.NOT {
				break
			}
			cv = u.X
			val = !val
		}
		out = append(out, decided{Cond: cv, Val: val, Seq: i, If: ifi})
	}
	return out
}

// branchOn reports how the last test of v before position `before` went on p.
func branchOn(p *core.Path, v ssa.Value, before int) (val, known bool) {
	for _, d := range decisions(p) {
		if d.Seq < before && d.Cond == v {
			val, known = d.Val, true
		}
	}
	return
}

// deepestReaching returns the declared functions of package pkgRel from which a call matching each of preds is
// reachable (static calls, depth 3, closures included) and that do not call another such function.
func (c *Ctx) deepestReaching(pkgRel string, preds ...func(*core.Call) bool) []*ssa.Function {
	var cands []*ssa.Function
	for _, f := range c.P.ModFuncs() {
		if f.Parent() != nil || f.Package() == nil || f.Package().Pkg.Path() != c.P.Rel(pkgRel) {
			continue
		}
		all := true
		for _, pr := range preds {
			if !c.reaches(f, 3, pr) {
				all = false
				break
			}
		}
		if all {
			cands = append(cands, f)
		}
	}
	isCand := map[*ssa.Function]bool{}
	for _, f := range cands {
		isCand[f] = true
	}
	var out []*ssa.Function
	for _, f := range cands {
		callsOther := false
		seen := map[*ssa.Function]bool{}
		var walk func(g *ssa.Function, d int)
		walk = func(g *ssa.Function, d int) {
			if d < 0 || seen[g] {
				return
			}
			seen[g] = true
			for _, cl := range core.CallsIn(g) {
				if _, isGo := cl.Instr.(*ssa.Go); isGo {
					continue
				}
				if cl.Static != nil && cl.Static != f {
					if isCand[cl.Static] {
						callsOther = true
					}
					if cl.Static.Pkg != nil && c.P.IsModPkg(cl.Static.Pkg.Pkg) {
						walk(cl.Static, d-1)
					}
				}
			}
		}
		walk(f, 3)
		if !callsOther {
			out = append(out, f)
		}
	}
	return out
}
