package rules

import (
	"fmt"
	"go/token"
	"go/types"

	"golang.org/x/tools/go/ssa"

	"waspcheck/internal/core"
)

// decided is one two-way branch taken along a (possibly inlined) path: the tested value, the way it went and the
// position of the test in the path's instruction sequence.
type decided struct {
	Cond ssa.Value // the value tested, negations removed
	Val  bool      // the value it had on this path
	Seq  int
	If   *ssa.If
}

// decisions lists the two-way branches along p in execution order. The polarity is read off the instruction
// sequence itself (which successor follows the If), so it is exact for inlined callee bodies too.
func decisions(p *core.Path) []decided {
	flat := p.Instrs()
	var out []decided
	for i, pi := range flat {
		ifi, ok := pi.In.(*ssa.If)
		if !ok || i+1 >= len(flat) {
			continue
		}
		succs := ifi.Block().Succs
		if len(succs) != 2 || succs[0] == succs[1] {
			continue
		}
		// the next instruction executed: deferred calls replayed at a return sit in the block that deferred them
		j := i + 1
		for j < len(flat) && flat[j].Deferred {
			j++
		}
		if j >= len(flat) {
			continue
		}
		nb := flat[j].In.Block()
		var val bool
		switch nb {
		case succs[0]:
			val = true
		case succs[1]:
			val = false
		default:
			continue
		}
		cv := ifi.Cond
		for {
			u, isU := cv.(*ssa.UnOp)
			if !isU || u.Op != token.NOT {
				break
			}
			cv = u.X
			val = !val
		}
		out = append(out, decided{Cond: cv, Val: val, Seq: i, If: ifi})
	}
	return out
}

// branchOn reports how the last test of v before position `before` went on p.
func branchOn(p *core.Path, v ssa.Value, before int) (val, known bool) {
	for _, d := range decisions(p) {
		if d.Seq < before && d.Cond == v {
			val, known = d.Val, true
		}
	}
	return
}

// deepestReaching returns the declared functions of package pkgRel from which a call matching each of preds is
// reachable (static calls, depth 3, closures included) and that do not call another such function.
func (c *Ctx) deepestReaching(pkgRel string, preds ...func(*core.Call) bool) []*ssa.Function {
	var cands []*ssa.Function
	for _, f := range c.P.ModFuncs() {
		if f.Parent() != nil || f.Package() == nil || f.Package().Pkg.Path() != c.P.Rel(pkgRel) {
			continue
		}
		all := true
		for _, pr := range preds {
			if !c.reaches(f, 3, pr) {
				all = false
				break
			}
		}
		if all {
			cands = append(cands, f)
		}
	}
	isCand := map[*ssa.Function]bool{}
	for _, f := range cands {
		isCand[f] = true
	}
	var out []*ssa.Function
	for _, f := range cands {
		callsOther := false
		seen := map[*ssa.Function]bool{}
		var walk func(g *ssa.Function, d int)
		walk = func(g *ssa.Function, d int) {
			if d < 0 || seen[g] {
				return
			}
			seen[g] = true
			for _, cl := range core.CallsIn(g) {
				if _, isGo := cl.Instr.(*ssa.Go); isGo {
					continue
				}
				if cl.Static != nil && cl.Static != f {
					if isCand[cl.Static] {
						callsOther = true
					}
					if cl.Static.Pkg != nil && c.P.IsModPkg(cl.Static.Pkg.Pkg) {
						walk(cl.Static, d-1)
					}
				}
			}
		}
		walk(f, 3)
		if !callsOther {
			out = append(out, f)
		}
	}
	return out
}

// guardedByNilResultDeep is guardedByNilResult for a guard call and a target that may sit in different helpers of root:
// on every path of root (its package's helpers inlined) that executes target, the latest execution of guard before it
// had its error result tested and found nil before target runs.
func (c *Ctx) guardedByNilResultDeep(root *ssa.Function, guard *core.Call, target ssa.Instruction) (ok bool, detail string, npaths int) {
	paths, err := c.pathsInlinedPkg(root, core.PathOpts{}, nil)
	if err != nil {
		return false, err.Error(), 0
	}
	n := 0
	for _, p := range paths {
		flat := p.Instrs()
		ds := decisions(p)
		for j, pi := range flat {
			if pi.In != target {
				continue
			}
			gi := -1
			for i := j - 1; i >= 0; i-- {
				if flat[i].In == guard.Instr {
					gi = i
					break
				}
			}
			if gi < 0 {
				return false, "the target is reached without the call before it: " + fmtPath(p, c.P), n
			}
			n++
			tested, isNil := false, false
			for _, d := range ds {
				if d.Seq <= gi || d.Seq >= j {
					continue
				}
				bo, okb := d.Cond.(*ssa.BinOp)
				if !okb || (bo.Op != token.EQL && bo.Op != token.NEQ) {
					continue
				}
				for _, pair := range [][2]ssa.Value{{bo.X, bo.Y}, {bo.Y, bo.X}} {
					k, isK := p.Resolve(pair[1]).(*ssa.Const)
					if isK && k.Value == nil && isErrOperandOf(p.Resolve(pair[0]), guard) {
						tested = true
						isNil = d.Val == (bo.Op == token.EQL)
					}
				}
			}
			if !tested {
				return false, "reached without testing the error: " + fmtPath(p, c.P), n
			}
			if !isNil {
				return false, "reached on a path where the error is non-nil: " + fmtPath(p, c.P), n
			}
		}
	}
	if n == 0 {
		return false, "no path from the call to the target found", 0
	}
	return true, fmt.Sprintf("%d path(s) from the call to the target, all through the nil-error branch", n), n
}

// copyReaches: v may be a copy of target — reachable through loads, stores into the loaded local or struct field
// (field-based: any store in the module to that field of that struct type), helper parameters, captured variables and
// conversions only; no arithmetic and no call results on the way.
func (c *Ctx) copyReaches(v, target ssa.Value) bool {
	tset := map[ssa.Value]bool{}
	for t, i := target, 0; t != nil && i < 12; i++ {
		t = conversionsOnly(t)
		tset[t] = true
		st := core.Strip(t)
		tset[st] = true
		p, ok := st.(*ssa.Parameter)
		if !ok {
			break
		}
		args := callerArgs(p)
		if len(args) != 1 {
			break
		}
		t = args[0]
	}
	seen := map[ssa.Value]bool{}
	var walk func(v ssa.Value, d int) bool
	walk = func(v ssa.Value, d int) bool {
		if v == nil || seen[v] || d > 40 {
			return false
		}
		seen[v] = true
		if tset[v] {
			return true
		}
		switch x := v.(type) {
		case *ssa.Convert:
			return walk(x.X, d+1)
		case *ssa.ChangeType:
			return walk(x.X, d+1)
		case *ssa.Parameter:
			for _, a := range callerArgs(x) {
				if walk(a, d+1) {
					return true
				}
			}
		case *ssa.FreeVar:
			if b := core.FreeVarBinding(x); b != nil {
				return walk(b, d+1)
			}
		case *ssa.Alloc:
			for _, st := range allStoresTo(x) {
				if walk(st.Val, d+1) {
					return true
				}
			}
		case *ssa.UnOp:
			if x.Op != token.MUL {
				return false
			}
			if fa, ok := x.X.(*ssa.FieldAddr); ok {
				for _, f := range c.P.ModFuncs() {
					for _, b := range f.Blocks {
						for _, in := range b.Instrs {
							st, isSt := in.(*ssa.Store)
							if !isSt {
								continue
							}
							fa2, isFA := st.Addr.(*ssa.FieldAddr)
							if isFA && fa2.Field == fa.Field && types.Identical(derefT(fa2.X.Type()), derefT(fa.X.Type())) && walk(st.Val, d+1) {
								return true
							}
						}
					}
				}
				return false
			}
			return walk(x.X, d+1)
		}
		return false
	}
	return walk(v, 0)
}

// resolveCell: the value a load of a local variable yields on path p — the last store into it along the path — also for
// variables captured by closures, provided no closure writes them (all stores are in the variable's own function).
func resolveCell(p *core.Path, v ssa.Value) ssa.Value {
	for i := 0; i < 6; i++ {
		v = p.Resolve(conversionsOnly(v))
		ld, ok := v.(*ssa.UnOp)
		if !ok || ld.Op != token.MUL {
			return v
		}
		al, ok := ld.X.(*ssa.Alloc)
		if !ok {
			return v
		}
		for _, st := range allStoresTo(al) {
			if st.Parent() != al.Parent() {
				return v
			}
		}
		var last ssa.Value
		for _, pi := range p.Instrs() {
			if pi.In == ssa.Instruction(ld) {
				break
			}
			if st, ok := pi.In.(*ssa.Store); ok && st.Addr == ssa.Value(al) {
				last = st.Val
			}
		}
		if last == nil {
			// the path may not contain the load yet (Assume is asked while the path is being built): last store so far
			for _, b := range p.Blocks {
				for _, in := range b.Instrs {
					if st, ok := in.(*ssa.Store); ok && st.Addr == ssa.Value(al) {
						last = st.Val
					}
				}
			}
		}
		if last == nil {
			return v
		}
		v = last
	}
	return v
}
