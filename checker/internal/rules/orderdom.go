package rules

import (
	"fmt"
	"go/constant"
	"go/token"
	"go/types"

	"golang.org/x/tools/go/ssa"
)

// Order-domain abstract interpretation (engine E6).
//
// A pure function whose integer inputs are touched only by comparisons with
// each other and with 0 is determined, for every concrete input, by the weak
// ordering of those inputs and 0. So evaluating it once per weak ordering, with
// each symbol replaced by its rank, tabulates it completely. The evaluator
// below walks the SSA of the function over that abstract domain; any
// instruction outside the fragment (arithmetic, conversion, unknown call) makes
// the result "undecided" rather than approximate.

type odSym struct {
	param int    // index of the Entry parameter
	kind  string // "LA" or "LD"
}

type odVal struct {
	kind  string // "rank", "bool", "entry", "nilentry"
	rank  int
	b     bool
	entry int
}

type odWorld struct {
	rank map[odSym]int
	zero int
}

type odEval struct {
	steps   int
	allowed func(*ssa.Function) bool
}

type odErr struct{ msg string }

func (e odErr) Error() string { return e.msg }

// weakOrderings enumerates all weak orderings of n items as rank vectors (ranks form a prefix 0..k-1, each used).
func weakOrderings(n int) [][]int {
	var out [][]int
	cur := make([]int, n)
	var rec func(i, maxRank int)
	rec = func(i, maxRank int) {
		if i == n {
			// ranks must be exactly 0..maxRank with each used: check
			used := make([]bool, maxRank+1)
			for _, r := range cur {
				used[r] = true
			}
			for _, u := range used {
				if !u {
					return
				}
			}
			out = append(out, append([]int(nil), cur...))
			return
		}
		for r := 0; r < n; r++ {
			cur[i] = r
			m := maxRank
			if r > m {
				m = r
			}
			rec(i+1, m)
		}
	}
	rec(0, 0)
	return out
}

func (ev *odEval) call(fn *ssa.Function, args []odVal, w *odWorld, depth int) (odVal, error) {
	if depth > 6 {
		return odVal{}, odErr{"call depth exceeded"}
	}
	if len(fn.Blocks) == 0 {
		return odVal{}, odErr{"no body: " + fn.String()}
	}
	env := map[ssa.Value]odVal{}
	for i, p := range fn.Params {
		if i < len(args) {
			env[p] = args[i]
		}
	}
	get := func(v ssa.Value) (odVal, error) {
		if x, ok := env[v]; ok {
			return x, nil
		}
		if k, ok := v.(*ssa.Const); ok {
			if k.Value == nil {
				return odVal{kind: "nilentry"}, nil
			}
			switch k.Value.Kind() {
			case constant.Bool:
				return odVal{kind: "bool", b: constant.BoolVal(k.Value)}, nil
			case constant.Int:
				if n, ok := constant.Int64Val(k.Value); ok && n == 0 {
					return odVal{kind: "rank", rank: w.zero}, nil
				}
				return odVal{}, odErr{"a timestamp is compared with the non-zero constant " + k.Value.String()}
			}
		}
		return odVal{}, odErr{fmt.Sprintf("value outside the comparison-only fragment: %T %s", v, v.String())}
	}
	b := fn.Blocks[0]
	var prev *ssa.BasicBlock
	for {
		for _, in := range b.Instrs {
			ev.steps++
			if ev.steps > 200000 {
				return odVal{}, odErr{"evaluation does not terminate"}
			}
			switch x := in.(type) {
			case *ssa.Phi:
				for i, p := range b.Preds {
					if p == prev {
						v, err := get(x.Edges[i])
						if err != nil {
							return odVal{}, err
						}
						env[x] = v
					}
				}
			case *ssa.Call:
				if x.Call.IsInvoke() {
					recv, err := get(x.Call.Value)
					if err != nil {
						return odVal{}, err
					}
					if recv.kind != "entry" {
						return odVal{}, odErr{"method call on a non-entry value"}
					}
					switch x.Call.Method.Name() {
					case "GetLastAdded":
						env[x] = odVal{kind: "rank", rank: w.rank[odSym{recv.entry, "LA"}]}
					case "GetLastDeleted":
						env[x] = odVal{kind: "rank", rank: w.rank[odSym{recv.entry, "LD"}]}
					default:
						return odVal{}, odErr{"unexpected method " + x.Call.Method.Name()}
					}
					continue
				}
				sc := x.Call.StaticCallee()
				if sc == nil || !ev.allowed(sc) {
					return odVal{}, odErr{"call outside the fragment: " + x.String()}
				}
				var as []odVal
				for _, a := range x.Call.Args {
					v, err := get(a)
					if err != nil {
						return odVal{}, err
					}
					as = append(as, v)
				}
				r, err := ev.call(sc, as, w, depth+1)
				if err != nil {
					return odVal{}, err
				}
				env[x] = r
			case *ssa.BinOp:
				l, err := get(x.X)
				if err != nil {
					return odVal{}, err
				}
				r, err := get(x.Y)
				if err != nil {
					return odVal{}, err
				}
				switch {
				case l.kind == "rank" && r.kind == "rank":
					var res bool
					switch x.Op {
					case token.LSS:
						res = l.rank < r.rank
					case token.LEQ:
						res = l.rank <= r.rank
					case token.GTR:
						res = l.rank > r.rank
					case token.GEQ:
						res = l.rank >= r.rank
					case token.EQL:
						res = l.rank == r.rank
					case token.NEQ:
						res = l.rank != r.rank
					default:
						return odVal{}, odErr{"timestamps are combined with '" + x.Op.String() + "' (only comparisons keep the order-domain tabulation exact)"}
					}
					env[x] = odVal{kind: "bool", b: res}
				case (l.kind == "entry" && r.kind == "nilentry") || (l.kind == "nilentry" && r.kind == "entry"):
					// entries are assumed non-nil
					env[x] = odVal{kind: "bool", b: x.Op == token.NEQ}
				case l.kind == "bool" && r.kind == "bool" && (x.Op == token.EQL || x.Op == token.NEQ):
					env[x] = odVal{kind: "bool", b: (l.b == r.b) == (x.Op == token.EQL)}
				default:
					return odVal{}, odErr{"unsupported operands for " + x.Op.String()}
				}
			case *ssa.UnOp:
				v, err := get(x.X)
				if err != nil {
					return odVal{}, err
				}
				if x.Op == token.NOT && v.kind == "bool" {
					env[x] = odVal{kind: "bool", b: !v.b}
				} else {
					return odVal{}, odErr{"unsupported unary " + x.Op.String()}
				}
			case *ssa.MakeInterface, *ssa.ChangeInterface, *ssa.ChangeType:
				ops := in.Operands(nil)
				v, err := get(*ops[0])
				if err != nil {
					return odVal{}, err
				}
				env[in.(ssa.Value)] = v
			case *ssa.If:
				v, err := get(x.Cond)
				if err != nil {
					return odVal{}, err
				}
				if v.kind != "bool" {
					return odVal{}, odErr{"non-boolean condition"}
				}
				prev = b
				if v.b {
					b = b.Succs[0]
				} else {
					b = b.Succs[1]
				}
				goto next
			case *ssa.Jump:
				prev = b
				b = b.Succs[0]
				goto next
			case *ssa.Return:
				if len(x.Results) != 1 {
					return odVal{}, odErr{"unexpected result arity"}
				}
				return get(x.Results[0])
			case *ssa.DebugRef:
			default:
				return odVal{}, odErr{fmt.Sprintf("instruction outside the comparison-only fragment: %T %s", in, in.String())}
			}
		}
		return odVal{}, odErr{"fell off a block"}
	next:
	}
}

// tabulate evaluates fn over every weak ordering of its entry parameters' timestamps and 0.
func (c *Ctx) odTabulate(fn *ssa.Function, f func(w *odWorld, res odVal) string) (n int, firstBad string, err error) {
	var syms []odSym
	var args []odVal
	for i, p := range fn.Params {
		if types.IsInterface(p.Type()) || isNamed(p.Type(), "crdt", "Entry") {
			syms = append(syms, odSym{i, "LA"}, odSym{i, "LD"})
			args = append(args, odVal{kind: "entry", entry: i})
		} else {
			return 0, "", odErr{"parameter " + p.Name() + " is not an Entry"}
		}
	}
	pkg := fn.Package()
	ev := &odEval{allowed: func(g *ssa.Function) bool { return g.Package() == pkg }}
	for _, ranks := range weakOrderings(len(syms) + 1) {
		w := &odWorld{rank: map[odSym]int{}, zero: ranks[len(syms)]}
		for i, s := range syms {
			w.rank[s] = ranks[i]
		}
		ev.steps = 0
		res, e := ev.call(fn, args, w, 0)
		if e != nil {
			return n, "", e
		}
		n++
		if msg := f(w, res); msg != "" && firstBad == "" {
			firstBad = msg + " — ordering " + describeWorld(w, syms)
		}
	}
	return n, firstBad, nil
}

func describeWorld(w *odWorld, syms []odSym) string {
	s := fmt.Sprintf("[0:%d", w.zero)
	for _, y := range syms {
		s += fmt.Sprintf(" %s%d:%d", y.kind, y.param, w.rank[y])
	}
	return s + "] (symbol:rank)"
}

func maxi(a, b int) int {
	if a > b {
		return a
	}
	return b
}
