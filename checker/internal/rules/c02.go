package rules

import (
	"fmt"
	"go/constant"
	"go/token"
	"go/types"

	"golang.org/x/tools/go/ssa"

	"waspcheck/internal/core"
	"waspcheck/internal/report"
)

func init() { register("C02", checkC02) }

// writerShape locates the writer's queue protocol.
type writerShape struct {
	schedule, send, run *ssa.Function // implementations of Writer.Schedule / Send / Run in the module
	jobType             types.Type
	logGet              *core.Call      // messageLog.Get in run, or in the helper of run that serves a job read from the log
	logFn               *ssa.Function   // the function that holds logGet
	logSite             ssa.Instruction // the place of run through which logGet runs (logGet itself, or the call of the helper)
	recvAlloc           *ssa.Alloc      // local holding the received job in run
	fanout              *core.Call      // the per-job fan-out call in the log branch (takes the publish read back)
}

func (c *Ctx) implOf(ru *report.Rule, pkg, iface, method string) *ssa.Function {
	m := c.im(ru, pkg, iface, method)
	if m == nil {
		return nil
	}
	var impl *ssa.Function
	for _, f := range c.P.Implementations(m) {
		if f.Package() != nil && c.P.IsModPkg(f.Package().Pkg) {
			impl = f
		}
	}
	ru.Anchor(impl != nil, "module implementation of "+iface+"."+method)
	return impl
}

// sentLiterals finds the composite literals sent on a channel in fn (select send or plain send).
func sentLiterals(fn *ssa.Function) []ssa.Value {
	var out []ssa.Value
	for _, b := range fn.Blocks {
		for _, in := range b.Instrs {
			switch x := in.(type) {
			case *ssa.Send:
				out = append(out, x.X)
			case *ssa.Select:
				for _, st := range x.States {
					if st.Dir == types.SendOnly {
						out = append(out, st.Send)
					}
				}
			}
		}
	}
	return out
}

func (c *Ctx) writerShape(ru *report.Rule) *writerShape {
	w := &writerShape{
		schedule: c.implOf(ru, "wasp", "Writer", "Schedule"),
		send:     c.implOf(ru, "wasp", "Writer", "Send"),
		run:      c.implOf(ru, "wasp", "Writer", "Run"),
	}
	get := c.im(ru, "wasp", "messageLog", "Get")
	if w.schedule == nil || w.send == nil || w.run == nil || get == nil {
		return nil
	}
	gs := c.callsToDeep(w.run, 2, get) // in the loop itself or in the helper that serves a job (writeFromLog(ctx, log, offset))
	if !ru.Anchor(len(gs) == 1, "exactly one messageLog.Get call in the writer loop") {
		return nil
	}
	w.logGet = gs[0]
	w.logFn = gs[0].Instr.Parent()
	if sites := c.liftTo(w.run, gs[0].Instr); len(sites) == 1 {
		w.logSite = sites[0]
	}
	if !ru.Anchor(w.logSite != nil, "the one place of the writer loop that reads the log") {
		return nil
	}
	lits := c.queuedLiterals(w.schedule)
	if !ru.Anchor(len(lits) >= 1, "the job literal sent by Writer.Schedule") {
		return nil
	}
	w.jobType = lits[0].Type()
	// received job local in run
	for _, b := range w.run.Blocks {
		for _, in := range b.Instrs {
			if st, ok := in.(*ssa.Store); ok {
				if al, ok := st.Addr.(*ssa.Alloc); ok && types.Identical(derefT(al.Type()), w.jobType) {
					switch v := st.Val.(type) {
					case *ssa.Extract:
						if _, ok := v.Tuple.(*ssa.Select); ok {
							w.recvAlloc = al
						}
					case *ssa.UnOp:
						if v.Op == token.ARROW {
							w.recvAlloc = al
						}
					}
				}
			}
		}
	}
	if !ru.Anchor(w.recvAlloc != nil, "the local holding the job received from the queue in the writer loop") {
		return nil
	}
	c.R.Fn(c.fname(w.schedule))
	c.R.Fn(c.fname(w.send))
	c.R.Fn(c.fname(w.run))
	if w.logFn != w.run {
		c.R.Fn(c.fname(w.logFn))
	}
	return w
}

// jobFieldStores: a is, in the writer loop, a load of a field of the received job; returns the values the log helper
// stores into that field of the job it was handed (resolve(log, &job): job.publish = entry).
func (w *writerShape) jobFieldStores(a ssa.Value) []ssa.Value {
	ld, ok := conversionsOnly(a).(*ssa.UnOp)
	if !ok || ld.Op != token.MUL {
		return nil
	}
	fa, ok := ld.X.(*ssa.FieldAddr)
	if !ok || fa.X != ssa.Value(w.recvAlloc) {
		return nil
	}
	var out []ssa.Value
	for _, b := range w.logFn.Blocks {
		for _, in := range b.Instrs {
			st, ok := in.(*ssa.Store)
			if !ok {
				continue
			}
			fa2, ok := st.Addr.(*ssa.FieldAddr)
			if ok && fa2.Field == fa.Field && deepStrip(fa2.X) == ssa.Value(w.recvAlloc) {
				out = append(out, st.Val)
			}
		}
	}
	return out
}

// jobFieldHolds: v is, in the log helper, a load of a field of the job it was handed, and that field was assigned val there.
func (w *writerShape) jobFieldHolds(v ssa.Value, val ssa.Value) bool {
	ld, ok := v.(*ssa.UnOp)
	if !ok || ld.Op != token.MUL {
		return false
	}
	fa, ok := ld.X.(*ssa.FieldAddr)
	if !ok || deepStrip(fa.X) != ssa.Value(w.recvAlloc) {
		return false
	}
	for _, b := range w.logFn.Blocks {
		for _, in := range b.Instrs {
			if st, ok := in.(*ssa.Store); ok && st.Val == val {
				if fa2, ok := st.Addr.(*ssa.FieldAddr); ok && fa2.Field == fa.Field && deepStrip(fa2.X) == ssa.Value(w.recvAlloc) {
					return true
				}
			}
		}
	}
	return false
}

// queuedLiterals lists the job values fn puts on a channel: sent by fn itself, or handed to a helper of the module
// that sends that parameter (enqueue(ctx, job)).
func (c *Ctx) queuedLiterals(fn *ssa.Function) []ssa.Value {
	out := sentLiterals(fn)
	for _, cl := range core.CallsIn(fn) {
		h := cl.Static
		if h == nil || h == fn || h.Pkg == nil || !c.P.IsModPkg(h.Pkg.Pkg) || c.P.IsGenerated(h) {
			continue
		}
		for _, sv := range sentLiterals(h) {
			if p, ok := core.Strip(sv).(*ssa.Parameter); ok && p.Parent() == h {
				if i := paramIdx(p); i >= 0 && i < len(cl.Common.Args) {
					out = append(out, cl.Common.Args[i])
				}
			}
		}
	}
	return out
}

// tv is a three-valued boolean / constant.
type tv struct {
	known bool
	val   constant.Value
}

// evalOnLiteral evaluates v (a condition over fields of recv) given a constructor literal: constant fields known, other stored fields unknown, absent fields zero.
func evalOnLiteral(v ssa.Value, recv *ssa.Alloc, lit ssa.Value) tv {
	switch x := v.(type) {
	case *ssa.Const:
		if x.Value == nil {
			return tv{}
		}
		return tv{true, x.Value}
	case *ssa.UnOp:
		switch x.Op {
		case token.MUL:
			fa, ok := x.X.(*ssa.FieldAddr)
			if !ok || fa.X != ssa.Value(recv) {
				return tv{}
			}
			name := fieldNameOf(fa.X.Type(), fa.Field)
			fv := complitField(lit, name)
			if fv == nil {
				// absent: zero value
				ft := derefT(fa.X.Type()).Underlying().(*types.Struct).Field(fa.Field).Type()
				switch bt := ft.Underlying().(type) {
				case *types.Basic:
					switch {
					case bt.Info()&types.IsBoolean != 0:
						return tv{true, constant.MakeBool(false)}
					case bt.Info()&types.IsInteger != 0:
						return tv{true, constant.MakeInt64(0)}
					case bt.Info()&types.IsString != 0:
						return tv{true, constant.MakeString("")}
					}
				case *types.Pointer, *types.Slice, *types.Map, *types.Interface:
					return tv{true, constant.MakeString("<nil>")}
				}
				return tv{}
			}
			if k, ok := fv.(*ssa.Const); ok {
				if k.Value == nil {
					return tv{true, constant.MakeString("<nil>")}
				}
				return tv{true, k.Value}
			}
			return tv{}
		case token.NOT:
			a := evalOnLiteral(x.X, recv, lit)
			if a.known && a.val.Kind() == constant.Bool {
				return tv{true, constant.MakeBool(!constant.BoolVal(a.val))}
			}
			return tv{}
		}
	case *ssa.BinOp:
		a, b := evalOnLiteral(x.X, recv, lit), evalOnLiteral(x.Y, recv, lit)
		nilOf := func(v ssa.Value) bool { k, ok := v.(*ssa.Const); return ok && k.Value == nil }
		if nilOf(x.Y) {
			b = tv{true, constant.MakeString("<nil>")}
		}
		if nilOf(x.X) {
			a = tv{true, constant.MakeString("<nil>")}
		}
		if !a.known || !b.known || a.val.Kind() != b.val.Kind() {
			return tv{}
		}
		switch x.Op {
		case token.EQL, token.NEQ, token.LSS, token.LEQ, token.GTR, token.GEQ:
			if a.val.Kind() == constant.Bool {
				eq := constant.BoolVal(a.val) == constant.BoolVal(b.val)
				if x.Op == token.EQL {
					return tv{true, constant.MakeBool(eq)}
				} else if x.Op == token.NEQ {
					return tv{true, constant.MakeBool(!eq)}
				}
				return tv{}
			}
			return tv{true, constant.MakeBool(constant.Compare(a.val, x.Op, b.val))}
		}
	}
	return tv{}
}

// controllingConds returns the (condition, polarity) pairs of the If blocks that decide whether target runs, walking up the dominator tree until stop.
func controllingConds(target, stop *ssa.BasicBlock) (out []struct {
	cond ssa.Value
	pol  bool
}) {
	b := target
	for b != nil && b != stop {
		id := b.Idom()
		if id == nil {
			break
		}
		if iff, ok := id.Instrs[len(id.Instrs)-1].(*ssa.If); ok {
			t, f := id.Succs[0], id.Succs[1]
			switch {
			case t != f && t.Dominates(target) && len(t.Preds) == 1:
				out = append(out, struct {
					cond ssa.Value
					pol  bool
				}{iff.Cond, true})
			case t != f && f.Dominates(target) && len(f.Preds) == 1:
				out = append(out, struct {
					cond ssa.Value
					pol  bool
				}{iff.Cond, false})
			}
		}
		b = id
	}
	return out
}

func checkC02(c *Ctx) {
	c.R.Explanation = "Static rules over the hand-over chain accept → append → consume → schedule → read-back → write: (R1) completion callback only after a nil Distribute; (R2) no append / inter-node error lost; (R3) the consume callback schedules its own offset on every nil-returning path; (R4) job discriminator soundness: for the literal queued by Schedule the writer's log-branch condition is definitely true, for the literal queued by Send definitely false (three-valued evaluation over constructor literals — offset 0 is a valid offset); (R5) the log branch reads back the job's own offset and fans out what it read; (R6) truncation margin; (R7) Get seeks to exactly its offset; (R8) the writer queue holds fewer jobs than the truncation margin, so the consumer cannot truncate entries the writer has not read back."
	c.R.NotCovered = "commit-log segment roll and poll batching, payload integrity through protobuf, read failures in the writer (Get error ⇒ message skipped), queue shutdown drops, id-pool exhaustion inside the fan-out loop."
	c.R.Assume("commitlog.WriteEntry returning nil means the entry is readable at the offset later handed to the consumer")
	c.ruleAckAfterDistribute("C02-R1")
	c.ruleDistributeErrors("C02-R2")
	c.ruleAckEncodesInCallback("C02-R9")
	c.ruleDirectionKeys("C02-R10")
	c.ruleHandOverHasNoDeadline("C02-R11")

	// R3
	ru3 := c.R.Rule("C02-R3", "the callback given to messageLog.Consume hands its own offset parameter to Writer.Schedule (directly or through a module function) on every path that returns a nil error", "E1 must-call on nil-returning paths + E3", 1)
	lc := c.im(ru3, "wasp", "messageLog", "Consume")
	ws := c.im(ru3, "wasp", "Writer", "Schedule")
	if lc != nil && ws != nil {
		sites := c.modFuncsCalling(lc)
		n := 0
		for _, f := range sortedFuncs(sites) {
			for _, cl := range sites[f] {
				cb := closureArg(cl.Arg(2))
				if cb == nil {
					continue
				}
				n++
				c.R.Fn(c.fname(cb))
				key := fmt.Sprintf("consume callback #%d in %s", n, c.fname(f))
				ok, detail, np := c.mustScheduleOwnOffset(cb, 0, ws, 3)
				ru3.Evals(np)
				ru3.Check(ok, key, c.where(cb, cb), detail, detail)
			}
		}
	}

	// R4, R5, R8
	ru4 := c.R.Rule("C02-R4", "job discriminator soundness: the condition under which the writer takes the branch that reads the log is definitely true for the literal queued by Writer.Schedule and definitely false for the literal queued by Writer.Send", "E12 three-valued evaluation over constructor literals", 2)
	w := c.writerShape(ru4)
	if w != nil {
		conds := controllingConds(w.logSite.Block(), w.recvAlloc.Block())
		relevant := 0
		for _, role := range []struct {
			name string
			fn   *ssa.Function
			want bool
		}{{"Schedule", w.schedule, true}, {"Send", w.send, false}} {
			for li, lit := range c.queuedLiterals(role.fn) {
				key := fmt.Sprintf("literal #%d queued by Writer.%s vs log-branch condition", li, role.name)
				allTrue, someFalse, unknown := true, false, ""
				for _, cd := range conds {
					r := evalOnLiteral(cd.cond, w.recvAlloc, lit)
					if !stringsContains(core.Term(cd.cond), "alloc@") && !r.known {
						continue // condition not about the job
					}
					relevant++
					if !r.known || r.val.Kind() != constant.Bool {
						allTrue = false
						unknown = short(core.Term(cd.cond), 100)
						continue
					}
					v := constant.BoolVal(r.val) == cd.pol
					if !v {
						someFalse = true
						allTrue = false
					}
				}
				if role.want {
					ru4.Check(allTrue && relevant > 0, key, c.where(role.fn, role.fn), "definitely true: every scheduled offset takes the log branch", "the log-branch condition is not definitely true for a scheduled job (it depends on a run-time value such as the offset: "+unknown+"): some valid offset is treated as a direct send and its message dropped")
				} else {
					ru4.Check(someFalse, key, c.where(role.fn, role.fn), "definitely false: a direct send never reads the log", "the log-branch condition is not definitely false for a direct send ("+unknown+")")
				}
			}
		}

		ru5 := c.R.Rule("C02-R5", "in the log branch messageLog.Get receives the job's own offset and the publish it returns is what is fanned out", "E3 provenance", 2)
		offOK := false
		offArg := conversionsOnly(w.logGet.Arg(0))
		if w.logFn != w.run {
			offArg = deepStrip(offArg) // the helper's offset parameter is what the loop passes at the call
		}
		if ld, ok := offArg.(*ssa.UnOp); ok && ld.Op == token.MUL {
			if fa, ok := ld.X.(*ssa.FieldAddr); ok && (fa.X == ssa.Value(w.recvAlloc) || deepStrip(fa.X) == ssa.Value(w.recvAlloc)) {
				// the field must be the one Schedule fills from its offset parameter
				name := fieldNameOf(fa.X.Type(), fa.Field)
				for _, lit := range c.queuedLiterals(w.schedule) {
					if fv := complitField(lit, name); fv != nil && reachesParam(fv, w.schedule, paramIndexOfType(w.schedule, "uint64")) {
						offOK = true
					}
				}
			}
		}
		ru5.Check(offOK, "offset read back in "+c.fname(w.run), c.whereI(w.logGet.Instr), "Get(job.<field filled by Schedule's offset parameter>)", "messageLog.Get does not receive the offset that Schedule queued: "+short(core.Term(w.logGet.Arg(0)), 100))
		fanOK, fanDetail := false, "no call after Get receives the publish it returned"
		for _, cl := range core.CallsIn(w.logFn) {
			if !core.Dominates(w.logGet.Instr, cl.Instr) || cl.Instr == w.logGet.Instr {
				continue
			}
			for _, a := range cl.Common.Args {
				if ex, ok := core.Strip(a).(*ssa.Extract); ok && ex.Tuple == w.logGet.Value() && ex.Index == 0 && isPublishPtr(a.Type()) && cl.Static != nil && c.P.IsModPkg(cl.Static.Pkg.Pkg) {
					fanOK, fanDetail = true, "fan-out receives Get's publish"
					w.fanout = cl
				}
			}
		}
		if !fanOK && w.logFn != w.run {
			// the helper may complete the job it was handed (job.publish = entry) and leave the fan-out to the loop
			for _, cl := range core.CallsIn(w.run) {
				if cl.Static == nil || !c.P.IsModPkg(cl.Static.Pkg.Pkg) || !reachesInstr(w.logSite, cl.Instr) {
					continue
				}
				for _, a := range cl.Common.Args {
					if !isPublishPtr(a.Type()) {
						continue
					}
					for _, sv := range w.jobFieldStores(a) {
						if ex, ok := core.Strip(sv).(*ssa.Extract); ok && ex.Tuple == w.logGet.Value() && ex.Index == 0 {
							fanOK, fanDetail = true, "fan-out receives Get's publish (through the job completed by "+c.fname(w.logFn)+")"
							w.fanout = cl
						}
					}
				}
			}
		}
		ru5.Check(fanOK, "publish fanned out in "+c.fname(w.run), c.whereI(w.logGet.Instr), fanDetail, fanDetail)
	}
	margin := c.ruleTruncationMargin("C02-R6")

	// R7
	ru7 := c.R.Rule("C02-R7", "the messageLog.Get implementation seeks the log reader to exactly its offset parameter (conversions only, from the start) before decoding one entry", "E3 provenance", 1)
	gimpl := c.implOf(ru7, "wasp", "messageLog", "Get")
	if gimpl != nil {
		c.R.Fn(c.fname(gimpl))
		ok, detail := false, "no Seek call found"
		for _, cl := range c.callsDeep(gimpl, 2) { // in Get itself or in the helper that positions the reader (readerAt(offset, whence))
			if cl.Obj != nil && cl.Obj.Name() == "Seek" && len(cl.Args()) == 2 {
				// a helper's parameter is what Get passes for it at its own call of the helper
				bindIn := func(v ssa.Value) ssa.Value {
					v = conversionsOnly(v)
					for hop := 0; hop < 3; hop++ {
						prm, ok := v.(*ssa.Parameter)
						if !ok || prm.Parent() == gimpl {
							return v
						}
						found := false
						for _, site := range c.callsDeep(gimpl, 2) {
							if site.Static == prm.Parent() {
								if i := paramIdx(prm); i >= 0 && i < len(site.Common.Args) {
									v, found = conversionsOnly(site.Common.Args[i]), true
									break
								}
							}
						}
						if !found {
							return v
						}
					}
					return v
				}
				whence, wok := constInt(bindIn(cl.Args()[1]))
				// the reader that is positioned was opened for this read (log.Reader() called on the way), not one kept
				// in the store and shared with the consumer: a look-up would move the cursor the consumer reads from
				ownReader := false
				if cl.Common != nil && cl.Common.Value != nil {
					depReaches(cl.Common.Value, func(x ssa.Value) bool {
						if rc, isCall := x.(*ssa.Call); isCall {
							if rcl := core.CallOf(rc); rcl != nil && rcl.Obj != nil && rcl.Obj.Name() == "Reader" {
								for _, g := range c.funcsDeep(gimpl, 2) {
									if rc.Parent() == g {
										ownReader = true
									}
								}
							}
						}
						return false
					})
				}
				if !ownReader {
					detail = "the reader that Get positions is not opened by Get itself (a reader kept in the store is shared with the consumer: every look-up moves the cursor the consumer reads from, entries are skipped or handed over twice)"
				} else if bindIn(cl.Args()[0]) == ssa.Value(gimpl.Params[paramIndexOfType(gimpl, "uint64")]) && wok && whence == 0 {
					ok, detail = true, "Seek(int64(offset), io.SeekStart)"
				} else {
					detail = "Seek does not receive the offset parameter unchanged from the start of the log: " + short(core.Term(cl.Args()[0]), 80)
				}
			}
		}
		ru7.Check(ok, "seek in "+c.fname(gimpl), c.where(gimpl, gimpl), detail, detail)
	}

	// R8
	ru8 := c.R.Rule("C02-R8", "the writer's job queue is created with a constant capacity smaller than the truncation margin: the log consumer blocks once the writer lags by that many jobs, so it can never truncate an entry the writer has not read back yet", "E11 constant relation between the queue's make(chan) and the TruncateBefore margin", 1)
	if w != nil {
		n := 0
		for _, f := range c.P.ModFuncs() {
			for _, b := range f.Blocks {
				for _, in := range b.Instrs {
					mc, ok := in.(*ssa.MakeChan)
					if !ok {
						continue
					}
					ch, ok := mc.Type().Underlying().(*types.Chan)
					if !ok || !types.Identical(ch.Elem(), w.jobType) {
						continue
					}
					n++
					key := fmt.Sprintf("job queue #%d created in %s", n, c.fname(f))
					sz, ok := constInt(mc.Size)
					switch {
					case !ok:
						ru8.Undecided(key, c.whereI(mc), "queue capacity is not a constant")
					case margin < 0:
						ru8.Undecided(key, c.whereI(mc), "no truncation margin could be established (see R6)")
					case sz+1 < margin:
						ru8.OK(key, c.whereI(mc), fmt.Sprintf("capacity %d < margin %d", sz, margin))
					default:
						ru8.Fail(key, c.whereI(mc), fmt.Sprintf("queue capacity %d is not smaller than the truncation margin %d: the consumer can run ahead of the writer and truncate entries that are still queued for delivery", sz, margin))
					}
				}
			}
		}
	}
}

func paramIndexOfType(f *ssa.Function, basic string) int {
	for i, p := range f.Params {
		if b, ok := p.Type().Underlying().(*types.Basic); ok && b.Name() == basic {
			return i
		}
	}
	return 0
}

// mustScheduleOwnOffset: on every path of fn returning a nil error, Writer.Schedule (or a module function that must do so) is called with fn's parameter idx.
func (c *Ctx) mustScheduleOwnOffset(fn *ssa.Function, idx int, ws *types.Func, depth int) (bool, string, int) {
	paths, err := core.EnumPaths(fn, core.PathOpts{})
	if err != nil {
		return false, err.Error(), 0
	}
	n := 0
	hasErrResult := fn.Signature.Results().Len() > 0 && types.Identical(fn.Signature.Results().At(fn.Signature.Results().Len()-1).Type(), errorType)
	for _, p := range paths {
		if _, ok := p.Exit.(*ssa.Return); !ok {
			continue
		}
		if hasErrResult {
			if isNil, known := p.ReturnsNilError(); known && !isNil {
				continue
			}
		}
		n++
		found := false
		for _, pc := range p.Calls() {
			if pc.Is(ws) {
				for _, a := range pc.Args() {
					if reachesParam(a, fn, idx) && types.Identical(a.Type(), fn.Params[idx].Type()) {
						found = true
					}
				}
			} else if depth > 0 && pc.Static != nil && pc.Static.Pkg != nil && c.P.IsModPkg(pc.Static.Pkg.Pkg) {
				for j, a := range pc.Common.Args {
					if types.Identical(a.Type(), fn.Params[idx].Type()) && reachesParam(a, fn, idx) && j < len(pc.Static.Params) {
						if ok, _, _ := c.mustScheduleOwnOffset(pc.Static, j, ws, depth-1); ok {
							found = true
						}
					}
				}
			}
		}
		if !found {
			return false, "a path returns success without scheduling the offset it was given: " + fmtPath(p, c.P), n
		}
	}
	if n == 0 {
		return false, "no successful path", 0
	}
	return true, fmt.Sprintf("%d successful path(s), each schedules the offset parameter", n), n
}
