package rules

import (
	"fmt"
	"go/constant"
	"go/token"
	"go/types"
	"sort"

	"golang.org/x/tools/go/ssa"

	"waspcheck/internal/core"
)

// A stamp function is a function of wasp/distributed that hands a local mutator the timestamp of its update: it returns
// an int64 and reads the package clock. Its contract, decided on each of its paths: every result is either the clock
// value read during this call — and then, where the function was given the stamp of the state being replaced, only on a
// path on which the clock value was tested to be strictly greater than that stamp — or that stamp plus a positive
// constant, or the result of another stamp function. A result is thus fresh and strictly newer than its argument.
type stampFns struct {
	ok  map[*ssa.Function]bool
	bad map[*ssa.Function]string
}

func isInt64(t types.Type) bool {
	b, ok := t.Underlying().(*types.Basic)
	return ok && b.Kind() == types.Int64
}

func isClockValue(v ssa.Value) bool {
	cv, ok := core.Strip(v).(*ssa.Call)
	return ok && isClockCall(core.CallOf(cv))
}

var stampCache = map[*dstate]*stampFns{}

func (c *Ctx) stampFuncs(d *dstate) *stampFns {
	if s, ok := stampCache[d]; ok {
		return s
	}
	s := &stampFns{ok: map[*ssa.Function]bool{}, bad: map[*ssa.Function]string{}}
	stampCache[d] = s
	var impl *ssa.Function
	if theClock != nil {
		impl = clockImpl(theClock.Pkg, theClock)
	}
	for _, f := range c.P.ModFuncs() {
		if f.Package() != d.pkg || c.P.IsGenerated(f) || f == impl || f.Parent() != nil || len(f.Blocks) == 0 {
			continue
		}
		res := f.Signature.Results()
		if res.Len() != 1 || !isInt64(res.At(0).Type()) {
			continue
		}
		if c.callsTransitively(f, 2, isClockCall) {
			s.ok[f] = true
		}
	}
	// greatest fixed point: drop the candidates whose contract fails (a failure may invalidate their callers)
	for changed := true; changed; {
		changed = false
		var fs []*ssa.Function
		for f := range s.ok {
			fs = append(fs, f)
		}
		sort.Slice(fs, func(i, j int) bool { return fs[i].String() < fs[j].String() })
		for _, f := range fs {
			if why := c.stampContract(s, f); why != "" {
				delete(s.ok, f)
				s.bad[f] = why
				changed = true
			}
		}
	}
	return s
}

func (s *stampFns) isCall(v ssa.Value) bool {
	cv, ok := core.Strip(v).(*ssa.Call)
	if !ok {
		return false
	}
	g := cv.Call.StaticCallee()
	return g != nil && s.ok[g]
}

// fresh: v is a clock value read now, or the result of a stamp function — possibly chosen between several of those (φ)
// or handed down through parameters (a constructor taking the stamp): then every call site must pass a fresh stamp.
func (s *stampFns) fresh(v ssa.Value) bool { return s.freshN(v, 6, map[ssa.Value]bool{}) }

func (s *stampFns) freshN(v ssa.Value, budget int, seen map[ssa.Value]bool) bool {
	v = core.Strip(v)
	if isClockValue(v) || s.isCall(v) {
		return true
	}
	if budget <= 0 || seen[v] {
		return false
	}
	seen[v] = true
	switch x := v.(type) {
	case *ssa.Phi:
		for _, e := range x.Edges {
			if !s.freshN(e, budget-1, seen) {
				return false
			}
		}
		return len(x.Edges) > 0
	case *ssa.Parameter:
		args := callerArgs(x)
		for _, a := range args {
			if !s.freshN(a, budget-1, seen) {
				return false
			}
		}
		return len(args) > 0
	}
	return false
}

// stampContract decides the contract of one candidate; "" when it holds.
func (c *Ctx) stampContract(s *stampFns, f *ssa.Function) string {
	paths, err := core.EnumPaths(f, core.PathOpts{})
	if err != nil {
		return "paths of " + c.fname(f) + " not enumerable: " + err.Error()
	}
	var stampParams []*ssa.Parameter
	for _, p := range f.Params {
		if isInt64(p.Type()) {
			stampParams = append(stampParams, p)
		}
	}
	isParam := func(v ssa.Value) *ssa.Parameter {
		p, _ := core.Strip(v).(*ssa.Parameter)
		for _, q := range stampParams {
			if p == q {
				return p
			}
		}
		return nil
	}
	nFresh := 0
	for _, p := range paths {
		ret, ok := p.Exit.(*ssa.Return)
		if !ok || len(ret.Results) != 1 {
			continue
		}
		v := core.Strip(p.Resolve(ret.Results[0]))
		switch {
		case s.isCall(v):
			nFresh++
		case isClockValue(v):
			nFresh++
			// newer than every stamp the function was given
			for _, q := range stampParams {
				if !clockGreaterOnPath(p, v, q) {
					return fmt.Sprintf("%s returns the clock value at %s on a path that has not established clock > %s: a local update stamped by it can be as old as (or older than) the state it replaces", c.fname(f), c.whereI(ret), q.Name())
				}
			}
		default:
			bo, isBin := v.(*ssa.BinOp)
			if isBin && bo.Op == token.ADD {
				x, k := bo.X, bo.Y
				if _, isC := core.Strip(x).(*ssa.Const); isC {
					x, k = k, x
				}
				if kc, isC := core.Strip(k).(*ssa.Const); isC && kc.Value != nil && constant.Sign(kc.Value) > 0 && isParam(x) != nil {
					continue
				}
			}
			return fmt.Sprintf("%s returns %s at %s: neither the clock value read in this call, nor the given stamp plus a positive constant, nor another stamp function's result", c.fname(f), short(core.Term(v), 60), c.whereI(ret))
		}
	}
	if nFresh == 0 {
		return c.fname(f) + " never returns a clock value"
	}
	return ""
}

// clockGreaterOnPath: some decision on p implies clk > q (clk a clock value, q a parameter of the function).
func clockGreaterOnPath(p *core.Path, clk ssa.Value, q *ssa.Parameter) bool {
	for _, d := range decisions(p) {
		bo, ok := d.Cond.(*ssa.BinOp)
		if !ok {
			continue
		}
		l, r := core.Strip(p.Resolve(bo.X)), core.Strip(p.Resolve(bo.Y))
		op := bo.Op
		switch {
		case l == clk && r == ssa.Value(q):
		case r == clk && l == ssa.Value(q):
			// q op clk  ==  clk op' q
			switch op {
			case token.LSS:
				op = token.GTR
			case token.LEQ:
				op = token.GEQ
			case token.GTR:
				op = token.LSS
			case token.GEQ:
				op = token.LEQ
			}
		default:
			continue
		}
		// now: clk op q had value d.Val
		if (op == token.GTR && d.Val) || (op == token.LEQ && !d.Val) {
			return true
		}
	}
	return false
}

// isStoreRead: v is read from a replicated store: a look-up in / iteration over a map of entries held in a state
// struct, or the result of a package function that itself contains such a read or calls a reading method of a trie.
func (c *Ctx) isStoreRead(d *dstate, v ssa.Value) bool {
	isEntryMap := func(m ssa.Value) bool {
		ld, ok := m.(*ssa.UnOp)
		if !ok || ld.Op != token.MUL {
			return false
		}
		fa, ok := ld.X.(*ssa.FieldAddr)
		if !ok {
			return false
		}
		mt, ok := derefT(fa.Type()).Underlying().(*types.Map)
		return ok && d.isEntryType(mt.Elem())
	}
	direct := func(in ssa.Instruction) bool {
		switch x := in.(type) {
		case *ssa.Lookup:
			return isEntryMap(x.X)
		case *ssa.Range:
			return isEntryMap(x.X)
		}
		if cl := core.CallOf(in); cl != nil && !cl.Is(d.upsert, d.insert) {
			var recv types.Type
			if cl.Invoke {
				recv = cl.Common.Value.Type()
			} else if cl.Static != nil && cl.Static.Signature.Recv() != nil {
				recv = cl.Static.Signature.Recv().Type()
			}
			if recv != nil {
				for _, w := range []*types.Func{d.upsert, d.insert} {
					if w == nil {
						continue
					}
					if wr := w.Type().(*types.Signature).Recv(); wr != nil && types.Identical(derefT(wr.Type()), derefT(recv)) {
						return true
					}
				}
			}
		}
		return false
	}
	if in, ok := v.(ssa.Instruction); ok && direct(in) {
		return true
	}
	if cv, ok := v.(*ssa.Call); ok {
		if g := cv.Call.StaticCallee(); g != nil && g.Package() == d.pkg {
			for _, h := range append([]*ssa.Function{g}, g.AnonFuncs...) {
				for _, b := range h.Blocks {
					for _, in := range b.Instrs {
						if direct(in) {
							return true
						}
					}
				}
			}
		}
	}
	return false
}

// ruleLocalWritesMonotone implements C08-R9.
func (c *Ctx) ruleLocalWritesMonotone(id string, d *dstate) {
	ru := c.R.Rule(id, "a local mutator never replaces an entry by an older one: either the routine that writes the store overwrites an existing entry only under crdt.IsEntryOutdated(existing, new) (the subscription list), or the stamp the mutator sets is computed by a stamp function from the entry read from the store (hybrid clock: never older than the state replaced). Otherwise a node whose clock is behind overwrites a newer entry that its peers keep, and the replicas disagree for ever", "E3 provenance of the stamp to a store read + who-guards-the-write", 8)
	sf := c.stampFuncs(d)
	for _, m := range d.mutators {
		f := m.fn
		key := m.iface + "." + m.name + " writes monotonically"
		delegated := false
		for _, cl := range core.CallsIn(f) {
			if cl.Static != nil && d.mutatorOf(cl.Static) != nil {
				delegated = true
			}
		}
		if delegated {
			ru.OK(key, c.where(f, f), "delegates to another mutator")
			continue
		}
		fns := c.funcsDeepStop(f, 2, func(g *ssa.Function) bool { return g.Package() != d.pkg || d.mutatorOf(g) != nil })
		// (B) every routine that writes the store on behalf of this mutator compares before overwriting
		nWrites, unguarded := 0, ""
		for _, g := range fns {
			for _, b := range g.Blocks {
				for _, in := range b.Instrs {
					if !d.isStoreWriteInstr(in) {
						continue
					}
					nWrites++
					top := g
					for top.Parent() != nil {
						top = top.Parent()
					}
					if !c.callsTransitively(top, 4, func(cl *core.Call) bool { return cl.Is(d.isOutdated) }) {
						unguarded = c.whereI(in)
					}
				}
			}
		}
		if nWrites == 0 {
			ru.Undecided(key, c.where(f, f), "no store write found for this mutator")
			continue
		}
		if unguarded == "" {
			ru.OK(key, c.where(f, f), fmt.Sprintf("%d store write(s), each in a routine that consults IsEntryOutdated before overwriting", nWrites))
			continue
		}
		// (A) the stamp depends on the entry being replaced
		want := "LastAdded"
		if m.kind == "deleted" {
			want = "LastDeleted"
		}
		nStamp, bad := 0, ""
		for _, g := range fns {
			for _, b := range g.Blocks {
				for _, in := range b.Instrs {
					st, ok := in.(*ssa.Store)
					if !ok {
						continue
					}
					fa, ok := st.Addr.(*ssa.FieldAddr)
					if !ok || !d.isEntryType(fa.X.Type()) || fieldNameOf(fa.X.Type(), fa.Field) != want {
						continue
					}
					nStamp++
					if !sf.fresh(st.Val) || isClockValue(st.Val) {
						bad = fmt.Sprintf("the store is overwritten unconditionally (%s) and the %s stamp set at %s is %s, not the result of a stamp function applied to the entry being replaced", unguarded, want, c.whereI(st), short(core.Term(st.Val), 50))
						continue
					}
					if !depReaches(st.Val, func(v ssa.Value) bool { return c.isStoreRead(d, v) }) {
						bad = fmt.Sprintf("the store is overwritten unconditionally (%s) and the %s stamp set at %s does not depend on the entry read from the store", unguarded, want, c.whereI(st))
					}
				}
			}
		}
		ru.Check(nStamp > 0 && bad == "", key, c.where(f, f), fmt.Sprintf("%d stamp(s), each computed by a stamp function from the entry read from the store", nStamp), bad+map[bool]string{true: "", false: " no " + want + " stamp found"}[nStamp > 0])
	}
	for f, why := range sf.bad {
		ru.Fail("stamp function "+c.fname(f), c.where(f, f), why)
	}
	for f := range sf.ok {
		ru.OK("stamp function "+c.fname(f), c.where(f, f), "every result is the clock value read in the call (tested greater than the given stamp) or the given stamp plus a positive constant")
	}
}
