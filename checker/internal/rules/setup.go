package rules

import (
	"fmt"
	"go/constant"
	"go/token"
	"go/types"

	"golang.org/x/tools/go/ssa"

	"waspcheck/internal/core"
	"waspcheck/internal/report"
)

// complitField returns the value stored into field name of a composite literal (an Alloc, possibly behind a load).
func complitField(v ssa.Value, name string) ssa.Value {
	v = core.Strip(v)
	if ld, ok := v.(*ssa.UnOp); ok && ld.Op == token.MUL {
		v = ld.X
	}
	al, ok := v.(*ssa.Alloc)
	if !ok || al.Referrers() == nil {
		return nil
	}
	var found ssa.Value
	for _, r := range *al.Referrers() {
		if fa, ok := r.(*ssa.FieldAddr); ok && fieldNameOf(fa.X.Type(), fa.Field) == name && fa.Referrers() != nil {
			for _, rr := range *fa.Referrers() {
				if s, ok := rr.(*ssa.Store); ok && s.Addr == ssa.Value(fa) {
					found = s.Val
				}
			}
		}
	}
	return found
}

// connectHandler finds the CONNECT handler: the innermost function of package wasp from which authentication,
// session-record creation and the CONNACK write are all reached. The returned call is the Authenticate call (it may sit in a helper).
func (c *Ctx) connectHandler(ru *report.Rule) (*ssa.Function, *core.Call) {
	authm := c.im(ru, "wasp", "AuthenticationHandler", "Authenticate")
	sessCreate := c.im(ru, "wasp/distributed", "SessionMetadatasState", "Create")
	connAck := c.cm(ru, pkgEncoder, "Encoder", "ConnAck")
	if authm == nil || sessCreate == nil || connAck == nil {
		return nil, nil
	}
	fns := c.deepestReachingAll("wasp", authm, sessCreate, connAck)
	if !ru.Anchor(len(fns) == 1, fmt.Sprintf("the CONNECT handler (innermost function of package wasp reaching Authenticate, SessionMetadatas.Create and ConnAck; found %d)", len(fns))) {
		return nil, nil
	}
	var call *core.Call
	n := 0
	reach := c.P.Reach([]*ssa.Function{fns[0]}, func(from *ssa.Function, cl *core.Call, to *ssa.Function) bool {
		if cl != nil {
			if _, isGo := cl.Instr.(*ssa.Go); isGo || cl.Invoke {
				return false
			}
		}
		return to.Package() == fns[0].Package() && to.Parent() == nil
	})
	for f := range reach {
		for _, cl := range core.CallsTo(f, authm) {
			call = cl
			n++
		}
	}
	if !ru.Anchor(n == 1, fmt.Sprintf("exactly one Authenticate call on the CONNECT path (found %d)", n)) {
		return nil, nil
	}
	c.R.CallSites++
	return fns[0], call
}

// handlerPaths enumerates the CONNECT handler's paths with its helpers inlined.
func (c *Ctx) handlerPaths(handler *ssa.Function, a *setupAnchors) ([]*core.Path, error) {
	authm := c.P.IfaceMethod("wasp", "AuthenticationHandler", "Authenticate")
	interesting := func(cl *core.Call) bool {
		if _, isGo := cl.Instr.(*ssa.Go); isGo {
			return true
		}
		return cl.Is(authm, a.newSession, a.sessCreate, a.localCreate, a.connAck, a.byClientID, a.sessDelete, a.extend)
	}
	return c.pathsInlined(handler, core.PathOpts{}, interesting, nil)
}

// authErrNil returns, for a path of the CONNECT handler, whether the authentication error was nil (true), non-nil (false), and whether it was tested.
func authErrNil(p *core.Path, authCall *core.Call) (isNil, tested bool) {
	for i := len(p.Conds) - 1; i >= 0; i-- {
		cd := p.Conds[i]
		bo, ok := cd.V.(*ssa.BinOp)
		if !ok || (bo.Op != token.EQL && bo.Op != token.NEQ) {
			continue
		}
		for _, side := range []ssa.Value{bo.X, bo.Y} {
			if ex, ok := p.Resolve(side).(*ssa.Extract); ok && ex.Tuple == authCall.Value() {
				// positive term is "(X == nil)"; Val is its truth value
				return cd.Val, true
			}
		}
	}
	return false, false
}

type setupAnchors struct {
	newSession, sessCreate, localCreate, connAck, byClientID, sessDelete, extend, setReadDeadline, decode *types.Func
}

func (c *Ctx) setupAnchors(ru *report.Rule) *setupAnchors {
	a := &setupAnchors{
		newSession:      c.fo(ru, "wasp/sessions", "NewSession"),
		sessCreate:      c.im(ru, "wasp/distributed", "SessionMetadatasState", "Create"),
		localCreate:     c.im(ru, "wasp", "LocalState", "Create"),
		connAck:         c.cm(ru, pkgEncoder, "Encoder", "ConnAck"),
		byClientID:      c.im(ru, "wasp/distributed", "SessionMetadatasState", "ByClientID"),
		sessDelete:      c.im(ru, "wasp/distributed", "SessionMetadatasState", "Delete"),
		extend:          c.cm(ru, "wasp/sessions", "Session", "ExtendDeadline"),
		setReadDeadline: c.im(ru, "wasp/transport", "TimeoutReadWriteCloser", "SetReadDeadline"),
		decode:          c.cm(ru, pkgDecoder, "Sync", "Decode"),
	}
	if a.newSession == nil || a.sessCreate == nil || a.localCreate == nil || a.connAck == nil || a.byClientID == nil || a.sessDelete == nil {
		return nil
	}
	return a
}

// connAckCode returns the constant ReturnCode of the ConnAck literal passed to encoder.ConnAck, or -1.
func connAckCode(call *core.Call) int64 { return connAckCodeOn(nil, call) }

// connAckCodeOn is connAckCode along an inlined path: the code may be the parameter of a helper that writes the CONNACK
// (connAck(c, connect, code)), bound to the constant the handler passes on this path.
func connAckCodeOn(p *core.Path, call *core.Call) int64 {
	rc := complitField(call.Arg(1), "ReturnCode")
	if p != nil && rc != nil {
		rc = conversionsOnly(p.Resolve(conversionsOnly(rc)))
	}
	if k, ok := rc.(*ssa.Const); ok && k.Value != nil && k.Value.Kind() == constant.Int {
		v, _ := constant.Int64Val(k.Value)
		return v
	}
	return -1
}

func isGo(pc core.PathCall) bool { _, ok := pc.Instr.(*ssa.Go); return ok }

// checkSetupGating implements C16-R1.
func (c *Ctx) checkSetupGating() {
	ru := c.R.Rule("C16-R1", "in the CONNECT handler, session construction, session-record creation, registry insert, the per-connection goroutine and an accepting CONNACK occur only on paths where Authenticate returned a nil error; where it returned an error exactly one CONNACK with a non-zero refusal code is written and nothing is created", "E1 pathspec over the CONNECT handler", 2)
	f, authCall := c.connectHandler(ru)
	a := c.setupAnchors(ru)
	if f == nil || a == nil {
		return
	}
	c.R.Fn(c.fname(f))
	paths, err := c.handlerPaths(f, a)
	if err != nil {
		ru.Undecided("paths of the CONNECT handler", c.where(f, f), err.Error())
		return
	}
	ru.Evals(len(paths))
	var refusedBad, createdBad string
	nRefused, nAccepted := 0, 0
	for _, p := range paths {
		isNil, tested := authErrNil(p, authCall)
		creates, acks, accepts := 0, 0, 0
		var refusalCodes []int64
		for _, pc := range p.Calls() {
			switch {
			case pc.Is(a.newSession, a.sessCreate, a.localCreate) || isGo(pc):
				creates++
			case pc.Is(a.connAck):
				acks++
				code := connAckCodeOn(p, pc.Call)
				if code == 0 {
					accepts++
				} else {
					refusalCodes = append(refusalCodes, code)
				}
			}
		}
		if tested && !isNil {
			nRefused++
			if creates > 0 || accepts > 0 {
				refusedBad = fmt.Sprintf("on a path where Authenticate returned an error, %d state-creating call(s) and %d accepting CONNACK(s) happen: %s", creates, accepts, fmtPath(p, c.P))
			} else if len(refusalCodes) != 1 || refusalCodes[0] <= 0 {
				refusedBad = fmt.Sprintf("on a path where Authenticate returned an error, the client does not get exactly one refusal CONNACK with a constant non-zero code (got %v): %s", refusalCodes, fmtPath(p, c.P))
			}
		} else if !tested {
			if creates > 0 || accepts > 0 {
				createdBad = fmt.Sprintf("session state is created / accepted on a path that never tested the authentication error: %s", fmtPath(p, c.P))
			}
		} else {
			if accepts > 0 {
				nAccepted++
			}
		}
	}
	ru.Check(refusedBad == "" && nRefused > 0, "rows auth-error of the CONNECT handler", c.where(f, f), fmt.Sprintf("%d refusing path(s): one refusal CONNACK, nothing created", nRefused), refusedBad+map[bool]string{true: "", false: "no path handles an authentication error"}[nRefused > 0])
	ru.Check(createdBad == "" && nAccepted > 0, "rows auth-ok / auth-untested of the CONNECT handler", c.where(f, f), fmt.Sprintf("%d accepting path(s), all after a nil authentication error", nAccepted), createdBad+map[bool]string{true: "", false: "no accepting path"}[nAccepted > 0])
}

// ruleRegisteredBeforeServed (C13-R8, C20-R8; part of C11-R8): on every accepting path of the CONNECT handler the session
// is inserted in the local registry before its serving goroutine is started. The goroutine's teardown decides by the
// registry whether the session still has to be torn down: started first, a connection that ends at once is taken for
// already shut down — no will is published, its record and subscriptions stay — and the insert then leaves a zombie.
func (c *Ctx) ruleRegisteredBeforeServed(id string) {
	ru := c.R.Rule(id, "the session is inserted in the local registry before its per-connection goroutine is started (the goroutine's teardown takes a session that is not in the registry for already shut down: no will, record and subscriptions left behind; the insert that follows registers a dead session)", "E2 path order on the accepting paths of the CONNECT handler", 1)
	handler, authCall := c.connectHandler(ru)
	sa := c.setupAnchors(ru)
	if handler == nil || sa == nil {
		return
	}
	paths, err := c.handlerPaths(handler, sa)
	if err != nil {
		ru.Undecided("paths of the CONNECT handler", c.where(handler, handler), err.Error())
		return
	}
	bad, n := "", 0
	for _, p := range paths {
		if isNil, tested := authErrNil(p, authCall); !tested || !isNil {
			continue
		}
		registered := false
		for _, pc := range p.Calls() {
			switch {
			case pc.Is(sa.localCreate):
				registered = true
			case isGo(pc):
				n++
				if !registered {
					bad = "the goroutine is started before the registry insert: " + fmtPath(p, c.P)
				}
			}
		}
	}
	ru.Check(bad == "" && n > 0, "registry insert precedes `go` in "+c.fname(handler), c.where(handler, handler), fmt.Sprintf("%d accepting path(s)", n), bad)
}
