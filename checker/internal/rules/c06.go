package rules

import (
	"fmt"
	"go/constant"
	"go/token"
	"go/types"

	"golang.org/x/tools/go/ssa"

	"waspcheck/internal/core"
	"waspcheck/internal/report"
)

// idPool describes the module's implementation of the identifier pool (found through the midPool interface, not by name).
type idPool struct {
	get, put *ssa.Function
	named    *types.Named // the implementing struct
	list     int          // index of the free-list field (the slice field of the struct)
	listName string
}

func (c *Ctx) idPool(ru *report.Rule) *idPool {
	g := c.implOf(ru, "wasp", "midPool", "Get")
	p := c.implOf(ru, "wasp", "midPool", "Put")
	if g == nil || p == nil || g.Signature.Recv() == nil {
		return nil
	}
	n, ok := derefT(g.Signature.Recv().Type()).(*types.Named)
	if !ru.Anchor(ok, "the struct implementing the identifier pool") {
		return nil
	}
	st, ok := n.Underlying().(*types.Struct)
	if !ru.Anchor(ok, "the struct implementing the identifier pool") {
		return nil
	}
	ip := &idPool{get: g, put: p, named: n, list: -1}
	for i := 0; i < st.NumFields(); i++ {
		if _, isSlice := st.Field(i).Type().Underlying().(*types.Slice); isSlice {
			ip.list, ip.listName = i, st.Field(i).Name()
		}
	}
	if !ru.Anchor(ip.list >= 0, "the free list (slice field) of the identifier pool") {
		return nil
	}
	return ip
}

// methods of the pool type declared in the module.
func (c *Ctx) poolMethods(ip *idPool) []*ssa.Function {
	var out []*ssa.Function
	for _, f := range c.P.ModFuncs() {
		if f.Parent() != nil || f.Signature.Recv() == nil {
			continue
		}
		if n, ok := derefT(f.Signature.Recv().Type()).(*types.Named); ok && n == ip.named {
			out = append(out, f)
		}
	}
	return out
}

// isListLoad: v is a load of the pool's free-list field.
func (ip *idPool) isListLoad(v ssa.Value) bool {
	ld, ok := v.(*ssa.UnOp)
	if !ok || ld.Op != token.MUL {
		return false
	}
	fa, ok := ld.X.(*ssa.FieldAddr)
	if !ok || fa.Field != ip.list {
		return false
	}
	n, ok := derefT(fa.X.Type()).(*types.Named)
	return ok && n == ip.named
}

func (ip *idPool) isListLen(v ssa.Value) bool {
	cl, ok := v.(*ssa.Call)
	if !ok {
		return false
	}
	b, ok := cl.Call.Value.(*ssa.Builtin)
	return ok && b.Name() == "len" && len(cl.Call.Args) == 1 && ip.isListLoad(cl.Call.Args[0])
}

// ---- a tiny linear domain over the free list's length L and the results of binary searches over it ----

// lin is c + Σ coef·var.
type lin struct {
	c    int64
	vars map[string]int64
	ok   bool
}

func (a lin) add(b lin, sign int64) lin {
	if !a.ok || !b.ok {
		return lin{}
	}
	out := lin{c: a.c + sign*b.c, vars: map[string]int64{}, ok: true}
	for k, v := range a.vars {
		out.vars[k] += v
	}
	for k, v := range b.vars {
		out.vars[k] += sign * v
	}
	return out
}

func (a lin) eval(env map[string]int64) int64 {
	r := a.c
	for k, v := range a.vars {
		r += v * env[k]
	}
	return r
}

// poolTerm renders an integer SSA value in the domain: constants, len(list) = L, r = sort.Search(len(list), …) = S<n>, ±.
func (c *Ctx) poolTerm(ip *idPool, v ssa.Value, searches map[ssa.Value]string) lin {
	return c.poolTermOn(nil, ip, v, searches)
}

// poolTermOn is poolTerm along an inlined path: a helper's parameter is the argument bound to it.
func (c *Ctx) poolTermOn(p *core.Path, ip *idPool, v ssa.Value, searches map[ssa.Value]string) lin {
	v = conversionsOnly(v)
	if p != nil {
		v = conversionsOnly(p.Resolve(v))
	}
	if k, ok := constInt(v); ok {
		return lin{c: k, vars: map[string]int64{}, ok: true}
	}
	if ip.isListLen(v) {
		if poolLenAt != nil {
			if t, have := poolLenAt[v]; have {
				return t // the length the list had when this len() was evaluated on the path (it may have grown or shrunk since the entry)
			}
		}
		return lin{vars: map[string]int64{"L": 1}, ok: true}
	}
	if cv, ok := v.(*ssa.Call); ok {
		if sc := cv.Call.StaticCallee(); sc != nil && sc.Pkg != nil && sc.Pkg.Pkg.Path() == "sort" && sc.Name() == "Search" && ip.isListLen(conversionsOnly(cv.Call.Args[0])) {
			if poolLenAt != nil {
				if t, have := poolLenAt[conversionsOnly(cv.Call.Args[0])]; have && !(t.ok && t.c == 0 && len(t.vars) == 1 && t.vars["L"] == 1) {
					return lin{} // a search over a list that has already changed on this path: not modelled
				}
			}
			name, have := searches[v]
			if !have {
				name = fmt.Sprintf("S%d", len(searches))
				searches[v] = name
			}
			return lin{vars: map[string]int64{name: 1}, ok: true}
		}
	}
	if bo, ok := v.(*ssa.BinOp); ok {
		switch bo.Op {
		case token.ADD:
			return c.poolTermOn(p, ip, bo.X, searches).add(c.poolTermOn(p, ip, bo.Y, searches), 1)
		case token.SUB:
			return c.poolTermOn(p, ip, bo.X, searches).add(c.poolTermOn(p, ip, bo.Y, searches), -1)
		}
	}
	return lin{}
}

// poolLenAt: while a path is being judged, the length (as a term over L) of the list at each len(list) evaluated on it.
var poolLenAt map[ssa.Value]lin

type linFact struct {
	a, b lin
	op   token.Token
	val  bool
}

func holds(op token.Token, x, y int64) bool {
	switch op {
	case token.EQL:
		return x == y
	case token.NEQ:
		return x != y
	case token.LSS:
		return x < y
	case token.LEQ:
		return x <= y
	case token.GTR:
		return x > y
	case token.GEQ:
		return x >= y
	}
	return true
}

// models enumerates the assignments of L in 0..4 and of every search result in 0..L (postcondition of sort.Search) that satisfy facts.
// The constraints are comparisons between L, a search result and constants of magnitude <= 1, so this small range exhibits every boundary case.
func models(vars []string, facts []linFact, each func(env map[string]int64) bool) {
	env := map[string]int64{}
	var rec func(i int) bool
	rec = func(i int) bool {
		if i == len(vars) {
			for _, f := range facts {
				if holds(f.op, f.a.eval(env), f.b.eval(env)) != f.val {
					return true
				}
			}
			return each(env)
		}
		lo, hi := int64(0), int64(4)
		if vars[i] != "L" {
			hi = env["L"]
		}
		for x := lo; x <= hi; x++ {
			env[vars[i]] = x
			if !rec(i + 1) {
				return false
			}
		}
		return true
	}
	rec(0)
}

// ruleFreeListBounds implements C06-R6.
func (c *Ctx) ruleFreeListBounds(id string) {
	ru := c.R.Rule(id, "every index into, and every re-slicing of, the pool's free list is within bounds on every path that reaches it, for every length of the list (0 included) and every position a binary search over it can return: no sequence of Get/Put calls makes the allocator panic", "E1 paths to the access (the pool's helpers inlined) + finite-model decision over (len, search result)", 3)
	ip := c.idPool(ru)
	if ip == nil {
		return
	}
	methods := c.poolMethods(ip)
	isMethod := map[*ssa.Function]bool{}
	for _, f := range methods {
		isMethod[f] = true
	}
	called := map[*ssa.Function]bool{}
	for _, f := range methods {
		for _, cl := range core.CallsIn(f) {
			if cl.Static != nil && cl.Static != f && isMethod[cl.Static] {
				called[cl.Static] = true
			}
		}
	}
	type verdict struct {
		bad       string
		undecided bool
		n         int
		at        ssa.Instruction
	}
	res := map[ssa.Instruction]*verdict{}
	var order []ssa.Instruction
	isListStore := func(in ssa.Instruction) bool {
		st, ok := in.(*ssa.Store)
		if !ok {
			return false
		}
		fa, ok := st.Addr.(*ssa.FieldAddr)
		if !ok || fa.Field != ip.list {
			return false
		}
		nn, ok := derefT(fa.X.Type()).(*types.Named)
		return ok && nn == ip.named
	}
	for _, root := range methods {
		if called[root] {
			continue // judged on the paths of the methods that call it
		}
		c.R.Fn(c.fname(root))
		paths, err := c.pathsInlinedPkg(root, core.PathOpts{}, func(g *ssa.Function) bool { return !isMethod[g] })
		if err != nil {
			ru.Undecided("paths of "+c.fname(root), c.whereF(root), err.Error())
			continue
		}
		ru.Evals(len(paths))
		for _, p := range paths {
			ds := decisions(p)
			searches := map[ssa.Value]string{}
			replaced := false
			// the length of the list along the path, as a term over its length at entry: an append of k elements adds k,
			// a re-slice list[a:b] gives b-a, append(list[:a], list[b:]...) gives a+(len-b); anything else is not modelled
			cur := lin{vars: map[string]int64{"L": 1}, ok: true}
			ofLoad := map[ssa.Value]lin{}
			poolLenAt = map[ssa.Value]lin{}
			var sliceLen func(v ssa.Value) lin
			sliceLen = func(v ssa.Value) lin {
				v = conversionsOnly(p.Resolve(conversionsOnly(v)))
				if ip.isListLoad(v) {
					if t, have := ofLoad[v]; have {
						return t
					}
					return lin{}
				}
				switch x := v.(type) {
				case *ssa.Const:
					if x.IsNil() {
						return lin{vars: map[string]int64{}, ok: true}
					}
				case *ssa.MakeSlice:
					return c.poolTermOn(p, ip, x.Len, searches)
				case *ssa.Slice:
					var base lin
					if al, isAlloc := x.X.(*ssa.Alloc); isAlloc {
						if at, isArr := derefT(al.Type()).Underlying().(*types.Array); isArr {
							base = lin{c: at.Len(), vars: map[string]int64{}, ok: true}
						}
					} else {
						base = sliceLen(x.X)
					}
					hi, lo := base, lin{vars: map[string]int64{}, ok: true}
					if x.High != nil {
						hi = c.poolTermOn(p, ip, x.High, searches)
					}
					if x.Low != nil {
						lo = c.poolTermOn(p, ip, x.Low, searches)
					}
					return hi.add(lo, -1)
				case *ssa.Call:
					if b, isB := x.Call.Value.(*ssa.Builtin); isB && b.Name() == "append" && len(x.Call.Args) == 2 {
						return sliceLen(x.Call.Args[0]).add(sliceLen(x.Call.Args[1]), 1)
					}
				}
				return lin{}
			}
			for seq, pi := range p.Instrs() {
				in := pi.In
				if lv, isVal := in.(ssa.Value); isVal {
					if ip.isListLoad(lv) {
						if !replaced {
							ofLoad[lv] = cur
						}
					} else if ip.isListLen(lv) {
						if t, have := ofLoad[lv.(*ssa.Call).Call.Args[0]]; have {
							poolLenAt[lv] = t
						}
					}
				}
				if isListStore(in) {
					if nl := sliceLen(in.(*ssa.Store).Val); nl.ok && !replaced {
						cur = nl
					} else {
						replaced = true
					}
				}
				var idxs []ssa.Value
				kind := ""
				switch x := in.(type) {
				case *ssa.IndexAddr:
					if ip.isListLoad(x.X) {
						idxs, kind = []ssa.Value{x.Index}, "index"
					}
				case *ssa.Slice:
					if ip.isListLoad(x.X) {
						kind = "slice bound"
						if x.Low != nil {
							idxs = append(idxs, x.Low)
						}
						if x.High != nil {
							idxs = append(idxs, x.High)
						}
					}
				}
				if kind == "" {
					continue
				}
				v := res[in]
				if v == nil {
					v = &verdict{at: in}
					res[in] = v
					order = append(order, in)
					c.R.Fn(c.fname(in.Parent()))
				}
				v.n++
				if v.bad != "" {
					continue
				}
				var terms []lin
				var base ssa.Value
				switch x := in.(type) {
				case *ssa.IndexAddr:
					base = x.X
				case *ssa.Slice:
					base = x.X
				}
				upperT, haveUpper := ofLoad[base]
				decided := haveUpper && upperT.ok
				for _, iv := range idxs {
					t := c.poolTermOn(p, ip, iv, searches)
					if !t.ok {
						decided = false
					}
					terms = append(terms, t)
				}
				if !decided {
					v.undecided = true
					continue
				}
				var facts []linFact
				for _, d := range ds {
					if d.Seq >= seq {
						break
					}
					bo, ok := d.Cond.(*ssa.BinOp)
					if !ok {
						continue
					}
					a, bb := c.poolTermOn(p, ip, bo.X, searches), c.poolTermOn(p, ip, bo.Y, searches)
					if a.ok && bb.ok {
						facts = append(facts, linFact{a, bb, bo.Op, d.Val})
					}
				}
				vars := []string{"L"}
				for _, name := range searches {
					vars = append(vars, name)
				}
				sortStrings(vars[1:])
				models(vars, facts, func(env map[string]int64) bool {
					for _, t := range terms {
						val := t.eval(env)
						upper := upperT.eval(env)
						inBounds := val >= 0 && val < upper
						if kind == "slice bound" {
							inBounds = val >= 0 && val <= upper
						}
						if !inBounds {
							v.bad = fmt.Sprintf("with %d free interval(s) in the list%s the %s evaluates to %d on path %s: the allocator panics", env["L"], searchDesc(env), kind, val, fmtPath(p, c.P))
							return false
						}
					}
					return true
				})
			}
		}
	}
	poolLenAt = nil
	for i, in := range order {
		v := res[in]
		kind := "index"
		if _, isSl := in.(*ssa.Slice); isSl {
			kind = "slice bound"
		}
		key := fmt.Sprintf("%s #%d on %s in %s", kind, i+1, ip.listName, c.fname(in.Parent()))
		switch {
		case v.bad != "":
			ru.Fail(key, c.whereI(in), v.bad)
		case v.undecided:
			ru.Undecided(key, c.whereI(in), "the index is not a constant, the list length or a binary-search position (±constant), or the list is replaced before the access")
		default:
			ru.OK(key, c.whereI(in), fmt.Sprintf("in bounds on %d path occurrence(s), for every list length and search position consistent with the guards", v.n))
		}
	}
}

func searchDesc(env map[string]int64) string {
	s := ""
	for k, v := range env {
		if k != "L" {
			s += fmt.Sprintf(" and the search returning %d", v)
		}
	}
	return s
}

// ruleExhaustion implements C06-R7.
func (c *Ctx) ruleExhaustion(id string) {
	ru := c.R.Rule(id, "exhaustion: when the free list is empty Get returns a constant sentinel and leaves the list alone (an empty list means every identifier is outstanding — it is filled by the constructor, never re-filled by Get); every caller of the pool's Get tests the result so that no sentinel is used as an identifier", "E1 paths with the emptiness decision + three-valued evaluation of the caller's tests on each sentinel (writer/reader agreement)", 2)
	ip := c.idPool(ru)
	if ip == nil {
		return
	}
	midGet := c.im(ru, "wasp", "midPool", "Get")
	c.R.Fn(c.fname(ip.get))
	isMethod := map[*ssa.Function]bool{}
	for _, f := range c.poolMethods(ip) {
		isMethod[f] = true
	}
	paths, err := c.pathsInlinedPkg(ip.get, core.PathOpts{}, func(g *ssa.Function) bool { return !isMethod[g] })
	if err != nil {
		ru.Undecided("empty-list paths of "+c.fname(ip.get), c.whereF(ip.get), err.Error())
		return
	}
	ru.Evals(len(paths))
	bad, nEmpty := "", 0
	sentinels := map[int64]bool{}
	for _, p := range paths {
		r, ok := p.Exit.(*ssa.Return)
		if !ok || len(r.Results) != 1 {
			continue
		}
		// is the list known to be empty on this path? (len(list) == 0 decided true)
		empty, otherState := false, false
		for _, d := range decisions(p) {
			bo, ok := d.Cond.(*ssa.BinOp)
			if !ok {
				continue
			}
			searches := map[ssa.Value]string{}
			a, b := c.poolTermOn(p, ip, bo.X, searches), c.poolTermOn(p, ip, bo.Y, searches)
			if a.ok && b.ok {
				onlyZero := true
				models([]string{"L"}, []linFact{{a, b, bo.Op, d.Val}}, func(env map[string]int64) bool {
					if env["L"] != 0 {
						onlyZero = false
					}
					return true
				})
				if onlyZero {
					empty = true
				}
				continue
			}
			// a decision on some other field of the pool (an "initialised" flag)
			if depReaches(d.Cond, func(v ssa.Value) bool {
				fa, ok := v.(*ssa.FieldAddr)
				if !ok || fa.Field == ip.list {
					return false
				}
				nn, ok := derefT(fa.X.Type()).(*types.Named)
				return ok && nn == ip.named
			}) {
				otherState = true
			}
		}
		res := p.ResolveMem(r.Results[0])
		if k, isK := constInt(res); isK {
			if _, direct := conversionsOnly(res).(*ssa.Const); direct {
				sentinels[k] = true
			}
		}
		if !empty {
			continue
		}
		nEmpty++
		refills := false
		for _, pi := range p.Instrs() {
			if st, ok := pi.In.(*ssa.Store); ok {
				if fa, ok := st.Addr.(*ssa.FieldAddr); ok && fa.Field == ip.list {
					if nn, ok := derefT(fa.X.Type()).(*types.Named); ok && nn == ip.named {
						refills = true
					}
				}
			}
		}
		if otherState {
			continue // the path is told apart from exhaustion by other state of the pool
		}
		if refills {
			bad = "Get re-fills an empty free list and hands out an identifier: an empty list is also what remains when every identifier is outstanding, so a duplicate is handed out instead of reporting exhaustion"
		} else if _, isConst := conversionsOnly(res).(*ssa.Const); !isConst {
			bad = "on an empty free list Get does not return a constant exhaustion value"
		}
	}
	ru.Check(bad == "" && nEmpty > 0, "empty free list in "+c.fname(ip.get), c.whereF(ip.get), fmt.Sprintf("%d empty-list path(s): constant sentinel, list untouched", nEmpty), bad+map[bool]string{true: "", false: "Get never decides whether the free list is empty"}[nEmpty > 0 || bad != ""])

	// callers: every sentinel must be told apart from an identifier
	var sents []int64
	for k := range sentinels {
		sents = append(sents, k)
	}
	for i := 1; i < len(sents); i++ {
		for j := i; j > 0 && sents[j] < sents[j-1]; j-- {
			sents[j], sents[j-1] = sents[j-1], sents[j]
		}
	}
	nCallers := 0
	for _, f := range c.P.ModFuncs() {
		if f == ip.get || c.P.IsGenerated(f) {
			continue
		}
		for i, cl := range core.CallsTo(f, midGet) {
			nCallers++
			c.R.Fn(c.fname(f))
			key := fmt.Sprintf("result of pool Get #%d in %s", i, c.fname(f))
			r := cl.Value()
			if r == nil {
				continue
			}
			ps, err := core.EnumPaths(f, core.PathOpts{Start: cl.Instr.Block(), Stop: func(b *ssa.BasicBlock) bool { return b == cl.Instr.Block() }})
			if err != nil {
				ru.Undecided(key, c.whereI(cl.Instr), err.Error())
				continue
			}
			ru.Evals(len(ps))
			bad := ""
			for _, s := range sents {
				for _, p := range ps {
					consistent := true
					lastTest := -1
					for _, d := range decisions(p) {
						bo, ok := d.Cond.(*ssa.BinOp)
						if !ok {
							continue
						}
						var other ssa.Value
						op := bo.Op
						switch {
						case conversionsOnly(bo.X) == r:
							other = bo.Y
						case conversionsOnly(bo.Y) == r:
							other = bo.X
							op = map[token.Token]token.Token{token.LSS: token.GTR, token.GTR: token.LSS, token.LEQ: token.GEQ, token.GEQ: token.LEQ, token.EQL: token.EQL, token.NEQ: token.NEQ}[op]
						default:
							continue
						}
						k, isK := constInt(other)
						if !isK {
							continue
						}
						lastTest = d.Seq
						if holds(op, s, k) != d.Val {
							consistent = false
						}
					}
					if !consistent {
						continue
					}
					// is the value used as an identifier on this path?
					for seq, pi := range p.Instrs() {
						if seq == 0 && pi.In == cl.Instr {
							continue
						}
						uses := false
						for _, op := range pi.In.Operands(nil) {
							if *op != nil && conversionsOnly(*op) == r {
								uses = true
							}
						}
						if !uses {
							continue
						}
						switch pi.In.(type) {
						case *ssa.BinOp, *ssa.DebugRef, *ssa.If:
							continue
						}
						_ = lastTest
						bad = fmt.Sprintf("when the pool reports exhaustion by returning %d, %s goes on to use that value as an identifier (at %s): the tests applied to the result do not catch this sentinel", s, c.fname(f), c.whereI(pi.In))
					}
				}
			}
			ru.Check(bad == "", key, c.whereI(cl.Instr), fmt.Sprintf("sentinel(s) %v never used as an identifier", sents), bad)
		}
	}
	ru.Anchor(nCallers > 0, "a caller of the pool's Get")
	_ = constant.Int
}

// ruleSearchPostcondition implements C06-R8.
func (c *Ctx) ruleSearchPostcondition(id string) {
	ru := c.R.Rule(id, "no guard in the pool contradicts the postcondition of the binary search it follows: after r = sort.Search(n, i ↦ list[i].f >= k), a test list[r].f < k can never hold (and list[r-1].f >= k neither) — such a guard is dead, so the membership test it was meant to make (is the identifier already free?) is not made", "E11 contradiction between a branch condition and the search postcondition (Engler-style belief check)", 1)
	ip := c.idPool(ru)
	if ip == nil {
		return
	}
	search := c.fo(ru, "sort", "Search")
	if search == nil {
		return
	}
	for _, f := range c.poolMethods(ip) {
		for si, sc := range core.CallsTo(f, search) {
			pred := closureArg(sc.Arg(1))
			if pred == nil || !ip.isListLen(conversionsOnly(sc.Arg(0))) {
				continue
			}
			c.R.Fn(c.fname(f))
			// predicate: list[i].F  OP  K   (monotone: elem on the greater side)
			var fld int = -1
			var k ssa.Value
			strict := false
			for _, rv := range returnValues(pred) {
				a := orderAtom(rv, false)
				if a.kind != "order" {
					continue
				}
				// a.lhs < / <= a.rhs ; elem must be rhs
				if fa := elemField(ip, a.rhs); fa != nil && dependsOnParam(a.rhs, pred, 0) && !dependsOnParam(a.lhs, pred, 0) {
					fld, k, strict = fa.Field, deepStrip(a.lhs), a.strict
				}
			}
			key := fmt.Sprintf("guards after sort.Search#%d in %s", si, c.fname(f))
			if fld < 0 || k == nil {
				ru.OK(key, c.whereI(sc.Instr), "predicate is not of the form k <= list[i].f: no postcondition to compare guards with")
				continue
			}
			bad, n := "", 0
			for _, b := range f.Blocks {
				iff, ok := b.Instrs[len(b.Instrs)-1].(*ssa.If)
				if !ok {
					continue
				}
				a := orderAtom(iff.Cond, false)
				if a.kind != "order" {
					continue
				}
				// which side is an element of the list at r or r-1, the other side k
				for _, pair := range []struct {
					elem, other ssa.Value
					elemIsLess  bool
				}{{a.lhs, a.rhs, true}, {a.rhs, a.lhs, false}} {
					fa := elemField(ip, pair.elem)
					if fa == nil || fa.Field != fld || deepStrip(pair.other) != k {
						continue
					}
					ia, _ := fa.X.(*ssa.IndexAddr)
					if ia == nil {
						continue
					}
					searches := map[ssa.Value]string{}
					t := c.poolTerm(ip, ia.Index, searches)
					if !t.ok || len(searches) != 1 || searches[sc.Value()] == "" {
						continue
					}
					off := t.c // index = S + off
					if t.vars[searches[sc.Value()]] != 1 || len(t.vars) != 1 {
						continue
					}
					n++
					// postcondition: at r: k <= elem (strict: k < elem); at r-1: elem < k (strict: elem <= k)
					// guard says: elemIsLess ? elem </<= k : k </<= elem
					switch {
					case off == 0 && pair.elemIsLess && (a.strict || strict):
						// elem < k (or elem <= k with strict post k < elem) contradicts k <= elem
						bad = fmt.Sprintf("the guard at %s tests %s[r].%s below the searched value, which the search just excluded (r is the first position whose %s is not below it): the guard can never hold, so an identifier that is already free is not recognised when it lies in the interval before r — releasing it twice duplicates it in the list", c.whereI(iff), ip.listName, fieldNameOf(fa.X.Type(), fa.Field), fieldNameOf(fa.X.Type(), fa.Field))
					case off == -1 && !pair.elemIsLess && (!a.strict || !strict) && !(a.strict && strict):
						// k <= elem at r-1 contradicts elem < k
						bad = fmt.Sprintf("the guard at %s tests %s[r-1].%s at or above the searched value, which the search excludes: the guard can never hold", c.whereI(iff), ip.listName, fieldNameOf(fa.X.Type(), fa.Field))
					}
				}
			}
			ru.Check(bad == "", key, c.whereI(sc.Instr), fmt.Sprintf("%d guard(s) on the searched field, none contradicts the search postcondition", n), bad)
		}
	}
}

// elemField: v is a load of a field of an element of the pool's free list; returns the field address.
func elemField(ip *idPool, v ssa.Value) *ssa.FieldAddr {
	ld, ok := conversionsOnly(v).(*ssa.UnOp)
	if !ok || ld.Op != token.MUL {
		return nil
	}
	fa, ok := ld.X.(*ssa.FieldAddr)
	if !ok {
		return nil
	}
	ia, ok := fa.X.(*ssa.IndexAddr)
	if !ok || !ip.isListLoad(ia.X) {
		return nil
	}
	return fa
}

// ruleNoLostUpdateOnCopy implements C06-R10: an interval copied out of the free list is not modified in the copy.
func (c *Ctx) ruleNoLostUpdateOnCopy(id string) {
	ru := c.R.Rule(id, "an interval is modified in the free list itself, never in a copy of it: a local struct value loaded from an element of the list whose fields are then assigned is a lost update unless the value is stored back (last := m.intervals[i]; last.to++ changes nothing — the identifier returned is never free again)", "E3 local copies of list elements with field stores and no write-back", 1)
	ip := c.idPool(ru)
	if ip == nil {
		return
	}
	n, bad := 0, ""
	for _, f := range c.poolMethods(ip) {
		c.R.Fn(c.fname(f))
		for _, b := range f.Blocks {
			for _, in := range b.Instrs {
				al, ok := in.(*ssa.Alloc)
				if !ok || al.Heap || al.Referrers() == nil {
					continue
				}
				if _, isStruct := derefT(al.Type()).Underlying().(*types.Struct); !isStruct {
					continue
				}
				fromList, mutated, writtenBack := false, false, false
				var mutAt ssa.Instruction
				var muts, backs []ssa.Instruction
				for _, r := range *al.Referrers() {
					switch x := r.(type) {
					case *ssa.Store:
						if x.Addr == ssa.Value(al) {
							if ld, ok := x.Val.(*ssa.UnOp); ok && ld.Op == token.MUL {
								if ia, ok := ld.X.(*ssa.IndexAddr); ok && ip.isListLoad(ia.X) {
									fromList = true
								}
							}
						}
					case *ssa.FieldAddr:
						if x.Referrers() != nil {
							for _, rr := range *x.Referrers() {
								if st, ok := rr.(*ssa.Store); ok && st.Addr == ssa.Value(x) {
									mutated, mutAt = true, st
									muts = append(muts, st)
								}
							}
						}
					case *ssa.UnOp:
						// the whole value read again: stored back into the list?
						if x.Referrers() != nil {
							for _, rr := range *x.Referrers() {
								if st, ok := rr.(*ssa.Store); ok && st.Val == ssa.Value(x) {
									if ia, ok := st.Addr.(*ssa.IndexAddr); ok && ip.isListLoad(ia.X) {
										writtenBack = true
										backs = append(backs, st)
									}
								}
								if cv, ok := rr.(*ssa.Call); ok && core.CallOf(cv).Builtin() == "append" {
									writtenBack = true
									backs = append(backs, cv)
								}
								if st, ok := rr.(*ssa.Store); ok {
									if _, isIdx := st.Addr.(*ssa.IndexAddr); isIdx {
										writtenBack = true // element of a literal that is appended / assigned
										backs = append(backs, st)
									}
								}
							}
						}
					}
				}
				if !fromList {
					continue
				}
				n++
				// every modification of the copy must be followed, on its way out, by a write-back
				for _, m := range muts {
					followed := false
					for _, w := range backs {
						if reachesInstr(m, w) {
							followed = true
						}
					}
					if !followed {
						mutated, writtenBack, mutAt = true, false, m
					}
				}
				if mutated && !writtenBack {
					bad = "a copy of a free-list element is modified at " + c.whereI(mutAt) + " and not written back afterwards: the change is lost"
				}
			}
		}
	}
	if bad != "" {
		ru.Fail("copies of free-list elements in the pool", "-", bad)
	} else {
		ru.OK("copies of free-list elements in the pool", "-", fmt.Sprintf("%d local copy(ies) of list elements, none modified without write-back", n))
	}
}
