package rules

import (
	"go/token"

	"golang.org/x/tools/go/ssa"

	"waspcheck/internal/core"
)

// depReaches reports whether the backward data dependencies of v reach a value
// satisfying pred. The walk crosses closures through captured variables, goes
// through loads of locals to every value stored into them (in the function and
// in closures that capture the local), and through all instruction operands.
func depReaches(v ssa.Value, pred func(ssa.Value) bool) bool {
	seen := map[ssa.Value]bool{}
	var walk func(v ssa.Value, d int) bool
	walk = func(v ssa.Value, d int) bool {
		if v == nil || seen[v] || d > 60 {
			return false
		}
		seen[v] = true
		if pred(v) {
			return true
		}
		switch x := v.(type) {
		case *ssa.Parameter:
			return false
		case *ssa.FreeVar:
			if b := core.FreeVarBinding(x); b != nil {
				return walk(b, d+1)
			}
			return false
		case *ssa.Alloc:
			for _, st := range allStoresTo(x) {
				if walk(st.Val, d+1) {
					return true
				}
			}
			// element / field stores into the local (varargs arrays, composite literals)
			if x.Referrers() != nil {
				for _, r := range *x.Referrers() {
					switch r.(type) {
					case *ssa.IndexAddr, *ssa.FieldAddr:
						rv := r.(ssa.Value)
						if rv.Referrers() == nil {
							continue
						}
						for _, rr := range *rv.Referrers() {
							if st, ok := rr.(*ssa.Store); ok && st.Addr == rv && walk(st.Val, d+1) {
								return true
							}
						}
					}
				}
			}
			return false
		}
		if in, ok := v.(ssa.Instruction); ok {
			for _, op := range in.Operands(nil) {
				if *op != nil && walk(*op, d+1) {
					return true
				}
			}
		}
		return false
	}
	return walk(v, 0)
}

// allStoresTo lists stores into a local, including those made by closures that capture it.
func allStoresTo(a *ssa.Alloc) []*ssa.Store {
	var out []*ssa.Store
	var visit func(addr ssa.Value)
	seen := map[ssa.Value]bool{}
	visit = func(addr ssa.Value) {
		if seen[addr] {
			return
		}
		seen[addr] = true
		refs := addr.Referrers()
		if refs == nil {
			return
		}
		for _, r := range *refs {
			switch u := r.(type) {
			case *ssa.Store:
				if u.Addr == addr {
					out = append(out, u)
				}
			case *ssa.MakeClosure:
				fn := u.Fn.(*ssa.Function)
				for i, b := range u.Bindings {
					if b == addr && i < len(fn.FreeVars) {
						visit(fn.FreeVars[i])
					}
				}
			}
		}
	}
	visit(a)
	return out
}

// cellOf returns the local (Alloc) an address denotes, following captured variables; nil if it is not a local cell.
func cellOf(addr ssa.Value) *ssa.Alloc {
	for i := 0; i < 10; i++ {
		switch x := addr.(type) {
		case *ssa.Alloc:
			return x
		case *ssa.FreeVar:
			b := core.FreeVarBinding(x)
			if b == nil {
				return nil
			}
			addr = b
		default:
			return nil
		}
	}
	return nil
}

// conversionsOnly strips conversions / type changes only (no cells, no phis).
func conversionsOnly(v ssa.Value) ssa.Value {
	for i := 0; i < 10; i++ {
		switch x := v.(type) {
		case *ssa.Convert:
			v = x.X
		case *ssa.ChangeType:
			v = x.X
		default:
			return v
		}
	}
	return v
}

// dominatingStore: v must be (conversions of) a load of a local cell; returns the
// value of the store into that cell, in the same function as the load, that
// dominates the load with no other store to the cell (in that function) on the way.
func dominatingStore(v ssa.Value) (stored ssa.Value, ok bool) {
	v = conversionsOnly(v)
	ld, isLoad := v.(*ssa.UnOp)
	if !isLoad || ld.Op != token.MUL {
		return nil, false
	}
	cell := cellOf(ld.X)
	if cell == nil {
		return nil, false
	}
	fn := ld.Parent()
	var best *ssa.Store
	for _, b := range fn.Blocks {
		for _, in := range b.Instrs {
			st, isStore := in.(*ssa.Store)
			if !isStore || cellOf(st.Addr) != cell {
				continue
			}
			if core.Dominates(st, ld) {
				if best == nil || core.Dominates(best, st) {
					best = st
				}
			}
		}
	}
	if best == nil {
		return nil, false
	}
	// no other store of this function may lie between best and the load
	for _, b := range fn.Blocks {
		for _, in := range b.Instrs {
			st, isStore := in.(*ssa.Store)
			if !isStore || st == best || cellOf(st.Addr) != cell {
				continue
			}
			if core.Dominates(best, st) && !core.Dominates(ld, st) && reachesInstr(st, ld) {
				return nil, false
			}
		}
	}
	return best.Val, true
}

// reachesInstr: can control flow from a to b?
func reachesInstr(a, b ssa.Instruction) bool {
	if a.Parent() != b.Parent() {
		return false
	}
	if a.Block() == b.Block() && core.InstrIndex(a) < core.InstrIndex(b) {
		return true
	}
	for _, s := range a.Block().Succs {
		if blockReaches(s, b.Block()) {
			return true
		}
	}
	return false
}

// sameValue: two operands denote the same run-time value at their use sites:
// identical SSA value after conversions, or one is a load of a cell whose dominating store holds the other.
func sameValue(a, b ssa.Value) bool {
	a, b = conversionsOnly(a), conversionsOnly(b)
	if a == b {
		return true
	}
	if s, ok := dominatingStore(a); ok && conversionsOnly(s) == b {
		return true
	}
	if s, ok := dominatingStore(b); ok && conversionsOnly(s) == a {
		return true
	}
	return false
}

// callsTransitively reports whether fn calls (statically, within the module, up to depth) a call satisfying match; returns the argument mapping when fn's parameter feeds it.
func (c *Ctx) callsTransitively(fn *ssa.Function, depth int, match func(*core.Call) bool) bool {
	if fn == nil {
		return false
	}
	// function literals defined in fn are part of its body (unless they are only started as goroutines)
	for _, b := range fn.Blocks {
		for _, in := range b.Instrs {
			if mc, ok := in.(*ssa.MakeClosure); ok {
				asGo := false
				if mc.Referrers() != nil {
					for _, r := range *mc.Referrers() {
						if _, isGo := r.(*ssa.Go); isGo {
							asGo = true
						}
					}
				}
				if cf, ok := mc.Fn.(*ssa.Function); ok && !asGo && cf != fn {
					if c.callsTransitively(cf, depth, match) {
						return true
					}
				}
			}
		}
	}
	for _, cl := range core.CallsIn(fn) {
		if _, isGo := cl.Instr.(*ssa.Go); isGo {
			continue // starting a goroutine is not calling it
		}
		if match(cl) {
			return true
		}
		if depth > 0 && cl.Static != nil && cl.Static.Pkg != nil && c.P.IsModPkg(cl.Static.Pkg.Pkg) && cl.Static != fn {
			if c.callsTransitively(cl.Static, depth-1, match) {
				return true
			}
		}
	}
	return false
}
