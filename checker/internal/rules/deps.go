package rules

import (
	"go/token"
	"go/types"

	"golang.org/x/tools/go/ssa"

	"waspcheck/internal/core"
)

// theProg is the program under analysis (set by the registry before a property runs); used to follow a parameter to the
// arguments of its function's static call sites.
var theProg *core.Prog

// callerArgs returns the arguments bound to parameter p at the module's static call sites of its function (call, go, defer).
func callerArgs(p *ssa.Parameter) []ssa.Value {
	if theProg == nil || p.Parent() == nil {
		return nil
	}
	idx := paramIdx(p)
	var out []ssa.Value
	for _, site := range theProg.StaticCallers(p.Parent()) {
		if idx >= 0 && idx < len(site.Common().Args) {
			out = append(out, site.Common().Args[idx])
		}
	}
	// the receiver of a method used as a bound function value (x.settled passed as a callback) is x
	if idx == 0 && p.Parent().Signature.Recv() != nil {
		for _, mc := range theProg.BoundSites(p.Parent()) {
			out = append(out, mc.Bindings[0])
		}
	}
	return out
}

// literalField: v is a load of field f of a struct literal (seen through single-caller parameters and bound
// receivers) that is written exactly once, in that literal: returns the value stored there.
func literalField(v ssa.Value, budget int) (ssa.Value, bool) {
	ld, ok := v.(*ssa.UnOp)
	if !ok || ld.Op != token.MUL {
		return nil, false
	}
	fa, ok := ld.X.(*ssa.FieldAddr)
	if !ok {
		return nil, false
	}
	base := deepStripN(fa.X, budget-1)
	if cv, isCall := base.(*ssa.Call); isCall && theProg != nil {
		// built by a constructor (d := w.newDelivery(ctx, publish, session)): the literal's field with this call's arguments bound
		if o := (&Ctx{P: theProg}).builtObject(cv); o != nil && o.alloc.Referrers() != nil {
			if _, isStruct := derefT(o.alloc.Type()).Underlying().(*types.Struct); isStruct && !fieldWrittenElsewhere(fa, o.alloc) {
				if fv := o.field(fieldNameOf(fa.X.Type(), fa.Field)); fv != nil {
					return fv, true
				}
			}
		}
		return nil, false
	}
	al, ok := base.(*ssa.Alloc)
	if !ok || al.Referrers() == nil {
		return nil, false
	}
	if _, isStruct := derefT(al.Type()).Underlying().(*types.Struct); !isStruct {
		return nil, false
	}
	var val ssa.Value
	n := 0
	for _, r := range *al.Referrers() {
		fa2, ok := r.(*ssa.FieldAddr)
		if !ok || fa2.Field != fa.Field || fa2.Referrers() == nil {
			continue
		}
		for _, rr := range *fa2.Referrers() {
			if st, ok := rr.(*ssa.Store); ok && st.Addr == ssa.Value(fa2) {
				val = st.Val
				n++
			}
		}
	}
	if n != 1 || fieldWrittenElsewhere(fa, al) {
		return nil, false
	}
	return val, true
}

// fieldWrittenElsewhere: some store of the module writes that field of that struct type other than through the literal al itself.
func fieldWrittenElsewhere(fa *ssa.FieldAddr, al *ssa.Alloc) bool {
	if theProg == nil {
		return true
	}
	st := derefT(fa.X.Type())
	for _, f := range theProg.ModFuncs() {
		for _, b := range f.Blocks {
			for _, in := range b.Instrs {
				s, ok := in.(*ssa.Store)
				if !ok {
					continue
				}
				fa2, ok := s.Addr.(*ssa.FieldAddr)
				if !ok || fa2.Field != fa.Field || !types.Identical(derefT(fa2.X.Type()), st) {
					continue
				}
				if fa2.X != ssa.Value(al) {
					// another literal of the same type is fine: it is another object; a store through anything else is not
					if _, lit := fa2.X.(*ssa.Alloc); !lit {
						return true
					}
				}
			}
		}
	}
	return false
}

// deepStrip is core.Strip that also follows a parameter of a function with exactly one static call site to the argument passed there (helpers extracted from a single caller).
func deepStrip(v ssa.Value) ssa.Value { return deepStripN(v, 12) }

func deepStripN(v ssa.Value, budget int) ssa.Value {
	for ; budget > 0; budget-- {
		v = core.Strip(v)
		if fv, ok := literalField(v, budget); ok {
			v = fv
			continue
		}
		p, ok := v.(*ssa.Parameter)
		if !ok {
			return v
		}
		args := callerArgs(p)
		if len(args) == 0 {
			return v
		}
		// every call site passes the same object (one site, or several sites forwarding one value)
		first := deepStripN(args[0], budget-1)
		for _, a := range args[1:] {
			if deepStripN(a, budget-1) != first {
				return v
			}
		}
		return first
	}
	return v
}

// same: two values denote the same object once conversions, cells, captured variables and single-caller helper parameters are seen through.
func same(a, b ssa.Value) bool { return deepStrip(a) == deepStrip(b) }

// depReaches reports whether the backward data dependencies of v reach a value
// satisfying pred. The walk crosses closures through captured variables, goes
// through loads of locals to every value stored into them (in the function and
// in closures that capture the local), and through all instruction operands.
func depReaches(v ssa.Value, pred func(ssa.Value) bool) bool {
	// frame: a module function entered through one particular call (to look at what it returns): its parameters are
	// the arguments of that call, not those of every call site
	type frame struct {
		call *ssa.Call
		up   *frame
	}
	type key struct {
		v ssa.Value
		c *ssa.Call
	}
	seen := map[key]bool{}
	var walk func(v ssa.Value, d int, fr *frame) bool
	walk = func(v ssa.Value, d int, fr *frame) bool {
		var cur *ssa.Call
		if fr != nil {
			cur = fr.call
		}
		if v == nil || seen[key{v, cur}] || d > 60 {
			return false
		}
		seen[key{v, cur}] = true
		if pred(v) {
			return true
		}
		switch x := v.(type) {
		case *ssa.Parameter:
			// entered through a call: the parameter is that call's argument
			for f := fr; f != nil; f = f.up {
				if g := f.call.Call.StaticCallee(); g == x.Parent() {
					if i := paramIdx(x); i >= 0 && i < len(f.call.Call.Args) {
						return walk(f.call.Call.Args[i], d+1, f.up)
					}
					return false
				}
			}
			for _, a := range callerArgs(x) {
				if walk(a, d+1, nil) {
					return true
				}
			}
			return false
		case *ssa.FreeVar:
			if b := core.FreeVarBinding(x); b != nil {
				return walk(b, d+1, fr)
			}
			return false
		case *ssa.Alloc:
			for _, st := range allStoresTo(x) {
				if walk(st.Val, d+1, fr) {
					return true
				}
			}
			// element / field stores into the local (varargs arrays, composite literals)
			if x.Referrers() != nil {
				for _, r := range *x.Referrers() {
					switch r.(type) {
					case *ssa.IndexAddr, *ssa.FieldAddr:
						rv := r.(ssa.Value)
						if rv.Referrers() == nil {
							continue
						}
						for _, rr := range *rv.Referrers() {
							if st, ok := rr.(*ssa.Store); ok && st.Addr == rv && walk(st.Val, d+1, fr) {
								return true
							}
						}
					}
				}
			}
			return false
		}
		if cv, ok := v.(*ssa.Call); ok {
			// the result of a module function depends on what it returns
			if g := cv.Call.StaticCallee(); g != nil && theProg != nil && g.Pkg != nil && theProg.IsModPkg(g.Pkg.Pkg) && !theProg.IsGenerated(g) {
				nf := &frame{call: cv, up: fr}
				depth := 0
				for f := fr; f != nil; f = f.up {
					depth++
				}
				if depth < 4 {
					for _, b := range g.Blocks {
						if r, ok := b.Instrs[len(b.Instrs)-1].(*ssa.Return); ok {
							for _, res := range r.Results {
								if walk(res, d+1, nf) {
									return true
								}
							}
						}
					}
				}
			}
		}
		if in, ok := v.(ssa.Instruction); ok {
			for _, op := range in.Operands(nil) {
				if *op != nil && walk(*op, d+1, fr) {
					return true
				}
			}
		}
		return false
	}
	return walk(v, 0, nil)
}

// allStoresTo lists stores into a local, including those made by closures that capture it.
func allStoresTo(a *ssa.Alloc) []*ssa.Store {
	var out []*ssa.Store
	var visit func(addr ssa.Value)
	seen := map[ssa.Value]bool{}
	visit = func(addr ssa.Value) {
		if seen[addr] {
			return
		}
		seen[addr] = true
		refs := addr.Referrers()
		if refs == nil {
			return
		}
		for _, r := range *refs {
			switch u := r.(type) {
			case *ssa.Store:
				if u.Addr == addr {
					out = append(out, u)
				}
			case *ssa.MakeClosure:
				fn := u.Fn.(*ssa.Function)
				for i, b := range u.Bindings {
					if b == addr && i < len(fn.FreeVars) {
						visit(fn.FreeVars[i])
					}
				}
			}
		}
	}
	visit(a)
	return out
}

// cellOf returns the local (Alloc) an address denotes, following captured variables; nil if it is not a local cell.
func cellOf(addr ssa.Value) *ssa.Alloc {
	for i := 0; i < 10; i++ {
		switch x := addr.(type) {
		case *ssa.Alloc:
			return x
		case *ssa.FreeVar:
			b := core.FreeVarBinding(x)
			if b == nil {
				return nil
			}
			addr = b
		default:
			return nil
		}
	}
	return nil
}

// conversionsOnly strips conversions / type changes only (no cells, no phis).
func conversionsOnly(v ssa.Value) ssa.Value {
	for i := 0; i < 10; i++ {
		switch x := v.(type) {
		case *ssa.Convert:
			v = x.X
		case *ssa.ChangeType:
			v = x.X
		default:
			return v
		}
	}
	return v
}

// dominatingStore: v must be (conversions of) a load of a local cell; returns the
// value of the store into that cell, in the same function as the load, that
// dominates the load with no other store to the cell (in that function) on the way.
func dominatingStore(v ssa.Value) (stored ssa.Value, ok bool) {
	v = conversionsOnly(v)
	ld, isLoad := v.(*ssa.UnOp)
	if !isLoad || ld.Op != token.MUL {
		return nil, false
	}
	var sameCell func(addr ssa.Value) bool
	if cell := cellOf(ld.X); cell != nil {
		sameCell = func(addr ssa.Value) bool { return cellOf(addr) == cell }
	} else if fa, isFA := ld.X.(*ssa.FieldAddr); isFA {
		// a field of an object identified by value (a literal built here, or the object a parameter points to);
		// calls made in between are assumed not to rewrite it
		base := core.Strip(fa.X)
		switch base.(type) {
		case *ssa.Alloc, *ssa.Parameter:
		default:
			return nil, false
		}
		sameCell = func(addr ssa.Value) bool {
			fa2, ok := addr.(*ssa.FieldAddr)
			return ok && fa2.Field == fa.Field && core.Strip(fa2.X) == base
		}
	} else {
		return nil, false
	}
	fn := ld.Parent()
	var best *ssa.Store
	for _, b := range fn.Blocks {
		for _, in := range b.Instrs {
			st, isStore := in.(*ssa.Store)
			if !isStore || !sameCell(st.Addr) {
				continue
			}
			if core.Dominates(st, ld) {
				if best == nil || core.Dominates(best, st) {
					best = st
				}
			}
		}
	}
	if best == nil {
		return nil, false
	}
	// no other store of this function may lie between best and the load
	for _, b := range fn.Blocks {
		for _, in := range b.Instrs {
			st, isStore := in.(*ssa.Store)
			if !isStore || st == best || !sameCell(st.Addr) {
				continue
			}
			if core.Dominates(best, st) && !core.Dominates(ld, st) && reachesInstr(st, ld) {
				return nil, false
			}
		}
	}
	return best.Val, true
}

// reachesInstr: can control flow from a to b?
func reachesInstr(a, b ssa.Instruction) bool {
	if a.Parent() != b.Parent() {
		return false
	}
	if a.Block() == b.Block() && core.InstrIndex(a) < core.InstrIndex(b) {
		return true
	}
	for _, s := range a.Block().Succs {
		if blockReaches(s, b.Block()) {
			return true
		}
	}
	return false
}

// sameValue: two operands denote the same run-time value at their use sites:
// identical SSA value after conversions, or one is a load of a cell whose dominating store holds the other.
func sameValue(a, b ssa.Value) bool {
	a, b = conversionsOnly(a), conversionsOnly(b)
	if a == b {
		return true
	}
	if s, ok := dominatingStore(a); ok && conversionsOnly(s) == b {
		return true
	}
	if s, ok := dominatingStore(b); ok && conversionsOnly(s) == a {
		return true
	}
	return false
}

// callsTransitively reports whether fn calls (statically, within the module, up to depth) a call satisfying match; returns the argument mapping when fn's parameter feeds it.
func (c *Ctx) callsTransitively(fn *ssa.Function, depth int, match func(*core.Call) bool) bool {
	if fn == nil {
		return false
	}
	// function literals defined in fn are part of its body (unless they are only started as goroutines)
	for _, b := range fn.Blocks {
		for _, in := range b.Instrs {
			if mc, ok := in.(*ssa.MakeClosure); ok {
				asGo := false
				if mc.Referrers() != nil {
					for _, r := range *mc.Referrers() {
						if _, isGo := r.(*ssa.Go); isGo {
							asGo = true
						}
					}
				}
				if cf, ok := mc.Fn.(*ssa.Function); ok && !asGo && cf != fn {
					if c.callsTransitively(cf, depth, match) {
						return true
					}
				}
			}
		}
	}
	for _, cl := range core.CallsIn(fn) {
		if _, isGo := cl.Instr.(*ssa.Go); isGo {
			continue // starting a goroutine is not calling it
		}
		if match(cl) {
			return true
		}
		if depth > 0 && cl.Static != nil && cl.Static.Pkg != nil && c.P.IsModPkg(cl.Static.Pkg.Pkg) && cl.Static != fn {
			if c.callsTransitively(cl.Static, depth-1, match) {
				return true
			}
		}
	}
	return false
}

// funcsDeep lists fn, the function literals defined in it, and — transitively, depth levels — the module's declared
// functions they call statically (goroutine starts are not followed): the code that runs as part of a call of fn.
func (c *Ctx) funcsDeep(fn *ssa.Function, depth int) []*ssa.Function {
	return c.funcsDeepStop(fn, depth, nil)
}

// funcsDeepStop is funcsDeep that does not enter the functions for which stop returns true.
func (c *Ctx) funcsDeepStop(fn *ssa.Function, depth int, stop func(*ssa.Function) bool) []*ssa.Function {
	var out []*ssa.Function
	seen := map[*ssa.Function]bool{}
	var walk func(f *ssa.Function, d int)
	walk = func(f *ssa.Function, d int) {
		if f == nil || seen[f] || len(f.Blocks) == 0 {
			return
		}
		seen[f] = true
		out = append(out, f)
		for _, af := range f.AnonFuncs {
			walk(af, d)
		}
		if d <= 0 {
			return
		}
		for _, cl := range core.CallsIn(f) {
			if _, isGo := cl.Instr.(*ssa.Go); isGo {
				continue
			}
			if g := cl.Static; g != nil && g.Pkg != nil && c.P.IsModPkg(g.Pkg.Pkg) && !c.P.IsGenerated(g) && (stop == nil || !stop(g)) {
				walk(g, d-1)
			}
		}
	}
	walk(fn, depth)
	return out
}

// callsDeep lists the calls made by the functions of funcsDeep(fn, depth).
func (c *Ctx) callsDeep(fn *ssa.Function, depth int) []*core.Call {
	var out []*core.Call
	for _, f := range c.funcsDeep(fn, depth) {
		out = append(out, core.CallsIn(f)...)
	}
	return out
}

// callsToDeep is callsDeep restricted to calls of one of objs.
func (c *Ctx) callsToDeep(fn *ssa.Function, depth int, objs ...*types.Func) []*core.Call {
	var out []*core.Call
	for _, cl := range c.callsDeep(fn, depth) {
		if cl.Is(objs...) {
			out = append(out, cl)
		}
	}
	return out
}

// callsToDeepStop is callsToDeep that does not look into the functions for which stop returns true.
func (c *Ctx) callsToDeepStop(fn *ssa.Function, depth int, stop func(*ssa.Function) bool, objs ...*types.Func) []*core.Call {
	var out []*core.Call
	for _, f := range c.funcsDeepStop(fn, depth, stop) {
		for _, cl := range core.CallsIn(f) {
			if cl.Is(objs...) {
				out = append(out, cl)
			}
		}
	}
	return out
}

// liftTo returns the instructions of root through which instr runs: instr itself if it is in root (or in a function
// literal of root), else the static calls in root whose callee (transitively, depth 3) contains instr's function.
func (c *Ctx) liftTo(root *ssa.Function, instr ssa.Instruction) []ssa.Instruction {
	f := instr.Parent()
	if f == root {
		return []ssa.Instruction{instr}
	}
	var out []ssa.Instruction
	for _, cl := range core.CallsIn(root) {
		if _, isGo := cl.Instr.(*ssa.Go); isGo || cl.Static == nil {
			continue
		}
		for _, g := range c.funcsDeep(cl.Static, 3) {
			if g == f {
				out = append(out, cl.Instr)
				break
			}
		}
	}
	return out
}

// runsBefore: whenever b runs as part of a call of root, a has run before it in that call (dominance between the places of
// root through which they run; inside one helper, dominance there).
func (c *Ctx) runsBefore(root *ssa.Function, a, b ssa.Instruction) bool {
	if a.Parent() == b.Parent() {
		return a != b && core.Dominates(a, b)
	}
	// judged in the innermost function through which both run: one of their own functions, else root
	for _, f := range []*ssa.Function{b.Parent(), a.Parent(), root} {
		as, bs := c.liftTo(f, a), c.liftTo(f, b)
		if len(as) == 0 || len(bs) == 0 {
			continue
		}
		all := true
		for _, y := range bs {
			ok := false
			for _, x := range as {
				if x != y && core.Dominates(x, y) {
					ok = true
				}
			}
			if !ok {
				all = false
			}
		}
		if all {
			return true
		}
	}
	return false
}

// sameOrReturned: v is w, or the result of a call of a module function all of whose returns yield w (a set built by a helper).
func sameOrReturned(v, w ssa.Value) bool {
	v, w = core.Strip(v), core.Strip(w)
	if v == w {
		return true
	}
	cv, ok := v.(*ssa.Call)
	if !ok {
		return false
	}
	g := cv.Call.StaticCallee()
	if g == nil || len(g.Blocks) == 0 {
		return false
	}
	rvs := returnValues(g)
	if len(rvs) == 0 {
		return false
	}
	for _, rv := range rvs {
		if core.Strip(rv) != w {
			return false
		}
	}
	return true
}

// loopCarriedCell: al is a local declared outside loop l, written (as a whole, or field / element wise) inside it, and
// not re-initialised as a whole inside the loop before `at` on every iteration: what it holds at `at` may stem from an
// earlier iteration.
func loopCarriedCell(al *ssa.Alloc, l *core.Loop, at ssa.Instruction) bool {
	if al == nil || l == nil || l.Blocks[al.Block()] || al.Referrers() == nil {
		return false
	}
	written := false
	reinit := map[*ssa.BasicBlock]bool{} // blocks of the loop that assign the variable as a whole, independently of its content
	fieldsSet := map[*ssa.BasicBlock]map[int]bool{}
	for _, r := range *al.Referrers() {
		switch x := r.(type) {
		case *ssa.Store:
			if x.Addr == ssa.Value(al) && l.Blocks[x.Block()] {
				written = true
				if !depReaches(x.Val, func(v ssa.Value) bool { return v == ssa.Value(al) }) {
					if x.Block() != at.Block() || core.Dominates(x, at) {
						reinit[x.Block()] = true
					}
				}
			}
		case *ssa.FieldAddr, *ssa.IndexAddr:
			rv := x.(ssa.Value)
			if rv.Referrers() == nil {
				continue
			}
			for _, rr := range *rv.Referrers() {
				if st, ok := rr.(*ssa.Store); ok && st.Addr == rv && l.Blocks[st.Block()] {
					written = true
					// x = T{a, b, c} is compiled into one store per field: a block that stores every field counts as a
					// whole assignment
					if fa, isFA := x.(*ssa.FieldAddr); isFA && (st.Block() != at.Block() || core.Dominates(st, at)) &&
						!depReaches(st.Val, func(v ssa.Value) bool { return v == ssa.Value(al) }) {
						if fieldsSet[st.Block()] == nil {
							fieldsSet[st.Block()] = map[int]bool{}
						}
						fieldsSet[st.Block()][fa.Field] = true
					}
				}
			}
		}
	}
	if !written {
		return false
	}
	if stt, ok := derefT(al.Type()).Underlying().(*types.Struct); ok {
		for b, fs := range fieldsSet {
			if len(fs) == stt.NumFields() {
				reinit[b] = true
			}
		}
	}
	// re-initialised on every iteration before use: no path from the loop header reaches `at` avoiding every such block
	if reinit[at.Block()] {
		return false
	}
	seen := map[*ssa.BasicBlock]bool{}
	var reach func(b *ssa.BasicBlock) bool
	reach = func(b *ssa.BasicBlock) bool {
		if b == at.Block() {
			return true
		}
		if seen[b] || !l.Blocks[b] || reinit[b] {
			return false
		}
		seen[b] = true
		for _, s := range b.Succs {
			if s != l.Header && reach(s) {
				return true
			}
		}
		return false
	}
	if reinit[l.Header] {
		return false
	}
	return reach(l.Header)
}

// sliceSources lists what a slice value holds when it is built, in its own function, only from make / nil and appends
// of explicit elements: the values appended, for each of them the append that adds it, and the appends. ok is false when the slice has any other source.
func sliceSources(s ssa.Value) (elems []ssa.Value, from []*ssa.Call, apps []*ssa.Call, ok bool) {
	seen := map[ssa.Value]bool{}
	var walk func(s ssa.Value) bool
	walk = func(s ssa.Value) bool {
		if s == nil || seen[s] {
			return true
		}
		seen[s] = true
		switch x := s.(type) {
		case *ssa.Phi:
			for _, e := range x.Edges {
				if !walk(e) {
					return false
				}
			}
			return true
		case *ssa.Slice:
			return walk(x.X)
		case *ssa.MakeSlice:
			return true
		case *ssa.Alloc:
			// the empty literal []T{}: a slice of a zero-length array
			if at, isArr := derefT(x.Type()).Underlying().(*types.Array); isArr && at.Len() == 0 {
				return true
			}
			return false
		case *ssa.Const:
			return x.IsNil()
		case *ssa.ChangeType:
			return walk(x.X)
		case *ssa.UnOp:
			// a local cell holding the slice
			if x.Op == token.MUL {
				if cell := cellOf(x.X); cell != nil {
					for _, st := range allStoresTo(cell) {
						if !walk(st.Val) {
							return false
						}
					}
					return true
				}
			}
			return false
		case *ssa.Call:
			if core.CallOf(x).Builtin() != "append" || len(x.Call.Args) != 2 {
				return false
			}
			// the appended elements: append(s, e) is append(s, new [1]T{e}[:])
			sl, isSlice := x.Call.Args[1].(*ssa.Slice)
			if !isSlice {
				return false
			}
			arr, isAlloc := sl.X.(*ssa.Alloc)
			if !isAlloc || arr.Referrers() == nil {
				return false
			}
			for _, r := range *arr.Referrers() {
				if eia, isIA := r.(*ssa.IndexAddr); isIA && eia.Referrers() != nil {
					for _, rr := range *eia.Referrers() {
						if st, isSt := rr.(*ssa.Store); isSt && st.Addr == ssa.Value(eia) {
							elems = append(elems, st.Val)
							from = append(from, x)
						}
					}
				}
			}
			apps = append(apps, x)
			return walk(x.Call.Args[0])
		}
		return false
	}
	if !walk(s) {
		return nil, nil, nil, false
	}
	return elems, from, apps, true
}

// collectedElem resolves v, an element read from a slice that its function accumulates beforehand with append
// (wills = append(wills, w) in a first loop; for i := range wills { use(wills[i]) } in a second one), to the one
// value appended and the append that adds it. ok is false when v is not such an element, when the slice has any other
// source than make / nil / appends, or when it is not fed by exactly one append of one element.
func collectedElem(v ssa.Value) (elem ssa.Value, at *ssa.Call, ok bool) {
	ld, isLoad := core.Strip(v).(*ssa.UnOp)
	if !isLoad || ld.Op != token.MUL {
		return nil, nil, false
	}
	ia, isIdx := ld.X.(*ssa.IndexAddr)
	if !isIdx {
		return nil, nil, false
	}
	elems, _, apps, ok := sliceSources(ia.X)
	if !ok || len(apps) != 1 || len(elems) != 1 {
		return nil, nil, false
	}
	return elems[0], apps[0], true
}

// everyIteration: instruction in runs on each iteration of its innermost loop (its block dominates every back edge).
func everyIteration(in ssa.Instruction) bool {
	l := core.InnermostLoop(core.Loops(in.Parent()), in.Block())
	if l == nil {
		return false
	}
	for _, pr := range l.Header.Preds {
		if l.Blocks[pr] && !in.Block().Dominates(pr) {
			return false
		}
	}
	return true
}

// rangesWholeSlice: ia is s[i] with i the index of a loop that runs over the whole of s (for i := range s / for i := 0;
// i < len(s); i++), ia sitting in that loop and executed on every iteration.
func rangesWholeSlice(ia *ssa.IndexAddr) bool {
	l := core.InnermostLoop(core.Loops(ia.Parent()), ia.Block())
	if l == nil || !everyIteration(ia) {
		return false
	}
	// i = φ(-1, i') + 1 tested against len(s), or i = φ(0, i+1) tested against len(s)
	var phi *ssa.Phi
	idx := ia.Index
	first := int64(0)
	if bo, ok := idx.(*ssa.BinOp); ok && bo.Op == token.ADD {
		if k, isK := constInt(bo.Y); isK && k == 1 {
			if ph, isPhi := bo.X.(*ssa.Phi); isPhi {
				phi, first = ph, 1
			}
		}
	} else if ph, ok := idx.(*ssa.Phi); ok {
		phi = ph
	}
	if phi == nil || phi.Block() != l.Header {
		return false
	}
	startOK := false
	for _, e := range phi.Edges {
		if k, isK := constInt(e); isK && k+first == 0 {
			startOK = true
		}
	}
	if !startOK {
		return false
	}
	// the loop's test: idx < len(s) with the same s
	for b := range l.Blocks {
		iff, ok := b.Instrs[len(b.Instrs)-1].(*ssa.If)
		if !ok {
			continue
		}
		bo, ok := iff.Cond.(*ssa.BinOp)
		if !ok || bo.Op != token.LSS || bo.X != idx && bo.X != ssa.Value(phi) {
			continue
		}
		if lc, isCall := bo.Y.(*ssa.Call); isCall {
			if bi, isB := lc.Call.Value.(*ssa.Builtin); isB && bi.Name() == "len" && core.Strip(lc.Call.Args[0]) == core.Strip(ia.X) {
				return true
			}
		}
	}
	return false
}
