package rules

import (
	"fmt"
	"go/token"
	"go/types"

	"golang.org/x/tools/go/ssa"

	"waspcheck/internal/core"
	"waspcheck/internal/report"
)

func init() {
	register("C05", checkC05)
}

func isPublishPtr(t types.Type) bool { return isNamed(t, pkgPacket, "Publish") && isPtr(t) }
func isPtr(t types.Type) bool        { _, ok := t.(*types.Pointer); return ok }

func isPublishCallbackType(t types.Type) bool {
	sig, ok := t.Underlying().(*types.Signature)
	if !ok || sig.Params().Len() != 1 || sig.Results().Len() != 0 {
		return false
	}
	return isPublishPtr(sig.Params().At(0).Type())
}

// handoff describes the publish hand-off function(s): module functions taking a
// *packet.Publish and a func(*packet.Publish) completion callback.
type handoff struct {
	fn       *ssa.Function
	pubIdx   int // index into fn.Params
	cbIdx    int
	cbStruct types.Type // struct type whose field receives the callback
	cbField  int
}

func (c *Ctx) handoffs(ru *report.Rule) []*handoff {
	var out []*handoff
	for _, f := range c.P.ModFuncs() {
		if f.Parent() != nil || f.Signature.Results().Len() != 1 {
			continue
		}
		h := &handoff{fn: f, pubIdx: -1, cbIdx: -1, cbField: -1}
		for i, p := range f.Params {
			if isPublishPtr(p.Type()) && h.pubIdx < 0 {
				h.pubIdx = i
			}
			if isPublishCallbackType(p.Type()) {
				h.cbIdx = i
			}
		}
		if h.pubIdx < 0 || h.cbIdx < 0 {
			continue
		}
		// where does the callback parameter go?
		for _, b := range f.Blocks {
			for _, in := range b.Instrs {
				if st, ok := in.(*ssa.Store); ok {
					if fa, ok := st.Addr.(*ssa.FieldAddr); ok && core.Strip(st.Val) == ssa.Value(f.Params[h.cbIdx]) {
						h.cbStruct = derefT(fa.X.Type())
						h.cbField = fa.Field
					}
				}
			}
		}
		out = append(out, h)
	}
	ru.Anchor(len(out) >= 1, "the publish hand-off function (takes *packet.Publish and a func(*packet.Publish) completion callback)")
	return out
}

func (c *Ctx) isHandoffCall(cl *core.Call, hs []*handoff) *handoff {
	for _, h := range hs {
		if cl.Static == h.fn {
			return h
		}
	}
	return nil
}

// callbackInvocations finds the dynamic calls whose callee is loaded from the struct field that receives the completion callback.
func (c *Ctx) callbackInvocations(hs []*handoff) []*core.Call {
	var out []*core.Call
	for _, f := range c.P.ModFuncs() {
		for _, cl := range core.CallsIn(f) {
			if cl.Static != nil || cl.Invoke || cl.Builtin() != "" {
				continue
			}
			v := cl.Common.Value
			ld, ok := v.(*ssa.UnOp)
			if !ok || ld.Op != token.MUL {
				continue
			}
			fa, ok := ld.X.(*ssa.FieldAddr)
			if !ok {
				continue
			}
			for _, h := range hs {
				if h.cbStruct != nil && types.Identical(derefT(fa.X.Type()), h.cbStruct) && fa.Field == h.cbField {
					out = append(out, cl)
				}
			}
		}
	}
	return out
}

// guardedByNilResult: every path from the guard call to instruction target passes the branch "guard's error == nil".
func (c *Ctx) guardedByNilResult(fn *ssa.Function, guard *core.Call, target ssa.Instruction) (ok bool, detail string, npaths int) {
	if !core.Dominates(guard.Instr, target) {
		return false, "the call does not dominate the callback invocation (some path reaches the callback without it)", 0
	}
	gb := guard.Instr.Block()
	paths, err := core.EnumPaths(fn, core.PathOpts{Start: gb, Stop: func(b *ssa.BasicBlock) bool { return b == gb }})
	if err != nil {
		return false, err.Error(), 0
	}
	n := 0
	for _, p := range paths {
		has := false
		for i, b := range p.Blocks {
			if b == target.Block() && !(p.Cut && i == len(p.Blocks)-1 && b == gb) {
				if b != gb || core.InstrIndex(target) > core.InstrIndex(guard.Instr) {
					has = true
				}
			}
		}
		if !has {
			continue
		}
		n++
		tested, isNil := false, false
		for _, cd := range p.Conds {
			// only conditions evaluated before the target block
			bo, okb := cd.V.(*ssa.BinOp)
			if !okb || (bo.Op != token.EQL && bo.Op != token.NEQ) {
				continue
			}
			reached := false
			for i, b := range p.Blocks {
				if b == target.Block() && i > cd.Step {
					reached = true
				}
			}
			if !reached {
				continue
			}
			for _, side := range []ssa.Value{bo.X, bo.Y} {
				if isErrOperandOf(p.Resolve(side), guard) {
					tested, isNil = true, cd.Val
				}
			}
		}
		if !tested {
			return false, "the callback is reached without testing the error: " + fmtPath(p, c.P), n
		}
		if !isNil {
			return false, "the callback is reached on a path where the error is non-nil: " + fmtPath(p, c.P), n
		}
	}
	if n == 0 {
		return false, "no path from the call to the callback invocation found", 0
	}
	return true, fmt.Sprintf("%d path(s) from the call to the callback, all through the nil-error branch", n), n
}

// ruleAckAfterDistribute implements C02-R1 / C05-R1.
func (c *Ctx) ruleAckAfterDistribute(id string) {
	ru := c.R.Rule(id, "the publish completion callback (the function value handed to the publish hand-off function) is invoked only after PublishDistributor.Distribute, and only on paths where Distribute returned a nil error", "E3 field-sensitive callback flow + E2 dominance + E1 path atoms", 1)
	dist := c.cm(ru, "wasp", "PublishDistributor", "Distribute")
	hs := c.handoffs(ru)
	if dist == nil || len(hs) == 0 {
		return
	}
	for _, h := range hs {
		ru.Anchor(h.cbStruct != nil, "the struct field that carries the completion callback out of "+c.fname(h.fn))
	}
	invs := c.callbackInvocations(hs)
	for i, inv := range invs {
		f := inv.Instr.Parent()
		c.R.Fn(c.fname(f))
		key := fmt.Sprintf("completion-callback invocation #%d in %s", i, c.fname(f))
		ds := core.CallsTo(f, dist)
		if len(ds) == 0 {
			// Distribute may be called by a helper that hands its error back (err := handlePublish(ctx, in)): the helper
			// stands for it if it tests or returns that error and returns non-nil whenever Distribute failed
			for _, cl := range core.CallsIn(f) {
				g := cl.Static
				if g == nil || g.Package() != f.Package() || len(g.Blocks) == 0 || cl.Value() == nil {
					continue
				}
				res := g.Signature.Results()
				if res.Len() == 0 || !types.Identical(res.At(res.Len()-1).Type(), errorType) || !c.reaches(g, 2, isAny(dist)) {
					continue
				}
				fs, _, err := c.errDiscipline(g, isAny(dist))
				if err == nil && len(fs) == 0 && len(core.CallsTo(g, dist)) > 0 {
					ds = append(ds, cl)
					c.R.Fn(c.fname(g))
				}
			}
		}
		if len(ds) == 0 {
			ru.Fail(key, c.whereI(inv.Instr), "the completion callback is invoked in a function that never calls Distribute")
			continue
		}
		ok, detail, n := false, "", 0
		for _, d := range ds {
			ok, detail, n = c.guardedByNilResult(f, d, inv.Instr)
			if ok {
				break
			}
		}
		ru.Evals(n)
		ru.Check(ok, key, c.whereI(inv.Instr), detail, detail)
	}
}

// ruleDistributeErrors implements C02-R2 / C05-R2 / C14-R3.
func (c *Ctx) ruleDistributeErrors(id string) {
	ru := c.R.Rule(id, "no error of a log append or of an inter-node call is lost on the acknowledgement path: in Distribute each such error is tested and forces a non-nil return (also when a later destination succeeds); the remote closure returns the RPC's error; ScheduleMessage returns Append's error", "E4 error discipline over all paths with two loop iterations", 4)
	dist := c.cm(ru, "wasp", "PublishDistributor", "Distribute")
	app := c.im(ru, "wasp", "messageLog", "Append")
	tcall := c.im(ru, "wasp", "publishDistributorTransport", "Call")
	sched := c.cm(ru, "wasp", "mqttServer", "ScheduleMessage")
	clientSched := c.im(ru, "wasp/api", "MQTTClient", "ScheduleMessage")
	if dist == nil || app == nil || tcall == nil || sched == nil || clientSched == nil {
		return
	}
	df := c.fn(dist)
	c.R.Fn(c.fname(df))
	match := func(cl *core.Call) bool { return cl.Is(app, tcall) }
	fs, n, sites, err := c.errDisciplineDeep(df, match, 2)
	if err != nil {
		ru.Undecided("paths of Distribute", c.where(df, df), err.Error())
		return
	}
	ru.Evals(n)
	bad := map[ssa.Instruction]errFinding{}
	for _, f := range fs {
		bad[f.call.Instr] = f
	}
	for i, s := range sites {
		key := fmt.Sprintf("error of %s call #%d in %s", s.Obj.Name(), i, c.fname(s.Instr.Parent()))
		c.R.Fn(c.fname(s.Instr.Parent()))
		if f, isBad := bad[s.Instr]; isBad {
			if f.kind == "undecided" {
				ru.Undecided(key, c.whereI(s.Instr), f.detail)
			} else {
				ru.Fail(key, c.whereI(s.Instr), "error "+f.kind+": "+f.detail)
			}
		} else {
			ru.OK(key, c.whereI(s.Instr), fmt.Sprintf("tested and propagated on all %d returning paths", n))
		}
	}
	// findings on calls of helpers that carry those errors upwards
	prim := map[ssa.Instruction]bool{}
	for _, s := range sites {
		prim[s.Instr] = true
	}
	for _, f := range fs {
		if prim[f.call.Instr] {
			continue
		}
		key := fmt.Sprintf("error of helper %s called in %s", c.fname(f.call.Static), c.fname(f.call.Instr.Parent()))
		if f.kind == "undecided" {
			ru.Undecided(key, c.whereI(f.call.Instr), f.detail)
		} else {
			ru.Fail(key, c.whereI(f.call.Instr), "error "+f.kind+": "+f.detail)
		}
	}
	// remote closure: returns the RPC error
	for i, s := range sites {
		if !s.Is(tcall) {
			continue
		}
		key := fmt.Sprintf("closure given to Transport.Call #%d in %s", i, c.fname(s.Instr.Parent()))
		cf := closureArg(s.Arg(1))
		if cf == nil {
			ru.Undecided(key, c.whereI(s.Instr), "argument is not a function literal")
			continue
		}
		c.R.Fn(c.fname(cf))
		rpcs := core.CallsTo(cf, clientSched)
		if len(rpcs) != 1 {
			ru.Fail(key, c.where(cf, cf), fmt.Sprintf("the closure performs %d ScheduleMessage RPCs, want exactly 1", len(rpcs)))
			continue
		}
		fs, n, err := c.errDiscipline(cf, func(cl *core.Call) bool { return cl.Is(clientSched) })
		ru.Evals(n)
		if err != nil {
			ru.Undecided(key, c.where(cf, cf), err.Error())
		} else if len(fs) > 0 {
			ru.Fail(key, c.whereI(fs[0].call.Instr), "RPC error "+fs[0].kind+": "+fs[0].detail)
		} else {
			ru.OK(key, c.where(cf, cf), "returns the RPC's error")
		}
	}
	// ScheduleMessage returns Append's error
	sf := c.fn(sched)
	c.R.Fn(c.fname(sf))
	key := "error of Append in " + c.fname(sf)
	if len(core.CallsTo(sf, app)) == 0 {
		ru.Fail(key, c.where(sf, sf), "ScheduleMessage does not append the message to the node's log")
	} else {
		fs, n, err := c.errDiscipline(sf, func(cl *core.Call) bool { return cl.Is(app) })
		ru.Evals(n)
		if err != nil {
			ru.Undecided(key, c.where(sf, sf), err.Error())
		} else if len(fs) > 0 {
			ru.Fail(key, c.whereI(fs[0].call.Instr), "append error "+fs[0].kind+": "+fs[0].detail)
		} else {
			ru.OK(key, c.where(sf, sf), "returned to the calling node")
		}
	}
}

func checkC05(c *Ctx) {
	c.R.Explanation = "Static rules over wasp/packets.go, wasp/publish.go, wasp/grpc.go: (R1) the completion callback that encodes PUBACK/PUBCOMP is reachable only through the nil-error branch of Distribute; (R2) every log-append / inter-node-call error in Distribute is tested and forces a non-nil return on all paths with two loop iterations (so a later success cannot mask an earlier failure); (R3) decision table of the inbound QoS 2 arm and of its in-flight callback: nothing forwarded on PUBLISH or on expiry, exactly one forward of the original PUBLISH on PUBREL, PUBREC only after a successful Insert; (R4) every PUBACK/PUBCOMP encode lies inside a completion callback handed to the hand-off function; (R5) PUBREL is routed to the in-flight table."
	c.R.NotCovered = "At-most-once across reconnects with a reused identifier, the remote node's own durability, what the commit log does after WriteEntry returns nil."
	c.R.Assume("ack.Queue invokes a callback with expired=false only for the expected packet type of that session and identifier (decided separately under C04)")
	c.ruleAckAfterDistribute("C05-R1")
	c.ruleDistributeErrors("C05-R2")
	c.ruleInboundQoS2("C05-R3")
	c.ruleAckEncodesInCallback("C05-R4")
	c.ruleAckRouting("C05-R5", []string{"PubRel"})
	c.ruleDirectionKeys("C05-R6")
	c.ruleNoTransparentRetry("C05-R7")
}

// boxedType returns the static type of the concrete value boxed into an interface argument.
func boxedType(v ssa.Value) types.Type {
	for i := 0; i < 10; i++ {
		switch x := v.(type) {
		case *ssa.MakeInterface:
			return x.X.Type()
		case *ssa.ChangeInterface:
			v = x.X
		case *ssa.Phi:
			if len(x.Edges) > 0 {
				v = x.Edges[0]
			} else {
				return v.Type()
			}
		default:
			s := core.Strip(v)
			if s == v {
				return v.Type()
			}
			v = s
		}
	}
	return v.Type()
}

// reachesParam reports whether the backward data dependencies of v (crossing closures through captured variables) reach parameter idx of fn.
func reachesParam(v ssa.Value, fn *ssa.Function, idx int) bool {
	if idx < 0 || idx >= len(fn.Params) {
		return false
	}
	target := ssa.Value(fn.Params[idx])
	return depReaches(v, func(x ssa.Value) bool { return x == target })
}

type queueAnchors struct {
	insert, ack, expire *types.Func
}

func (c *Ctx) queueAnchors(ru *report.Rule) *queueAnchors {
	q := &queueAnchors{
		insert: c.im(ru, "wasp/ack", "Queue", "Insert"),
		ack:    c.im(ru, "wasp/ack", "Queue", "Ack"),
		expire: c.im(ru, "wasp/ack", "Queue", "Expire"),
	}
	if q.insert == nil || q.ack == nil || q.expire == nil {
		return nil
	}
	return q
}

// insertSites lists the module call sites of ack.Queue.Insert whose packet argument has the given static type name.
func (c *Ctx) insertSites(q *queueAnchors, typeNames ...string) []*core.Call {
	var out []*core.Call
	sites := c.modFuncsCalling(q.insert)
	for _, f := range sortedFuncs(sites) {
		if f.Package() != nil && f.Package().Pkg.Path() == c.P.Rel("wasp/ack") {
			continue
		}
		for _, cl := range sites[f] {
			t := boxedType(cl.Arg(1))
			for _, n := range typeNames {
				if isNamed(t, pkgPacket, n) {
					out = append(out, cl)
				}
			}
		}
	}
	return out
}

func blockReaches(from, to *ssa.BasicBlock) bool {
	seen := map[*ssa.BasicBlock]bool{}
	var dfs func(b *ssa.BasicBlock) bool
	dfs = func(b *ssa.BasicBlock) bool {
		if b == to {
			return true
		}
		if seen[b] {
			return false
		}
		seen[b] = true
		for _, s := range b.Succs {
			if dfs(s) {
				return true
			}
		}
		return false
	}
	return dfs(from)
}

// encodesOf lists calls in fn that encode a packet of one of the given types (Encoder.Encode with that static type, or the dedicated Encoder method).
func (c *Ctx) encodesOf(fn *ssa.Function, typeNames ...string) []*core.Call {
	var out []*core.Call
	for _, cl := range core.CallsIn(fn) {
		if cl.Obj == nil || cl.Obj.Pkg() == nil || cl.Obj.Pkg().Path() != pkgEncoder {
			continue
		}
		sig := cl.Obj.Type().(*types.Signature)
		if sig.Recv() == nil || !isNamed(sig.Recv().Type(), pkgEncoder, "Encoder") {
			continue
		}
		args := cl.Args()
		if len(args) < 2 {
			continue
		}
		t := boxedType(args[1])
		for _, n := range typeNames {
			if isNamed(t, pkgPacket, n) {
				out = append(out, cl)
			}
		}
	}
	return out
}

// ruleInboundQoS2 implements C05-R3.
func (c *Ctx) ruleInboundQoS2(id string) {
	ru := c.R.Rule(id, "inbound QoS 2: the in-flight callback registered with the PUBREC forwards nothing when it fires as expired and forwards the original PUBLISH exactly once otherwise, with a completion callback that encodes a PUBCOMP carrying the received PUBREL's identifier; in the enclosing arm nothing is forwarded directly, PUBREC is written only after Insert succeeded, and an Insert error is returned", "E1 scenario rows over the callback and the arm + E3 provenance", 5)
	q := c.queueAnchors(ru)
	hs := c.handoffs(ru)
	if q == nil || len(hs) == 0 {
		return
	}
	sites := c.insertSites(q, "PubRec")
	ru.Anchor(len(sites) >= 1, "an ack.Queue.Insert site whose packet is a *packet.PubRec (inbound QoS 2 registration)")
	for si, site := range sites {
		encl := site.Instr.Parent()
		c.R.Fn(c.fname(encl))
		base := fmt.Sprintf("Insert(*packet.PubRec)#%d in %s", si, c.fname(encl))
		cb := closureArg(site.Arg(3))
		if cb == nil {
			ru.Undecided(base+"|callback", c.whereI(site.Instr), "the in-flight callback is not a function literal")
			continue
		}
		c.R.Fn(c.fname(cb))
		// helpers of the callback that hold the hand-off (exchange.release()) are spliced into its paths
		paths, err := c.pathsInlined(cb, core.PathOpts{}, func(cl *core.Call) bool { return c.isHandoffCall(cl, hs) != nil }, func(g *ssa.Function) bool {
			for _, h := range hs {
				if h.fn == g {
					return true
				}
			}
			return false
		})
		if err != nil {
			ru.Undecided(base+"|callback", c.where(cb, cb), err.Error())
			continue
		}
		ru.Evals(len(paths))
		rowE, rowNotE := "", ""
		nE, nNotE := 0, 0
		var forwards []*core.Call
		for _, p := range paths {
			if _, ok := p.Exit.(*ssa.Return); !ok {
				continue
			}
			e, known := p.CondVal(fmt.Sprintf("P%d", cbParamIdx(cb, 0)))
			var fw []*core.Call
			for _, pc := range p.Calls() {
				if c.isHandoffCall(pc.Call, hs) != nil {
					fw = append(fw, pc.Call)
				}
			}
			switch {
			case !known:
				if len(fw) > 0 {
					rowE = "a path forwards the publish without testing the expired flag: " + fmtPath(p, c.P)
				}
			case e:
				nE++
				if len(fw) != 0 {
					rowE = fmt.Sprintf("on expiry the callback forwards the publish %d time(s): %s", len(fw), fmtPath(p, c.P))
				}
			default:
				nNotE++
				if len(fw) != 1 {
					rowNotE = fmt.Sprintf("on PUBREL the callback forwards the publish %d time(s), want exactly 1: %s", len(fw), fmtPath(p, c.P))
				} else {
					forwards = append(forwards, fw[0])
				}
			}
		}
		ru.Check(rowE == "" && nE > 0, base+"|row expired", c.where(cb, cb), "zero forwards on expiry", rowE+map[bool]string{true: "", false: " (no path for expired=true)"}[nE > 0])
		ru.Check(rowNotE == "" && nNotE > 0, base+"|row released", c.where(cb, cb), "exactly one forward on PUBREL", rowNotE+map[bool]string{true: "", false: " (no path for expired=false)"}[nNotE > 0])
		// provenance of the forwarded publish and of the PUBCOMP id
		provBad := ""
		midVal := complitField(site.Arg(1), "MessageId")
		if midVal == nil {
			// the PUBREC is kept in a field of a small struct built by a constructor (exchange.pubrec)
			midVal = complitField(deepStrip(site.Arg(1)), "MessageId")
		}
		// the object whose MessageId the PUBREC carries
		var midOwner ssa.Value
		if ld, ok := conversionsOnly(midVal).(*ssa.UnOp); ok && midVal != nil && ld.Op == token.MUL {
			if fa, ok := ld.X.(*ssa.FieldAddr); ok && fieldNameOf(fa.X.Type(), fa.Field) == "MessageId" {
				midOwner = fa.X
			}
		}
		for _, fw := range forwards {
			h := c.isHandoffCall(fw, hs)
			pub := fw.Common.Args[h.pubIdx]
			pt := core.Term(pub)
			sameObj := midOwner != nil && same(midOwner, pub)
			if midVal == nil || !(sameObj || core.Term(midVal) == "("+pt+").MessageId" || core.Term(midVal) == "(*"+pt+").MessageId" || containsTerm(core.Term(midVal), pt)) {
				provBad = "the forwarded publish is not the PUBLISH whose identifier was registered with the PUBREC (" + short(pt, 80) + " vs " + short(core.Term(midVal), 80) + ")"
			}
			cc := closureArg(fw.Common.Args[h.cbIdx])
			if cc == nil {
				provBad = "the forward has no completion callback literal (PUBCOMP would never be sent, or not from the callback)"
				continue
			}
			c.R.Fn(c.fname(cc))
			encs := c.encodesOf(cc, "PubComp")
			if len(encs) != 1 {
				provBad = fmt.Sprintf("the completion callback encodes %d PUBCOMP packets, want 1", len(encs))
				continue
			}
			pcid := complitField(encs[0].Args()[1], "MessageId")
			// the identifier of the received PUBREL, or — the same number, since the table only resolves an entry with
			// the acknowledgement that carries its identifier — that of the registered PUBREC / of the PUBLISH itself
			registeredID := false
			if pcid != nil {
				if ld, ok := conversionsOnly(pcid).(*ssa.UnOp); ok && ld.Op == token.MUL {
					if fa, ok := ld.X.(*ssa.FieldAddr); ok && fieldNameOf(fa.X.Type(), fa.Field) == "MessageId" {
						registeredID = same(fa.X, site.Arg(1)) || same(fa.X, pub) || (midOwner != nil && same(fa.X, midOwner))
					}
				}
			}
			if pcid == nil || (!reachesParam(pcid, cb, cbParamIdx(cb, 2)) && !registeredID) {
				provBad = "the PUBCOMP identifier does not derive from the received PUBREL (3rd parameter of the in-flight callback)"
			}
		}
		ru.Check(provBad == "" && len(forwards) > 0, base+"|provenance", c.where(cb, cb), "forwards the registered PUBLISH; PUBCOMP id from the received PUBREL", provBad)
		// enclosing arm
		armBad := ""
		for _, f := range core.CallsIn(encl) {
			if c.isHandoffCall(f, hs) != nil {
				if blockReaches(site.Instr.Block(), f.Instr.Block()) || blockReaches(f.Instr.Block(), site.Instr.Block()) {
					armBad = "the publish is forwarded directly on the PUBLISH path (" + c.whereI(f.Instr) + "), not only from the PUBREL callback"
				}
			}
		}
		ru.Check(armBad == "", base+"|arm no direct forward", c.whereI(site.Instr), "no hand-off call shares a path with the registration", armBad)
		// PUBREC only after Insert ok; Insert error returned
		ap, err := core.EnumPaths(encl, core.PathOpts{Start: site.Instr.Block()})
		if err != nil {
			ru.Undecided(base+"|arm pubrec", c.whereI(site.Instr), err.Error())
			continue
		}
		ru.Evals(len(ap))
		recBad := ""
		okN := 0
		for _, p := range ap {
			if _, ok := p.Exit.(*ssa.Return); !ok {
				continue
			}
			tested, isNil := false, false
			for _, cd := range p.Conds {
				if bo, ok := cd.V.(*ssa.BinOp); ok {
					for _, side := range []ssa.Value{bo.X, bo.Y} {
						if isErrOperandOf(p.Resolve(side), site) {
							tested, isNil = true, cd.Val
						}
					}
				}
			}
			nrec := 0
			for _, pc := range p.Calls() {
				for _, e := range c.encodesOf(encl, "PubRec") {
					if e.Instr == pc.Instr {
						nrec++
					}
				}
			}
			switch {
			case !tested:
				recBad = "the result of Insert is not tested: " + fmtPath(p, c.P)
			case isNil && nrec != 1:
				recBad = fmt.Sprintf("after a successful registration %d PUBREC are written, want 1", nrec)
			case !isNil && nrec != 0:
				recBad = "PUBREC is written although the registration failed"
			case !isNil:
				if n, k := p.ReturnsNilError(); !k || n {
					recBad = "a failed registration is not reported (nil error returned)"
				}
			}
			if tested && isNil && nrec == 1 {
				okN++
			}
		}
		ru.Check(recBad == "" && okN > 0, base+"|arm pubrec", c.whereI(site.Instr), "PUBREC written exactly once, only after Insert returned nil", recBad)
	}
}

func containsTerm(hay, needle string) bool {
	return len(needle) > 0 && len(hay) >= len(needle) && (stringsContains(hay, needle))
}

// ruleAckEncodesInCallback implements C05-R4.
func (c *Ctx) ruleAckEncodesInCallback(id string) {
	ru := c.R.Rule(id, "every PUBACK / PUBCOMP the broker encodes is written from inside a function literal that is passed as the completion callback of the publish hand-off (so it can only run after Distribute succeeded, R1)", "E3 closure ancestry", 2)
	hs := c.handoffs(ru)
	if len(hs) == 0 {
		return
	}
	// closures passed as completion callbacks
	isCompletion := map[*ssa.Function]bool{}
	for _, f := range c.P.ModFuncs() {
		for _, cl := range core.CallsIn(f) {
			if h := c.isHandoffCall(cl, hs); h != nil {
				if cf := closureArg(cl.Common.Args[h.cbIdx]); cf != nil {
					isCompletion[cf] = true
				}
			}
		}
	}
	n := 0
	for _, f := range c.P.ModFuncs() {
		if f.Package() == nil || f.Package().Pkg.Path() != c.P.Rel("wasp") {
			continue
		}
		for _, e := range c.encodesOf(f, "PubAck", "PubComp") {
			n++
			key := fmt.Sprintf("%s encode #%d in %s", e.Obj.Name(), n, c.fname(f))
			ok := false
			for g := f; g != nil; g = g.Parent() {
				if isCompletion[g] {
					ok = true
				}
			}
			ru.Check(ok, key, c.whereI(e.Instr), "inside a completion callback", "a publish acknowledgement is written outside any completion callback: it can reach the client although the message was not stored")
		}
	}
}

// ruleAckRouting implements C03-R5 / C05-R5: each acknowledgement packet type is routed to ack.Queue.Ack with the session's own id.
func (c *Ctx) ruleAckRouting(id string, typeNames []string) {
	ru := c.R.Rule(id, "the packet dispatcher routes each acknowledgement packet type a client may send to ack.Queue.Ack, keyed by the sending session's own id and carrying that very packet", "E1 type-switch arm + E3 provenance", len(typeNames))
	q := c.queueAnchors(ru)
	proc := c.im(ru, "wasp", "PacketProcessor", "Process")
	sid := c.cm(ru, "wasp/sessions", "Session", "ID")
	if q == nil || proc == nil || sid == nil {
		return
	}
	impls := c.P.Implementations(proc)
	var disp *ssa.Function
	for _, f := range impls {
		if c.P.IsModPkg(f.Package().Pkg) {
			disp = f
		}
	}
	if !ru.Anchor(disp != nil, "the implementation of wasp.PacketProcessor.Process") {
		return
	}
	c.R.Fn(c.fname(disp))
	sessIdx, pktIdx := -1, -1
	for i, p := range disp.Params {
		if isNamed(p.Type(), "wasp/sessions", "Session") {
			sessIdx = i
		}
		if isNamed(p.Type(), pkgPacket, "Packet") {
			pktIdx = i
		}
	}
	for _, tn := range typeNames {
		key := "arm *packet." + tn + " of " + c.fname(disp)
		found := false
		detail := "no ack.Queue.Ack call receives the *packet." + tn + " taken from the dispatched packet"
		for _, u := range c.ackUses(q) {
			if !isNamed(boxedType(u.pkt), pkgPacket, tn) {
				continue
			}
			if !reachesParam(u.pkt, disp, pktIdx) {
				detail = "the packet given to Ack is not the dispatched packet"
				continue
			}
			// the key prefix is derived from the sending session's own ID() (possibly with a direction suffix)
			if !depReaches(u.prefix, func(v ssa.Value) bool {
				pc, ok := v.(*ssa.Call)
				return ok && core.CallOf(pc).Is(sid) && reachesParam(pc.Call.Args[0], disp, sessIdx)
			}) {
				detail = "Ack is not keyed by the sending session's own ID()"
				continue
			}
			found = true
		}
		ru.Check(found, key, c.where(disp, disp), "routed to ack.Queue.Ack(session.ID(), packet)", detail)
	}
}

// keyShape renders the in-flight table prefix handed to Insert/Ack with the session abstracted away, so that the
// prefixes used at different sites can be compared: ID(S), ID(S)+"/in", …; helpers of the calling package (functions
// or methods that build the prefix) are seen through, parameters bound to the shapes of the arguments.
func (c *Ctx) keyShape(v ssa.Value, depth int) string { return c.keyShapeEnv(v, depth, nil, nil) }

func (c *Ctx) keyShapeEnv(v ssa.Value, depth int, env map[*ssa.Parameter]string, home *ssa.Package) string {
	v = core.Strip(v)
	if depth > 8 {
		return "?"
	}
	if home == nil {
		if in, ok := v.(ssa.Instruction); ok && in.Parent() != nil {
			home = in.Parent().Pkg
		}
	}
	isSession := func(t types.Type) bool { return isNamed(t, "wasp/sessions", "Session") }
	switch x := v.(type) {
	case *ssa.Const:
		if x.Value != nil {
			return x.Value.ExactString()
		}
		return "nil"
	case *ssa.BinOp:
		if x.Op == token.ADD {
			l, r := c.keyShapeEnv(x.X, depth+1, env, home), c.keyShapeEnv(x.Y, depth+1, env, home)
			// constant folding of adjacent literals keeps "a"+"b" and "ab" alike
			return l + "+" + r
		}
	case *ssa.Parameter:
		if s, ok := env[x]; ok {
			return s
		}
		if isSession(x.Type()) {
			return "S"
		}
		if args := callerArgs(x); len(args) == 1 {
			return c.keyShapeEnv(args[0], depth+1, nil, home)
		}
		return "param:" + x.Name()
	case *ssa.Call:
		cl := core.CallOf(x)
		g := cl.Static
		if g != nil && g.Pkg != nil && home != nil && g.Pkg == home && len(g.Blocks) > 0 && !c.P.IsGenerated(g) {
			// a helper of the calling package that builds the prefix: the shape of what it returns
			rvs := returnValues(g)
			if len(rvs) == 1 {
				sub := map[*ssa.Parameter]string{}
				for i, p := range g.Params {
					if i < len(x.Call.Args) {
						sub[p] = c.keyShapeEnv(x.Call.Args[i], depth+1, env, home)
					}
				}
				return c.keyShapeEnv(rvs[0], depth+1, sub, home)
			}
		}
		s := ""
		if cl.Obj != nil {
			s = cl.Obj.Name()
		}
		s += "("
		for i, a := range x.Call.Args {
			if i > 0 {
				s += ","
			}
			s += c.keyShapeEnv(a, depth+1, env, home)
		}
		return s + ")"
	}
	if isSession(v.Type()) {
		return "S"
	}
	return "?" + short(core.Term(v), 40)
}

// ruleDirectionKeys: exchanges started by the client and exchanges started by the broker use disjoint keys of the shared in-flight table.
func (c *Ctx) ruleDirectionKeys(id string) {
	ru := c.R.Rule(id, "client and broker choose packet identifiers independently, so in the shared in-flight table the exchanges started by the client (PUBREC registered for its QoS 2 PUBLISH, completed by its PUBREL) and those started by the broker (PUBLISH / PUBREL registered, completed by PUBACK / PUBREC / PUBCOMP) are keyed with different prefixes, and each acknowledgement type is routed with the prefix of its direction: otherwise equal identifiers in the two directions collide — a delivery is refused as duplicate and lost, or the client's own publish is refused", "E10 agreement between the registration sites and the acknowledgement routing on the key prefix (shape with the session abstracted)", 3)
	q := c.queueAnchors(ru)
	if q == nil {
		return
	}
	in, out := map[string]bool{}, map[string]bool{}
	var inAt, outAt *core.Call
	for _, cl := range c.insertSites(q, "PubRec") {
		in[c.keyShape(cl.Arg(0), 0)] = true
		inAt = cl
		c.R.Fn(c.fname(cl.Instr.Parent()))
	}
	for _, cl := range c.insertSites(q, "Publish", "PubRel") {
		out[c.keyShape(cl.Arg(0), 0)] = true
		outAt = cl
		c.R.Fn(c.fname(cl.Instr.Parent()))
	}
	if !ru.Anchor(inAt != nil, "a registration of a PUBREC (client-started QoS 2 exchange)") || !ru.Anchor(outAt != nil, "a registration of an outbound PUBLISH / PUBREL") {
		return
	}
	shapes := func(m map[string]bool) string {
		var ks []string
		for k := range m {
			ks = append(ks, k)
		}
		sortStrings(ks)
		return fmt.Sprint(ks)
	}
	bad := ""
	for k := range in {
		if out[k] {
			bad = fmt.Sprintf("both directions register their exchanges under the prefix %s (client-started at %s, broker-started at %s): a client publishing QoS 2 with identifier n while the broker has delivery n in flight to it makes one of the two be refused as a duplicate", k, c.whereI(inAt.Instr), c.whereI(outAt.Instr))
		}
	}
	ru.Check(bad == "", "prefixes of client-started vs broker-started registrations", c.whereI(inAt.Instr), "client-started "+shapes(in)+", broker-started "+shapes(out), bad)
	// routing of acknowledgements
	for _, u := range c.ackUses(q) {
		t := boxedType(u.pkt)
		var want map[string]bool
		dir := ""
		switch {
		case isNamed(t, pkgPacket, "PubRel"):
			want, dir = in, "client-started"
		case isNamed(t, pkgPacket, "PubAck"), isNamed(t, pkgPacket, "PubRec"), isNamed(t, pkgPacket, "PubComp"):
			want, dir = out, "broker-started"
		default:
			continue
		}
		f := u.at.Parent()
		c.R.Fn(c.fname(f))
		n, _ := derefT(t).(*types.Named)
		name := "?"
		if n != nil {
			name = n.Obj().Name()
		}
		key := "prefix used to acknowledge with a " + name + " in " + c.fname(f)
		ru.Check(want[u.shape], key, c.whereI(u.at), "routed with the "+dir+" prefix "+u.shape, fmt.Sprintf("a %s completes a %s exchange, registered under %s, but is looked up under %s: the exchange is never completed", name, dir, shapes(want), u.shape))
	}
}

// ackUse is one use of ack.Queue.Ack seen from where the packet's concrete type is known: the call itself, or — when
// the call sits in a helper that takes the packet as an interface-typed parameter (ackInflight(ctx, prefix, p, name)) —
// each call site of that helper.
type ackUse struct {
	call   *core.Call      // the Ack call
	at     ssa.Instruction // where the concrete packet is supplied
	pkt    ssa.Value       // the packet value there
	prefix ssa.Value       // the prefix value there (the Ack call's own argument, or the helper argument bound to it)
	shape  string          // key shape of the prefix
}

func (c *Ctx) ackUses(q *queueAnchors) []ackUse {
	var out []ackUse
	sites := c.modFuncsCalling(q.ack)
	for _, f := range sortedFuncs(sites) {
		if f.Package() != nil && f.Package().Pkg.Path() == c.P.Rel("wasp/ack") {
			continue
		}
		for _, cl := range sites[f] {
			pv := core.Strip(cl.Arg(1))
			if mi, ok := cl.Arg(1).(*ssa.MakeInterface); ok {
				pv = mi
			}
			prm, isParam := core.Strip(cl.Arg(1)).(*ssa.Parameter)
			if _, isIface := cl.Arg(1).Type().Underlying().(*types.Interface); !(isParam && isIface && prm.Parent() == f) {
				out = append(out, ackUse{call: cl, at: cl.Instr, pkt: cl.Arg(1), prefix: cl.Arg(0), shape: c.keyShape(cl.Arg(0), 0)})
				_ = pv
				continue
			}
			pi := paramIdx(prm)
			for _, site := range c.P.StaticCallers(f) {
				args := site.Common().Args
				if pi >= len(args) {
					continue
				}
				env := map[*ssa.Parameter]string{}
				for i, hp := range f.Params {
					if i < len(args) {
						env[hp] = c.keyShape(args[i], 0)
					}
				}
				prefix := cl.Arg(0)
				if pp, ok := core.Strip(prefix).(*ssa.Parameter); ok && pp.Parent() == f && paramIdx(pp) < len(args) {
					prefix = args[paramIdx(pp)]
				}
				out = append(out, ackUse{call: cl, at: site, pkt: args[pi], prefix: prefix, shape: c.keyShapeEnv(cl.Arg(0), 0, env, f.Pkg)})
			}
		}
	}
	return out
}
