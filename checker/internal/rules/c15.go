package rules

import (
	"fmt"
	"go/constant"
	"go/token"
	"go/types"

	"golang.org/x/tools/go/ssa"

	"waspcheck/internal/core"
	"waspcheck/internal/report"
)

func init() { register("C15", checkC15) }

// consumeShape locates the pieces of the message-log consume loop.
type consumeShape struct {
	impl     *ssa.Function // implementation of messageLog.Consume
	fIdx     int           // index of the callback parameter in impl.Params
	batch    *ssa.Function // closure handed to stream.Consumer.Consume
	handover *core.Call    // the call of the callback inside batch
	persist  *core.Call    // PutUint64 into the mapped state
	truncs   []*core.Call  // truncating calls inside batch
	mapCall  *core.Call    // gommap.Map
}

func (c *Ctx) isTruncating(cl *core.Call, tb *types.Func) bool {
	if cl.Is(tb) {
		return true
	}
	if cl.Static != nil && cl.Static.Pkg != nil && c.P.IsModPkg(cl.Static.Pkg.Pkg) {
		return c.callsTransitively(cl.Static, 2, func(x *core.Call) bool { return x.Is(tb) })
	}
	return false
}

func (c *Ctx) consumeShape(ru *report.Rule) *consumeShape {
	lc := c.im(ru, "wasp", "messageLog", "Consume")
	sc := c.im(ru, pkgStream, "Consumer", "Consume")
	tb := c.im(ru, pkgCommitlog, "CommitLog", "TruncateBefore")
	gm := c.fo(ru, pkgGommap, "Map")
	if lc == nil || sc == nil || tb == nil || gm == nil {
		return nil
	}
	var impl *ssa.Function
	for _, f := range c.P.Implementations(lc) {
		if c.P.IsModPkg(f.Package().Pkg) {
			impl = f
		}
	}
	if !ru.Anchor(impl != nil, "the module's implementation of messageLog.Consume") {
		return nil
	}
	s := &consumeShape{impl: impl, fIdx: -1}
	for i, p := range impl.Params {
		if sig, ok := p.Type().Underlying().(*types.Signature); ok && sig.Params().Len() == 2 && sig.Results().Len() == 1 {
			s.fIdx = i
		}
	}
	for _, cl := range core.CallsTo(impl, sc) {
		if cf := closureArg(cl.Arg(2)); cf != nil {
			s.batch = cf
		}
	}
	for _, cl := range c.callsToDeep(impl, 2, gm) { // in Consume itself or in the helper that opens the state file
		s.mapCall = cl
	}
	if !ru.Anchor(s.fIdx >= 0, "callback parameter of Consume") || !ru.Anchor(s.batch != nil, "the batch closure handed to stream.Consumer.Consume") || !ru.Anchor(s.mapCall != nil, "the gommap.Map call that maps the consumer state") {
		return nil
	}
	for _, cl := range c.callsDeep(s.batch, 3) {
		if cl.Static == nil && !cl.Invoke && cl.Builtin() == "" && depReaches(cl.Common.Value, func(v ssa.Value) bool { return v == ssa.Value(impl.Params[s.fIdx]) }) {
			s.handover = cl
		}
		if cl.Obj != nil && cl.Obj.Name() == "PutUint64" && len(cl.Args()) == 2 && depReaches(cl.Args()[0], func(v ssa.Value) bool { return v == s.mapCall.Value() }) {
			s.persist = cl
		}
		// truncation events: TruncateBefore itself, or the helper that wraps it directly (the helper's own call is not a second event)
		direct := func(g *ssa.Function) bool {
			return g != nil && c.callsTransitively(g, 0, func(x *core.Call) bool { return x.Is(tb) })
		}
		if (cl.Is(tb) && !(cl.Instr.Parent() != s.batch && direct(cl.Instr.Parent()))) || direct(cl.Static) {
			s.truncs = append(s.truncs, cl)
		}
	}
	if !ru.Anchor(s.handover != nil, "the call of the consumer callback inside the batch closure") || !ru.Anchor(s.persist != nil, "the PutUint64 into the mapped state inside the batch closure") {
		return nil
	}
	c.R.Fn(c.fname(impl))
	c.R.Fn(c.fname(s.batch))
	return s
}

func constInt(v ssa.Value) (int64, bool) {
	k, ok := conversionsOnly(v).(*ssa.Const)
	if !ok || k.Value == nil || k.Value.Kind() != constant.Int {
		return 0, false
	}
	n, ok := constant.Int64Val(k.Value)
	return n, ok
}

// truncationMargins checks every TruncateBefore site of the module: argument x - c under a guard implying x > c. Returns the smallest margin.
func (c *Ctx) ruleTruncationMargin(id string) (minMargin int64) {
	ru := c.R.Rule(id, "log entries are deleted only by TruncateBefore(x - c) with a constant margin c >= 0 under a guard implying x > c, where x is an offset already handed over; no TruncateAfter, CommitLog.Delete or segment-count retention option is used anywhere in the module", "E3 + E11 constant/shape rule + who-may-call", 2)
	tb := c.im(ru, pkgCommitlog, "CommitLog", "TruncateBefore")
	ta := c.im(ru, pkgCommitlog, "CommitLog", "TruncateAfter")
	del := c.im(ru, pkgCommitlog, "CommitLog", "Delete")
	maxSeg := c.fo(ru, pkgCommitlog, "WithMaxSegmentCount")
	if tb == nil || ta == nil || del == nil || maxSeg == nil {
		return -1
	}
	minMargin = -1
	n := 0
	for _, f := range c.P.ModFuncs() {
		for i, cl := range core.CallsTo(f, tb) {
			n++
			key := fmt.Sprintf("TruncateBefore#%d in %s", i, c.fname(f))
			arg := conversionsOnly(cl.Arg(0))
			guardBlock := cl.Instr.Block()
			// the truncation point may be computed by a helper that also says whether to truncate at all
			// (before, ok := truncationPoint(offset); if !ok { return }): judged where the helper returns it
			if ex, isEx := arg.(*ssa.Extract); isEx {
				if cv, isCall := ex.Tuple.(*ssa.Call); isCall {
					if g := cv.Call.StaticCallee(); g != nil && len(g.Blocks) > 0 && c.P.IsModPkg(g.Pkg.Pkg) {
						var valRet *ssa.Return
						nVal := 0
						for _, gb := range g.Blocks {
							if r, isRet := gb.Instrs[len(gb.Instrs)-1].(*ssa.Return); isRet && ex.Index < len(r.Results) {
								if _, isConst := r.Results[ex.Index].(*ssa.Const); !isConst {
									valRet = r
									nVal++
								}
							}
						}
						// the caller truncates only under a result that is true on that return alone
						gated := false
						if nVal == 1 {
							for _, cc := range controllingConds(cl.Instr.Block(), nil) {
								fx, isFx := cc.cond.(*ssa.Extract)
								if !isFx || fx.Tuple != ssa.Value(cv) || fx.Index >= len(valRet.Results) {
									continue
								}
								okFlag := true
								for _, gb := range g.Blocks {
									if r, isRet := gb.Instrs[len(gb.Instrs)-1].(*ssa.Return); isRet {
										k, isK := r.Results[fx.Index].(*ssa.Const)
										want := r == valRet
										if !cc.pol {
											want = !want
										}
										if !isK || k.Value == nil || k.Value.Kind() != constant.Bool || constant.BoolVal(k.Value) != want {
											okFlag = false
										}
									}
								}
								if okFlag {
									gated = true
								}
							}
						}
						if gated {
							arg = conversionsOnly(valRet.Results[ex.Index])
							guardBlock = valRet.Block()
							c.R.Fn(c.fname(g))
						}
					}
				}
			}
			bo, ok := arg.(*ssa.BinOp)
			if !ok || bo.Op != token.SUB {
				ru.Fail(key, c.whereI(cl.Instr), "the truncation point is not of the form offset - constant: nothing keeps a margin behind the consumer")
				continue
			}
			cst, ok := constInt(bo.Y)
			if !ok || cst < 0 {
				ru.Fail(key, c.whereI(cl.Instr), "the margin is not a non-negative constant")
				continue
			}
			// guard: some dominating true-branch of (k < x) with k >= c, same x term
			xt := core.Term(bo.X)
			guarded := false
			for _, cc := range controllingConds(guardBlock, nil) {
				// the condition as it holds on the way to the call (an early return guards by its false branch)
				a := orderAtom(cc.cond, !cc.pol)
				if a.kind != "order" {
					continue
				}
				if k, ok := constInt(a.lhs); ok && core.Term(a.rhs) == xt {
					// k < x  or  k <= x
					if (a.strict && k >= cst) || (!a.strict && k > cst) {
						guarded = true
					}
				}
			}
			if !guarded {
				ru.Fail(key, c.whereI(cl.Instr), fmt.Sprintf("no dominating guard implies offset > %d: the unsigned subtraction can wrap and truncate everything", cst))
				continue
			}
			if minMargin < 0 || cst < minMargin {
				minMargin = cst
			}
			ru.OK(key, c.whereI(cl.Instr), fmt.Sprintf("margin %d under a guard", cst))
		}
	}
	bad := ""
	for _, f := range c.P.ModFuncs() {
		for _, cl := range core.CallsTo(f, ta, del, maxSeg) {
			bad = fmt.Sprintf("%s is called at %s: log entries can disappear regardless of what the consumer has handed over", cl.Obj.Name(), c.whereI(cl.Instr))
		}
	}
	ru.Check(bad == "", "no other deletion of log entries in the module", "-", "no TruncateAfter / Delete / WithMaxSegmentCount call", bad)
	return minMargin
}

func checkC15(c *Ctx) {
	c.R.Explanation = "Static rules over wasp/messages/store.go: (R1) in the batch closure of Consume the three effects are ordered callback → (nil error) → persist offset → truncate, inside one iteration, and a callback error returns before the persist; (R2) the persisted and the truncation offsets are the offset just handed to the callback; (R3) the resume point given to stream.FromOffset and to the start-up truncation is the value decoded from the mapped state, conversions only; (R4) entries are deleted only by TruncateBefore(x-c) under a guard, nowhere else; (R5) the state file is opened read-write and mapped shared+writable; (R6) the offset handed over is batch.FirstOffset + index of the very record decoded, and no iteration skips the hand-over."
	c.R.NotCovered = "commitlog / stream internals (segment roll, poll batching), page-cache and fsync behaviour after SIGKILL, the 'at most one replayed message' bound as a run-time quantity."
	c.R.Assume("stream.Consumer.Consume calls the processor with consecutive batches starting at FromOffset; gommap MAP_SHARED stores reach the file")
	ru1 := c.R.Rule("C15-R1", "in the consume batch closure: callback, then (only if it returned nil) persist the offset, then truncate — all in the same loop iteration; a callback error is returned before anything is persisted", "E2 dominance + E1 nil-branch guard + E4", 3)
	s := c.consumeShape(ru1)
	if s != nil {
		local := s.handover.Instr.Parent() == s.batch && s.persist.Instr.Parent() == s.batch
		var ok bool
		var detail string
		var n int
		if local {
			ok, detail, n = c.guardedByNilResult(s.batch, s.handover, s.persist.Instr)
		} else {
			// hand-over and persist live in helpers of the batch closure: judged on its paths with the helpers inlined
			ok, detail, n = c.guardedByNilResultDeep(s.batch, s.handover, s.persist.Instr)
		}
		ru1.Evals(n)
		loops := core.Loops(s.batch)
		loopOf := func(in ssa.Instruction) *core.Loop {
			var l *core.Loop
			for _, at := range c.liftTo(s.batch, in) {
				l = core.InnermostLoop(loops, at.Block())
			}
			return l
		}
		lh, lp := loopOf(s.handover.Instr), loopOf(s.persist.Instr)
		if ok && (lh == nil || lh != lp) {
			ok, detail = false, "the offset is not persisted in the same loop iteration as the hand-over: a crash inside a batch replays the whole batch"
		}
		ru1.Check(ok, "persist after successful hand-over in "+c.fname(s.batch), c.whereI(s.persist.Instr), detail, detail)
		tbad := ""
		for _, t := range s.truncs {
			if !c.runsBefore(s.batch, s.persist.Instr, t.Instr) {
				tbad = "a truncation at " + c.whereI(t.Instr) + " is not dominated by the persist of the offset"
			}
		}
		ru1.Check(tbad == "", "truncate after persist in "+c.fname(s.batch), c.where(s.batch, s.batch), fmt.Sprintf("%d truncating call(s), all after the persist", len(s.truncs)), tbad)
		fs, n2, _, err := c.errDisciplineDeep(s.batch, func(cl *core.Call) bool { return cl.Instr == s.handover.Instr }, 2)
		ru1.Evals(n2)
		key := "callback error ends the batch in " + c.fname(s.batch)
		if err != nil {
			ru1.Undecided(key, c.where(s.batch, s.batch), err.Error())
		} else if len(fs) > 0 {
			ru1.Fail(key, c.whereI(s.handover.Instr), "callback error "+fs[0].kind+": "+fs[0].detail)
		} else {
			ru1.OK(key, c.whereI(s.handover.Instr), "tested; a failure returns a non-nil error")
		}

		// R2
		ru2 := c.R.Rule("C15-R2", "the value persisted, and the offset given to the truncation, are the very offset that was just handed to the callback", "E3 provenance (dominating store into the captured cell)", 2)
		ho := s.handover.Common.Args[0]
		sameOffset := func(v ssa.Value, at ssa.Instruction) bool {
			if sameValue(v, ho) {
				return true
			}
			// across helpers (the value travels through parameters or a state struct): copy chain only, no arithmetic
			heapField := false
			if ld, ok := conversionsOnly(v).(*ssa.UnOp); ok && ld.Op == token.MUL {
				if fa, ok := ld.X.(*ssa.FieldAddr); ok {
					if _, isLocal := core.Strip(fa.X).(*ssa.Alloc); !isLocal {
						heapField = true // a state object shared with the helpers that update it
					}
				}
			}
			return (at.Parent() != s.handover.Instr.Parent() || heapField) && c.copyReaches(v, ho)
		}
		ru2.Check(sameOffset(s.persist.Args()[1], s.persist.Instr), "persisted value in "+c.fname(s.batch), c.whereI(s.persist.Instr), "same value as the callback's offset argument", "the persisted offset is not the offset handed to the callback: "+short(core.Term(s.persist.Args()[1]), 80)+" vs "+short(core.Term(ho), 80))
		for i, t := range s.truncs {
			args := t.Args()
			okT := false
			for _, a := range args {
				if sameOffset(a, t.Instr) {
					okT = true
				}
			}
			ru2.Check(okT, fmt.Sprintf("truncation offset #%d in %s", i, c.fname(s.batch)), c.whereI(t.Instr), "same value as the callback's offset argument", "the truncation is not driven by the offset just handed over")
		}

		// R3
		ru3 := c.R.Rule("C15-R3", "on start the consumer resumes from the value decoded from the mapped state: stream.FromOffset (and the start-up truncation) receive it with conversions only", "E3 provenance", 2)
		fo := c.fo(ru3, pkgStream, "FromOffset")
		tb := c.P.IfaceMethod(pkgCommitlog, "CommitLog", "TruncateBefore")
		if fo != nil {
			fromMapped := func(v ssa.Value) (bool, string) {
				sv, ok := dominatingStore(v)
				if !ok {
					sv = conversionsOnly(v)
				}
				// a field of the state object that a constructor called here has just built (state.offset after
				// state := openConsumerState(path)): what the constructor's literal puts there
				if ld, isLoad := conversionsOnly(sv).(*ssa.UnOp); isLoad && ld.Op == token.MUL {
					if fa, isFA := ld.X.(*ssa.FieldAddr); isFA {
						base := core.Strip(fa.X)
						if ex, isEx := base.(*ssa.Extract); isEx {
							base = ex.Tuple
						}
						if kc, isCall := base.(*ssa.Call); isCall && kc.Parent() == s.impl {
							if g := kc.Call.StaticCallee(); g != nil {
								var lit *ssa.Alloc
								n := 0
								for _, b := range g.Blocks {
									if r, isRet := b.Instrs[len(b.Instrs)-1].(*ssa.Return); isRet && len(r.Results) > 0 {
										if a, isAlloc := core.Strip(r.Results[0]).(*ssa.Alloc); isAlloc {
											if lit != a {
												n++
											}
											lit = a
										}
									}
								}
								if n == 1 {
									if fv := (&builtObj{alloc: lit}).field(fieldNameOf(fa.X.Type(), fa.Field)); fv != nil {
										sv = fv
									}
								}
							}
						}
					}
				}
				call, ok := conversionsOnly(sv).(*ssa.Call)
				if !ok {
					return false, "it is not the result of a decode call: " + short(core.Term(v), 80)
				}
				cl := core.CallOf(call)
				if cl.Obj == nil || cl.Obj.Name() != "Uint64" || len(cl.Args()) != 1 {
					return false, "it is not decoded with ByteOrder.Uint64: " + short(core.Term(v), 80)
				}
				if !depReaches(cl.Args()[0], func(x ssa.Value) bool { return x == s.mapCall.Value() }) {
					return false, "the decoded buffer is not the mapped state"
				}
				return true, "ByteOrder.Uint64(mapped state), conversions only"
			}
			sites := core.CallsTo(s.impl, fo)
			ru3.Anchor(len(sites) >= 1, "a stream.FromOffset call in the Consume implementation")
			for i, cl := range sites {
				ok, d := fromMapped(cl.Arg(0))
				ru3.Check(ok, fmt.Sprintf("stream.FromOffset#%d in %s", i, c.fname(s.impl)), c.whereI(cl.Instr), d, "the resume offset is not the persisted one: "+d)
			}
			for i, cl := range core.CallsIn(s.impl) {
				if c.isTruncating(cl, tb) {
					okT, d := false, "no argument is the persisted offset"
					for _, a := range cl.Args() {
						if ok, dd := fromMapped(a); ok {
							okT, d = true, dd
						}
					}
					ru3.Check(okT, fmt.Sprintf("start-up truncation (call %d) in %s", i, c.fname(s.impl)), c.whereI(cl.Instr), d, "the start-up truncation is not driven by the persisted offset: "+d)
				}
			}
		}

		// R5
		ru5 := c.R.Rule("C15-R5", "the consumer state file is opened read-write and mapped MAP_SHARED with PROT_WRITE, so that the store of the offset reaches the file", "E11 constant check", 2)
		prot, ok1 := constInt(s.mapCall.Arg(1))
		flags, ok2 := constInt(s.mapCall.Arg(2))
		ru5.Check(ok1 && ok2 && prot&2 != 0 && flags == 1, "gommap.Map flags in "+c.fname(s.impl), c.whereI(s.mapCall.Instr), "PROT_WRITE set, MAP_SHARED", fmt.Sprintf("state mapping prot=%d flags=%d: a private or read-only mapping never persists the offset", prot, flags))
		of := c.fo(ru5, "os", "OpenFile")
		if of != nil {
			var opens []*core.Call
			seenF := map[*ssa.Function]bool{}
			var collect func(f *ssa.Function, d int)
			collect = func(f *ssa.Function, d int) {
				if f == nil || seenF[f] || d < 0 {
					return
				}
				seenF[f] = true
				opens = append(opens, core.CallsTo(f, of)...)
				for _, cl := range core.CallsIn(f) {
					if cl.Static != nil && cl.Static.Package() == s.impl.Package() {
						collect(cl.Static, d-1)
					}
				}
			}
			collect(s.impl, 2)
			for i, cl := range opens {
				fl, ok := constInt(cl.Arg(1))
				ru5.Check(ok && fl&2 != 0, fmt.Sprintf("os.OpenFile#%d reached from %s", i, c.fname(s.impl)), c.whereI(cl.Instr), "O_RDWR", "the state file is not opened read-write")
			}
		}

		// R7: the state file has its full size on every path that maps it
		ru7 := c.R.Rule("C15-R7", "the consumer state file is given its size on every path that maps it: (*os.File).Truncate with a constant of at least 8, or a test of the file's size, precedes gommap.Map — whether the file was just created or already existed (a crash between creating and sizing the file leaves an empty one; a later run that maps it as found fails for ever and nothing is consumed again)", "E1 must-pass-through on the paths to the mapping, package helpers inlined", 1)
		if trunc := c.P.MethodObj("os", "File", "Truncate"); ru7.Anchor(trunc != nil, "os.(*File).Truncate") {
			paths, err := c.pathsInlinedPkg(s.impl, core.PathOpts{}, nil)
			if err != nil {
				ru7.Undecided("paths to gommap.Map in "+c.fname(s.impl), c.where(s.impl, s.impl), err.Error())
			} else {
				nMap, bad := 0, ""
				for _, p := range paths {
					sized, mapped := false, false
					for _, pi := range p.Instrs() {
						if pi.Deferred {
							continue
						}
						cl := core.CallOf(pi.In)
						if cl == nil {
							continue
						}
						if cl.Is(trunc) && len(cl.Common.Args) > 1 {
							if k, ok := constInt(cl.Common.Args[1]); ok && k >= 8 {
								sized = true
							}
						}
						if cl.Obj != nil && cl.Obj.Name() == "Size" && cl.Invoke {
							sized = true // os.FileInfo.Size consulted
						}
						if pi.In == s.mapCall.Instr {
							mapped = true
							if !sized {
								bad = "the state file is mapped as it was found, without having been sized: " + fmtPath(p, c.P)
							}
							break
						}
					}
					if mapped {
						nMap++
					}
				}
				ru7.Check(bad == "" && nMap > 0, "paths to gommap.Map in "+c.fname(s.impl), c.whereI(s.mapCall.Instr), fmt.Sprintf("%d path(s), each sizes the file first", nMap), bad)
			}
		}

		// R6
		ru6 := c.R.Rule("C15-R6", "the offset handed to the callback is batch.FirstOffset + i where i indexes the very record whose decoding is the second argument; every iteration that continues hands its record over", "E3 + E2", 2)
		ot := core.Term(ho)
		rec := s.handover.Common.Args[1]
		rt := core.Term(rec)
		okO := false
		var idxVal ssa.Value
		if bo, ok := conversionsOnly(deepStrip(ho)).(*ssa.BinOp); ok && bo.Op == token.ADD {
			for _, pair := range [][2]ssa.Value{{bo.X, bo.Y}, {bo.Y, bo.X}} {
				if stringsContains(core.Term(pair[0]), ".FirstOffset") && !stringsContains(core.Term(pair[1]), "FirstOffset") {
					idxVal = conversionsOnly(pair[1])
					okO = true
				}
			}
		}
		okR := okO && depReaches(rec, func(v ssa.Value) bool {
			ia, ok := v.(*ssa.IndexAddr)
			return ok && conversionsOnly(ia.Index) == idxVal && stringsContains(core.Term(ia.X), ".Records")
		})
		ru6.Check(okO && okR, "offset/record correspondence in "+c.fname(s.batch), c.whereI(s.handover.Instr), "offset = FirstOffset + i, record = Records[i]", "the offset handed over does not correspond to the record decoded: offset "+short(ot, 100)+", record "+short(rt, 100))
		skip := ""
		if lh != nil {
			// where the hand-over happens in the batch closure: the call itself or the call of the helper that makes it
			hos := c.liftTo(s.batch, s.handover.Instr)
			for _, pr := range lh.Header.Preds {
				if !lh.Blocks[pr] {
					continue
				}
				dominated := false
				for _, at := range hos {
					if at.Block().Dominates(pr) {
						dominated = true
					}
				}
				if !dominated {
					skip = "an iteration can continue to the next record without handing the current one over"
				}
			}
			// loop must range over the whole Records slice starting at 0
		} else {
			skip = "the hand-over is not inside a loop over the batch records"
		}
		ru6.Check(skip == "", "no skipped record in "+c.fname(s.batch), c.where(s.batch, s.batch), "the hand-over dominates every back edge of the record loop", skip)
	}
	c.ruleTruncationMargin("C15-R4")
	c.ruleHandOverHasNoDeadline("C15-R8")
}
