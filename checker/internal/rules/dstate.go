package rules

import (
	"go/token"
	"go/types"
	"sort"
	"strings"

	"golang.org/x/tools/go/ssa"

	"waspcheck/internal/core"
	"waspcheck/internal/report"
)

// dstate gathers the anchors of the replicated state (package wasp/distributed).
type dstate struct {
	pkg                                   *ssa.Package
	mutators                              []*mutator // implementations of the mutating State methods
	queries                               []*ssa.Function
	queryIface                            map[*ssa.Function]string // query implementation -> the State interface it implements
	queueBroadcast                        *types.Func
	marshal                               []*types.Func
	upsert, insert                        *types.Func // trie writes
	isAdded, isRemoved, isOutdated, lastU *types.Func
	entryTypes                            []string // api type names of replicated entries
	eventType                             *types.Named
	mergeRemote, localState, notifyMsg    *ssa.Function
}

type mutator struct {
	fn    *ssa.Function
	iface string
	name  string
	kind  string // "added" or "deleted": which stamp it sets
	bulk  bool
}

var mutatorTable = []struct {
	iface, method, kind string
	bulk                bool
}{
	{"SubscriptionsState", "Create", "added", false},
	{"SubscriptionsState", "CreateFrom", "added", false},
	{"SubscriptionsState", "Delete", "deleted", false},
	{"SubscriptionsState", "DeletePeer", "deleted", true},
	{"SubscriptionsState", "DeleteSession", "deleted", true},
	{"SessionMetadatasState", "Create", "added", false},
	{"SessionMetadatasState", "Delete", "deleted", false},
	{"SessionMetadatasState", "DeletePeer", "deleted", true},
	{"TopicsState", "Set", "added", false},
	{"TopicsState", "Delete", "deleted", false},
}

var queryTable = []struct{ iface, method string }{
	{"SubscriptionsState", "All"}, {"SubscriptionsState", "ByPattern"}, {"SubscriptionsState", "ByPeer"},
	{"SessionMetadatasState", "Get"}, {"SessionMetadatasState", "ByClientID"}, {"SessionMetadatasState", "ByPeer"}, {"SessionMetadatasState", "All"},
	{"TopicsState", "Get"},
}

func (c *Ctx) dstate(ru *report.Rule) *dstate {
	d := &dstate{pkg: c.P.SSAPkg("wasp/distributed"), entryTypes: []string{"SessionMetadatas", "Subscription", "RetainedMessage"}}
	if !ru.Anchor(d.pkg != nil, "package wasp/distributed") {
		return nil
	}
	ok := true
	for _, m := range mutatorTable {
		impl := c.implOf(ru, "wasp/distributed", m.iface, m.method)
		if impl == nil {
			ok = false
			continue
		}
		d.mutators = append(d.mutators, &mutator{fn: impl, iface: m.iface, name: m.method, kind: m.kind, bulk: m.bulk})
	}
	for _, q := range queryTable {
		impl := c.implOf(ru, "wasp/distributed", q.iface, q.method)
		if impl == nil {
			ok = false
			continue
		}
		d.queries = append(d.queries, impl)
		if d.queryIface == nil {
			d.queryIface = map[*ssa.Function]string{}
		}
		d.queryIface[impl] = q.iface
	}
	d.queueBroadcast = c.cm(ru, pkgMemberlist, "TransmitLimitedQueue", "QueueBroadcast")
	for _, p := range []string{"github.com/golang/protobuf/proto", "github.com/gogo/protobuf/proto"} {
		if f := c.P.FuncObj(p, "Marshal"); f != nil {
			d.marshal = append(d.marshal, f)
		}
	}
	d.upsert = c.im(ru, "subscriptions", "Tree", "Upsert")
	d.insert = c.im(ru, "topics", "Store", "Insert")
	d.isAdded = c.fo(ru, "crdt", "IsEntryAdded")
	d.isRemoved = c.fo(ru, "crdt", "IsEntryRemoved")
	d.isOutdated = c.fo(ru, "crdt", "IsEntryOutdated")
	d.lastU = c.fo(ru, "crdt", "GetLastEntryUpdate")
	d.eventType = c.P.Named("wasp/api", "StateBroadcastEvent")
	ru.Anchor(d.eventType != nil, "api.StateBroadcastEvent")
	d.mergeRemote = c.implOf(ru, pkgMemberlist, "Delegate", "MergeRemoteState")
	d.localState = c.implOf(ru, pkgMemberlist, "Delegate", "LocalState")
	d.notifyMsg = c.implOf(ru, pkgMemberlist, "Delegate", "NotifyMsg")
	if !ok || d.queueBroadcast == nil || len(d.marshal) == 0 || d.upsert == nil || d.insert == nil || d.isAdded == nil || d.isRemoved == nil || d.isOutdated == nil || d.eventType == nil || d.mergeRemote == nil || d.localState == nil || d.notifyMsg == nil {
		return nil
	}
	return d
}

func (d *dstate) isEntryType(t types.Type) bool {
	t = derefT(t)
	for _, n := range d.entryTypes {
		if isNamed(t, "wasp/api", n) {
			return true
		}
	}
	return false
}

// repeatedFields lists the exported repeated (slice) fields of StateBroadcastEvent.
func (d *dstate) repeatedFields() []string {
	var out []string
	st := d.eventType.Underlying().(*types.Struct)
	for i := 0; i < st.NumFields(); i++ {
		f := st.Field(i)
		if !f.Exported() || strings.HasPrefix(f.Name(), "XXX_") {
			continue
		}
		if _, ok := f.Type().Underlying().(*types.Slice); ok {
			out = append(out, f.Name())
		}
	}
	sort.Strings(out)
	return out
}

// isStoreWriteInstr: a direct write into a replicated store: a MapUpdate on a map field of a state struct, or a call of the tries' Upsert / Insert.
func (d *dstate) isStoreWriteInstr(in ssa.Instruction) bool {
	switch x := in.(type) {
	case *ssa.MapUpdate:
		if ld, ok := x.Map.(*ssa.UnOp); ok && ld.Op == token.MUL {
			if fa, ok := ld.X.(*ssa.FieldAddr); ok {
				if m, ok := derefT(fa.Type()).Underlying().(*types.Map); ok && d.isEntryType(m.Elem()) {
					return true
				}
			}
		}
	default:
		if cl := core.CallOf(in); cl != nil && cl.Is(d.upsert, d.insert) {
			return true
		}
	}
	return false
}

// writesStore: fn (a function of the package) directly or through static package calls (depth) writes a replicated store.
func (c *Ctx) writesStore(d *dstate, fn *ssa.Function, depth int) bool {
	if fn == nil || fn.Package() != d.pkg {
		return false
	}
	for _, b := range fn.Blocks {
		for _, in := range b.Instrs {
			if d.isStoreWriteInstr(in) {
				return true
			}
			if depth > 0 {
				if cl := core.CallOf(in); cl != nil && cl.Static != nil && cl.Static != fn && c.writesStore(d, cl.Static, depth-1) {
					return true
				}
			}
		}
	}
	return false
}

// isStoreWriteCall: the instruction is a store write, or a static call to a package helper that writes the store and is not itself a mutator.
func (c *Ctx) isStoreWrite(d *dstate, in ssa.Instruction) bool {
	if d.isStoreWriteInstr(in) {
		return true
	}
	if cl := core.CallOf(in); cl != nil && cl.Static != nil && cl.Static.Package() == d.pkg {
		for _, m := range d.mutators {
			if m.fn == cl.Static {
				return false
			}
		}
		return c.writesStore(d, cl.Static, 2)
	}
	return false
}

func (d *dstate) mutatorOf(fn *ssa.Function) *mutator {
	for _, m := range d.mutators {
		if m.fn == fn {
			return m
		}
	}
	return nil
}

// errorNonNilOnPath: some condition on the path established that a value of type error is non-nil.
func errorNonNilOnPath(p *core.Path) bool {
	for _, cd := range p.Conds {
		bo, ok := cd.V.(*ssa.BinOp)
		if !ok || (bo.Op != token.EQL && bo.Op != token.NEQ) {
			continue
		}
		if types.Identical(bo.X.Type(), errorType) && !cd.Val {
			return true
		}
	}
	return false
}
