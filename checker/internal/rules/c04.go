package rules

import (
	"fmt"
	"go/token"
	"go/types"
	"os"

	"golang.org/x/tools/go/ssa"

	"waspcheck/internal/core"
	"waspcheck/internal/report"
)

func init() { register("C04", checkC04) }

type hashAnchors struct {
	get, del, put                      *types.Func
	listInsert, listDelete, listExpire *types.Func
	ackPkg                             *ssa.Package
}

func (c *Ctx) hashAnchors(ru *report.Rule) *hashAnchors {
	h := &hashAnchors{
		get:        c.cm(ru, pkgGotomic, "Hash", "Get"),
		del:        c.cm(ru, pkgGotomic, "Hash", "Delete"),
		put:        c.cm(ru, pkgGotomic, "Hash", "PutIfMissing"),
		listInsert: c.im(ru, "wasp/expiration", "List", "Insert"),
		listDelete: c.im(ru, "wasp/expiration", "List", "Delete"),
		listExpire: c.im(ru, "wasp/expiration", "List", "Expire"),
		ackPkg:     c.P.SSAPkg("wasp/ack"),
	}
	ru.Anchor(h.ackPkg != nil, "package wasp/ack")
	if h.get == nil || h.del == nil || h.put == nil || h.listInsert == nil || h.listDelete == nil || h.listExpire == nil || h.ackPkg == nil {
		return nil
	}
	return h
}

// ackFuncs lists the non-generated functions of package wasp/ack.
func (c *Ctx) ackFuncs(h *hashAnchors) []*ssa.Function {
	var out []*ssa.Function
	for _, f := range c.P.ModFuncs() {
		if f.Package() == h.ackPkg {
			out = append(out, f)
		}
	}
	return out
}

// storedCallbackInvocations: dynamic calls whose callee is a field of func type ack.Callback loaded from a stored entry.
func (c *Ctx) storedCallbackInvocations(h *hashAnchors) []*core.Call {
	var out []*core.Call
	for _, f := range c.ackFuncs(h) {
		for _, cl := range core.CallsIn(f) {
			if cl.Static != nil || cl.Invoke || cl.Builtin() != "" {
				continue
			}
			if !isNamed(cl.Common.Value.Type(), "wasp/ack", "Callback") {
				continue
			}
			switch v := cl.Common.Value.(type) {
			case *ssa.UnOp:
				if _, ok := v.X.(*ssa.FieldAddr); ok && v.Op == token.MUL {
					out = append(out, cl)
				}
			case *ssa.Field:
				out = append(out, cl)
			}
		}
	}
	return out
}

func hasControl(target *ssa.BasicBlock, cond ssa.Value, pol bool) bool {
	for _, cc := range controllingConds(target, nil) {
		if cc.cond == cond && cc.pol == pol {
			return true
		}
		// !x
		if u, ok := cc.cond.(*ssa.UnOp); ok && u.Op == token.NOT && u.X == cond && cc.pol == !pol {
			return true
		}
	}
	return false
}

func extractOf(call *core.Call, idx int) ssa.Value {
	v := call.Value()
	if v == nil || v.Referrers() == nil {
		return nil
	}
	for _, r := range *v.Referrers() {
		if ex, ok := r.(*ssa.Extract); ok && ex.Index == idx {
			return ex
		}
	}
	return nil
}

// ruleAckResolution implements C04-R1/R2/R5 (shared with C03 as the in-flight table's contract).
func (c *Ctx) ruleAckResolution(prefix string) {
	if prefix != "C04" {
		defer c.ruleSweepDrains(prefix + "-R7")
	}
	ru1 := c.R.Rule(prefix+"-R1", "winner-takes-callback: a stored callback is invoked only where Hash.Delete of that key reported ok; the timeout is registered only where PutIfMissing reported true; a duplicate identifier only returns an error", "E2 control dependence on the atomic operation's result", 4)
	h := c.hashAnchors(ru1)
	if h == nil {
		return
	}
	invs := c.storedCallbackInvocations(h)
	ru1.Anchor(len(invs) >= 1, "invocations of the stored ack.Callback")
	isInv := func(cl *core.Call) bool {
		for _, inv := range invs {
			if inv.Instr == cl.Instr {
				return true
			}
		}
		return false
	}
	// resolvers: the innermost functions that both remove an entry and invoke a stored callback (through helpers or not)
	resolvers := c.deepestReaching("wasp/ack", isAny(h.del), isInv)
	ru1.Anchor(len(resolvers) >= 2, "functions of wasp/ack that remove an entry from the table and run its callback (acknowledge and expire)")
	interesting := func(cl *core.Call) bool {
		return isInv(cl) || cl.Is(h.del, h.get, h.put, h.listInsert, h.listDelete, h.listExpire)
	}
	resPaths := map[*ssa.Function][]*core.Path{}
	for _, f := range resolvers {
		c.R.Fn(c.fname(f))
		paths, err := c.pathsInlined(f, core.PathOpts{}, interesting, nil)
		if err != nil {
			ru1.Undecided("paths of "+c.fname(f), c.whereF(f), err.Error())
			continue
		}
		resPaths[f] = paths
		ru1.Evals(len(paths))
		key := "stored-callback invocations reached from " + c.fname(f)
		bad, n := "", 0
		var at ssa.Instruction
		for _, pa := range paths {
			calls := pa.Calls()
			for _, pc := range calls {
				if !isInv(pc.Call) {
					continue
				}
				n++
				// the winning Delete: the last one before the invocation
				var won *core.PathCall
				for k := range calls {
					if calls[k].Seq < pc.Seq && calls[k].Is(h.del) {
						won = &calls[k]
					}
				}
				switch {
				case won == nil || !depReaches(pc.Common.Value, func(v ssa.Value) bool { return v == won.Value() }):
					bad, at = "the callback invoked does not come from the entry removed by Hash.Delete: two resolvers (ack and expiry, or two acks) can both fire it", pc.Instr
				default:
					okv := extractOf(won.Call, 1)
					if val, known := branchOn(pa, okv, pc.Seq); okv == nil || !known || !val {
						bad, at = "the callback is reachable where Hash.Delete did not report ok", pc.Instr
					}
				}
			}
		}
		if at == nil {
			ru1.Check(n > 0, key, c.whereF(f), "only after the winning Delete reported ok, with the callback of the removed entry", "no path invokes a stored callback")
		} else {
			ru1.Fail(key, c.whereI(at), bad)
		}
	}
	for _, f := range c.ackFuncs(h) {
		for i, ins := range core.CallsTo(f, h.listInsert) {
			key := fmt.Sprintf("timeout registration #%d in %s", i, c.fname(f))
			puts := core.CallsTo(f, h.put)
			ok := false
			for _, p := range puts {
				if hasControl(ins.Instr.Block(), p.Value(), true) {
					ok = true
				}
			}
			ru1.Check(ok, key, c.whereI(ins.Instr), "only where PutIfMissing returned true", "a timeout is registered although the entry was not inserted (duplicate identifier): the existing entry's timing is disturbed")
		}
		for i, p := range core.CallsTo(f, h.put) {
			key := fmt.Sprintf("duplicate rejection (PutIfMissing #%d) in %s", i, c.fname(f))
			paths, err := core.EnumPaths(f, core.PathOpts{Start: p.Instr.Block()})
			if err != nil {
				ru1.Undecided(key, c.whereI(p.Instr), err.Error())
				continue
			}
			ru1.Evals(len(paths))
			bad, n := "", 0
			for _, pa := range paths {
				val, known := false, false
				for _, cd := range pa.Conds {
					if cd.V == p.Value() {
						val, known = cd.Val, true
					}
				}
				if !known {
					bad = "the result of PutIfMissing is not tested"
					continue
				}
				if val {
					continue
				}
				n++
				if isNil, k := pa.ReturnsNilError(); !k || isNil {
					bad = "a duplicate identifier is not rejected with an error"
				}
				for _, pc := range pa.Calls() {
					if pc.Instr != p.Instr && (pc.Is(h.listInsert, h.listDelete, h.del) || (pc.Static == nil && !pc.Invoke && pc.Builtin() == "")) {
						bad = "rejecting a duplicate identifier has a side effect on the table or its timeouts"
					}
				}
			}
			ru1.Check(bad == "" && n > 0, key, c.whereI(p.Instr), "returns an error, touches nothing", bad)
		}
	}

	ru2 := c.R.Rule(prefix+"-R2", "once Hash.Delete has removed an entry, every path invokes its callback exactly once (no path leaves an entry removed but unresolved)", "E1 paths from the winning Delete", 2)
	for _, f := range resolvers {
		key := "paths after a winning Delete in " + c.fname(f)
		paths := resPaths[f]
		ru2.Evals(len(paths))
		bad, n := "", 0
		var at ssa.Instruction
		for _, pa := range paths {
			calls := pa.Calls()
			for k, d := range calls {
				if !d.Is(h.del) {
					continue
				}
				okv := extractOf(d.Call, 1)
				if okv == nil {
					bad, at = "the ok result of Hash.Delete is discarded", d.Instr
					continue
				}
				val, known := branchOn(pa, okv, len(pa.Instrs()))
				if !known || !val {
					continue
				}
				n++
				cnt := 0
				for _, pc := range calls[k+1:] {
					if pc.Is(h.del) {
						break
					}
					if isInv(pc.Call) {
						cnt++
					}
				}
				if cnt != 1 {
					bad, at = fmt.Sprintf("after the entry was removed its callback runs %d time(s) on path %s: the exchange is removed but never resolved (or resolved twice)", cnt, fmtPath(pa, c.P)), d.Instr
				}
			}
		}
		if at == nil {
			ru2.Check(n > 0, key, c.whereF(f), fmt.Sprintf("%d winning path(s), each resolves the entry exactly once", n), "no path on which Hash.Delete reports ok")
		} else {
			ru2.Fail(key, c.whereI(at), bad)
		}
	}

	ru5 := c.R.Rule(prefix+"-R5", "an entry is resolved as acknowledged (expired=false) only where the expected packet type stored with it equals the received packet's Type(); resolved as expired (expired=true) only from the expiry sweep", "E1 path atoms", 2)
	pktType := c.P.IfaceMethod(pkgPacket, "Packet", "Type")
	ru5.Anchor(pktType != nil, "packet.Packet.Type")
	fromTable := func(v ssa.Value) bool {
		return depReaches(v, func(x ssa.Value) bool {
			cv, ok := x.(*ssa.Call)
			return ok && core.CallOf(cv).Is(h.get, h.del)
		})
	}
	fromType := func(v ssa.Value) bool {
		return depReaches(v, func(x ssa.Value) bool {
			cv, ok := x.(*ssa.Call)
			return ok && pktType != nil && core.CallOf(cv).Is(pktType)
		})
	}
	for _, f := range resolvers {
		key := "cause passed to the stored callback from " + c.fname(f)
		bad, n := "", 0
		var at ssa.Instruction
		for _, pa := range resPaths[f] {
			calls := pa.Calls()
			for _, pc := range calls {
				if !isInv(pc.Call) {
					continue
				}
				n++
				k, isConst := pa.Resolve(pc.Common.Args[0]).(*ssa.Const)
				if !isConst {
					bad, at = "the expired flag is not a constant on this path", pc.Instr
					continue
				}
				if k.Value != nil && k.Value.String() == "true" {
					swept := false
					for _, o := range calls {
						if o.Seq < pc.Seq && o.Is(h.listExpire) {
							swept = true
						}
					}
					if !swept {
						// the resolver may be the sweep's per-key helper: then every call site hands it a key that the
						// timeout list returned
						sites := c.P.StaticCallers(f)
						swept = len(sites) > 0
						for _, site := range sites {
							fromSweep := false
							for _, a := range site.Common().Args {
								if depReaches(a, func(v ssa.Value) bool {
									cv, ok := v.(*ssa.Call)
									return ok && core.CallOf(cv).Is(h.listExpire)
								}) {
									fromSweep = true
								}
							}
							if !fromSweep {
								swept = false
							}
						}
					}
					if !swept {
						bad, at = "an entry is resolved as expired outside the expiry sweep", pc.Instr
					}
					continue
				}
				ok := false
				for _, d := range decisions(pa) {
					bo, isb := d.Cond.(*ssa.BinOp)
					if !isb || d.Seq > pc.Seq || (bo.Op != token.EQL && bo.Op != token.NEQ) {
						continue
					}
					if held := d.Val == (bo.Op == token.EQL); !held {
						continue
					}
					if (fromTable(bo.X) && fromType(bo.Y)) || (fromTable(bo.Y) && fromType(bo.X)) {
						ok = true
					}
				}
				if !ok {
					bad, at = "an entry can be resolved as acknowledged by a packet of the wrong type", pc.Instr
				}
			}
		}
		if at == nil {
			ru5.Check(n > 0, key, c.whereF(f), "acknowledged only under stored expected type == received Type(); expired only from the sweep", "no path invokes a stored callback")
		} else {
			ru5.Fail(key, c.whereI(at), bad)
		}
	}
}

func depReachesCallTo(v ssa.Value, obj *types.Func) bool {
	return depReaches(v, func(x ssa.Value) bool {
		cv, ok := x.(*ssa.Call)
		return ok && core.CallOf(cv).Is(obj)
	})
}

func checkC04(c *Ctx) {
	c.R.Explanation = "Static rules over wasp/ack/queue.go and wasp/expiration: (R1) winner-takes-callback protocol around the atomic PutIfMissing/Delete; (R2) no path leaves an entry removed but unresolved; (R3) in every expiration.List.Delete implementation the id parameter reaches an equality test that selects what is removed, inside a scan over the items that share the deadline; (R4) heap and index are co-updated (push+index store, pop+index delete); (R5) acknowledged only for the expected packet type, expired only from the sweep; (R6) the table key is computed by one function from both the session prefix and the packet identifier."
	c.R.NotCovered = "Heap ordering, Round(time.Second) arithmetic ('honoured to the second'), gotomic internals, behaviour under concurrent schedules (lock discipline is C20)."
	c.R.Assume("gotomic.Hash.PutIfMissing / Delete are atomic and report the winner truthfully")
	c.ruleAckResolution("C04")
	ru3 := c.R.Rule("C04-R3", "entry identity: in every implementation of expiration.List.Delete the id parameter flows to an equality test against stored items that controls the removal, and that test sits in a loop over the items sharing the deadline", "E3 parameter flow across static calls + E2 control dependence + E10 siblings", 2)
	h := c.hashAnchors(ru3)
	if h == nil {
		return
	}
	for _, impl := range c.P.Implementations(h.listDelete) {
		if !c.P.IsModPkg(impl.Package().Pkg) {
			continue
		}
		c.R.Fn(c.fname(impl))
		key := "id of " + c.fname(impl)
		ok, detail := c.idSelectsRemoval(impl, 0, 4, map[*ssa.Function]bool{})
		ru3.Check(ok, key, c.where(impl, impl), detail, detail)
	}

	ru4 := c.R.Rule("C04-R4", "heap and index agree: a function that pushes a bucket on the heap also stores it in the index map; a function that pops one also deletes it from the index, in the same iteration", "E10 pairing on paths", 2)
	push := c.fo(ru4, "container/heap", "Push")
	pop := c.fo(ru4, "container/heap", "Pop")
	// the heap's own Push / Pop (its heap.Interface methods) only append / cut the slice: calling them directly
	// skips the sift that keeps the earliest bucket on top
	if hi := c.P.Named("container/heap", "Interface"); hi != nil {
		if it, ok := hi.Underlying().(*types.Interface); ok {
			for _, f := range c.P.ModFuncs() {
				if f.Package() == nil || f.Package().Pkg.Path() != c.P.Rel("wasp/expiration") {
					continue
				}
				for _, cl := range core.CallsIn(f) {
					if cl.Static == nil || cl.Static.Signature.Recv() == nil || (cl.Static.Name() != "Push" && cl.Static.Name() != "Pop") {
						continue
					}
					rt := cl.Static.Signature.Recv().Type()
					if types.Implements(rt, it) || types.Implements(types.NewPointer(rt), it) {
						ru4.Fail(fmt.Sprintf("direct call of %s in %s", c.fname(cl.Static), c.fname(f)), c.whereI(cl.Instr), "the heap's own "+cl.Static.Name()+" method is called directly instead of container/heap."+cl.Static.Name()+": the element is not sifted into place, so the sweep no longer sees the earliest deadline first and due entries wait behind later ones")
					}
				}
			}
		}
	}
	if push != nil && pop != nil {
		for _, f := range c.P.ModFuncs() {
			if f.Package() == nil || f.Package().Pkg.Path() != c.P.Rel("wasp/expiration") {
				continue
			}
			for i, cl := range core.CallsTo(f, push, pop) {
				c.R.Fn(c.fname(f))
				isPush := cl.Is(push)
				key := fmt.Sprintf("heap.%s #%d in %s", cl.Obj.Name(), i, c.fname(f))
				paths, err := core.EnumPaths(f, core.PathOpts{Start: cl.Instr.Block(), Stop: func(b *ssa.BasicBlock) bool { return b == cl.Instr.Block() }})
				if err != nil {
					ru4.Undecided(key, c.whereI(cl.Instr), err.Error())
					continue
				}
				ru4.Evals(len(paths))
				// index updates anywhere in the function count for push when they dominate or follow within the block
				bad := ""
				for _, pa := range paths {
					found := false
					for _, pi := range pa.Instrs() {
						switch x := pi.In.(type) {
						case *ssa.MapUpdate:
							if isPush && isMapField(x.Map) {
								found = true
							}
						case *ssa.Call:
							if b, ok := x.Call.Value.(*ssa.Builtin); ok && b.Name() == "delete" && !isPush && isMapField(x.Call.Args[0]) {
								found = true
							}
						}
					}
					if isPush && !found {
						// the store may precede the push in the same block / dominate it
						for _, b := range f.Blocks {
							for _, in := range b.Instrs {
								if mu, ok := in.(*ssa.MapUpdate); ok && isMapField(mu.Map) && core.Dominates(mu, cl.Instr) {
									found = true
								}
							}
						}
					}
					if !found {
						if isPush {
							bad = "a bucket is pushed on the heap without being stored in the index: later inserts for that second create a second bucket"
						} else {
							bad = "a bucket popped from the heap stays in the index: a later insert for that second lands in a bucket that is never swept again"
						}
					}
				}
				ru4.Check(bad == "", key, c.whereI(cl.Instr), "index updated on every path", bad)
			}
		}
	}

	c.ruleSweepDrains("C04-R7")
	c.ruleAppendAliasing("C04-R9", "wasp/expiration")
	c.ruleDeadlineRounding("C04-R10")
	c.rulePoppedBucketDrained("C04-R11")
	c.ruleItemKeepsExactDeadline("C04-R12")
	c.ruleSweepGateCoherent("C04-R13")
	// the binary searches of the timeout list: monotone predicates over the very slice searched, tail-relative
	// results re-based before use (round-8 change: the end of the run of equal deadlines returned relative to its start)
	c.checkSortSearchSites("C04-R14", func(f *ssa.Function) bool {
		return f.Package() != nil && f.Package().Pkg.Path() == c.P.Rel("wasp/expiration")
	}, 1)

	// R8: slices that are binary-searched stay sorted
	ru8 := c.R.Rule("C04-R8", "a slice field that is binary-searched with sort.Search is only modified in order-preserving ways: append followed by a sort, or deletion by append(s[:i], s[i+1:]...); a whole element is never overwritten in place (swap-with-last removal breaks the order the search relies on)", "E11 shape rule on writes to sort.Search'ed members", 1)
	search := c.P.FuncObj("sort", "Search")
	sorted := map[string]bool{} // "<type>.<field>"
	for _, f := range c.P.ModFuncs() {
		if f.Package() == nil || f.Package().Pkg.Path() != c.P.Rel("wasp/expiration") {
			continue
		}
		for _, cl := range core.CallsTo(f, search) {
			pred := closureArg(cl.Arg(1))
			if pred == nil {
				continue
			}
			for _, b := range pred.Blocks {
				for _, in := range b.Instrs {
					if ia, ok := in.(*ssa.IndexAddr); ok {
						// the slice searched: a field read directly, or through a local copy (entries := b.data)
						if ld, ok := core.Strip(ia.X).(*ssa.UnOp); ok && ld.Op == token.MUL {
							if fa, ok := ld.X.(*ssa.FieldAddr); ok {
								sorted[derefNamedName(fa.X.Type())+"."+fieldNameOf(fa.X.Type(), fa.Field)] = true
							}
						}
					}
				}
			}
		}
	}
	for name := range sorted {
		bad := ""
		n := 0
		for _, f := range c.P.ModFuncs() {
			if f.Package() == nil || f.Package().Pkg.Path() != c.P.Rel("wasp/expiration") {
				continue
			}
			for _, b := range f.Blocks {
				for _, in := range b.Instrs {
					st, ok := in.(*ssa.Store)
					if !ok {
						continue
					}
					ia, ok := st.Addr.(*ssa.IndexAddr)
					if !ok {
						continue
					}
					ld, ok := ia.X.(*ssa.UnOp)
					if !ok || ld.Op != token.MUL {
						continue
					}
					fa, ok := ld.X.(*ssa.FieldAddr)
					if !ok || derefNamedName(fa.X.Type())+"."+fieldNameOf(fa.X.Type(), fa.Field) != name {
						continue
					}
					n++
					// acceptable only if a sort of that slice follows on every path
					sortedAfter := !core.ReachableAvoiding(st, core.IsReturn, func(x ssa.Instruction) bool {
						cl := core.CallOf(x)
						return cl != nil && cl.Obj != nil && cl.Obj.Pkg() != nil && cl.Obj.Pkg().Path() == "sort" && cl.Obj.Name() != "Search"
					})
					if !sortedAfter {
						bad = "an element of the binary-searched slice " + name + " is overwritten in place at " + c.whereI(st) + " and the slice is not re-sorted afterwards: later searches (deletes) miss their entry"
					}
				}
			}
		}
		ru8.Check(bad == "", "order of "+name, "-", fmt.Sprintf("%d in-place element store(s), none leaves the slice unsorted", n), bad)
	}

	ru6 := c.R.Rule("C04-R6", "the in-flight table key is computed by a single function whose result depends on both the session prefix and the packet identifier; every Get/Delete/PutIfMissing outside the sweep uses it", "E3 + E10", 3)
	var keyFn *ssa.Function
	n := 0
	for _, f := range c.ackFuncs(h) {
		for _, cl := range core.CallsTo(f, h.get, h.del, h.put) {
			karg := cl.Args()[0]
			if len(core.CallsTo(f, h.listExpire)) > 0 {
				continue // sweep: keys come back from the timeout list
			}
			n++
			key := fmt.Sprintf("key of Hash.%s #%d in %s", cl.Obj.Name(), n, c.fname(f))
			var kf *ssa.Function
			var kcall *ssa.Call
			sweepKeys := false
			depReaches(karg, func(v ssa.Value) bool {
				if cv, ok := v.(*ssa.Call); ok {
					if sc := cv.Call.StaticCallee(); sc != nil && sc.Package() == h.ackPkg {
						kf, kcall = sc, cv
						return true
					}
				}
				return false
			})
			if kf == nil {
				// key passed in as a parameter: resolve through callers
				if p, ok := core.Strip(karg).(*ssa.Parameter); ok {
					okAll := true
					for _, site := range c.P.StaticCallers(p.Parent()) {
						idx := paramIdx(p)
						a := site.Common().Args[idx]
						found := false
						depReaches(a, func(v ssa.Value) bool {
							if cv, ok := v.(*ssa.Call); ok {
								if core.CallOf(cv).Is(h.listExpire) {
									found, sweepKeys = true, true // the sweep's per-key helper: keys come back from the timeout list
									return true
								}
								if sc := cv.Call.StaticCallee(); sc != nil && sc.Package() == h.ackPkg {
									kf, kcall = sc, cv
									found = true
									return true
								}
							}
							return false
						})
						if !found {
							okAll = false
						}
					}
					if !okAll {
						kf = nil
					}
				}
			}
			if kf == nil && sweepKeys {
				continue // like the sweep itself: the key was computed at registration
			}
			if kf == nil {
				ru6.Fail(key, c.whereI(cl.Instr), "the key is not computed by the package's key function")
				continue
			}
			if keyFn == nil {
				keyFn = kf
			}
			_ = kcall
			ru6.Check(kf == keyFn, key, c.whereI(cl.Instr), "key from "+c.fname(kf), "registration and resolution compute their keys with different functions ("+c.fname(kf)+" vs "+c.fname(keyFn)+")")
		}
	}
	if keyFn != nil {
		c.R.Fn(c.fname(keyFn))
		bad := ""
		for _, rv := range returnValues(keyFn) {
			for i := range keyFn.Params {
				if !reachesParam(rv, keyFn, i) {
					bad = fmt.Sprintf("the key does not depend on parameter %d (%s): entries of different sessions or identifiers collide", i, keyFn.Params[i].Name())
				}
			}
		}
		ru6.Check(bad == "" && len(keyFn.Params) >= 2, "key function "+c.fname(keyFn), c.where(keyFn, keyFn), "depends on every parameter (prefix and identifier)", bad)
	}
}

func paramIdx(p *ssa.Parameter) int {
	for i, x := range p.Parent().Params {
		if x == p {
			return i
		}
	}
	return -1
}

func isMapField(v ssa.Value) bool {
	ld, ok := v.(*ssa.UnOp)
	if !ok || ld.Op != token.MUL {
		return false
	}
	_, ok = ld.X.(*ssa.FieldAddr)
	return ok
}

// idSelectsRemoval: parameter idx (after the receiver) of fn — the entry id — reaches, possibly through static module calls, an equality test that controls a store to a container field, inside a loop.
func (c *Ctx) idSelectsRemoval(fn *ssa.Function, argIdx int, depth int, seen map[*ssa.Function]bool) (bool, string) {
	if seen[fn] || depth < 0 {
		return false, "recursion / depth exhausted"
	}
	seen[fn] = true
	c.R.Fn(c.fname(fn))
	// parameter index accounting for receiver
	pi := argIdx
	if fn.Signature.Recv() != nil {
		pi = argIdx + 1
	}
	if pi >= len(fn.Params) {
		return false, "no such parameter"
	}
	loops := core.Loops(fn)
	for _, b := range fn.Blocks {
		iff, ok := b.Instrs[len(b.Instrs)-1].(*ssa.If)
		if !ok {
			continue
		}
		a := orderAtom(iff.Cond, false)
		if a.kind != "equality" {
			continue
		}
		if !(reachesParam(a.lhs, fn, pi) || reachesParam(a.rhs, fn, pi)) {
			continue
		}
		// does the equal-branch perform a removal (store into a slice/map field)?
		eqSucc := b.Succs[0]
		if bo, isb := iff.Cond.(*ssa.BinOp); isb && bo.Op == token.NEQ {
			eqSucc = b.Succs[1]
		}
		removes := false
		for _, rb := range fn.Blocks {
			if !eqSucc.Dominates(rb) {
				continue
			}
			for _, in := range rb.Instrs {
				if st, ok := in.(*ssa.Store); ok {
					if _, ok := st.Addr.(*ssa.FieldAddr); ok {
						removes = true
					}
				}
				if cl := core.CallOf(in); cl != nil && cl.Builtin() == "delete" {
					removes = true
				}
			}
		}
		if !removes {
			continue
		}
		if core.InnermostLoop(loops, b) == nil {
			return false, "the id is compared against a single stored item only (no scan over the items that share the deadline): with equal deadlines the wrong entry, or none, is removed — at " + c.P.Pos(iff.Cond.Pos())
		}
		return true, "id compared for equality inside a scan, and the comparison controls the removal (" + c.fname(fn) + ")"
	}
	// follow static calls that receive the id
	for _, cl := range core.CallsIn(fn) {
		if cl.Static == nil || cl.Static.Pkg == nil || !c.P.IsModPkg(cl.Static.Pkg.Pkg) {
			continue
		}
		for j, a := range cl.Common.Args {
			if reachesParam(a, fn, pi) && types.Identical(a.Type(), fn.Params[pi].Type()) {
				aj := j
				if cl.Static.Signature.Recv() != nil {
					aj = j - 1
				}
				if ok, d := c.idSelectsRemoval(cl.Static, aj, depth-1, seen); ok {
					return true, d
				} else if stringsContains(d, "single stored item") {
					return false, d
				}
				// the callee may only find the item (indexOf(id, deadline) (idx, ok)): the removal is then made here,
				// under what the callee answered
				if cv := cl.Value(); cv != nil && c.idSelectsPosition(cl.Static, aj) {
					for _, rb := range fn.Blocks {
						removes := false
						for _, in := range rb.Instrs {
							if st, ok := in.(*ssa.Store); ok {
								if _, ok := st.Addr.(*ssa.FieldAddr); ok {
									removes = true
								}
							}
							if dc := core.CallOf(in); dc != nil && dc.Builtin() == "delete" {
								removes = true
							}
						}
						if !removes {
							continue
						}
						for _, cc := range controllingConds(rb, nil) {
							if depReaches(cc.cond, func(x ssa.Value) bool { return x == cv }) {
								return true, "id compared for equality inside a scan (" + c.fname(cl.Static) + "), and its answer controls the removal (" + c.fname(fn) + ")"
							}
						}
					}
				}
			}
		}
	}
	return false, "the id parameter never reaches an equality test that selects the item to remove in " + c.fname(fn) + ": deleting one entry's timeout removes whichever entry happens to be first"
}

// idSelectsPosition: g compares its parameter argIdx for equality with stored items inside a loop, and the equal branch
// leads to a return of its own (the position found), other than the return taken when nothing matched.
func (c *Ctx) idSelectsPosition(g *ssa.Function, argIdx int) bool {
	pi := argIdx
	if g.Signature.Recv() != nil {
		pi = argIdx + 1
	}
	if pi >= len(g.Params) || len(g.Blocks) == 0 {
		return false
	}
	loops := core.Loops(g)
	for _, b := range g.Blocks {
		iff, ok := b.Instrs[len(b.Instrs)-1].(*ssa.If)
		if !ok || core.InnermostLoop(loops, b) == nil {
			continue
		}
		a := orderAtom(iff.Cond, false)
		if a.kind != "equality" || !(reachesParam(a.lhs, g, pi) || reachesParam(a.rhs, g, pi)) {
			continue
		}
		eqSucc := b.Succs[0]
		if bo, isb := iff.Cond.(*ssa.BinOp); isb && bo.Op == token.NEQ {
			eqSucc = b.Succs[1]
		}
		for _, rb := range g.Blocks {
			if _, isRet := rb.Instrs[len(rb.Instrs)-1].(*ssa.Return); isRet && eqSucc.Dominates(rb) {
				c.R.Fn(c.fname(g))
				return true
			}
		}
	}
	return false
}

// ruleSweepDrains implements C04-R7 (also part of the in-flight table contract used by C03 / C20).
func (c *Ctx) ruleSweepDrains(id string) {
	ru0 := c.R.Rule(id+"-anchors", "anchors", "", 0)
	h := c.hashAnchors(ru0)
	if h == nil {
		return
	}
	ru7 := c.R.Rule(id, "the expiry sweep tries to resolve every key returned by expiration.List.Expire: inside the loop over that result no iteration can continue without reaching Hash.Delete, and the loop is left only through its normal end (a key taken off the timeout list but skipped is never expired nor re-armed)", "E2 dominance over the loop's back edges", 1)
	for _, f := range c.ackFuncs(h) {
		for _, ex := range core.CallsTo(f, h.listExpire) {
			c.R.Fn(c.fname(f))
			key := "sweep loop in " + c.fname(f)
			var del *core.Call
			var delAt ssa.Instruction // where the removal happens in f: the Delete itself or the call of the helper that makes it
			for _, d := range c.callsToDeep(f, 2, h.del) {
				for _, at := range c.liftTo(f, d.Instr) {
					del, delAt = d, at
				}
			}
			if del == nil {
				ru7.Fail(key, c.whereI(ex.Instr), "the sweep never removes entries from the in-flight table")
				continue
			}
			l := core.InnermostLoop(core.Loops(f), delAt.Block())
			bad := ""
			if l == nil {
				bad = "the keys returned by the timeout list are not processed in a loop"
			} else {
				for _, pr := range l.Header.Preds {
					if l.Blocks[pr] && !delAt.Block().Dominates(pr) {
						bad = "an iteration of the sweep can skip Hash.Delete for the key it was given (at " + c.P.Pos(lastPos(pr)) + "): that entry has already left the timeout list, so it is never expired, retransmitted or released"
					}
				}
				if !depReaches(del.Args()[0], func(v ssa.Value) bool { return v == ex.Value() }) {
					bad = "the key removed is not the one returned by the timeout list"
				}
				// the sweep is not cut short: the keys after the current one have left the timeout list too
				for b := range l.Blocks {
					if _, isRet := b.Instrs[len(b.Instrs)-1].(*ssa.Return); isRet {
						bad = "the sweep returns from inside its loop (at " + c.P.Pos(lastPos(b)) + "): the keys listed after the current one have already left the timeout list and are never expired, retransmitted or released"
					}
					for _, sb := range b.Succs {
						if !l.Blocks[sb] && b != l.Header {
							bad = "the sweep loop can be left early (at " + c.P.Pos(lastPos(b)) + "): the keys listed after the current one have already left the timeout list and are never expired, retransmitted or released"
						}
					}
				}
			}
			ru7.Check(bad == "", key, c.whereI(del.Instr), "Hash.Delete dominates every back edge of the sweep loop", bad)
		}
	}

}

// ruleAppendAliasing implements C04-R9: no insertion by nested appends that reads the tail after it may have been overwritten.
func (c *Ctx) ruleAppendAliasing(id string, pkgRel string) {
	ru := c.R.Rule(id, "no element is inserted into a slice by append(append(s[:i], x...), s[i:]...): the inner append writes x over s[i] in place when the backing array has room, and the outer append then copies the overwritten tail — one stored entry is lost and the new one appears twice (the safe form copies the tail first: append(s[:i], append([]T{x}, s[i:]...)...))", "E11 shape rule on nested appends over two re-slicings of one slice (positive control: the package's append calls are counted)", 1)
	n, bad := 0, ""
	var at ssa.Instruction
	sliceOf := func(v ssa.Value) (base string, ok bool) {
		sl, isSl := core.Strip(v).(*ssa.Slice)
		if !isSl {
			return "", false
		}
		return core.Term(sl.X), true
	}
	for _, f := range c.P.ModFuncs() {
		if f.Package() == nil || f.Package().Pkg.Path() != c.P.Rel(pkgRel) {
			continue
		}
		for _, cl := range core.CallsIn(f) {
			if cl.Builtin() != "append" || len(cl.Common.Args) != 2 {
				continue
			}
			n++
			c.R.Fn(c.fname(f))
			inner, ok := core.Strip(cl.Common.Args[0]).(*ssa.Call)
			if !ok || core.CallOf(inner).Builtin() != "append" {
				continue
			}
			headBase, ok1 := sliceOf(inner.Call.Args[0])
			tailBase, ok2 := sliceOf(cl.Common.Args[1])
			if ok1 && ok2 && headBase == tailBase {
				hs := core.Strip(inner.Call.Args[0]).(*ssa.Slice)
				if hs.High != nil { // s[:i] keeps the capacity of s: the inner append writes into s's own array
					bad = "an element is inserted by append(append(s[:i], x), s[i:]...) over " + short(headBase, 60) + ": the tail is read after the inner append may have overwritten its first element"
					at = cl.Instr
				}
			}
		}
	}
	if at != nil {
		ru.Fail("nested appends in "+pkgRel, c.whereI(at), bad)
	} else {
		ru.Check(n > 0, "nested appends in "+pkgRel, "-", fmt.Sprintf("%d append call(s), none inserts through an aliased re-slice", n), "no append call found in "+pkgRel+": the rule cannot see its constructs")
	}
}

// ruleDeadlineRounding implements C04-R10: one rounding of deadlines to bucket keys.
func (c *Ctx) ruleDeadlineRounding(id string) {
	ru := c.R.Rule(id, "every function of the timeout list that derives a bucket key from a deadline uses the same rounding (the same time.Time method with the same unit): an entry filed under one rounding and looked up under another is never found again — its timer outlives the acknowledgement and fires on whatever exchange reuses the identifier", "E10 sibling agreement on the rounding call", 1)
	type use struct {
		method string
		unit   string
		at     ssa.Instruction
		fn     *ssa.Function
	}
	var uses []use
	for _, f := range c.P.ModFuncs() {
		if f.Package() == nil || f.Package().Pkg.Path() != c.P.Rel("wasp/expiration") {
			continue
		}
		for _, cl := range core.CallsIn(f) {
			if cl.Obj == nil || cl.Obj.Pkg() == nil || cl.Obj.Pkg().Path() != "time" {
				continue
			}
			if cl.Obj.Name() != "Round" && cl.Obj.Name() != "Truncate" {
				continue
			}
			sig, _ := cl.Obj.Type().(*types.Signature)
			if sig == nil || sig.Recv() == nil || !isNamed(sig.Recv().Type(), "time", "Time") {
				continue
			}
			args := cl.Args()
			unit := "?"
			if len(args) > 0 {
				unit = core.Term(args[len(args)-1])
			}
			uses = append(uses, use{cl.Obj.Name(), unit, cl.Instr, f})
			c.R.Fn(c.fname(f))
		}
	}
	if !ru.Anchor(len(uses) >= 1, "a bucket-key computation (time.Time.Round / Truncate) in wasp/expiration") {
		return
	}
	if len(uses) == 1 {
		ru.OK("deadline rounding in "+c.fname(uses[0].fn), c.whereI(uses[0].at), "computed in one place only ("+uses[0].method+"("+uses[0].unit+")): nothing to disagree with")
		return
	}
	ref := uses[0]
	for i, u := range uses {
		key := fmt.Sprintf("deadline rounding #%d in %s", i, c.fname(u.fn))
		ru.Check(u.method == ref.method && u.unit == ref.unit, key, c.whereI(u.at), u.method+"("+u.unit+")", fmt.Sprintf("this site rounds deadlines with %s(%s) while %s uses %s(%s): entries filed by one are not found by the other", u.method, u.unit, c.fname(ref.fn), ref.method, ref.unit))
	}
}

// rulePoppedBucketDrained implements C04-R11: a bucket taken off the heap hands over all its entries.
func (c *Ctx) rulePoppedBucketDrained(id string) {
	ru := c.R.Rule(id, "a bucket popped from the heap is drained completely: the loop that copies its entries into the sweep's result is left only through its normal end (the bucket has left heap and index, so an entry it still holds is never expired, retransmitted or released)", "E2 loop exits after heap.Pop", 1)
	pop := c.fo(ru, "container/heap", "Pop")
	if pop == nil {
		return
	}
	n := 0
	// drainLoops judges the loops of g that run over data derived from a value satisfying popped; eligible filters the
	// loops by position (in the sweeping function: after the pop and not the sweep loop itself).
	drainLoops := func(g *ssa.Function, popped func(ssa.Value) bool, eligible func(loops []*core.Loop, l *core.Loop) bool, at ssa.Instruction) {
		loops := core.Loops(g)
		for _, l := range loops {
			if !eligible(loops, l) {
				continue
			}
			overPopped := false
			for b := range l.Blocks {
				for _, in := range b.Instrs {
					var x ssa.Value
					switch y := in.(type) {
					case *ssa.IndexAddr:
						x = y.X
					case *ssa.Index:
						x = y.X
					case *ssa.Range:
						x = y.X
					default:
						continue
					}
					if depReaches(x, popped) {
						overPopped = true
					}
				}
			}
			if !overPopped {
				continue
			}
			n++
			key := fmt.Sprintf("drain loop #%d after heap.Pop in %s", n, c.fname(g))
			bad := ""
			for b := range l.Blocks {
				if _, isRet := b.Instrs[len(b.Instrs)-1].(*ssa.Return); isRet {
					bad = "return inside the loop over the popped bucket's entries (" + c.P.Pos(lastPos(b)) + ")"
				}
				for _, sb := range b.Succs {
					if !l.Blocks[sb] && b != l.Header {
						bad = "the loop over the popped bucket's entries can be left early (at " + c.P.Pos(lastPos(b)) + "): the entries not yet copied are lost with the bucket"
					}
				}
			}
			ru.Check(bad == "", key, c.whereI(at), "left only through its normal end", bad)
		}
	}
	// pop sites: heap.Pop itself, and calls of a package helper that returns what it popped (popExpired() *bucket)
	type popSite struct {
		f  *ssa.Function
		pc *core.Call
	}
	var sites []popSite
	returnsPopped := map[*ssa.Function]bool{}
	for _, f := range c.P.ModFuncs() {
		if f.Package() == nil || f.Package().Pkg.Path() != c.P.Rel("wasp/expiration") {
			continue
		}
		for _, pc := range core.CallsTo(f, pop) {
			pc := pc
			sites = append(sites, popSite{f, pc})
			for _, rv := range returnValues(f) {
				if depReaches(rv, func(v ssa.Value) bool { return v == pc.Value() }) {
					returnsPopped[f] = true
				}
			}
		}
	}
	for _, f := range c.P.ModFuncs() {
		if f.Package() == nil || f.Package().Pkg.Path() != c.P.Rel("wasp/expiration") {
			continue
		}
		for _, cl := range core.CallsIn(f) {
			if cl.Static != nil && returnsPopped[cl.Static] && cl.Value() != nil {
				sites = append(sites, popSite{f, cl})
			}
		}
	}
	for _, ps := range sites {
		f := ps.f
		{
			pc := ps.pc
			c.R.Fn(c.fname(f))
			isPopped := func(v ssa.Value) bool { return v == pc.Value() }
			drainLoops(f, isPopped, func(loops []*core.Loop, l *core.Loop) bool {
				if !l.Blocks[pc.Instr.Block()] && !pc.Instr.Block().Dominates(l.Header) {
					return false
				}
				return !(l.Blocks[pc.Instr.Block()] && l.Header.Dominates(pc.Instr.Block()) && innerOf(loops, l, pc.Instr.Block()))
			}, pc.Instr)
			// the popped bucket handed to a helper of the package that drains it
			for _, cl := range core.CallsIn(f) {
				g := cl.Static
				if g == nil || g.Package() != f.Package() || g == f || len(g.Blocks) == 0 || !pc.Instr.Block().Dominates(cl.Instr.Block()) {
					continue
				}
				for i, a := range cl.Common.Args {
					if i >= len(g.Params) || !depReaches(a, isPopped) {
						continue
					}
					prm := g.Params[i]
					c.R.Fn(c.fname(g))
					drainLoops(g, func(v ssa.Value) bool { return v == ssa.Value(prm) }, func([]*core.Loop, *core.Loop) bool { return true }, cl.Instr)
				}
			}
		}
	}
	ru.Anchor(n > 0, "a loop over the entries of a bucket popped from the heap")
}

// innerOf: l is not the innermost loop around b (the outer sweep loop contains the pop itself).
func innerOf(loops []*core.Loop, l *core.Loop, b *ssa.BasicBlock) bool {
	in := core.InnermostLoop(loops, b)
	return in == l
}

// ruleSweepGateCoherent implements C04-R13. Where an implementation of List.Expire decides from a scalar field of the
// list alone (a remembered "earliest deadline", a counter) — not from the ordered structure — that nothing is due,
// that field is a summary of the structure and must follow it: every function that pushes a bucket onto the heap either
// updates the field on the way out or has compared against it. A summary refreshed only in some cases (when the heap was
// empty) makes the sweep overlook an entry registered with an earlier deadline until a later bucket comes due.
func (c *Ctx) ruleSweepGateCoherent(id string) {
	ru := c.R.Rule(id, "a scalar field of a timeout list that lets Expire return before it has looked at the ordered structure (a remembered earliest deadline) is kept coherent with that structure: on every path of every function that pushes a bucket onto the heap, the field is written after the push or has been compared with the new deadline; otherwise entries registered with an earlier deadline than the remembered one are not expired when due", "E1 paths from heap.Push to exit + E3 provenance of the gating condition (positive control: Expire implementations inspected)", 1)
	ru0 := c.R.Rule(id+"-anchors", "anchors", "", 0)
	h := c.hashAnchors(ru0)
	push := c.fo(ru, "container/heap", "Push")
	if h == nil || push == nil {
		return
	}
	impls := c.P.Implementations(h.listExpire)
	if !ru.Anchor(len(impls) > 0, "implementations of expiration.List.Expire") {
		return
	}
	// a read of field idx of a struct of type t: plain load or sync/atomic load
	fieldRead := func(v ssa.Value) (*ssa.FieldAddr, bool) {
		switch x := v.(type) {
		case *ssa.UnOp:
			if x.Op == token.MUL {
				if fa, ok := x.X.(*ssa.FieldAddr); ok {
					return fa, true
				}
			}
		case *ssa.Call:
			if g := x.Call.StaticCallee(); g != nil && g.Pkg != nil && g.Pkg.Pkg.Path() == "sync/atomic" && len(x.Call.Args) > 0 {
				if fa, ok := x.Call.Args[0].(*ssa.FieldAddr); ok {
					return fa, true
				}
			}
		}
		return nil, false
	}
	isScalar := func(t types.Type) bool {
		_, ok := derefT(t).Underlying().(*types.Basic)
		return ok
	}
	for _, e := range impls {
		if len(e.Blocks) == 0 || len(e.Params) == 0 {
			continue
		}
		c.R.Fn(c.fname(e))
		recvT := derefT(e.Params[0].Type())
		key := "gates of " + c.fname(e)
		gates := map[int]*ssa.If{}
		for _, b := range e.Blocks {
			iff, ok := b.Instrs[len(b.Instrs)-1].(*ssa.If)
			if !ok {
				continue
			}
			var scalar *ssa.FieldAddr
			structural := false
			depReaches(iff.Cond, func(v ssa.Value) bool {
				if fa, ok := fieldRead(v); ok && types.Identical(derefT(fa.X.Type()), recvT) {
					if isScalar(fa.Type()) {
						scalar = fa
					} else if !isMutexType(derefT(fa.Type())) {
						structural = true
					}
				}
				if fa, ok := v.(*ssa.FieldAddr); ok && types.Identical(derefT(fa.X.Type()), recvT) && !isScalar(fa.Type()) && !isMutexType(derefT(fa.Type())) {
					structural = true // &l.heap handed to a method
				}
				return false
			})
			if scalar != nil && !structural {
				gates[scalar.Field] = iff
			}
		}
		if len(gates) == 0 {
			ru.OK(key, c.where(e, e), "every decision of the sweep reads the ordered structure")
			continue
		}
		for fld, iff := range gates {
			fname := fieldNameOf(e.Params[0].Type(), fld)
			isF := func(a ssa.Value) bool {
				fa, ok := a.(*ssa.FieldAddr)
				return ok && fa.Field == fld && types.Identical(derefT(fa.X.Type()), recvT)
			}
			nPush, bad := 0, ""
			for _, f := range c.P.ModFuncs() {
				if f.Package() != e.Package() {
					continue
				}
				pushes := core.CallsTo(f, push)
				if len(pushes) == 0 {
					continue
				}
				paths, err := core.EnumPaths(f, core.PathOpts{})
				if err != nil {
					bad = err.Error()
					continue
				}
				for _, p := range paths {
					if _, ok := p.Exit.(*ssa.Return); !ok {
						continue
					}
					pushedAt, wrote, compared := -1, false, false
					for i, pi := range p.Instrs() {
						if cl := core.CallOf(pi.In); cl != nil {
							if cl.Is(push) {
								pushedAt, wrote = i, false
								nPush++
							}
							if g := cl.Static; g != nil && g.Pkg != nil && g.Pkg.Pkg.Path() == "sync/atomic" && len(cl.Common.Args) > 1 && isF(cl.Common.Args[0]) {
								wrote = true
							}
						}
						if st, ok := pi.In.(*ssa.Store); ok && isF(st.Addr) {
							wrote = true
						}
					}
					if pushedAt < 0 {
						continue
					}
					for _, d := range decisions(p) {
						if os.Getenv("WASPCHECK_DEBUG") != "" {
							fmt.Fprintf(os.Stderr, "R13 decision %T %s\n", d.Cond, core.Term(d.Cond))
						}
						if depReaches(d.Cond, func(v ssa.Value) bool {
							fa, ok := fieldRead(v)
							return ok && isF(fa)
						}) {
							compared = true
						}
					}
					if !wrote && !compared {
						bad = fmt.Sprintf("%s pushes a bucket and leaves without updating %s or comparing with it (%s): Expire, which trusts %s (test at %s), overlooks the new bucket if it is due earlier", c.fname(f), fname, fmtPath(p, c.P), fname, c.whereI(iff))
					}
				}
			}
			ru.Check(bad == "" && nPush > 0, "summary field "+fname+" of "+recvT.String(), c.whereI(iff), fmt.Sprintf("%d pushing path(s) keep it coherent", nPush), bad)
		}
	}
}

// ruleItemKeepsExactDeadline implements C04-R12.
func (c *Ctx) ruleItemKeepsExactDeadline(id string) {
	ru := c.R.Rule(id, "an entry filed in a bucket keeps its exact deadline: the time stored with the entry never comes from the rounding that computes the bucket key (the delete looks the entry up by its exact deadline; an entry stored under the rounded one is not found, its timer survives the acknowledgement and fires on the exchange that reuses the identifier)", "E3 provenance of the per-entry time field vs the rounding call", 1)
	// entry structs: element types of slice fields of structs of the package
	elem := map[*types.Named]bool{}
	tp := c.P.TypesPkg("wasp/expiration")
	if !ru.Anchor(tp != nil, "package wasp/expiration") {
		return
	}
	for _, name := range tp.Scope().Names() {
		tn, ok := tp.Scope().Lookup(name).(*types.TypeName)
		if !ok {
			continue
		}
		st, ok := tn.Type().Underlying().(*types.Struct)
		if !ok {
			continue
		}
		for i := 0; i < st.NumFields(); i++ {
			if sl, ok := st.Field(i).Type().Underlying().(*types.Slice); ok {
				if en, ok := derefT(sl.Elem()).(*types.Named); ok && en.Obj().Pkg() == tp {
					if _, isStruct := en.Underlying().(*types.Struct); isStruct {
						elem[en] = true
					}
				}
			}
		}
	}
	// a bucket is itself an element of the heap / the skip list: entries are the leaves (no slice of package structs inside)
	for en := range elem {
		st := en.Underlying().(*types.Struct)
		for i := 0; i < st.NumFields(); i++ {
			if sl, ok := st.Field(i).Type().Underlying().(*types.Slice); ok {
				if inner, ok := derefT(sl.Elem()).(*types.Named); ok && inner.Obj().Pkg() == tp {
					delete(elem, en)
				}
			}
		}
	}
	n, bad := 0, ""
	for _, f := range c.P.ModFuncs() {
		if f.Package() == nil || f.Package().Pkg.Path() != c.P.Rel("wasp/expiration") {
			continue
		}
		for _, b := range f.Blocks {
			for _, in := range b.Instrs {
				st, ok := in.(*ssa.Store)
				if !ok {
					continue
				}
				fa, ok := st.Addr.(*ssa.FieldAddr)
				if !ok || !isNamed(st.Val.Type(), "time", "Time") {
					continue
				}
				en, ok := derefT(fa.X.Type()).(*types.Named)
				if !ok || !elem[en] {
					continue
				}
				n++
				c.R.Fn(c.fname(f))
				if depReaches(st.Val, func(v ssa.Value) bool {
					cv, ok := v.(*ssa.Call)
					if !ok {
						return false
					}
					cl := core.CallOf(cv)
					return cl.Obj != nil && cl.Obj.Pkg() != nil && cl.Obj.Pkg().Path() == "time" && (cl.Obj.Name() == "Round" || cl.Obj.Name() == "Truncate")
				}) {
					bad = "the deadline stored with the entry at " + c.whereI(st) + " is the rounded bucket key, not the entry's own deadline"
				}
			}
		}
	}
	ru.Check(bad == "" && n > 0, "deadline stored with each entry in wasp/expiration", "-", fmt.Sprintf("%d store(s) of an entry's time, none derived from the rounding", n), bad+map[bool]string{true: "", false: "no entry with a time field is stored"}[n > 0 || bad != ""])
	// the look-up side: a routine that reads the entries' own time (to find the entry to delete) is given the exact
	// deadline too, never the rounded bucket key
	rounded := func(v ssa.Value) bool {
		return depReaches(v, func(x ssa.Value) bool {
			cv, ok := x.(*ssa.Call)
			if !ok {
				return false
			}
			cl := core.CallOf(cv)
			return cl.Obj != nil && cl.Obj.Pkg() != nil && cl.Obj.Pkg().Path() == "time" && (cl.Obj.Name() == "Round" || cl.Obj.Name() == "Truncate")
		})
	}
	readsEntryTime := func(g *ssa.Function) bool {
		for _, b := range g.Blocks {
			for _, in := range b.Instrs {
				if fa, ok := in.(*ssa.FieldAddr); ok && isNamed(derefT(fa.Type()), "time", "Time") {
					if en, ok := derefT(fa.X.Type()).(*types.Named); ok && elem[en] && fa.Referrers() != nil {
						for _, r := range *fa.Referrers() {
							if _, isStore := r.(*ssa.Store); !isStore {
								return true
							}
						}
					}
				}
			}
		}
		return false
	}
	m, bad2 := 0, ""
	for _, f := range c.P.ModFuncs() {
		if f.Package() == nil || f.Package().Pkg.Path() != c.P.Rel("wasp/expiration") {
			continue
		}
		for _, cl := range core.CallsIn(f) {
			g := cl.Static
			if g == nil || g.Package() != f.Package() || len(g.Blocks) == 0 || !readsEntryTime(g) {
				continue
			}
			for i, a := range cl.Common.Args {
				if !isNamed(a.Type(), "time", "Time") || i >= len(g.Params) {
					continue
				}
				// only parameters that are compared with the entries' time matter: those the routine's reads depend on
				m++
				if rounded(a) {
					bad2 = "the routine that looks an entry up by its own deadline (" + c.fname(g) + ") is given the rounded bucket key at " + c.whereI(cl.Instr) + ": an entry whose deadline is not on a whole second is never found, its timer survives the acknowledgement and fires on the exchange that reuses the identifier"
				}
			}
		}
	}
	ru.Check(bad2 == "", "deadline handed to the look-up routines of wasp/expiration", "-", fmt.Sprintf("%d time argument(s), none derived from the rounding", m), bad2)
}
