package rules

import (
	"fmt"
	"go/token"
	"go/types"

	"golang.org/x/tools/go/ssa"

	"waspcheck/internal/core"
	"waspcheck/internal/report"
)

func init() { register("C03", checkC03) }

// armSite is an outbound in-flight registration: an Insert call whose packet is a PUBLISH or a PUBREL, in a declared function of the module ("arming function").
type armSite struct {
	call    *core.Call
	fn      *ssa.Function // arming function
	cb      *ssa.Function // in-flight callback literal
	pktIdx  int           // parameter of fn that is the packet
	sessIdx int           // parameter of fn that is the session
	pktType string        // "Publish" or "PubRel"
}

type outbound struct {
	q        *queueAnchors
	sites    []*armSite
	arming   map[*ssa.Function]*armSite
	midGet   *types.Func
	midPut   *types.Func
	localGet *types.Func
	sessID   *types.Func
	sessWr   *types.Func
}

func (c *Ctx) outbound(ru *report.Rule) *outbound {
	o := &outbound{arming: map[*ssa.Function]*armSite{}}
	o.q = c.queueAnchors(ru)
	o.midGet = c.im(ru, "wasp", "midPool", "Get")
	o.midPut = c.im(ru, "wasp", "midPool", "Put")
	o.localGet = c.im(ru, "wasp", "LocalState", "Get")
	o.sessID = c.cm(ru, "wasp/sessions", "Session", "ID")
	o.sessWr = c.cm(ru, "wasp/sessions", "Session", "Writer")
	if o.q == nil || o.midGet == nil || o.midPut == nil || o.localGet == nil || o.sessID == nil || o.sessWr == nil {
		return nil
	}
	for _, cl := range c.insertSites(o.q, "Publish", "PubRel") {
		f := cl.Instr.Parent()
		if f.Parent() != nil {
			continue // registration from inside a closure: not an arming function shape we know
		}
		s := &armSite{call: cl, fn: f, cb: closureArg(cl.Arg(3)), pktIdx: -1, sessIdx: -1}
		pv := core.Strip(cl.Arg(1))
		if mi, ok := cl.Arg(1).(*ssa.MakeInterface); ok {
			pv = core.Strip(mi.X)
		}
		for i, p := range f.Params {
			if ssa.Value(p) == pv {
				s.pktIdx = i
			}
			if isNamed(p.Type(), "wasp/sessions", "Session") {
				s.sessIdx = i
			}
		}
		if isNamed(boxedType(cl.Arg(1)), pkgPacket, "PubRel") {
			s.pktType = "PubRel"
		} else {
			s.pktType = "Publish"
		}
		o.sites = append(o.sites, s)
		o.arming[f] = s
		c.R.Fn(c.fname(f))
		if s.cb != nil {
			c.R.Fn(c.fname(s.cb))
		}
	}
	return o
}

func (o *outbound) isSessionRegisteredAtom(cd core.Cond, p *core.Path) (registered bool, ok bool) {
	bo, isb := cd.V.(*ssa.BinOp)
	if !isb || (bo.Op != token.EQL && bo.Op != token.NEQ) {
		return false, false
	}
	for _, side := range []ssa.Value{bo.X, bo.Y} {
		if cv, isc := p.Resolve(side).(*ssa.Call); isc && core.CallOf(cv).Is(o.localGet) {
			// positive term is (Get(..) == nil)
			return !cd.Val, true
		}
	}
	return false, false
}

// checkC03Table runs only the decision table (R1) and provenance (R2) of the outbound in-flight callbacks under the given rule id prefix.
func checkC03Table(c *Ctx, id string) {
	saveRules := tableOnly
	tableOnly = id
	defer func() { tableOnly = saveRules }()
	checkC03(c)
}

var tableOnly string

func checkC03(c *Ctx) {
	r1, r2 := "C03-R1", "C03-R2"
	if tableOnly != "" {
		r1, r2 = tableOnly, tableOnly+"b"
	}
	if tableOnly == "" {
		c.R.NotCovered = "Actual timing of deadlines and sweeps, what the client does, retransmission DUP flag semantics."
		c.R.Assume("ack.Queue invokes each callback at most once with expired reflecting the cause (C04)")
		c.R.Explanation = "Static rules over wasp/writer.go and wasp/packets.go: (R1) decision table of every outbound in-flight callback over the atoms E (fired as expired) and R (session still registered): E∧R ⇒ exactly one re-arm and no release; ¬R ⇒ exactly one release of the identifier, no re-arm, no write; ¬E∧R ⇒ release (QoS 1 / PUBREL done) or advance to PUBREL (QoS 2) — unevaluated atoms fork both ways; (R2) the re-armed packet is the very packet registered (same identifier), the PUBREL takes its identifier from the stored PUBLISH, the released identifier is the stored packet's, the registry is asked about the session being written to; (R3) if arming fails the fresh identifier is released and nothing is written; (R4) the expiry sweep is wired to a ticker loop in a goroutine of Writer.Run; (R5) all four acknowledgement packet types are routed to the in-flight table."
	}
	ru1 := c.R.Rule(r1, "decision table of each outbound in-flight callback over E (expired) and R (session registered): E∧R ⇒ one re-arm, no release; ¬R ⇒ one release, no re-arm, no write; ¬E∧R ⇒ one release, or one advance to PUBREL", "E1 pathspec with uninterpreted atoms, rows checked on every consistent path", 3)
	o := c.outbound(ru1)
	if o == nil {
		return
	}
	ru1.Anchor(len(o.sites) >= 3, "outbound Insert sites (QoS 1 PUBLISH, QoS 2 PUBLISH, PUBREL)")
	ru2 := c.R.Rule(r2, "same identifier: the packet re-armed on expiry is the very value registered; a PUBREL built on PUBREC takes its MessageId from the stored/captured PUBLISH; the identifier released comes from the stored/captured packet; the registry lookup asks about the session being served", "E3 provenance", 6)
	completesQoS1, advancesQoS2 := false, false
	for si, s := range o.sites {
		base := fmt.Sprintf("in-flight callback of Insert(*packet.%s) in %s", s.pktType, c.fname(s.fn))
		_ = si
		if s.cb == nil {
			ru1.Undecided(base, c.whereI(s.call.Instr), "the callback is not a function literal")
			continue
		}
		paths, err := c.pathsInlined(s.cb, core.PathOpts{}, func(cl *core.Call) bool {
			if cl.Static != nil && o.arming[cl.Static] != nil {
				return true
			}
			return cl.Is(o.midPut, o.localGet) || (cl.Obj != nil && cl.Obj.Pkg() != nil && cl.Obj.Pkg().Path() == pkgEncoder)
		}, func(g *ssa.Function) bool { return o.arming[g] != nil })
		if err != nil {
			ru1.Undecided(base, c.where(s.cb, s.cb), err.Error())
			continue
		}
		ru1.Evals(len(paths))
		rowBad := map[string]string{}
		rowSeen := map[string]int{}
		type onPath struct {
			*core.Call
			p *core.Path
		}
		var rearms, releases, advance []onPath
		for _, p := range paths {
			if _, ok := p.Exit.(*ssa.Return); !ok {
				continue
			}
			eVal, eKnown := p.CondVal(fmt.Sprintf("P%d", cbParamIdx(s.cb, 0)))
			rVal, rKnown := false, false
			for _, cd := range p.Conds {
				if v, ok := o.isSessionRegisteredAtom(cd, p); ok {
					rVal, rKnown = v, true
				}
			}
			var rearm, release, adv []*core.Call
			writes := 0
			for _, pc := range p.Calls() {
				switch {
				case pc.Static != nil && o.arming[pc.Static] != nil:
					if o.arming[pc.Static].pktType == "PubRel" && s.pktType == "Publish" {
						adv = append(adv, pc.Call)
					} else {
						rearm = append(rearm, pc.Call)
					}
				case pc.Is(o.midPut):
					release = append(release, pc.Call)
				case pc.Obj != nil && pc.Obj.Pkg() != nil && pc.Obj.Pkg().Path() == pkgEncoder:
					writes++
				}
			}
			for _, e := range []bool{true, false} {
				for _, r := range []bool{true, false} {
					if (eKnown && eVal != e) || (rKnown && rVal != r) {
						continue
					}
					row := fmt.Sprintf("E=%v,R=%v", e, r)
					rowSeen[row]++
					var bad string
					switch {
					case !r:
						if len(release) != 1 || len(rearm)+len(adv) != 0 || writes != 0 {
							bad = fmt.Sprintf("session no longer registered: want exactly one release of the identifier and nothing else; got %d release(s), %d re-arm(s), %d advance(s), %d write(s)", len(release), len(rearm), len(adv), writes)
						}
					case e && r:
						if len(rearm) != 1 || len(release) != 0 || len(adv) != 0 {
							bad = fmt.Sprintf("expired while the session is registered: want exactly one re-arm of the same exchange and no release; got %d re-arm(s), %d release(s), %d advance(s)", len(rearm), len(release), len(adv))
						}
					default: // ¬E ∧ R
						okDone := len(release) == 1 && len(rearm) == 0 && len(adv) == 0
						okAdv := len(release) == 0 && len(rearm) == 0 && len(adv) == 1
						if !okDone && !okAdv {
							bad = fmt.Sprintf("acknowledged while registered: want exactly one release, or exactly one advance to PUBREL; got %d release(s), %d re-arm(s), %d advance(s)", len(release), len(rearm), len(adv))
						}
						if okDone && s.pktType == "Publish" {
							completesQoS1 = true
						}
						if okAdv {
							advancesQoS2 = true
						}
					}
					if bad != "" {
						rowBad[row] = bad + " on path " + fmtPath(p, c.P)
					}
				}
			}
			for _, x := range rearm {
				rearms = append(rearms, onPath{x, p})
			}
			for _, x := range release {
				releases = append(releases, onPath{x, p})
			}
			for _, x := range adv {
				advance = append(advance, onPath{x, p})
			}
		}
		for _, row := range []string{"E=true,R=true", "E=true,R=false", "E=false,R=true", "E=false,R=false"} {
			key := base + "|row " + row
			if rowSeen[row] == 0 {
				ru1.Fail(key, c.where(s.cb, s.cb), "no path of the callback is consistent with this situation")
				continue
			}
			ru1.Check(rowBad[row] == "", key, c.where(s.cb, s.cb), fmt.Sprintf("%d consistent path(s) satisfy the row", rowSeen[row]), rowBad[row])
		}
		// R2 provenance
		registered := core.Strip(s.call.Arg(1))
		if mi, ok := s.call.Arg(1).(*ssa.MakeInterface); ok {
			registered = core.Strip(mi.X)
		}
		bad := ""
		for _, ra := range rearms {
			tgt := o.arming[ra.Static]
			if tgt.pktIdx < 0 || (!same(ra.p.Resolve(core.Strip(ra.Common.Args[tgt.pktIdx])), registered) && !isStoredPacket(ra.p.Resolve(core.Strip(ra.Common.Args[tgt.pktIdx])), s.cb)) {
				bad = "the packet re-armed on expiry is not the packet that was registered (a different packet or identifier would be retransmitted)"
			}
			if tgt.sessIdx >= 0 && s.sessIdx >= 0 && !same(ra.p.Resolve(core.Strip(ra.Common.Args[tgt.sessIdx])), s.fn.Params[s.sessIdx]) {
				bad = "the re-arm targets a different session"
			}
		}
		ru2.Check(bad == "" && len(rearms) > 0, base+"|re-armed packet", c.where(s.cb, s.cb), "re-arms the registered packet for the same session", bad)
		bad = ""
		fromStored := func(v ssa.Value) bool {
			// MessageId of the stored packet (2nd callback parameter) or of the registered packet
			return stringsContains(core.Term(v), ".MessageId") && (reachesParam(v, s.cb, cbParamIdx(s.cb, 1)) || (s.pktIdx >= 0 && reachesParam(v, s.fn, s.pktIdx)))
		}
		for _, rl := range releases {
			if !fromStored(rl.p.Resolve(rl.Arg(0))) {
				bad = "the identifier released is not the MessageId of the stored/registered packet: " + short(core.Term(rl.Arg(0)), 80)
			}
		}
		ru2.Check(bad == "" && len(releases) > 0, base+"|released identifier", c.where(s.cb, s.cb), "releases the stored packet's MessageId", bad)
		if s.pktType == "Publish" && len(advance) > 0 {
			bad = ""
			for _, av := range advance {
				tgt := o.arming[av.Static]
				mid := complitField(av.p.Resolve(av.Common.Args[tgt.pktIdx]), "MessageId")
				if mid == nil {
					// built by a constructor (pubRelFor(stored.MessageId)): the literal's field with the argument bound
					if b := c.builtObject(av.p.Resolve(av.Common.Args[tgt.pktIdx])); b != nil {
						mid = b.field("MessageId")
					}
				}
				if mid == nil || !fromStored(mid) {
					bad = "the PUBREL built on PUBREC does not take its MessageId from the stored PUBLISH"
				}
			}
			ru2.Check(bad == "", base+"|PUBREL identifier", c.where(s.cb, s.cb), "PUBREL.MessageId = stored PUBLISH.MessageId", bad)
		}
		// registry lookup asks about the served session
		bad = "the callback never asks the local registry whether the session is still registered"
		for _, g := range c.callsToDeepStop(s.cb, 3, func(g *ssa.Function) bool { return o.arming[g] != nil }, o.localGet) {
			idc, ok := core.Strip(g.Arg(0)).(*ssa.Call)
			if ok && core.CallOf(idc).Is(o.sessID) && s.sessIdx >= 0 && reachesParam(idc.Call.Args[0], s.fn, s.sessIdx) {
				bad = ""
			} else {
				bad = "the registry lookup is not keyed by the served session's own ID()"
			}
		}
		ru2.Check(bad == "", base+"|registry lookup", c.where(s.cb, s.cb), "LocalState.Get(session.ID()) of the served session", bad)
	}
	ru1.Check(completesQoS1 && advancesQoS2, "both acknowledged outcomes occur over the PUBLISH sites", "-", "QoS 1 completes on PUBACK, QoS 2 advances to PUBREL on PUBREC", fmt.Sprintf("over all PUBLISH registrations: completes=%v advances=%v (one of the two QoS flows is missing)", completesQoS1, advancesQoS2))

	r3 := "C03-R3"
	if tableOnly != "" {
		r3 = tableOnly + "c"
	}
	// R3
	ru3 := c.R.Rule(r3, "in an arming function that reports failure, the packet is written only after the registration succeeded; in the fan-out, a failed arming releases the identifier just acquired", "E1 nil-branch guard + path rows", 4)
	for _, s := range o.sites {
		if s.fn.Signature.Results().Len() == 0 {
			continue
		}
		encs := c.encoderWrites(s.fn)
		key := "write after successful registration in " + c.fname(s.fn)
		if len(encs) == 0 {
			ru3.Fail(key, c.where(s.fn, s.fn), "the arming function never writes the packet")
			continue
		}
		okAll, detail := true, ""
		for _, e := range encs {
			ok, d, n := c.guardedByNilResult(s.fn, s.call, e.Instr)
			ru3.Evals(n)
			if !ok {
				okAll, detail = false, d
			} else {
				detail = d
			}
		}
		ru3.Check(okAll, key, c.whereI(s.call.Instr), detail, "the packet is written although the registration may have failed: "+detail)
		// once the exchange is registered the function reports success: its caller releases the identifier on failure,
		// while the registered entry (and its retransmissions) keeps using it
		key = "success reported once registered in " + c.fname(s.fn)
		paths, err := core.EnumPaths(s.fn, core.PathOpts{Start: s.call.Instr.Block()})
		if err != nil {
			ru3.Undecided(key, c.whereI(s.call.Instr), err.Error())
			continue
		}
		ru3.Evals(len(paths))
		bad, nReg := "", 0
		for _, p := range paths {
			if _, isRet := p.Exit.(*ssa.Return); !isRet {
				continue
			}
			registered := false
			for _, d := range decisions(p) {
				bo, ok := d.Cond.(*ssa.BinOp)
				if !ok || (bo.Op != token.EQL && bo.Op != token.NEQ) {
					continue
				}
				for _, pair := range [][2]ssa.Value{{bo.X, bo.Y}, {bo.Y, bo.X}} {
					if k, isK := pair[1].(*ssa.Const); isK && k.Value == nil && isErrOperandOf(p.Resolve(pair[0]), s.call) {
						if d.Val == (bo.Op == token.EQL) {
							registered = true
						}
					}
				}
			}
			if !registered {
				continue
			}
			nReg++
			if isNil, known := p.ReturnsNilError(); !known || !isNil {
				bad = "after the exchange has been registered the function can still report failure (" + fmtPath(p, c.P) + "): the caller then returns the identifier to the pool while the registered entry keeps retransmitting with it — the identifier is handed to another message while still in flight"
			}
		}
		ru3.Check(bad == "" && nReg > 0, key, c.whereI(s.call.Instr), fmt.Sprintf("%d path(s) through a successful registration, all return nil", nReg), bad+map[bool]string{true: "", false: "no path tests the registration result"}[nReg > 0 || bad != ""])
	}
	// fan-out: callers of arming functions that acquire an identifier
	for _, f := range c.P.ModFuncs() {
		gets := core.CallsIn(f)
		hasGet := false
		for _, g := range gets {
			if g.Is(o.midGet) || (g.Static != nil && c.callsTransitively(g.Static, 1, func(x *core.Call) bool { return x.Is(o.midGet) }) && g.Static.Parent() == nil && o.arming[g.Static] == nil) {
				hasGet = true
			}
		}
		if !hasGet || o.arming[f] != nil {
			continue
		}
		for i, cl := range core.CallsIn(f) {
			tgt, off := c.armTarget(o, nil, cl)
			if tgt == nil || cl.Value() == nil || tgt.fn.Signature.Results().Len() == 0 || tgt.pktIdx-off < 0 {
				continue
			}
			c.R.Fn(c.fname(f))
			key := fmt.Sprintf("failed arming (call %d to %s) in %s", i, c.fname(tgt.fn), c.fname(f))
			// the identifier stored into the packet's MessageId
			mid := complitOrStoredFieldAt(cl.Common.Args[tgt.pktIdx-off], "MessageId", cl.Instr)
			paths, err := core.EnumPaths(f, core.PathOpts{Start: cl.Instr.Block(), Stop: func(b *ssa.BasicBlock) bool { return b == cl.Instr.Block() }})
			if err != nil {
				ru3.Undecided(key, c.whereI(cl.Instr), err.Error())
				continue
			}
			ru3.Evals(len(paths))
			bad, nerr := "", 0
			for _, p := range paths {
				tested, isNil := false, false
				for _, cd := range p.Conds {
					if bo, ok := cd.V.(*ssa.BinOp); ok {
						for _, side := range []ssa.Value{bo.X, bo.Y} {
							if isErrOperandOf(p.Resolve(side), cl) {
								tested, isNil = true, cd.Val
							}
						}
					}
				}
				if !tested {
					bad = "the result of the arming call is not tested"
					continue
				}
				if isNil {
					continue
				}
				nerr++
				rel := 0
				for _, pc := range p.Calls() {
					if pc.Is(o.midPut) && mid != nil && sameValue(pc.Arg(0), mid) {
						rel++
					}
				}
				if rel != 1 {
					bad = fmt.Sprintf("when arming fails the identifier just acquired is released %d time(s), want 1 (identifier leak or double release)", rel)
				}
			}
			ru3.Check(bad == "" && nerr > 0, key, c.whereI(cl.Instr), "released exactly once on the failure path", bad)
		}
	}

	if tableOnly != "" {
		return
	}
	// R4
	ru4 := c.R.Rule("C03-R4", "the expiry sweep is wired: ack.Queue.Expire is called inside a loop that receives from a time.Ticker, in a goroutine started by the Writer.Run implementation", "E8/E2 structural", 1)
	run := c.implOf(ru4, "wasp", "Writer", "Run")
	if run != nil {
		found, detail := false, "no call of ack.Queue.Expire is reachable from a goroutine started by Writer.Run"
		for _, b := range run.Blocks {
			for _, in := range b.Instrs {
				g, ok := in.(*ssa.Go)
				if !ok {
					continue
				}
				gf := closureArg(g.Call.Value)
				if gf == nil {
					continue
				}
				for _, ex := range core.CallsTo(gf, o.q.expire) {
					l := core.InnermostLoop(core.Loops(gf), ex.Instr.Block())
					if l == nil {
						detail = "Expire is called once, not in a loop"
						continue
					}
					tick := false
					for lb := range l.Blocks {
						for _, li := range lb.Instrs {
							if sel, ok := li.(*ssa.Select); ok {
								for _, st := range sel.States {
									if st.Dir == types.RecvOnly && ((stringsContains(core.Term(st.Chan), "Ticker") && stringsContains(core.Term(st.Chan), ".C")) || isTickerChan(st.Chan)) {
										tick = true
									}
								}
							}
							if u, ok := li.(*ssa.UnOp); ok && u.Op == token.ARROW && (stringsContains(core.Term(u.X), "Ticker") || isTickerChan(u.X)) {
								tick = true
							}
						}
					}
					if tick {
						found = true
					} else {
						detail = "the loop around Expire does not wait on a time.Ticker"
					}
				}
			}
		}
		ru4.Check(found, "sweep goroutine of "+c.fname(run), c.where(run, run), "Expire runs on every tick of a ticker loop", detail)
	}
	c.ruleAckRouting("C03-R5", []string{"PubAck", "PubRec", "PubRel", "PubComp"})
	c.ruleDirectionKeys("C03-R8")
	// each recipient's delivery has its own packet object / identifier (shared with C01 / C06)
	c.rulePerRecipientWrites("C03-R6")
	// the in-flight table's side of the contract (also decided under C04)
	c.ruleAckResolution("C03-T")
}

// isStoredPacket: v is the callback's stored-packet parameter, type-asserted (stored.(*packet.PubRel)): the table hands
// each callback the packet that was registered with it (C04).
func isStoredPacket(v ssa.Value, cb *ssa.Function) bool {
	v = core.Strip(v)
	if ex, ok := v.(*ssa.Extract); ok && ex.Index == 0 {
		v = ex.Tuple
	}
	ta, ok := v.(*ssa.TypeAssert)
	if !ok {
		return false
	}
	prm := cbParam(cb, 1)
	return prm != nil && core.Strip(ta.X) == ssa.Value(prm)
}

// isTickerChan: v is the channel of a time.Ticker (t.C, whatever t is: a local, a parameter, a field).
func isTickerChan(v ssa.Value) bool {
	ld, ok := conversionsOnly(v).(*ssa.UnOp)
	if !ok || ld.Op != token.MUL {
		return false
	}
	fa, ok := ld.X.(*ssa.FieldAddr)
	return ok && fieldNameOf(fa.X.Type(), fa.Field) == "C" && isNamed(fa.X.Type(), "time", "Ticker")
}

// encoderWrites lists calls of mqtt-protocol encoder methods in fn.
func (c *Ctx) encoderWrites(fn *ssa.Function) []*core.Call {
	var out []*core.Call
	for _, cl := range core.CallsIn(fn) {
		if cl.Obj != nil && cl.Obj.Pkg() != nil && cl.Obj.Pkg().Path() == pkgEncoder {
			if sig := cl.Obj.Type().(*types.Signature); sig.Recv() != nil {
				out = append(out, cl)
			}
		}
	}
	return out
}

// complitOrStoredField: value of field name of the object v points to as seen at instruction `at`: the latest store that dominates it (composite literal initialisation or a later assignment).
func complitOrStoredFieldAt(v ssa.Value, name string, at ssa.Instruction) ssa.Value {
	v0 := core.Strip(v)
	switch v0.(type) {
	case *ssa.Alloc, *ssa.Parameter, *ssa.Call: // an object built here (or by a constructor called here), or one handed to this helper and completed here
	default:
		return nil
	}
	if v0.Referrers() == nil {
		return nil
	}
	var best *ssa.Store
	for _, r := range *v0.Referrers() {
		if fa, ok := r.(*ssa.FieldAddr); ok && fieldNameOf(fa.X.Type(), fa.Field) == name && fa.Referrers() != nil {
			for _, rr := range *fa.Referrers() {
				if st, ok := rr.(*ssa.Store); ok && st.Addr == ssa.Value(fa) && core.Dominates(st, at) {
					if best == nil || core.Dominates(best, st) {
						best = st
					}
				}
			}
		}
	}
	if best == nil {
		return nil
	}
	return best.Val
}
