package rules

import (
	"fmt"
	"go/constant"
	"go/token"
	"go/types"
	"strings"

	"golang.org/x/tools/go/ssa"

	"waspcheck/internal/core"
	"waspcheck/internal/report"
)

// ---- C13-R6: the failed peer's session records outlive the will publication window ----

func (c *Ctx) rulePeerRecordsOutliveWills(id string) {
	ru := c.R.Rule(id, "on peer failure the failed peer's session records are removed only later, from a goroutine that first waits on a timer: every survivor must still see those records (and their wills) when its own failure notification arrives, whatever the order of the survivors' gossip", "E2/E8 structural: DeletePeer inside a go-closure dominated by a timer receive", 1)
	leave := c.implOf(ru, "wasp", "NodeMemberManager", "NotifyGossipLeave")
	sessDP := c.im(ru, "wasp/distributed", "SessionMetadatasState", "DeletePeer")
	if leave == nil || sessDP == nil {
		return
	}
	key := "SessionMetadatas.DeletePeer in " + c.fname(leave)
	bad := "the peer-failure handler never removes the failed peer's session records"
	reach := c.P.Reach([]*ssa.Function{leave}, func(from *ssa.Function, cl *core.Call, to *ssa.Function) bool {
		return hasAncestor(to, leave) || (to.Package() == leave.Package() && (cl == nil || !cl.Invoke))
	})
	for _, f := range sortedFuncs(reach) {
		for _, cl := range core.CallsTo(f, sessDP) {
			bad = ""
			// must run in a goroutine: a closure started with `go`, or a function started with `go`
			inGo := false
			for g := f; g != nil && g != leave; g = g.Parent() {
				for _, mc := range c.P.ClosureSites(g) {
					if mc.Referrers() != nil {
						for _, r := range *mc.Referrers() {
							if _, isGo := r.(*ssa.Go); isGo {
								inGo = true
							}
						}
					}
				}
				sites := c.P.StaticCallers(g)
				allGo := len(sites) > 0
				for _, site := range sites {
					if _, isGo := site.(*ssa.Go); !isGo {
						allGo = false
					}
				}
				if allGo {
					inGo = true
				}
			}
			if !inGo {
				bad = "the failed peer's session records are deleted (and the deletion gossiped) right away: another survivor that receives this deletion before its own failure notification finds no sessions and never publishes their wills"
				continue
			}
			// dominated by a receive from a timer channel
			waited := false
			for _, b := range f.Blocks {
				for _, in := range b.Instrs {
					u, ok := in.(*ssa.UnOp)
					if !ok || u.Op != token.ARROW || !core.Dominates(u, cl.Instr) {
						continue
					}
					t := core.Term(u.X)
					if strings.Contains(t, "time.After") || strings.Contains(t, "Timer") || strings.Contains(t, "time.Tick") {
						waited = true
					}
				}
				for _, in := range b.Instrs {
					if sl := core.CallOf(in); sl != nil && sl.Obj != nil && sl.Obj.Pkg() != nil && sl.Obj.Pkg().Path() == "time" && sl.Obj.Name() == "Sleep" && core.Dominates(in, cl.Instr) {
						waited = true
					}
				}
			}
			if !waited {
				bad = "the goroutine removes the failed peer's session records without waiting first"
			}
		}
	}
	ru.Check(bad == "", key, c.where(leave, leave), "deferred to a goroutine that waits on a timer", bad)
}

// ---- C16-R7: the credential handlers keep no shared mutable helper state ----

func (c *Ctx) ruleNoSharedStateInAuth(id string) {
	ru := c.R.Rule(id, "functions reachable from the credential handlers (which run concurrently on every setup worker) never call a method on a package-level variable: a shared hasher or buffer makes concurrent logins corrupt each other's fingerprints", "E8 reachability + who-may-call on package-level receivers (positive control: the fingerprint helper is reachable)", 1)
	var roots []*ssa.Function
	for _, hn := range []string{"StaticHandler", "FileHandler"} {
		if f := c.credentialHandlers("wasp/auth")[hn]; f != nil {
			roots = append(roots, f)
		}
	}
	if !ru.Anchor(len(roots) == 2, "Authenticate of the handlers built by auth.StaticHandler and auth.FileHandler") {
		return
	}
	pk := roots[0].Package()
	reach := c.P.Reach(roots, func(from *ssa.Function, cl *core.Call, to *ssa.Function) bool { return to.Package() == pk })
	bad := ""
	for _, f := range sortedFuncs(reach) {
		c.R.Fn(c.fname(f))
		for _, cl := range core.CallsIn(f) {
			recv := cl.Recv()
			if recv == nil {
				continue
			}
			isGlobal := depReachesNoCalls(recv, func(v ssa.Value) bool {
				g, ok := v.(*ssa.Global)
				return ok && g.Package() == pk
			})
			if !isGlobal {
				continue
			}
			// error sentinels are immutable
			if types.Identical(recv.Type(), errorType) {
				continue
			}
			name := "?"
			if cl.Obj != nil {
				name = cl.Obj.Name()
			}
			bad = fmt.Sprintf("%s is called on a package-level variable at %s: the handlers run on 20 setup workers at once, so this shared object is used without synchronisation", name, c.whereI(cl.Instr))
		}
	}
	ru.Check(bad == "" && len(reach) >= 3, "shared state reachable from the credential handlers", "-", fmt.Sprintf("%d functions reachable, none uses a package-level receiver", len(reach)), bad)
}

func depReachesNoCalls(v ssa.Value, pred func(ssa.Value) bool) bool {
	return containerReaches(v, pred)
}

// ---- C18-R6: L(ctx) only with a context that carries a logger ----

type ctxState int

const (
	ctxUnknown ctxState = iota
	ctxLogger
	ctxBare
)

func (c *Ctx) ruleLoggerContext(id string) {
	ru := c.R.Rule(id, "wasp.L(ctx) is never called with a context built from context.Background()/TODO() without StoreLogger: L type-asserts the stored logger and panics on a bare context, and the publish workers, the writer and the expiry sweep run without recover", "E3 typestate of context values with interprocedural parameter meet", 5)
	lf := c.fo(ru, "wasp", "L")
	store := c.fo(ru, "wasp", "StoreLogger")
	addf := c.fo(ru, "wasp", "AddFields")
	if lf == nil || store == nil || addf == nil {
		return
	}
	memo := map[ssa.Value]ctxState{}
	var state func(v ssa.Value, depth int) ctxState
	meetC := func(a, b ctxState) ctxState {
		if a == ctxBare || b == ctxBare {
			return ctxBare
		}
		if a == ctxLogger && b == ctxLogger {
			return ctxLogger
		}
		return ctxUnknown
	}
	state = func(v ssa.Value, depth int) ctxState {
		if depth > 14 {
			return ctxUnknown
		}
		if s, ok := memo[v]; ok {
			return s
		}
		memo[v] = ctxUnknown
		res := ctxUnknown
		switch x := v.(type) {
		case *ssa.Call:
			cl := core.CallOf(x)
			switch {
			case cl.Is(store, addf):
				res = ctxLogger
			case cl.Obj != nil && cl.Obj.Pkg() != nil && cl.Obj.Pkg().Path() == "context" && (cl.Obj.Name() == "Background" || cl.Obj.Name() == "TODO"):
				res = ctxBare
			}
		case *ssa.Extract:
			if cv, ok := x.Tuple.(*ssa.Call); ok && x.Index == 0 {
				cl := core.CallOf(cv)
				if cl.Obj != nil && cl.Obj.Pkg() != nil && cl.Obj.Pkg().Path() == "context" && strings.HasPrefix(cl.Obj.Name(), "With") && len(cv.Call.Args) > 0 {
					res = state(cv.Call.Args[0], depth+1)
				}
			}
		case *ssa.Phi:
			res = ctxLogger
			for _, e := range x.Edges {
				res = meetC(res, state(e, depth+1))
			}
		case *ssa.UnOp:
			if x.Op == token.MUL {
				if cell := cellOf(x.X); cell != nil {
					res = ctxLogger
					n := 0
					for _, st := range allStoresTo(cell) {
						n++
						res = meetC(res, state(st.Val, depth+1))
					}
					if n == 0 {
						res = ctxUnknown
					}
				} else if fv, ok := x.X.(*ssa.FreeVar); ok {
					if b := core.FreeVarBinding(fv); b != nil {
						res = state(b, depth+1)
					}
				}
			}
		case *ssa.FreeVar:
			if b := core.FreeVarBinding(x); b != nil {
				res = state(b, depth+1)
			}
		case *ssa.Parameter:
			fn := x.Parent()
			idx := paramIdx(x)
			sites := c.P.StaticCallers(fn)
			if len(sites) > 0 {
				res = ctxLogger
				for _, s := range sites {
					if idx < len(s.Common().Args) {
						res = meetC(res, state(s.Common().Args[idx], depth+1))
					}
				}
			}
			// closures handed to other packages / interface implementations: unknown
		case *ssa.MakeInterface:
			res = state(x.X, depth+1)
		case *ssa.ChangeInterface:
			res = state(x.X, depth+1)
		}
		memo[v] = res
		return res
	}
	n := 0
	for _, f := range c.P.ModFuncs() {
		for _, cl := range core.CallsTo(f, lf) {
			n++
			key := fmt.Sprintf("L(ctx) #%d in %s", n, c.fname(f))
			st := state(cl.Arg(0), 0)
			ru.Check(st != ctxBare, key, c.whereI(cl.Instr), map[ctxState]string{ctxLogger: "logger-carrying context", ctxUnknown: "context supplied by the caller"}[st], "L is called with a context that derives from context.Background() without StoreLogger: the type assertion in L panics, on a goroutine without recover the broker dies")
		}
	}
}

// ---- C18-R7: maps shared between goroutines (a concurrent map write is an unrecoverable fatal error) ----

func (c *Ctx) ruleGuardedMaps(id string) {
	ru := c.R.Rule(id, "every map that is a guarded member of a monitor is accessed only under its lock, exclusively for writes: a concurrent map read/write is a fatal runtime error that no recover() can contain", "E5 lockset restricted to map-typed guarded members", 3)
	la := c.lockAnalysis()
	for _, m := range la.monitors {
		var names []string
		for n := range m.fields {
			names = append(names, n)
		}
		sortStrings(names)
		for _, n := range names {
			mi := m.fields[n]
			gl := mi.guardLock()
			if gl == "" {
				continue
			}
			isMap := false
			for _, a := range mi.accesses {
				if ld, ok := a.instr.(*ssa.UnOp); ok {
					if _, ok := ld.Type().Underlying().(*types.Map); ok {
						isMap = true
					}
				}
			}
			if !isMap {
				continue
			}
			bad := ""
			for _, a := range mi.accesses {
				if ok, why := la.accessOK(a, gl); !ok {
					bad = fmt.Sprintf("map %s.%s is %s at %s without holding %s properly (%s)", shortType(c, m.named), n, map[bool]string{true: "written", false: "read"}[a.write], c.whereI(a.instr), gl, why)
				}
			}
			ru.Check(bad == "", "map "+shortType(c, m.named)+"."+n, c.P.Pos(m.named.Obj().Pos()), fmt.Sprintf("%d accesses under %s", len(mi.accesses), gl), bad)
		}
	}
}

// ---- C01-R7: a trailing '#' also covers the parent level ----

// ruleMultiLevelWildcardParent: in the subscription trie walk, the path taken when the topic ends at a node — the one
// that emits the node's own subscribers without descending — also emits the subscribers stored under that node's '#'
// child (MQTT 3.1.1: "sport/#" matches "sport").
func (c *Ctx) ruleMultiLevelWildcardParent(id string) {
	ru := c.R.Rule(id, "the subscription trie walk lets a trailing '#' cover the parent level: where the topic ends at a node and that node's own subscribers are emitted, the subscribers stored under the node's '#' child are emitted too", "E1 paths of the recursive walk + E3 provenance of the emitted value (lookup of the '#' constant in the node's children)", 1)
	walk := c.implOf(ru, "subscriptions", "Tree", "Walk")
	if walk == nil {
		return
	}
	isNode := func(t types.Type) bool { return isNamed(derefT(t), "subscriptions", "Node") }
	children, payload, ok := c.nodeFields("subscriptions")
	if !ru.Anchor(ok, "subscriptions.Node with a children map and a payload") {
		return
	}
	// the recursive walk over nodes (a function calling itself, or a cycle such as walk → descend → walk)
	rec, members := c.trieWalk("subscriptions", walk)
	if rec != nil && (rec.Signature.Recv() == nil || !isNode(rec.Signature.Recv().Type())) {
		rec = nil
	}
	if !ru.Anchor(rec != nil, "the recursive node walk reached from Tree.Walk") {
		return
	}
	c.R.Fn(c.fname(rec))
	itIdx := -1
	for i, p := range rec.Params {
		if _, isSig := p.Type().Underlying().(*types.Signature); isSig {
			itIdx = i
		}
	}
	if !ru.Anchor(itIdx >= 0, "the iterator parameter of the node walk") {
		return
	}
	var cur *core.Path // the path being judged: helper parameters are seen through on it
	res := func(v ssa.Value) ssa.Value {
		v = core.Strip(v)
		if cur != nil {
			v = core.Strip(cur.Resolve(v))
		}
		return v
	}
	isEmit := func(cl *core.Call) bool {
		return cl.Static == nil && !cl.Invoke && cl.Builtin() == "" && res(cl.Common.Value) == ssa.Value(rec.Params[itIdx])
	}
	fieldOfRecv := func(v ssa.Value, name string) bool {
		ld, ok := res(v).(*ssa.UnOp)
		if !ok || ld.Op != token.MUL {
			return false
		}
		fa, ok := ld.X.(*ssa.FieldAddr)
		return ok && fieldNameOf(fa.X.Type(), fa.Field) == name && res(fa.X) == ssa.Value(rec.Params[0])
	}
	fromWildcardChild := func(v ssa.Value) bool {
		return depReaches(res(v), func(x ssa.Value) bool {
			lk, ok := x.(*ssa.Lookup)
			if !ok || !fieldOfRecv(lk.X, children) {
				return false
			}
			k, ok := res(lk.Index).(*ssa.Const) // through a child(key) helper the key is the helper's parameter
			return ok && k.Value != nil && k.Value.ExactString() == `"#"`
		})
	}
	paths, err := c.pathsInlinedPkg(rec, core.PathOpts{}, nil)
	if err != nil {
		ru.Undecided("end-of-topic paths of "+c.fname(rec), c.whereF(rec), err.Error())
		return
	}
	ru.Evals(len(paths))
	bad, n := "", 0
	for _, p := range paths {
		if _, isRet := p.Exit.(*ssa.Return); !isRet {
			continue
		}
		own, wild, descends := false, false, false
		var at ssa.Instruction
		cur = p
		for _, pc := range p.Calls() {
			switch {
			case pc.Static != nil && members[pc.Static]:
				descends = true
			case isEmit(pc.Call) && len(pc.Common.Args) == 1:
				if fieldOfRecv(pc.Common.Args[0], payload) {
					own, at = true, pc.Instr
				} else if fromWildcardChild(pc.Common.Args[0]) {
					wild = true
				}
			}
		}
		if !own || descends {
			continue
		}
		n++
		if !wild {
			// no '#' child at this node: the lookup was made and came back empty
			for _, pi := range p.Instrs() {
				lk, ok := pi.In.(*ssa.Lookup)
				if !ok || !fieldOfRecv(lk.X, children) {
					continue
				}
				if k, ok := res(lk.Index).(*ssa.Const); !ok || k.Value == nil || k.Value.ExactString() != `"#"` {
					continue
				}
				for _, d := range decisions(p) {
					switch x := d.Cond.(type) {
					case *ssa.Extract:
						if x.Index == 1 && !d.Val && (x.Tuple == ssa.Value(lk) || depReaches(x, func(v ssa.Value) bool { return v == ssa.Value(lk) })) {
							wild = true // the ok of the look-up itself, or of a child(key) helper that returns it
						}
					case *ssa.BinOp:
						if (x.Op == token.EQL && d.Val) || (x.Op == token.NEQ && !d.Val) {
							for _, pair := range [][2]ssa.Value{{x.X, x.Y}, {x.Y, x.X}} {
								if k, isK := pair[1].(*ssa.Const); isK && k.Value == nil && depReaches(pair[0], func(v ssa.Value) bool { return v == ssa.Value(lk) }) {
									wild = true
								}
							}
						}
					}
				}
			}
		}
		if !wild {
			bad = "where the topic ends at a node its own subscribers are emitted (" + c.whereI(at) + ") but not those of its '#' child: the filter a/# does not match the topic a"
		}
	}
	ru.Check(bad == "" && n > 0, "end of topic in "+c.fname(rec), c.whereF(rec), fmt.Sprintf("%d end-of-topic path(s), each also emits the '#' child", n), bad+map[bool]string{true: "", false: "no end-of-topic path found"}[n > 0 || bad != ""])
}

// ---- C13-R7: a will given to the dispatcher is handed off directly, whatever its QoS ----

func (c *Ctx) ruleWillHandOff(id string) {
	ru := c.R.Rule(id, "a will reaches the dispatcher as a PUBLISH with no connection to answer on (writer nil): on every such path the message is given to the publish hand-off exactly once and nothing is registered in the in-flight table — whatever its QoS (a QoS 2 will parked waiting for the dead client's PUBREL is never published)", "E1 scenario rows (packet is a PUBLISH, writer is nil) over the dispatcher with its helpers inlined", 1)
	q := c.queueAnchors(ru)
	hs := c.handoffs(ru)
	proc := c.im(ru, "wasp", "PacketProcessor", "Process")
	if q == nil || len(hs) == 0 || proc == nil {
		return
	}
	var disp *ssa.Function
	for _, f := range c.P.Implementations(proc) {
		if c.P.IsModPkg(f.Package().Pkg) {
			disp = f
		}
	}
	if !ru.Anchor(disp != nil, "dispatcher") {
		return
	}
	c.R.Fn(c.fname(disp))
	pktIdx, wIdx := -1, -1
	for i, p := range disp.Params {
		if isNamed(p.Type(), pkgPacket, "Packet") {
			pktIdx = i
		}
		if isNamed(p.Type(), "io", "Writer") {
			wIdx = i
		}
	}
	if !ru.Anchor(pktIdx >= 0 && wIdx >= 0, "packet and writer parameters of the dispatcher") {
		return
	}
	assume := func(p *core.Path, cond ssa.Value, term string) (bool, bool) {
		if ex, ok := cond.(*ssa.Extract); ok && ex.Index == 1 {
			if ta, ok := ex.Tuple.(*ssa.TypeAssert); ok && same(ta.X, disp.Params[pktIdx]) {
				return isNamed(ta.AssertedType, pkgPacket, "Publish"), true
			}
		}
		if bo, ok := cond.(*ssa.BinOp); ok && (bo.Op == token.EQL || bo.Op == token.NEQ) {
			for _, pair := range [][2]ssa.Value{{bo.X, bo.Y}, {bo.Y, bo.X}} {
				if k, isK := pair[1].(*ssa.Const); isK && k.Value == nil && same(resolveCell(p, pair[0]), disp.Params[wIdx]) {
					return bo.Op == token.EQL, true
				}
			}
		}
		return false, false
	}
	isHand := func(cl *core.Call) bool { return c.isHandoffCall(cl, hs) != nil }
	paths, err := c.pathsInlined(disp, core.PathOpts{Assume: assume}, func(cl *core.Call) bool { return isHand(cl) || cl.Is(q.insert) }, func(g *ssa.Function) bool {
		for _, h := range hs {
			if h.fn == g {
				return true
			}
		}
		return false
	})
	if err != nil {
		ru.Undecided("will rows of "+c.fname(disp), c.whereF(disp), err.Error())
		return
	}
	ru.Evals(len(paths))
	bad, n := "", 0
	for _, p := range paths {
		if _, isRet := p.Exit.(*ssa.Return); !isRet {
			continue
		}
		// only paths that actually decided "writer is nil" (the will scenario)
		decided := false
		for _, d := range decisions(p) {
			if bo, ok := d.Cond.(*ssa.BinOp); ok && (bo.Op == token.EQL || bo.Op == token.NEQ) {
				for _, pair := range [][2]ssa.Value{{bo.X, bo.Y}, {bo.Y, bo.X}} {
					if k, isK := pair[1].(*ssa.Const); isK && k.Value == nil && same(resolveCell(p, pair[0]), disp.Params[wIdx]) {
						decided = true
					}
				}
			}
		}
		if !decided {
			continue
		}
		n++
		hands, inserts := 0, 0
		for _, pc := range p.Calls() {
			if isHand(pc.Call) {
				hands++
			}
			if pc.Is(q.insert) {
				inserts++
			}
		}
		if hands != 1 || inserts != 0 {
			bad = fmt.Sprintf("with no connection to answer on, the PUBLISH is handed off %d time(s) and registered in flight %d time(s) (want 1, 0): the will waits for an acknowledgement exchange with a client that is gone — %s", hands, inserts, fmtPath(p, c.P))
		}
	}
	ru.Check(bad == "" && n > 0, "will rows of "+c.fname(disp), c.whereF(disp), fmt.Sprintf("%d path(s) with a nil writer, each hands the message off once and registers nothing", n), bad+map[bool]string{true: "", false: "the PUBLISH arm never decides whether there is a connection to answer on"}[n > 0 || bad != ""])
}

// ---- C11-R9: a keep-alive of 0 is not a deadline of "now" ----

// ruleKeepAliveZero: the keep-alive extension arms a deadline proportional to the negotiated interval only where the
// interval is known to be non-zero; a zero interval means "no keep-alive" (MQTT 3.1.1 §3.1.2.10), not "expired".
func (c *Ctx) ruleKeepAliveZero(id string) {
	ru := c.R.Rule(id, "Session.ExtendDeadline arms the connection deadline now + k·keep-alive only under a test that the keep-alive interval is non-zero: with keep-alive 0 (mechanism switched off by the client) the product is 0 and the deadline would be 'now', ending a session that is within its allowance", "E1 paths of the deadline extension + E3 provenance of the deadline's offset", 1)
	ext := c.cm(ru, "wasp/sessions", "Session", "ExtendDeadline")
	if ext == nil {
		return
	}
	f := c.fn(ext)
	if !ru.Anchor(f != nil && len(f.Blocks) > 0, "body of Session.ExtendDeadline") {
		return
	}
	c.R.Fn(c.fname(f))
	paths, err := c.pathsInlinedPkg(f, core.PathOpts{}, nil)
	if err != nil {
		ru.Undecided("deadline armed by "+c.fname(f), c.whereF(f), err.Error())
		return
	}
	ru.Evals(len(paths))
	// the keep-alive interval: an integer field of the session that the deadline's offset depends on
	intervalField := func(v ssa.Value) *ssa.FieldAddr {
		var found *ssa.FieldAddr
		depReaches(v, func(x ssa.Value) bool {
			fa, ok := x.(*ssa.FieldAddr)
			if !ok || !isNamed(fa.X.Type(), "wasp/sessions", "Session") {
				return false
			}
			if b, isB := derefT(fa.Type()).Underlying().(*types.Basic); isB && b.Info()&types.IsInteger != 0 {
				found = fa
				return true
			}
			return false
		})
		return found
	}
	bad, n := "", 0
	for _, p := range paths {
		for _, pc := range p.Calls() {
			if pc.Obj == nil || pc.Obj.Name() != "SetDeadline" && pc.Obj.Name() != "SetReadDeadline" {
				continue
			}
			args := pc.Args()
			if len(args) != 1 {
				continue
			}
			fa := intervalField(p.Resolve(args[0])) // through a setDeadline(t) helper: what this path passes for t
			if fa == nil {
				continue // not derived from the interval (e.g. the zero time: deadline cleared)
			}
			n++
			// some decision before the call establishes interval != 0 (or > 0)
			guarded := false
			for _, d := range decisions(p) {
				if d.Seq > pc.Seq {
					break
				}
				bo, ok := d.Cond.(*ssa.BinOp)
				if !ok {
					// a predicate of the session (s.keepAliveDisabled()): what it returned on this path
					bo, ok = p.Resolve(d.Cond).(*ssa.BinOp)
				}
				if !ok {
					continue
				}
				for _, pair := range [][2]ssa.Value{{bo.X, bo.Y}, {bo.Y, bo.X}} {
					k, isK := constInt(pair[1])
					if !isK || k != 0 {
						continue
					}
					ifa, isF := isLoadOfFieldIdx(pair[0], fa.Field)
					if !isF || !isNamed(ifa.X.Type(), "wasp/sessions", "Session") {
						continue
					}
					op := bo.Op
					if pair[0] == bo.Y {
						op = map[token.Token]token.Token{token.LSS: token.GTR, token.GTR: token.LSS, token.LEQ: token.GEQ, token.GEQ: token.LEQ, token.EQL: token.EQL, token.NEQ: token.NEQ}[op]
					}
					// value of (interval OP 0) on this path is d.Val: does it exclude interval == 0?
					if holds(op, 0, 0) != d.Val {
						guarded = true
					}
				}
			}
			if !guarded {
				bad = "the deadline is set to now + k·" + fieldNameOf(fa.X.Type(), fa.Field) + " without excluding a zero interval (" + c.whereI(pc.Instr) + "): a client that connects with keep-alive 0 is cut at its next read"
			}
		}
	}
	ru.Check(bad == "" && n > 0, "deadline armed by "+c.fname(f), c.whereF(f), fmt.Sprintf("%d arming call(s), each under interval != 0", n), bad+map[bool]string{true: "", false: "no deadline derived from the keep-alive interval is armed"}[n > 0 || bad != ""])
}

// isLoadOfFieldIdx: v is (conversions of) a load of the field with index idx of some struct.
func isLoadOfFieldIdx(v ssa.Value, idx int) (*ssa.FieldAddr, bool) {
	ld, ok := conversionsOnly(v).(*ssa.UnOp)
	if !ok || ld.Op != token.MUL {
		return nil, false
	}
	fa, ok := ld.X.(*ssa.FieldAddr)
	if !ok || fa.Field != idx {
		return nil, false
	}
	return fa, true
}

// ---- C14-R6: a subscription is attributed to the peer it was created for ----

// ruleNoTransparentRetry implements C05-R7 (= C14-R7): the inter-node write (ScheduleMessage → Append on the hosting
// node) is not idempotent, so nothing may repeat it behind the distributor's back: no function of the module uses a gRPC
// retry interceptor. A lost reply or a slow peer would otherwise append the same publish twice to the peer's log.
func (c *Ctx) ruleNoTransparentRetry(id string) {
	ru := c.R.Rule(id, "the inter-node write is attempted exactly once per destination: no function of the module installs or calls a gRPC retry interceptor (the remote ScheduleMessage appends to the peer's log and is not idempotent: a retry after a lost reply or a timeout delivers the publish twice) — positive control: the module's gRPC dial options are found", "E11 who-may-call over the whole module", 1)
	nDial, bad := 0, ""
	for _, f := range c.P.ModFuncs() {
		for _, cl := range core.CallsIn(f) {
			if cl.Obj == nil || cl.Obj.Pkg() == nil {
				continue
			}
			pp := cl.Obj.Pkg().Path()
			if pp == "google.golang.org/grpc" && (cl.Obj.Name() == "WithUnaryInterceptor" || cl.Obj.Name() == "Dial" || cl.Obj.Name() == "DialContext" || cl.Obj.Name() == "WithInsecure" || cl.Obj.Name() == "WithTransportCredentials") {
				nDial++
				c.R.Fn(c.fname(f))
			}
			if strings.Contains(pp, "grpc") && (strings.HasSuffix(pp, "/retry") || strings.Contains(strings.ToLower(cl.Obj.Name()), "retry")) {
				bad = "a gRPC retry facility is used at " + c.whereI(cl.Instr) + " (" + pp + "." + cl.Obj.Name() + "): an inter-node write whose answer is lost or late is repeated, and the peer appends the publish twice"
			}
		}
	}
	ru.Check(bad == "" && nDial > 0, "gRPC client options of the module", "-", fmt.Sprintf("%d dial option call(s), no retry interceptor", nDial), bad+map[bool]string{true: "", false: " no gRPC dial option found in the module"}[nDial > 0])
}

func (c *Ctx) ruleSubscriptionPeer(id string) {
	ru := c.R.Rule(id, "SubscriptionsState.CreateFrom records the subscription under the peer it is given: the Peer of the entry stored and broadcast derives from the peer parameter (a subscription attributed to the wrong node sends matching publishes to a log whose node does not host the session; the hosting node never receives them)", "E3 provenance of the stored entry's Peer field", 1)
	cf := c.implOf(ru, "wasp/distributed", "SubscriptionsState", "CreateFrom")
	if cf == nil {
		return
	}
	c.R.Fn(c.fname(cf))
	pidx := paramIndexOfType(cf, "uint64")
	if !ru.Anchor(pidx >= 0, "the peer parameter of CreateFrom") {
		return
	}
	n, bad := 0, ""
	for _, g := range c.funcsDeepStop(cf, 2, func(g *ssa.Function) bool { return g.Pkg != cf.Pkg }) {
		for _, b := range g.Blocks {
			for _, in := range b.Instrs {
				st, ok := in.(*ssa.Store)
				if !ok {
					continue
				}
				fa, ok := st.Addr.(*ssa.FieldAddr)
				if !ok || fieldNameOf(fa.X.Type(), fa.Field) != "Peer" || !isNamed(fa.X.Type(), "wasp/api", "Subscription") {
					continue
				}
				if _, isLit := core.Strip(fa.X).(*ssa.Alloc); !isLit {
					continue
				}
				n++
				if !reachesParam(st.Val, cf, pidx) {
					bad = "the entry's Peer is " + short(core.Term(st.Val), 60) + ", not the peer given to CreateFrom (" + c.whereI(st) + ")"
				}
			}
		}
	}
	ru.Check(bad == "" && n > 0, "Peer of the entry created by "+c.fname(cf), c.whereF(cf), "taken from the peer parameter", bad+map[bool]string{true: "", false: "no Subscription literal with a Peer is built"}[n > 0 || bad != ""])
}

// ruleKeepAliveWidth implements C11-R10: the keep-alive a client announces (0…65535 s) is kept at a width that holds it:
// no conversion of a value derived from Connect.KeepaliveTimer to a narrower integer type. A value that wraps negative
// arms a deadline in the past: the session is ended right after CONNECT although the client is within its keep-alive.
func (c *Ctx) ruleKeepAliveWidth(id string) {
	ru := c.R.Rule(id, "the keep-alive interval taken from CONNECT is never converted to a narrower integer type on its way to the deadline arithmetic (65535 stored in 16 signed bits is -1: the deadline armed from it lies in the past and the session ends at once, for no cause the client gave)", "E3 provenance of integer conversions to the CONNECT field (positive control: reads of the field counted)", 1)
	isKA := func(v ssa.Value) bool {
		switch x := v.(type) {
		case *ssa.FieldAddr:
			return fieldNameOf(x.X.Type(), x.Field) == "KeepaliveTimer"
		case *ssa.Field:
			return fieldNameOf(x.X.Type(), x.Field) == "KeepaliveTimer"
		}
		return false
	}
	size := func(t types.Type) int64 {
		b, ok := t.Underlying().(*types.Basic)
		if !ok || b.Info()&types.IsInteger == 0 {
			return 0
		}
		switch b.Kind() {
		case types.Int8, types.Uint8:
			return 1
		case types.Int16, types.Uint16:
			return 2
		case types.Int32, types.Uint32:
			return 4
		}
		return 8
	}
	nReads, bad := 0, ""
	for _, f := range c.P.ModFuncs() {
		if c.P.IsGenerated(f) {
			continue
		}
		for _, b := range f.Blocks {
			for _, in := range b.Instrs {
				if v, ok := in.(ssa.Value); ok && isKA(v) {
					nReads++
					c.R.Fn(c.fname(f))
				}
				cv, ok := in.(*ssa.Convert)
				if !ok {
					continue
				}
				from, to := size(cv.X.Type()), size(cv.Type())
				if from == 0 || to == 0 || to >= from {
					continue
				}
				if depReaches(cv.X, isKA) {
					bad = fmt.Sprintf("the keep-alive is narrowed from %d to %d bytes at %s", from, to, c.whereI(cv))
				}
			}
		}
	}
	ru.Check(bad == "" && nReads > 0, "integer conversions of the CONNECT keep-alive", "-", fmt.Sprintf("%d read(s) of Connect.KeepaliveTimer, never narrowed", nReads), bad+map[bool]string{true: "", false: " the CONNECT keep-alive field is never read"}[nReads > 0])
}

// ruleHandOverHasNoDeadline implements C15-R8 (= C02-R11): every call of Writer.Schedule reachable from the consume
// callback receives a context that is not derived by context.WithTimeout / WithDeadline. The writer's Schedule gives
// up silently when its context ends, and the scheduler reports success regardless: with a deadline of its own the
// hand-over of a message can be abandoned while its offset is persisted as consumed.
func (c *Ctx) ruleHandOverHasNoDeadline(id string) {
	ru := c.R.Rule(id, "the context handed to Writer.Schedule is the consumer's own: it does not come out of context.WithTimeout or context.WithDeadline (Schedule waits for room in the writer's queue and returns without a word when its context ends; the callback still reports success, the offset is persisted, and the message that was not queued is never delivered)", "E3 provenance of the context argument at every Writer.Schedule call site of the module", 1)
	ws := c.im(ru, "wasp", "Writer", "Schedule")
	if ws == nil {
		return
	}
	n := 0
	for _, f := range c.P.ModFuncs() {
		if c.P.IsGenerated(f) {
			continue
		}
		for _, cl := range core.CallsTo(f, ws) {
			if len(cl.Args()) == 0 {
				continue
			}
			n++
			c.R.Fn(c.fname(f))
			bad := ""
			depReaches(cl.Args()[0], func(v ssa.Value) bool {
				cv, ok := v.(*ssa.Call)
				if !ok {
					return false
				}
				if g := cv.Call.StaticCallee(); g != nil && g.Pkg != nil && g.Pkg.Pkg.Path() == "context" && (g.Name() == "WithTimeout" || g.Name() == "WithDeadline") {
					bad = "the context passed at " + c.whereI(cl.Instr) + " comes from context." + g.Name()
				}
				return false
			})
			ru.Check(bad == "", "context of the hand-over in "+c.fname(f), c.whereI(cl.Instr), "no deadline of its own", bad)
		}
	}
	ru.Anchor(n > 0, "a call of Writer.Schedule in the module")
}

// ruleWorkerServesEveryRequest implements C14-R8 (every request a publish worker takes is distributed) and C18-R9 (a
// publish worker ends only when its context ends). The twenty workers are shared by all clients: a worker that returns
// on a failure branch is gone for good (twenty such inputs and no publish or will is ever processed again), and a
// request dropped before Distribute is a publish that reaches no node's log.
func (c *Ctx) ruleWorkerServesEveryRequest(idServe, idAlive string) {
	var ruS, ruA *report.Rule
	if idServe != "" {
		ruS = c.R.Rule(idServe, "every publish request a worker takes out of its channel is handed to PublishDistributor.Distribute: in the arm of the worker's select that receives a request, Distribute is reached on every path back to the select (no continue / return in front of it: a failing tap or retained store must not keep the message from the logs of the nodes that host matching subscriptions)", "E2 dominance of the Distribute call over the back edges of the request arm", 1)
	}
	if idAlive != "" {
		ruA = c.R.Rule(idAlive, "a publish worker leaves its loop only in the arm of its select that waits for the context to end: no other return (a worker that returns on a failure branch is never replaced; after twenty such inputs no publish and no will is processed any more, for any client)", "E2 control dependence of every return after the select on the context arm", 1)
	}
	any := ruS
	if any == nil {
		any = ruA
	}
	dist := c.cm(any, "wasp", "PublishDistributor", "Distribute")
	if dist == nil {
		return
	}
	n := 0
	for _, f := range c.P.ModFuncs() {
		dcalls := core.CallsTo(f, dist)
		if len(dcalls) == 0 || c.P.IsGenerated(f) {
			continue
		}
		d := dcalls[0]
		// the function that holds the select: f itself, or the one that calls f from its loop
		selFn := f
		var viaCall ssa.Instruction
		hasSelect := func(g *ssa.Function) *ssa.Select {
			for _, b := range g.Blocks {
				for _, in := range b.Instrs {
					if sel, ok := in.(*ssa.Select); ok && len(sel.States) > 1 {
						recvs := 0
						for _, st := range sel.States {
							if st.Dir == types.RecvOnly {
								recvs++
							}
						}
						if recvs >= 2 {
							return sel
						}
					}
				}
			}
			return nil
		}
		sel := hasSelect(f)
		if sel == nil {
			for _, site := range c.P.StaticCallers(f) {
				if s2 := hasSelect(site.Parent()); s2 != nil {
					sel, selFn, viaCall = s2, site.Parent(), site
				}
			}
		}
		// two helpers deep (worker → handle(in) → store(publish) → Distribute): the middle one must call the inner one
		// on every path, then the worker is judged with the middle helper as the arm's body
		if sel == nil {
			for _, site := range c.P.StaticCallers(f) {
				mid := site.Parent()
				if mid.Parent() != nil {
					continue
				}
				onEveryPath := true
				for _, rb := range mid.Blocks {
					if _, isRet := rb.Instrs[len(rb.Instrs)-1].(*ssa.Return); isRet && !site.Block().Dominates(rb) {
						onEveryPath = false
					}
				}
				if !onEveryPath {
					continue
				}
				for _, site2 := range c.P.StaticCallers(mid) {
					if s2 := hasSelect(site2.Parent()); s2 != nil {
						sel, selFn, viaCall = s2, site2.Parent(), site2
						c.R.Fn(c.fname(mid))
					}
				}
			}
		}
		if sel == nil {
			// the select may sit in a helper that the worker loop calls to get its next request
			// (for { in, ok := nextRequest(ctx, ch); if !ok { return }; serve(in) })
			if c.workerWithReceiveHelper(ruS, ruA, f, d, hasSelect) {
				n++
			}
			continue
		}
		n++
		c.R.Fn(c.fname(f))
		c.R.Fn(c.fname(selFn))
		// the arms: idx == k tests on the select's index
		var idx ssa.Value
		if sel.Referrers() != nil {
			for _, r := range *sel.Referrers() {
				if ex, ok := r.(*ssa.Extract); ok && ex.Index == 0 {
					idx = ex
				}
			}
		}
		armTarget := func(k int) *ssa.BasicBlock {
			for _, b := range selFn.Blocks {
				iff, ok := b.Instrs[len(b.Instrs)-1].(*ssa.If)
				if !ok {
					continue
				}
				bo, ok := iff.Cond.(*ssa.BinOp)
				if !ok || bo.Op != token.EQL || bo.X != idx {
					continue
				}
				if kc, ok := bo.Y.(*ssa.Const); ok && kc.Value != nil && kc.Int64() == int64(k) {
					return b.Succs[0]
				}
			}
			return nil
		}
		doneArm, reqArm := -1, -1
		for k, st := range sel.States {
			if st.Dir != types.RecvOnly {
				continue
			}
			if cv, ok := core.Strip(st.Chan).(*ssa.Call); ok && cv.Call.IsInvoke() && cv.Call.Method.Name() == "Done" {
				doneArm = k
			} else {
				reqArm = k
			}
		}
		if ruA != nil {
			bad := ""
			var doneT *ssa.BasicBlock
			if doneArm >= 0 {
				doneT = armTarget(doneArm)
			}
			for _, rb := range selFn.Blocks {
				if _, isRet := rb.Instrs[len(rb.Instrs)-1].(*ssa.Return); !isRet || !sel.Block().Dominates(rb) {
					continue
				}
				if doneT == nil || !doneT.Dominates(rb) {
					bad = "the worker returns at " + c.P.Pos(lastPos(rb)) + " outside the arm that waits for its context: that worker is gone for the rest of the broker's life"
				}
			}
			ruA.Check(bad == "", "exits of the worker loop in "+c.fname(selFn), c.where(selFn, selFn), "only in the context arm", bad)
		}
		if ruS != nil {
			bad := ""
			loop := core.InnermostLoop(core.Loops(selFn), sel.Block())
			var reqT *ssa.BasicBlock
			if reqArm >= 0 {
				reqT = armTarget(reqArm)
			}
			switch {
			case loop == nil || reqT == nil:
				bad = "the worker's select is not in a loop, or its request arm cannot be identified"
			case selFn == f:
				for _, pr := range loop.Header.Preds {
					if loop.Blocks[pr] && reqT.Dominates(pr) && !d.Instr.Block().Dominates(pr) {
						bad = "a request taken out of the channel can go back to the select without having been distributed (back edge at " + c.P.Pos(lastPos(pr)) + ")"
					}
				}
			default:
				// the arm's body is a helper: the helper is called on every path of the arm and distributes on every path
				for _, pr := range loop.Header.Preds {
					if loop.Blocks[pr] && reqT.Dominates(pr) && !viaCall.Block().Dominates(pr) {
						bad = "a request can go back to the select without the helper that distributes it having been called"
					}
				}
				for _, rb := range f.Blocks {
					if _, isRet := rb.Instrs[len(rb.Instrs)-1].(*ssa.Return); isRet && !d.Instr.Block().Dominates(rb) {
						bad = c.fname(f) + " can return (" + c.P.Pos(lastPos(rb)) + ") without having called Distribute"
					}
				}
			}
			ruS.Check(bad == "", "request arm of the worker in "+c.fname(selFn), c.where(selFn, selFn), "Distribute on every path of the arm", bad)
		}
	}
	any.Anchor(n > 0, "a worker that takes publish requests out of a channel and distributes them")
}

// workerWithReceiveHelper decides the two worker rules for the shape in which the worker loop obtains its next request
// from a helper that holds the select: for { in, ok := next(ctx, ch); if !ok { return }; …Distribute(in)… }.
// f is the function that calls Distribute (the worker itself or the helper serving one request), d that call.
func (c *Ctx) workerWithReceiveHelper(ruS, ruA *report.Rule, f *ssa.Function, d *core.Call, hasSelect func(*ssa.Function) *ssa.Select) bool {
	type cand struct {
		w      *ssa.Function
		distPt ssa.Instruction
	}
	cands := []cand{{f, d.Instr}}
	for _, site := range c.P.StaticCallers(f) {
		if _, isGo := site.(*ssa.Go); !isGo {
			cands = append(cands, cand{site.Parent(), site})
		}
	}
	for _, cd := range cands {
		w := cd.w
		loops := core.Loops(w)
		for _, cl := range core.CallsIn(w) {
			cv, isCall := cl.Instr.(*ssa.Call)
			if !isCall || cl.Static == nil || !c.P.IsModPkg(cl.Static.Pkg.Pkg) {
				continue
			}
			s := cl.Static
			sel := hasSelect(s)
			loop := core.InnermostLoop(loops, cv.Block())
			if sel == nil || loop == nil || !loop.Blocks[cd.distPt.Block()] {
				continue
			}
			c.R.Fn(c.fname(f))
			c.R.Fn(c.fname(w))
			c.R.Fn(c.fname(s))
			// arms of the helper's select
			var idx ssa.Value
			if sel.Referrers() != nil {
				for _, r := range *sel.Referrers() {
					if ex, ok := r.(*ssa.Extract); ok && ex.Index == 0 {
						idx = ex
					}
				}
			}
			armTarget := func(k int) *ssa.BasicBlock {
				for _, b := range s.Blocks {
					iff, ok := b.Instrs[len(b.Instrs)-1].(*ssa.If)
					if !ok {
						continue
					}
					bo, ok := iff.Cond.(*ssa.BinOp)
					if !ok || bo.Op != token.EQL || bo.X != idx {
						continue
					}
					if kc, ok := bo.Y.(*ssa.Const); ok && kc.Value != nil && kc.Int64() == int64(k) {
						return b.Succs[0]
					}
				}
				return nil
			}
			var doneT, reqT *ssa.BasicBlock
			reqArm := -1
			for k, st := range sel.States {
				if st.Dir != types.RecvOnly {
					continue
				}
				if dc, ok := core.Strip(st.Chan).(*ssa.Call); ok && dc.Call.IsInvoke() && dc.Call.Method.Name() == "Done" {
					doneT = armTarget(k)
				} else {
					reqT = armTarget(k)
					reqArm = k
				}
			}
			// the result that tells the worker whether the context ended: a constant in every return of the context
			// arm, the opposite constant in every other return
			flag, doneVal, why := -1, false, ""
			if doneT == nil || reqT == nil {
				why = "the arms of the select in " + c.fname(s) + " cannot be identified"
			} else {
				res := s.Signature.Results()
				for r := 0; r < res.Len() && flag < 0; r++ {
					if b, ok := res.At(r).Type().Underlying().(*types.Basic); !ok || b.Kind() != types.Bool {
						continue
					}
					okFlag, nDone, nOther := true, 0, 0
					var dv bool
					for _, rb := range s.Blocks {
						ret, isRet := rb.Instrs[len(rb.Instrs)-1].(*ssa.Return)
						if !isRet {
							continue
						}
						kc, isConst := ret.Results[r].(*ssa.Const)
						if !isConst || kc.Value == nil {
							okFlag = false
							break
						}
						v := constant.BoolVal(kc.Value)
						if doneT.Dominates(rb) {
							if nDone > 0 && v != dv {
								okFlag = false
							}
							dv = v
							nDone++
						} else {
							if v == dv && nDone > 0 {
								okFlag = false
							}
							if nDone == 0 {
								dv = !v
							}
							nOther++
						}
					}
					// second pass: the other returns all carry !dv
					if okFlag && nDone > 0 && nOther > 0 {
						for _, rb := range s.Blocks {
							if ret, isRet := rb.Instrs[len(rb.Instrs)-1].(*ssa.Return); isRet {
								v := constant.BoolVal(ret.Results[r].(*ssa.Const).Value)
								if doneT.Dominates(rb) != (v == dv) {
									okFlag = false
								}
							}
						}
						if okFlag {
							flag, doneVal = r, dv
						}
					}
				}
				if flag < 0 {
					why = c.fname(s) + " does not tell its caller, with a constant result per arm, whether the context ended"
				}
			}
			var okv ssa.Value
			if flag >= 0 && cv.Referrers() != nil {
				for _, r := range *cv.Referrers() {
					if ex, ok := r.(*ssa.Extract); ok && ex.Index == flag {
						okv = ex
					}
				}
				if okv == nil {
					why = "the worker ignores the result of " + c.fname(s) + " that tells whether the context ended"
				}
			}
			if ruA != nil {
				bad := why
				if bad == "" {
					for _, rb := range w.Blocks {
						if _, isRet := rb.Instrs[len(rb.Instrs)-1].(*ssa.Return); !isRet || !cv.Block().Dominates(rb) {
							continue
						}
						onDone := false
						for _, cc := range controllingConds(rb, cv.Block()) {
							cond, pol := cc.cond, cc.pol
							if u, ok := cond.(*ssa.UnOp); ok && u.Op == token.NOT {
								cond, pol = u.X, !pol
							}
							if cond == okv && pol == doneVal {
								onDone = true
							}
						}
						if !onDone {
							bad = "the worker returns at " + c.P.Pos(lastPos(rb)) + " although its context has not ended: that worker is gone for the rest of the broker's life"
						}
					}
				}
				ruA.Check(bad == "", "exits of the worker loop in "+c.fname(w), c.where(w, w), "only when "+c.fname(s)+" reports the end of the context", bad)
			}
			if ruS != nil {
				bad := why
				if bad == "" {
					// the helper hands out every request it receives …
					if sl := core.InnermostLoop(core.Loops(s), sel.Block()); sl != nil {
						for _, pr := range sl.Header.Preds {
							if sl.Blocks[pr] && reqT.Dominates(pr) {
								bad = "a request taken out of the channel by " + c.fname(s) + " can be dropped there (back edge at " + c.P.Pos(lastPos(pr)) + ")"
							}
						}
					}
					for _, rb := range s.Blocks {
						ret, isRet := rb.Instrs[len(rb.Instrs)-1].(*ssa.Return)
						if !isRet || !reqT.Dominates(rb) {
							continue
						}
						carried := false
						for _, rv := range ret.Results {
							if depReaches(rv, func(x ssa.Value) bool {
								ex, ok := x.(*ssa.Extract)
								return ok && ex.Tuple == ssa.Value(sel) && ex.Index >= 2
							}) {
								carried = true
							}
						}
						if !carried {
							bad = c.fname(s) + " does not return the request it received (" + c.P.Pos(lastPos(rb)) + ")"
						}
					}
					_ = reqArm
					// … and the worker distributes it before asking for the next one
					for _, pr := range loop.Header.Preds {
						if loop.Blocks[pr] && !cd.distPt.Block().Dominates(pr) {
							bad = "a request can go back to the top of the worker loop without having been distributed (back edge at " + c.P.Pos(lastPos(pr)) + ")"
						}
					}
					if f != w {
						for _, rb := range f.Blocks {
							if _, isRet := rb.Instrs[len(rb.Instrs)-1].(*ssa.Return); isRet && !d.Instr.Block().Dominates(rb) {
								bad = c.fname(f) + " can return (" + c.P.Pos(lastPos(rb)) + ") without having called Distribute"
							}
						}
					}
				}
				ruS.Check(bad == "", "request arm of the worker in "+c.fname(w), c.where(w, w), "Distribute on every path from the received request to the next receive", bad)
			}
			return true
		}
	}
	return false
}
