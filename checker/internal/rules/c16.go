package rules

import (
	"fmt"
	"go/constant"
	"go/token"
	"go/types"
	"sort"
	"strings"

	"golang.org/x/tools/go/ssa"

	"waspcheck/internal/core"
)

func init() { register("C16", checkC16) }

// orderAtom decomposes a boolean value into "lhs < rhs" / "lhs <= rhs" (after
// normalising >, >=, negation, strings.Compare(...) <op> const, time.Before/After).
// kind: "order", "equality", "other".
type ordAtom struct {
	kind     string
	lhs, rhs ssa.Value
	strict   bool
}

func orderAtom(v ssa.Value, neg bool) ordAtom {
	v = core.Strip(v)
	switch x := v.(type) {
	case *ssa.UnOp:
		if x.Op == token.NOT {
			return orderAtom(x.X, !neg)
		}
	case *ssa.BinOp:
		mk := func(l, r ssa.Value, strict bool) ordAtom {
			if neg { // !(l < r) == r <= l
				return ordAtom{"order", r, l, !strict}
			}
			return ordAtom{"order", l, r, strict}
		}
		// strings.Compare(a,b) <op> const  /  bytes.Compare
		if call, ok := core.Strip(x.X).(*ssa.Call); ok {
			if k, ok := core.Strip(x.Y).(*ssa.Const); ok && k.Value != nil && k.Value.Kind() == constant.Int {
				if sc := call.Call.StaticCallee(); sc != nil && sc.Name() == "Compare" && len(call.Call.Args) == 2 {
					kv, _ := constant.Int64Val(k.Value)
					a, b := call.Call.Args[0], call.Call.Args[1]
					switch {
					case x.Op == token.EQL && kv == -1, x.Op == token.LSS && kv == 0:
						return mk(a, b, true)
					case x.Op == token.LEQ && kv == 0, x.Op == token.LSS && kv == 1, x.Op == token.NEQ && kv == 1:
						return mk(a, b, false)
					case x.Op == token.EQL && kv == 1, x.Op == token.GTR && kv == 0:
						return mk(b, a, true)
					case x.Op == token.GEQ && kv == 0, x.Op == token.GTR && kv == -1, x.Op == token.NEQ && kv == -1:
						return mk(b, a, false)
					case x.Op == token.EQL && kv == 0, x.Op == token.NEQ && kv == 0:
						return ordAtom{kind: "equality", lhs: a, rhs: b}
					}
				}
			}
		}
		switch x.Op {
		case token.LSS:
			return mk(x.X, x.Y, true)
		case token.LEQ:
			return mk(x.X, x.Y, false)
		case token.GTR:
			return mk(x.Y, x.X, true)
		case token.GEQ:
			return mk(x.Y, x.X, false)
		case token.EQL, token.NEQ:
			return ordAtom{kind: "equality", lhs: x.X, rhs: x.Y}
		}
	case *ssa.Call:
		if sc := x.Call.StaticCallee(); sc != nil && len(x.Call.Args) == 2 {
			switch sc.Name() {
			case "Before", "Less":
				if neg {
					return ordAtom{"order", x.Call.Args[1], x.Call.Args[0], false}
				}
				return ordAtom{"order", x.Call.Args[0], x.Call.Args[1], true}
			case "After":
				if neg {
					return ordAtom{"order", x.Call.Args[0], x.Call.Args[1], false}
				}
				return ordAtom{"order", x.Call.Args[1], x.Call.Args[0], true}
			case "Equal":
				return ordAtom{kind: "equality", lhs: x.Call.Args[0], rhs: x.Call.Args[1]}
			}
		}
	}
	return ordAtom{kind: "other"}
}

// dependsOnParam reports whether v's backward slice (within the closure) reaches parameter idx.
func dependsOnParam(v ssa.Value, fn *ssa.Function, idx int) bool {
	seen := map[ssa.Value]bool{}
	var walk func(v ssa.Value) bool
	walk = func(v ssa.Value) bool {
		if v == nil || seen[v] {
			return false
		}
		seen[v] = true
		if p, ok := v.(*ssa.Parameter); ok {
			return p.Parent() == fn && idx < len(fn.Params) && fn.Params[idx] == p
		}
		if in, ok := v.(ssa.Instruction); ok {
			for _, op := range in.Operands(nil) {
				if *op != nil && walk(*op) {
					return true
				}
			}
		}
		return false
	}
	return walk(v)
}

// fieldsRead lists the struct fields of named type tn read in fn (through FieldAddr/Field).
func fieldsRead(fn *ssa.Function, match func(types.Type) bool) []string {
	set := map[string]bool{}
	for _, b := range fn.Blocks {
		for _, in := range b.Instrs {
			switch x := in.(type) {
			case *ssa.FieldAddr:
				t := x.X.Type()
				if p, ok := t.Underlying().(*types.Pointer); ok {
					t = p.Elem()
				}
				if match(t) {
					set[t.Underlying().(*types.Struct).Field(x.Field).Name()] = true
				}
			case *ssa.Field:
				if match(x.X.Type()) {
					set[x.X.Type().Underlying().(*types.Struct).Field(x.Field).Name()] = true
				}
			}
		}
	}
	var out []string
	for k := range set {
		out = append(out, k)
	}
	sort.Strings(out)
	return out
}

// singleReturnValue returns the value returned by a closure with exactly one result, when all returns agree after stripping.
func returnValues(fn *ssa.Function) []ssa.Value {
	var out []ssa.Value
	for _, b := range fn.Blocks {
		if r, ok := b.Instrs[len(b.Instrs)-1].(*ssa.Return); ok && len(r.Results) > 0 {
			out = append(out, r.Results[0])
		}
	}
	return out
}

// checkSortSearchSites applies the sort.Search predicate rule to every module call site; used by C16 (and cross-referenced by C04/C06).
func (c *Ctx) checkSortSearchSites(ruleID string, only func(fn *ssa.Function) bool, min int) {
	ru := c.R.Rule(ruleID, "every sort.Search predicate is an order comparison target<=elem / target<elem (monotone false→true over an ascending slice), never an equality test", "E11 shape rule on the predicate closure", min)
	search := c.fo(ru, "sort", "Search")
	if search == nil {
		return
	}
	sites := c.modFuncsCalling(search)
	for _, f := range sortedFuncs(sites) {
		if only != nil && !only(f) {
			continue
		}
		c.R.Fn(c.fname(f))
		for i, call := range sites[f] {
			key := fmt.Sprintf("sort.Search#%d in %s", i, c.fname(f))
			pred := closureArg(call.Arg(1))
			if pred == nil {
				ru.Undecided(key, c.whereI(call.Instr), "predicate is not a function literal or named function; cannot inspect it")
				continue
			}
			rets := returnValues(pred)
			if len(rets) == 0 {
				ru.Undecided(key, c.whereI(call.Instr), "predicate has no return")
				continue
			}
			for _, rv := range rets {
				a := orderAtom(rv, false)
				switch a.kind {
				case "equality":
					ru.Fail(key, c.where(rv, pred), "sort.Search predicate is an equality test: binary search needs a monotone predicate, so most entries are never found")
				case "order":
					// monotone false→true over ascending data: element (depends on i) must be on the greater side
					lhsDep, rhsDep := dependsOnParam(a.lhs, pred, 0), dependsOnParam(a.rhs, pred, 0)
					if rhsDep && !lhsDep {
						ru.OK(key, c.where(rv, pred), "predicate has the form target "+map[bool]string{true: "<", false: "<="}[a.strict]+" elem(i)")
					} else if lhsDep && !rhsDep {
						ru.Fail(key, c.where(rv, pred), "predicate has the form elem(i) < target: it is monotone true→false, sort.Search requires false→true over the ascending slice")
					} else {
						ru.Undecided(key, c.where(rv, pred), "cannot tell which side of the comparison is the indexed element")
					}
				default:
					ru.Undecided(key, c.where(rv, pred), "predicate is not a recognised order comparison (accepted: <,<=,>,>=, negations, Compare(a,b) op k, Before/After/Less): "+short(core.Term(rv), 120))
				}
			}
		}
	}
}

func checkC16(c *Ctx) {
	c.R.Explanation = "Static rules over wasp/conn.go setup and wasp/auth: (R1) path table of the CONNECT handler: session state is created and an accepting CONNACK sent only where Authenticate returned a nil error, a refusal CONNACK with a non-zero code otherwise; (R2) in the static and file handlers a nil-error return lies only on paths where comparisons involving the presented username and password both succeeded, and the mount point returned is the default constant or the matched record's; (R3) every sort.Search predicate is a monotone order comparison; (R4) constant indexes under `switch len(x) {case N}` are < N; (R5) the credential table is sorted by the field the search compares."
	c.R.NotCovered = "SHA-256 and CSV parsing (library contracts), what the password column is meant to contain, value-level equality of hashes."
	c.R.Assume("crypto/sha256, encoding/csv, sort.Search and sort.SliceStable behave as documented")
	authPkg := "wasp/auth"

	// R3
	c.checkSortSearchSites("C16-R3", nil, 3)

	// R4: constant index under switch len(x) case N
	r4 := c.R.Rule("C16-R4", "a constant index into x inside `switch len(x) { case N: ... }` is smaller than N", "E11 shape rule + dominance", 4)
	for _, f := range c.P.ModFuncs() {
		c.checkLenSwitchIndex(f, r4)
	}

	// R2: handlers
	c.checkAuthHandlers(authPkg)

	// R5: sort key agreement
	r5 := c.R.Rule("C16-R5", "the credential table is sorted by exactly the record field(s) the lookup predicate compares", "E10 sibling agreement on fields read", 1)
	fh := c.P.Func(authPkg, "FileHandler")
	auth := c.P.Func(authPkg, "fileHandler.Authenticate")
	if r5.Anchor(fh != nil, "auth.FileHandler") && r5.Anchor(auth != nil, "auth.fileHandler.Authenticate") {
		isRec := func(t types.Type) bool { return isNamed(t, "wasp/auth", "fileRecord") }
		var lessFields, predFields []string
		stable := c.P.FuncObj("sort", "SliceStable")
		slice := c.P.FuncObj("sort", "Slice")
		srt := c.P.FuncObj("sort", "Sort")
		n := 0
		for _, call := range core.CallsTo(fh, stable, slice, srt) {
			n++
			var less *ssa.Function
			if lf := closureArg(call.Arg(1)); lf != nil {
				less = lf
			} else if cv, ok := core.Strip(call.Arg(1)).(*ssa.Call); ok {
				// helper returning the less closure
				if sc := cv.Call.StaticCallee(); sc != nil {
					for _, rv := range returnValues(sc) {
						if lf := closureArg(rv); lf != nil {
							less = lf
						}
					}
				}
			}
			if less != nil {
				lessFields = append(lessFields, fieldsRead(less, isRec)...)
				c.R.Fn(c.fname(less))
			}
		}
		search := c.P.FuncObj("sort", "Search")
		for _, call := range core.CallsTo(auth, search) {
			if pf := closureArg(call.Arg(1)); pf != nil {
				predFields = append(predFields, fieldsRead(pf, isRec)...)
			}
		}
		key := "sort key of the table built by auth.FileHandler vs search key of fileHandler.Authenticate"
		switch {
		case n == 0:
			r5.Fail(key, c.where(fh, fh), "the table is never sorted although the lookup is a binary search")
		case len(predFields) == 0:
			r5.OK(key, c.where(auth, auth), "lookup is not a binary search over record fields (nothing to agree with)")
		case strings.Join(lessFields, ",") == strings.Join(predFields, ","):
			r5.OK(key, c.where(fh, fh), "sorted by and searched by "+strings.Join(predFields, ","))
		default:
			r5.Fail(key, c.where(fh, fh), fmt.Sprintf("table sorted by [%s] but searched by [%s]", strings.Join(lessFields, ","), strings.Join(predFields, ",")))
		}
	}

	// R6
	r6 := c.R.Rule("C16-R6", "the credential file reader accepts records of differing length (csv.Reader.FieldsPerRecord is set negative before ReadAll) when the loader distinguishes several record lengths", "E11 constant store dominating the read", 1)
	if fh != nil {
		lens := map[int64]bool{}
		for _, b := range fh.Blocks {
			if iff, ok := b.Instrs[len(b.Instrs)-1].(*ssa.If); ok {
				if bo, ok := iff.Cond.(*ssa.BinOp); ok && bo.Op == token.EQL {
					if cl, ok := bo.X.(*ssa.Call); ok && core.CallOf(cl).Builtin() == "len" {
						if k, ok := constInt(bo.Y); ok {
							lens[k] = true
						}
					}
				}
			}
		}
		var readAll *core.Call
		for _, cl := range core.CallsIn(fh) {
			if cl.Obj != nil && cl.Obj.Name() == "ReadAll" && cl.Obj.Pkg() != nil && cl.Obj.Pkg().Path() == "encoding/csv" {
				readAll = cl
			}
		}
		if r6.Anchor(readAll != nil, "csv.Reader.ReadAll in auth.FileHandler") {
			if len(lens) < 2 {
				r6.OK("record lengths accepted by auth.FileHandler", c.where(fh, fh), "a single record length is handled; the default field-count check is consistent with it")
			} else {
				ok := false
				for _, b := range fh.Blocks {
					for _, in := range b.Instrs {
						if st, isSt := in.(*ssa.Store); isSt {
							if fa, isFA := st.Addr.(*ssa.FieldAddr); isFA && fieldNameOf(fa.X.Type(), fa.Field) == "FieldsPerRecord" && core.Dominates(st, readAll.Instr) {
								if k, isK := constInt(st.Val); isK && k < 0 {
									ok = true
								}
							}
						}
					}
				}
				r6.Check(ok, "record lengths accepted by auth.FileHandler", c.whereI(readAll.Instr), fmt.Sprintf("FieldsPerRecord < 0 while %d record lengths are handled", len(lens)), fmt.Sprintf("the loader handles %d different record lengths but the csv reader enforces the field count of the first record: a file mixing them is rejected as a whole and nobody can log in", len(lens)))
			}
		}
	}

	c.ruleNoSharedStateInAuth("C16-R7")

	// R1: setup gating
	c.checkSetupGating()
}

// checkLenSwitchIndex: for every `len(x) == N` true-branch region, constant indexes x[c] must satisfy c < N.
func (c *Ctx) checkLenSwitchIndex(f *ssa.Function, ru interface {
	OK(string, string, string)
	Fail(string, string, string)
}) {
	for _, b := range f.Blocks {
		iff, ok := b.Instrs[len(b.Instrs)-1].(*ssa.If)
		if !ok {
			continue
		}
		bo, ok := iff.Cond.(*ssa.BinOp)
		if !ok || bo.Op != token.EQL {
			continue
		}
		var lenCall *ssa.Call
		var k *ssa.Const
		for _, pair := range [][2]ssa.Value{{bo.X, bo.Y}, {bo.Y, bo.X}} {
			if cl, ok := pair[0].(*ssa.Call); ok {
				if bi, ok := cl.Call.Value.(*ssa.Builtin); ok && bi.Name() == "len" {
					if kk, ok := pair[1].(*ssa.Const); ok && kk.Value != nil && kk.Value.Kind() == constant.Int {
						lenCall, k = cl, kk
					}
				}
			}
		}
		if lenCall == nil {
			continue
		}
		n, _ := constant.Int64Val(k.Value)
		subject := core.Term(lenCall.Call.Args[0])
		trueB := b.Succs[0]
		// region: blocks dominated by the true successor (and only reachable through it)
		if len(trueB.Preds) != 1 {
			continue
		}
		for _, rb := range f.Blocks {
			if !trueB.Dominates(rb) {
				continue
			}
			for _, in := range rb.Instrs {
				var base ssa.Value
				var idx ssa.Value
				switch x := in.(type) {
				case *ssa.IndexAddr:
					base, idx = x.X, x.Index
				case *ssa.Index:
					base, idx = x.X, x.Index
				default:
					continue
				}
				if core.Term(base) != subject {
					continue
				}
				ik, ok := idx.(*ssa.Const)
				if !ok || ik.Value == nil || ik.Value.Kind() != constant.Int {
					continue
				}
				iv, _ := constant.Int64Val(ik.Value)
				key := fmt.Sprintf("index [%d] under len==%d of %s in %s", iv, n, short(subject, 60), c.fname(f))
				if iv < n {
					ru.OK(key, c.whereI(in), "in range")
				} else {
					ru.Fail(key, c.whereI(in), fmt.Sprintf("constant index %d is out of range where the length is known to be %d: this line panics whenever it runs", iv, n))
				}
			}
		}
	}
}

func (c *Ctx) checkAuthHandlers(authPkg string) {
	ru := c.R.Rule("C16-R2", "a credential handler returns a nil error only on paths where an equality involving the presented username and one involving the presented password both held; the mount point returned is the default constant or a field of the matched record", "E1 pathspec + E3 provenance", 2)
	for _, hn := range []string{"staticHandler.Authenticate", "fileHandler.Authenticate"} {
		f := c.P.Func(authPkg, hn)
		if !ru.Anchor(f != nil, "auth."+hn) {
			continue
		}
		c.R.Fn(c.fname(f))
		paths, err := core.EnumPaths(f, core.PathOpts{})
		if err != nil {
			ru.Undecided("paths of auth."+hn, c.where(f, f), err.Error())
			continue
		}
		ru.Evals(len(paths))
		bad := ""
		okPaths := 0
		for _, p := range paths {
			isNil, known := p.ReturnsNilError()
			if !known {
				bad = "cannot decide whether the error result is nil on path " + fmtPath(p, c.P)
				break
			}
			if !isNil {
				continue
			}
			okPaths++
			userOK, passOK := false, false
			for _, cd := range p.Conds {
				a := orderAtom(cd.V, false)
				if a.kind != "equality" {
					// order atoms of the search post-check do not count
					continue
				}
				held := cd.Val
				if bo, ok := cd.V.(*ssa.BinOp); ok && bo.Op == token.NEQ {
					held = !cd.Val
				}
				// cd.Val is the value of the positive term; the positive term of a NEQ is the equality itself
				_ = held
				eqHeld := cd.Val
				if !eqHeld {
					continue
				}
				if mix := c.mixesRawCredentials(a.lhs, f) + c.mixesRawCredentials(a.rhs, f); mix != "" {
					bad = "username and password are joined into one value before being fingerprinted and compared (" + mix + "): the join is ambiguous at the boundary, so a different (username, password) pair can be accepted"
				}
				if c.mentionsAppField(a.lhs, f, "Username") || c.mentionsAppField(a.rhs, f, "Username") {
					userOK = true
				}
				if c.mentionsAppField(a.lhs, f, "Password") || c.mentionsAppField(a.rhs, f, "Password") {
					passOK = true
				}
			}
			if bad != "" {
				break
			}
			if !userOK || !passOK {
				bad = fmt.Sprintf("success return reachable without a successful comparison of the %s: %s", map[bool]string{true: "password", false: "username"}[userOK], fmtPath(p, c.P))
				break
			}
			// mount point provenance
			r := p.Exit.(*ssa.Return)
			if mp := c.principalField(p, r.Results[0], "MountPoint"); mp != nil {
				okMP := false
				mpr := p.Resolve(mp)
				if k, ok := mpr.(*ssa.Const); ok && k.Value != nil && k.Value.Kind() == constant.String {
					def := c.P.TypesPkg(authPkg).Scope().Lookup("DefaultMountPoint")
					if dc, ok := def.(*types.Const); ok && constant.StringVal(dc.Val()) == constant.StringVal(k.Value) {
						okMP = true
					}
				} else if strings.Contains(core.Term(mpr), ".MountPoint") {
					// field of a record: index must be the index compared on this path
					okMP = c.sameRecordAsCompared(p, mpr)
				}
				if !okMP {
					bad = "mount point of the accepted principal is neither the default constant nor the MountPoint field of the record whose hashes were compared: " + short(core.Term(mpr), 100)
					break
				}
			} else {
				bad = "cannot find the MountPoint stored in the returned principal"
				break
			}
		}
		key := "accepting paths of auth." + hn
		if bad != "" {
			ru.Fail(key, c.where(f, f), bad)
		} else if okPaths == 0 {
			ru.Fail(key, c.where(f, f), "handler has no accepting path at all")
		} else {
			ru.OK(key, c.where(f, f), fmt.Sprintf("%d accepting path(s) of %d, each guarded by username and password equalities", okPaths, len(paths)))
		}
	}
}

// mentionsAppField: does v's backward slice inside f read field name of the ApplicationContext parameter?
func (c *Ctx) mentionsAppField(v ssa.Value, f *ssa.Function, name string) bool {
	seen := map[ssa.Value]bool{}
	var walk func(v ssa.Value, d int) bool
	walk = func(v ssa.Value, d int) bool {
		if v == nil || seen[v] || d > 30 {
			return false
		}
		seen[v] = true
		switch x := v.(type) {
		case *ssa.FieldAddr:
			if fieldNameOf(x.X.Type(), x.Field) == name && isNamed(derefT(x.X.Type()), "wasp/auth", "ApplicationContext") {
				return true
			}
		case *ssa.Field:
			if fieldNameOf(x.X.Type(), x.Field) == name && isNamed(x.X.Type(), "wasp/auth", "ApplicationContext") {
				return true
			}
		case *ssa.UnOp:
			if x.Op == token.MUL {
				// load of a local: follow stores
				if a, ok := x.X.(*ssa.Alloc); ok && a.Referrers() != nil {
					for _, r := range *a.Referrers() {
						if s, ok := r.(*ssa.Store); ok && s.Addr == ssa.Value(a) && walk(s.Val, d+1) {
							return true
						}
					}
				}
			}
		}
		if in, ok := v.(ssa.Instruction); ok {
			for _, op := range in.Operands(nil) {
				if *op != nil && walk(*op, d+1) {
					return true
				}
			}
		}
		return false
	}
	return walk(v, 0)
}

func derefT(t types.Type) types.Type {
	if p, ok := t.Underlying().(*types.Pointer); ok {
		return p.Elem()
	}
	return t
}

func fieldNameOf(t types.Type, idx int) string {
	t = derefT(t)
	if st, ok := t.Underlying().(*types.Struct); ok && idx < st.NumFields() {
		return st.Field(idx).Name()
	}
	return ""
}

// principalField finds the value stored into field name of the struct value returned.
func (c *Ctx) principalField(p *core.Path, ret ssa.Value, name string) ssa.Value {
	ret = p.Resolve(ret)
	ld, ok := ret.(*ssa.UnOp)
	if !ok || ld.Op != token.MUL {
		return nil
	}
	al, ok := ld.X.(*ssa.Alloc)
	if !ok {
		return nil
	}
	var found ssa.Value
	onPath := map[*ssa.BasicBlock]bool{}
	for _, b := range p.Blocks {
		onPath[b] = true
	}
	for _, r := range *al.Referrers() {
		if fa, ok := r.(*ssa.FieldAddr); ok && fieldNameOf(fa.X.Type(), fa.Field) == name {
			for _, rr := range *fa.Referrers() {
				if s, ok := rr.(*ssa.Store); ok && onPath[s.Block()] {
					found = s.Val
				}
			}
		}
	}
	return found
}

// sameRecordAsCompared: the record whose MountPoint is returned is indexed like the records compared on this path.
func (c *Ctx) sameRecordAsCompared(p *core.Path, mp ssa.Value) bool {
	idxOf := func(v ssa.Value) string {
		t := core.Term(v)
		i := strings.LastIndex(t, "[")
		j := strings.LastIndex(t, "]")
		if i < 0 || j < i {
			return ""
		}
		return t[:j+1]
	}
	want := idxOf(mp)
	if want == "" {
		return false
	}
	n := 0
	for _, cd := range p.Conds {
		a := orderAtom(cd.V, false)
		if a.kind != "equality" || !cd.Val {
			continue
		}
		for _, side := range []ssa.Value{a.lhs, a.rhs} {
			t := core.Term(side)
			if strings.Contains(t, "Hash") && strings.Contains(t, "[") {
				if idxOf(side) != want {
					return false
				}
				n++
			}
		}
	}
	return n >= 2
}

// mixesRawCredentials: v depends on a string/byte concatenation whose operands reach, without passing through any call, both the presented username and the presented password.
func (c *Ctx) mixesRawCredentials(v ssa.Value, f *ssa.Function) string {
	found := ""
	isField := func(name string) func(ssa.Value) bool {
		return func(x ssa.Value) bool {
			switch y := x.(type) {
			case *ssa.FieldAddr:
				return fieldNameOf(y.X.Type(), y.Field) == name && isNamed(derefT(y.X.Type()), "wasp/auth", "ApplicationContext")
			case *ssa.Field:
				return fieldNameOf(y.X.Type(), y.Field) == name && isNamed(y.X.Type(), "wasp/auth", "ApplicationContext")
			}
			return false
		}
	}
	reachesBoth := func(ops []ssa.Value) bool {
		u, p := false, false
		for _, o := range ops {
			if containerReaches(o, isField("Username")) {
				u = true
			}
			if containerReaches(o, isField("Password")) {
				p = true
			}
		}
		return u && p
	}
	seen := map[ssa.Value]bool{}
	var walk func(v ssa.Value, fn *ssa.Function, d int)
	walk = func(v ssa.Value, fn *ssa.Function, d int) {
		if v == nil || seen[v] || d > 40 || found != "" {
			return
		}
		seen[v] = true
		switch x := v.(type) {
		case *ssa.BinOp:
			if x.Op == token.ADD && reachesBoth([]ssa.Value{x.X, x.Y}) {
				found = "concatenation at " + c.P.Pos(x.Pos())
				return
			}
		case *ssa.Call:
			cl := core.CallOf(x)
			if cl.Builtin() == "append" && reachesBoth(x.Call.Args) {
				found = "append at " + c.P.Pos(x.Pos())
				return
			}
			if sc := x.Call.StaticCallee(); sc != nil {
				full := sc.String()
				if (full == "fmt.Sprintf" || full == "bytes.Join" || full == "strings.Join") && reachesBothDeep(x.Call.Args, isField("Username"), isField("Password")) {
					found = full + " at " + c.P.Pos(x.Pos())
					return
				}
				// follow module helpers: arguments that carry both fields into a helper that concatenates its parameters
				if sc.Pkg != nil && c.P.IsModPkg(sc.Pkg.Pkg) && len(sc.Blocks) > 0 {
					var carriesU, carriesP []int
					for i, a := range x.Call.Args {
						if containerReaches(a, isField("Username")) {
							carriesU = append(carriesU, i)
						}
						if containerReaches(a, isField("Password")) {
							carriesP = append(carriesP, i)
						}
					}
					if len(carriesU) > 0 && len(carriesP) > 0 {
						for _, b := range sc.Blocks {
							for _, in := range b.Instrs {
								var ops []ssa.Value
								switch y := in.(type) {
								case *ssa.BinOp:
									if y.Op == token.ADD {
										ops = []ssa.Value{y.X, y.Y}
									}
								case *ssa.Call:
									if core.CallOf(y).Builtin() == "append" {
										ops = y.Call.Args
									}
									if jc := y.Call.StaticCallee(); jc != nil {
										switch jc.String() {
										case "fmt.Sprintf", "bytes.Join", "strings.Join":
											ops = y.Call.Args
										}
									}
								}
								if ops == nil {
									continue
								}
								u, p := false, false
								reach := func(o ssa.Value, i int) bool {
									if i >= len(sc.Params) {
										return false
									}
									t := ssa.Value(sc.Params[i])
									return depReaches(o, func(z ssa.Value) bool {
										if cz, isCall := z.(*ssa.Call); isCall && cz.Call.StaticCallee() != nil && cz.Call.StaticCallee().Pkg != nil && c.P.IsModPkg(cz.Call.StaticCallee().Pkg.Pkg) {
											return false
										}
										return z == t
									})
								}
								for _, o := range ops {
									for _, i := range carriesU {
										if reach(o, i) {
											u = true
										}
									}
									for _, i := range carriesP {
										if reach(o, i) {
											p = true
										}
									}
								}
								if u && p {
									found = "concatenation of both credentials in " + c.fname(sc)
									return
								}
							}
						}
					}
				}
			}
		}
		if in, ok := v.(ssa.Instruction); ok {
			for _, op := range in.Operands(nil) {
				if *op != nil {
					walk(*op, fn, d+1)
				}
			}
		}
		if al, ok := v.(*ssa.Alloc); ok {
			for _, st := range allStoresTo(al) {
				walk(st.Val, fn, d+1)
			}
		}
	}
	walk(v, f, 0)
	return found
}

func reachesBothDeep(args []ssa.Value, a, b func(ssa.Value) bool) bool {
	u, p := false, false
	for _, x := range args {
		if depReaches(x, a) {
			u = true
		}
		if depReaches(x, b) {
			p = true
		}
	}
	return u && p
}
