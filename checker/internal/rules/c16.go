package rules

import (
	"fmt"
	"go/constant"
	"go/token"
	"go/types"
	"sort"
	"strings"

	"golang.org/x/tools/go/ssa"

	"waspcheck/internal/core"
)

func init() { register("C16", checkC16) }

// orderAtom decomposes a boolean value into "lhs < rhs" / "lhs <= rhs" (after
// normalising >, >=, negation, strings.Compare(...) <op> const, time.Before/After).
// kind: "order", "equality", "other".
type ordAtom struct {
	kind     string
	lhs, rhs ssa.Value
	strict   bool
}

func orderAtom(v ssa.Value, neg bool) ordAtom {
	v = core.Strip(v)
	switch x := v.(type) {
	case *ssa.UnOp:
		if x.Op == token.NOT {
			return orderAtom(x.X, !neg)
		}
	case *ssa.BinOp:
		mk := func(l, r ssa.Value, strict bool) ordAtom {
			if neg { // !(l < r) == r <= l
				return ordAtom{"order", r, l, !strict}
			}
			return ordAtom{"order", l, r, strict}
		}
		// strings.Compare(a,b) <op> const  /  bytes.Compare
		if call, ok := core.Strip(x.X).(*ssa.Call); ok {
			if k, ok := core.Strip(x.Y).(*ssa.Const); ok && k.Value != nil && k.Value.Kind() == constant.Int {
				if sc := call.Call.StaticCallee(); sc != nil && sc.Name() == "Compare" && len(call.Call.Args) == 2 {
					kv, _ := constant.Int64Val(k.Value)
					a, b := call.Call.Args[0], call.Call.Args[1]
					switch {
					case x.Op == token.EQL && kv == -1, x.Op == token.LSS && kv == 0:
						return mk(a, b, true)
					case x.Op == token.LEQ && kv == 0, x.Op == token.LSS && kv == 1, x.Op == token.NEQ && kv == 1:
						return mk(a, b, false)
					case x.Op == token.EQL && kv == 1, x.Op == token.GTR && kv == 0:
						return mk(b, a, true)
					case x.Op == token.GEQ && kv == 0, x.Op == token.GTR && kv == -1, x.Op == token.NEQ && kv == -1:
						return mk(b, a, false)
					case x.Op == token.EQL && kv == 0, x.Op == token.NEQ && kv == 0:
						return ordAtom{kind: "equality", lhs: a, rhs: b}
					}
				}
			}
		}
		switch x.Op {
		case token.LSS:
			return mk(x.X, x.Y, true)
		case token.LEQ:
			return mk(x.X, x.Y, false)
		case token.GTR:
			return mk(x.Y, x.X, true)
		case token.GEQ:
			return mk(x.Y, x.X, false)
		case token.EQL, token.NEQ:
			return ordAtom{kind: "equality", lhs: x.X, rhs: x.Y}
		}
	case *ssa.Call:
		if sc := x.Call.StaticCallee(); sc != nil && len(x.Call.Args) == 2 {
			switch sc.Name() {
			case "Before", "Less":
				if neg {
					return ordAtom{"order", x.Call.Args[1], x.Call.Args[0], false}
				}
				return ordAtom{"order", x.Call.Args[0], x.Call.Args[1], true}
			case "After":
				if neg {
					return ordAtom{"order", x.Call.Args[0], x.Call.Args[1], false}
				}
				return ordAtom{"order", x.Call.Args[1], x.Call.Args[0], true}
			case "Equal":
				return ordAtom{kind: "equality", lhs: x.Call.Args[0], rhs: x.Call.Args[1]}
			}
		}
	}
	return ordAtom{kind: "other"}
}

// dependsOnParam reports whether v's backward slice (within the closure) reaches parameter idx.
func dependsOnParam(v ssa.Value, fn *ssa.Function, idx int) bool {
	seen := map[ssa.Value]bool{}
	var walk func(v ssa.Value) bool
	walk = func(v ssa.Value) bool {
		if v == nil || seen[v] {
			return false
		}
		seen[v] = true
		if p, ok := v.(*ssa.Parameter); ok {
			return p.Parent() == fn && idx < len(fn.Params) && fn.Params[idx] == p
		}
		if in, ok := v.(ssa.Instruction); ok {
			for _, op := range in.Operands(nil) {
				if *op != nil && walk(*op) {
					return true
				}
			}
		}
		return false
	}
	return walk(v)
}

// fieldsRead lists the struct fields of named type tn read in fn (through FieldAddr/Field).
func fieldsRead(fn *ssa.Function, match func(types.Type) bool) []string {
	set := map[string]bool{}
	for _, b := range fn.Blocks {
		for _, in := range b.Instrs {
			switch x := in.(type) {
			case *ssa.FieldAddr:
				t := x.X.Type()
				if p, ok := t.Underlying().(*types.Pointer); ok {
					t = p.Elem()
				}
				if match(t) {
					set[t.Underlying().(*types.Struct).Field(x.Field).Name()] = true
				}
			case *ssa.Field:
				if match(x.X.Type()) {
					set[x.X.Type().Underlying().(*types.Struct).Field(x.Field).Name()] = true
				}
			}
		}
	}
	var out []string
	for k := range set {
		out = append(out, k)
	}
	sort.Strings(out)
	return out
}

// singleReturnValue returns the value returned by a closure with exactly one result, when all returns agree after stripping.
func returnValues(fn *ssa.Function) []ssa.Value {
	var out []ssa.Value
	for _, b := range fn.Blocks {
		if r, ok := b.Instrs[len(b.Instrs)-1].(*ssa.Return); ok && len(r.Results) > 0 {
			out = append(out, r.Results[0])
		}
	}
	return out
}

// checkSortSearchSites applies the sort.Search predicate rule to every module call site; used by C16 (and cross-referenced by C04/C06).
func (c *Ctx) checkSortSearchSites(ruleID string, only func(fn *ssa.Function) bool, min int) {
	ru := c.R.Rule(ruleID, "every sort.Search predicate is an order comparison target<=elem / target<elem (monotone false→true over an ascending slice), never an equality test; it indexes the very slice whose length bounds the search (with the same offset when the search runs over a tail), and the result of a search over a tail is re-based (offset added) before any other use", "E11 shape rule on the predicate closure + E3 provenance of the searched slice and of the result's uses", min)
	search := c.fo(ru, "sort", "Search")
	if search == nil {
		return
	}
	sites := c.modFuncsCalling(search)
	for _, f := range sortedFuncs(sites) {
		if only != nil && !only(f) {
			continue
		}
		c.R.Fn(c.fname(f))
		for i, call := range sites[f] {
			key := fmt.Sprintf("sort.Search#%d in %s", i, c.fname(f))
			pred := closureArg(call.Arg(1))
			if pred == nil {
				ru.Undecided(key, c.whereI(call.Instr), "predicate is not a function literal or named function; cannot inspect it")
				continue
			}
			rets := returnValues(pred)
			if len(rets) == 0 {
				ru.Undecided(key, c.whereI(call.Instr), "predicate has no return")
				continue
			}
			// a search over a tail (sort.Search(len(s)-lo, …)) yields a position relative to lo: it becomes a position in
			// s only once lo is added
			if _, lo := searchedSlice(call.Arg(0)); lo != nil {
				if rv := call.Value(); rv != nil && rv.Referrers() != nil {
					for _, r := range *rv.Referrers() {
						if _, isDbg := r.(*ssa.DebugRef); isDbg {
							continue
						}
						okUse := false
						if bo, isBo := r.(*ssa.BinOp); isBo && bo.Op == token.ADD {
							other := bo.X
							if other == rv {
								other = bo.Y
							}
							okUse = sameRef(other, lo, 0) || core.Strip(other) == core.Strip(lo)
						}
						if !okUse {
							ru.Fail(key+"|relative position", c.whereI(r), "the search runs over the tail that starts at "+short(core.Term(lo), 40)+", so its result counts from there; it is used here without adding that offset back: as a position in the whole slice it falls short, and the entries between it and the real end are never looked at")
						}
					}
				}
			}
			// the predicate looks at the slice whose length bounds the search: sort.Search(len(s), func(i) … s[i] …),
			// or, over a tail, sort.Search(len(s)-lo, func(i) … s[lo+i] …)
			if sv, lo := searchedSlice(call.Arg(0)); sv != nil && len(pred.Params) > 0 {
				for _, pb := range pred.Blocks {
					for _, in := range pb.Instrs {
						var x, idx ssa.Value
						switch ia := in.(type) {
						case *ssa.IndexAddr:
							x, idx = ia.X, ia.Index
						case *ssa.Index:
							x, idx = ia.X, ia.Index
						default:
							continue
						}
						if !dependsOnParam(idx, pred, 0) {
							continue
						}
						if _, isSlice := x.Type().Underlying().(*types.Slice); !isSlice {
							continue
						}
						ib, ioff := affineOf(idx)
						okIdx := false
						if lo == nil {
							okIdx = ib == ssa.Value(pred.Params[0]) && ioff == 0
						} else if bo, isBo := conversionsOnly(idx).(*ssa.BinOp); isBo && bo.Op == token.ADD {
							okIdx = (sameRef(bo.X, lo, 0) && core.Strip(bo.Y) == ssa.Value(pred.Params[0])) || (sameRef(bo.Y, lo, 0) && core.Strip(bo.X) == ssa.Value(pred.Params[0]))
						}
						if !sameRef(x, sv, 0) || !okIdx {
							ru.Fail(key+"|searched slice", c.whereI(in), "the predicate indexes "+short(core.Term(x), 50)+" while the search runs over the length of "+short(core.Term(sv), 50)+" (or with another offset): the position found does not belong to the slice it is then used on, entries of other keys fall inside the range")
						}
					}
				}
			}
			for _, rv := range rets {
				a := orderAtom(rv, false)
				switch a.kind {
				case "equality":
					ru.Fail(key, c.where(rv, pred), "sort.Search predicate is an equality test: binary search needs a monotone predicate, so most entries are never found")
				case "order":
					// monotone false→true over ascending data: element (depends on i) must be on the greater side
					lhsDep, rhsDep := dependsOnParam(a.lhs, pred, 0), dependsOnParam(a.rhs, pred, 0)
					if rhsDep && !lhsDep {
						ru.OK(key, c.where(rv, pred), "predicate has the form target "+map[bool]string{true: "<", false: "<="}[a.strict]+" elem(i)")
					} else if lhsDep && !rhsDep {
						ru.Fail(key, c.where(rv, pred), "predicate has the form elem(i) < target: it is monotone true→false, sort.Search requires false→true over the ascending slice")
					} else {
						ru.Undecided(key, c.where(rv, pred), "cannot tell which side of the comparison is the indexed element")
					}
				default:
					ru.Undecided(key, c.where(rv, pred), "predicate is not a recognised order comparison (accepted: <,<=,>,>=, negations, Compare(a,b) op k, Before/After/Less): "+short(core.Term(rv), 120))
				}
			}
		}
	}
}

// searchedSlice: n is len(s) (lo == nil) or len(s) - lo: the slice a binary search over n positions runs on.
func searchedSlice(n ssa.Value) (s ssa.Value, lo ssa.Value) {
	n = conversionsOnly(n)
	if bo, ok := n.(*ssa.BinOp); ok && bo.Op == token.SUB {
		if sv, _ := searchedSlice(bo.X); sv != nil {
			return sv, bo.Y
		}
		return nil, nil
	}
	cv, ok := n.(*ssa.Call)
	if !ok {
		return nil, nil
	}
	if b, isB := cv.Call.Value.(*ssa.Builtin); !isB || b.Name() != "len" || len(cv.Call.Args) != 1 {
		return nil, nil
	}
	if _, isSlice := cv.Call.Args[0].Type().Underlying().(*types.Slice); !isSlice {
		return nil, nil
	}
	return cv.Call.Args[0], nil
}

// sameRef: two expressions denote the same storage or value: the same SSA value once cells and captured variables are
// seen through, or loads of the same field / element path of such values.
func sameRef(a, b ssa.Value, depth int) bool {
	if depth > 6 {
		return false
	}
	a, b = core.Strip(a), core.Strip(b)
	if a == b {
		return true
	}
	la, oka := a.(*ssa.UnOp)
	lb, okb := b.(*ssa.UnOp)
	if oka && okb && la.Op == token.MUL && lb.Op == token.MUL {
		fa, okfa := la.X.(*ssa.FieldAddr)
		fb, okfb := lb.X.(*ssa.FieldAddr)
		if okfa && okfb && fa.Field == fb.Field {
			return sameRef(fa.X, fb.X, depth+1)
		}
	}
	return false
}

func checkC16(c *Ctx) {
	c.R.Explanation = "Static rules over wasp/conn.go setup and wasp/auth: (R1) path table of the CONNECT handler: session state is created and an accepting CONNACK sent only where Authenticate returned a nil error, a refusal CONNACK with a non-zero code otherwise; (R2) in the static and file handlers a nil-error return lies only on paths where comparisons involving the presented username and password both succeeded, and the mount point returned is the default constant or the matched record's; (R3) every sort.Search predicate is a monotone order comparison; (R4) constant indexes under `switch len(x) {case N}` are < N; (R5) the credential table is sorted by the field the search compares."
	c.R.NotCovered = "SHA-256 and CSV parsing (library contracts), what the password column is meant to contain, value-level equality of hashes."
	c.R.Assume("crypto/sha256, encoding/csv, sort.Search and sort.SliceStable behave as documented")
	authPkg := "wasp/auth"

	// R3
	c.checkSortSearchSites("C16-R3", nil, 3)

	// R4: constant index under switch len(x) case N
	r4 := c.R.Rule("C16-R4", "a constant index into x inside `switch len(x) { case N: ... }` is smaller than N", "E11 shape rule + dominance", 1)
	for _, f := range c.P.ModFuncs() {
		c.checkLenSwitchIndex(f, r4)
	}

	// R2: handlers
	c.checkAuthHandlers(authPkg)

	// R5: sort key agreement
	r5 := c.R.Rule("C16-R5", "the credential table is sorted by exactly the record field(s) the lookup predicate compares", "E10 sibling agreement on fields read", 1)
	fh := c.P.Func(authPkg, "FileHandler")
	auth := c.authHandlerOf(authPkg, "FileHandler")
	if r5.Anchor(fh != nil, "auth.FileHandler") && r5.Anchor(auth != nil, "Authenticate of the handler built by auth.FileHandler") {
		// the record type: the element type of the table the lookup binary-searches (whatever its name)
		var recType types.Type
		isRec := func(t types.Type) bool { return recType != nil && types.Identical(derefT(t), recType) }
		var lessFields, predFields []string
		stable := c.P.FuncObj("sort", "SliceStable")
		slice := c.P.FuncObj("sort", "Slice")
		srt := c.P.FuncObj("sort", "Sort")
		search := c.P.FuncObj("sort", "Search")
		var preds []*ssa.Function
		for _, call := range c.callsToDeep(auth, 3, search) {
			if pf := closureArg(call.Arg(1)); pf != nil {
				preds = append(preds, pf)
				for _, bb := range pf.Blocks {
					for _, in := range bb.Instrs {
						if ia, ok := in.(*ssa.IndexAddr); ok {
							if sl, ok := ia.X.Type().Underlying().(*types.Slice); ok {
								if _, isStruct := derefT(sl.Elem()).Underlying().(*types.Struct); isStruct {
									recType = derefT(sl.Elem())
								}
							}
						}
					}
				}
			}
		}
		for _, pf := range preds {
			predFields = append(predFields, fieldsRead(pf, isRec)...)
		}
		n := 0
		sortsOther := ""
		for _, call := range c.callsToDeep(fh, 3, stable, slice, srt) {
			var less *ssa.Function
			if lf := closureArg(call.Arg(1)); lf != nil {
				less = lf
			} else if cv, ok := core.Strip(call.Arg(1)).(*ssa.Call); ok {
				// helper returning the less closure
				if sc := cv.Call.StaticCallee(); sc != nil {
					for _, rv := range returnValues(sc) {
						if lf := closureArg(rv); lf != nil {
							less = lf
						}
					}
				}
			}
			if sl, ok := boxedType(call.Arg(0)).Underlying().(*types.Slice); ok && recType != nil && !types.Identical(derefT(sl.Elem()), recType) {
				sortsOther = types.TypeString(sl, func(p *types.Package) string { return p.Name() })
				continue // sorts something else than the table that is searched
			}
			n++
			if less != nil {
				lessFields = append(lessFields, fieldsRead(less, isRec)...)
				c.R.Fn(c.fname(less))
			}
		}
		// several searches over the same field (the first entry of a user, then the end of its run) read it several times
		uniq := func(in []string) []string {
			seen := map[string]bool{}
			var out []string
			for _, x := range in {
				if !seen[x] {
					seen[x] = true
					out = append(out, x)
				}
			}
			sortStrings(out)
			return out
		}
		lessFields, predFields = uniq(lessFields), uniq(predFields)
		key := "sort key of the table built by auth.FileHandler vs search key of its Authenticate"
		switch {
		case n == 0 && len(predFields) > 0 && sortsOther != "":
			r5.Fail(key, c.where(fh, fh), "the loader sorts a "+sortsOther+", not the table of records the lookup binary-searches: the records end up in whatever order the sorted lines produce, not in the order of the searched field")
		case n == 0 && len(predFields) > 0:
			r5.Fail(key, c.where(fh, fh), "the table is never sorted although the lookup is a binary search")
		case len(predFields) == 0:
			r5.OK(key, c.where(auth, auth), "lookup is not a binary search over record fields (nothing to agree with)")
		case strings.Join(lessFields, ",") == strings.Join(predFields, ","):
			r5.OK(key, c.where(fh, fh), "sorted by and searched by "+strings.Join(predFields, ","))
		default:
			r5.Fail(key, c.where(fh, fh), fmt.Sprintf("table sorted by [%s] but searched by [%s]", strings.Join(lessFields, ","), strings.Join(predFields, ",")))
		}
	}

	// R6
	r6 := c.R.Rule("C16-R6", "the credential file reader accepts records of differing length (csv.Reader.FieldsPerRecord is set negative before ReadAll) when the loader distinguishes several record lengths", "E11 constant store dominating the read", 1)
	if fh != nil {
		lens := map[int64]bool{}
		deep := c.funcsDeep(fh, 3)
		for _, f := range deep {
			for _, b := range f.Blocks {
				if iff, ok := b.Instrs[len(b.Instrs)-1].(*ssa.If); ok {
					if bo, ok := iff.Cond.(*ssa.BinOp); ok && bo.Op == token.EQL {
						if cl, ok := bo.X.(*ssa.Call); ok && core.CallOf(cl).Builtin() == "len" {
							if k, ok := constInt(bo.Y); ok {
								lens[k] = true
							}
						}
					}
				}
			}
		}
		var readAll *core.Call
		for _, cl := range c.callsDeep(fh, 3) {
			if cl.Obj != nil && cl.Obj.Name() == "ReadAll" && cl.Obj.Pkg() != nil && cl.Obj.Pkg().Path() == "encoding/csv" {
				readAll = cl
			}
		}
		if r6.Anchor(readAll != nil, "csv.Reader.ReadAll in auth.FileHandler") {
			if len(lens) < 2 {
				r6.OK("record lengths accepted by auth.FileHandler", c.where(fh, fh), "a single record length is handled; the default field-count check is consistent with it")
			} else {
				ok := false
				rf := readAll.Instr.Parent()
				for _, f := range deep {
					for _, b := range f.Blocks {
						for _, in := range b.Instrs {
							st, isSt := in.(*ssa.Store)
							if !isSt {
								continue
							}
							fa, isFA := st.Addr.(*ssa.FieldAddr)
							if !isFA || fieldNameOf(fa.X.Type(), fa.Field) != "FieldsPerRecord" {
								continue
							}
							if k, isK := constInt(st.Val); !isK || k >= 0 {
								continue
							}
							switch {
							case f == rf:
								ok = ok || core.Dominates(st, readAll.Instr)
							default:
								// the reader is configured by a helper: the reader read from comes out of that helper, or the helper runs before the read
								if len(readAll.Common.Args) > 0 && depReaches(readAll.Common.Args[0], func(x ssa.Value) bool {
									cv, isC := x.(*ssa.Call)
									return isC && cv.Call.StaticCallee() == f
								}) {
									ok = true
								}
								for _, cl := range core.CallsIn(rf) {
									if cl.Static == f && core.Dominates(cl.Instr, readAll.Instr) {
										ok = true
									}
								}
							}
						}
					}
				}
				r6.Check(ok, "record lengths accepted by auth.FileHandler", c.whereI(readAll.Instr), fmt.Sprintf("FieldsPerRecord < 0 while %d record lengths are handled", len(lens)), fmt.Sprintf("the loader handles %d different record lengths but the csv reader enforces the field count of the first record: a file mixing them is rejected as a whole and nobody can log in", len(lens)))
			}
		}
	}

	c.ruleNoSharedStateInAuth("C16-R7")
	c.ruleRecordFromOwnLine("C16-R8", authPkg)
	c.ruleEveryMatchingRecord("C16-R9", authPkg)
	c.ruleMountPointNeverEmpty("C16-R10", authPkg)
	c.ruleSessionIDNeverEmpty("C16-R11", authPkg)
	c.ruleCredentialsReadOnly("C16-R12", authPkg)
	c.ruleConfiguredCredentialsVerbatim("C16-R13", authPkg)

	// R1: setup gating
	c.checkSetupGating()
}

// checkLenSwitchIndex: for every `len(x) == N` true-branch region, constant indexes x[c] must satisfy c < N.
func (c *Ctx) checkLenSwitchIndex(f *ssa.Function, ru interface {
	OK(string, string, string)
	Fail(string, string, string)
}) {
	for _, b := range f.Blocks {
		iff, ok := b.Instrs[len(b.Instrs)-1].(*ssa.If)
		if !ok {
			continue
		}
		bo, ok := iff.Cond.(*ssa.BinOp)
		if !ok || bo.Op != token.EQL {
			continue
		}
		var lenCall *ssa.Call
		var k *ssa.Const
		for _, pair := range [][2]ssa.Value{{bo.X, bo.Y}, {bo.Y, bo.X}} {
			if cl, ok := pair[0].(*ssa.Call); ok {
				if bi, ok := cl.Call.Value.(*ssa.Builtin); ok && bi.Name() == "len" {
					if kk, ok := pair[1].(*ssa.Const); ok && kk.Value != nil && kk.Value.Kind() == constant.Int {
						lenCall, k = cl, kk
					}
				}
			}
		}
		if lenCall == nil {
			continue
		}
		n, _ := constant.Int64Val(k.Value)
		subject := core.Term(lenCall.Call.Args[0])
		trueB := b.Succs[0]
		// region: blocks dominated by the true successor (and only reachable through it)
		if len(trueB.Preds) != 1 {
			continue
		}
		for _, rb := range f.Blocks {
			if !trueB.Dominates(rb) {
				continue
			}
			for _, in := range rb.Instrs {
				var base ssa.Value
				var idx ssa.Value
				switch x := in.(type) {
				case *ssa.IndexAddr:
					base, idx = x.X, x.Index
				case *ssa.Index:
					base, idx = x.X, x.Index
				default:
					continue
				}
				if core.Term(base) != subject {
					continue
				}
				ik, ok := idx.(*ssa.Const)
				if !ok || ik.Value == nil || ik.Value.Kind() != constant.Int {
					continue
				}
				iv, _ := constant.Int64Val(ik.Value)
				key := fmt.Sprintf("index [%d] under len==%d of %s in %s", iv, n, short(subject, 60), c.fname(f))
				if iv < n {
					ru.OK(key, c.whereI(in), "in range")
				} else {
					ru.Fail(key, c.whereI(in), fmt.Sprintf("constant index %d is out of range where the length is known to be %d: this line panics whenever it runs", iv, n))
				}
			}
		}
	}
}

func (c *Ctx) checkAuthHandlers(authPkg string) {
	ru := c.R.Rule("C16-R2", "a credential handler returns a nil error only on paths where an equality involving the presented username and one involving the presented password both held; the mount point returned is the default constant or a field of the matched record", "E1 pathspec + E3 provenance", 2)
	hs := c.credentialHandlers(authPkg)
	for _, hn := range []string{"StaticHandler", "FileHandler"} {
		f := hs[hn]
		if !ru.Anchor(f != nil, "Authenticate of the handler built by auth."+hn) {
			continue
		}
		c.R.Fn(c.fname(f))
		paths, err := c.pathsInlinedPkg(f, core.PathOpts{}, nil)
		if err != nil {
			ru.Undecided("paths of the handler built by auth."+hn, c.where(f, f), err.Error())
			continue
		}
		ru.Evals(len(paths))
		bad := ""
		okPaths := 0
		for _, p := range paths {
			isNil, known := p.ReturnsNilError()
			if !known {
				bad = "cannot decide whether the error result is nil on path " + fmtPath(p, c.P)
				break
			}
			if !isNil {
				continue
			}
			okPaths++
			userOK, passOK := false, false
			var heldEq []*ssa.BinOp
			for _, d := range decisions(p) {
				bo, val := resolvedEquality(p, d)
				if bo == nil || !val {
					continue
				}
				heldEq = append(heldEq, bo)
				if mix := c.mixesRawCredentials(bo.X, f) + c.mixesRawCredentials(bo.Y, f); mix != "" {
					bad = "username and password are joined into one value before being fingerprinted and compared (" + mix + "): the join is ambiguous at the boundary, so a different (username, password) pair can be accepted"
				}
				for _, side := range []ssa.Value{bo.X, bo.Y} {
					if c.mentionsAppField(side, f, "Username") && c.mentionsAppField(side, f, "Password") {
						bad = "one compared value is computed from both the presented username and the presented password (" + short(core.Term(side), 70) + "): the boundary between the two is not compared, so a different split of the same characters is accepted"
					}
				}
				if c.mentionsAppField(bo.X, f, "Username") || c.mentionsAppField(bo.Y, f, "Username") {
					userOK = true
				}
				if c.mentionsAppField(bo.X, f, "Password") || c.mentionsAppField(bo.Y, f, "Password") {
					passOK = true
				}
			}
			if bad != "" {
				break
			}
			if !userOK || !passOK {
				bad = fmt.Sprintf("success return reachable without a successful comparison of the %s: %s", map[bool]string{true: "password", false: "username"}[userOK], fmtPath(p, c.P))
				break
			}
			// mount point provenance
			r := p.Exit.(*ssa.Return)
			if mp := c.principalField(p, r.Results[0], "MountPoint"); mp != nil {
				okMP := false
				mpr := p.Resolve(mp)
				if k, ok := mpr.(*ssa.Const); ok && k.Value != nil && k.Value.Kind() == constant.String {
					def := c.P.TypesPkg(authPkg).Scope().Lookup("DefaultMountPoint")
					if dc, ok := def.(*types.Const); ok && constant.StringVal(dc.Val()) == constant.StringVal(k.Value) {
						okMP = true
					}
				} else if len(recordElems(p, mpr)) > 0 {
					// field of a record: index must be the index compared on this path
					okMP = c.sameRecordAsCompared(p, mpr, heldEq)
				}
				if !okMP {
					bad = "mount point of the accepted principal is neither the default constant nor the MountPoint field of the record whose hashes were compared: " + short(core.Term(mpr), 100)
					break
				}
			} else {
				bad = "cannot find the MountPoint stored in the returned principal"
				break
			}
		}
		key := "accepting paths of the handler built by auth." + hn
		if bad != "" {
			ru.Fail(key, c.where(f, f), bad)
		} else if okPaths == 0 {
			ru.Fail(key, c.where(f, f), "handler has no accepting path at all")
		} else {
			ru.OK(key, c.where(f, f), fmt.Sprintf("%d accepting path(s) of %d, each guarded by username and password equalities", okPaths, len(paths)))
		}
	}
}

// resolvedEquality: the decision, seen through the results of inlined helpers, is an (in)equality test; returns the
// comparison and whether the equality held on the path.
func resolvedEquality(p *core.Path, d decided) (*ssa.BinOp, bool) {
	v, val := p.Resolve(d.Cond), d.Val
	for {
		u, ok := v.(*ssa.UnOp)
		if !ok || u.Op != token.NOT {
			break
		}
		v, val = p.Resolve(u.X), !val
	}
	bo, ok := v.(*ssa.BinOp)
	if !ok || (bo.Op != token.EQL && bo.Op != token.NEQ) {
		return nil, false
	}
	if bo.Op == token.NEQ {
		val = !val
	}
	return bo, val
}

// mentionsAppField: does v depend on field name of the presented ApplicationContext (through helpers' parameters and results too)?
func (c *Ctx) mentionsAppField(v ssa.Value, f *ssa.Function, name string) bool {
	return depReaches(v, func(x ssa.Value) bool {
		switch y := x.(type) {
		case *ssa.FieldAddr:
			return fieldNameOf(y.X.Type(), y.Field) == name && isNamed(derefT(y.X.Type()), "wasp/auth", "ApplicationContext")
		case *ssa.Field:
			return fieldNameOf(y.X.Type(), y.Field) == name && isNamed(y.X.Type(), "wasp/auth", "ApplicationContext")
		}
		return false
	})
}

func derefT(t types.Type) types.Type {
	if p, ok := t.Underlying().(*types.Pointer); ok {
		return p.Elem()
	}
	return t
}

func fieldNameOf(t types.Type, idx int) string {
	t = derefT(t)
	if st, ok := t.Underlying().(*types.Struct); ok && idx < st.NumFields() {
		return st.Field(idx).Name()
	}
	return ""
}

// principalField finds the value stored into field name of the struct value returned.
func (c *Ctx) principalField(p *core.Path, ret ssa.Value, name string) ssa.Value {
	ret = p.Resolve(ret)
	ld, ok := ret.(*ssa.UnOp)
	if !ok || ld.Op != token.MUL {
		return nil
	}
	al, ok := ld.X.(*ssa.Alloc)
	if !ok {
		return nil
	}
	// the last store into that field among the instructions executed on the path — those of helpers spliced in
	// included (the principal may be built by a constructor: principalOf(out), accepted(mountPoint))
	var found ssa.Value
	for _, pi := range p.Instrs() {
		st, ok := pi.In.(*ssa.Store)
		if !ok {
			continue
		}
		if fa, ok := st.Addr.(*ssa.FieldAddr); ok && fa.X == ssa.Value(al) && fieldNameOf(fa.X.Type(), fa.Field) == name {
			found = st.Val
		}
	}
	return found
}

// recordElems: the slice elements (of struct type) v is read out of — field loads, copies through locals and helper parameters.
func recordElems(p *core.Path, v ssa.Value) []*ssa.IndexAddr {
	var out []*ssa.IndexAddr
	seen := map[ssa.Value]bool{}
	var walk func(v ssa.Value, d int)
	walk = func(v ssa.Value, d int) {
		if v == nil || seen[v] || d > 30 {
			return
		}
		seen[v] = true
		switch x := v.(type) {
		case *ssa.IndexAddr:
			if _, isStruct := derefT(x.Type()).Underlying().(*types.Struct); isStruct {
				out = append(out, x)
			}
		case *ssa.UnOp:
			if x.Op == token.MUL {
				walk(x.X, d+1)
			}
		case *ssa.FieldAddr:
			walk(x.X, d+1)
		case *ssa.Field:
			walk(x.X, d+1)
		case *ssa.Alloc:
			for _, st := range allStoresTo(x) {
				walk(st.Val, d+1)
			}
		case *ssa.Parameter:
			if r := p.Resolve(x); r != ssa.Value(x) {
				walk(r, d+1)
			} else {
				for _, a := range callerArgs(x) {
					walk(a, d+1)
				}
			}
		case *ssa.Phi:
			if r := p.Resolve(x); r != ssa.Value(x) {
				walk(r, d+1)
			}
		case *ssa.Extract, *ssa.Call:
			// the record handed back by a look-up helper spliced into the path
			if r := p.Resolve(x); r != x {
				walk(r, d+1)
			}
		}
	}
	walk(v, 0)
	return out
}

// sameRecordAsCompared: the record whose MountPoint is returned is the element (same slice, same index) whose fields were compared on this path.
func (c *Ctx) sameRecordAsCompared(p *core.Path, mp ssa.Value, heldEq []*ssa.BinOp) bool {
	mine := recordElems(p, mp)
	if len(mine) != 1 {
		return false
	}
	sameElem := func(a, b *ssa.IndexAddr) bool {
		return p.Term(a.X) == p.Term(b.X) && (deepStrip(p.Resolve(a.Index)) == deepStrip(p.Resolve(b.Index)) || p.Term(a.Index) == p.Term(b.Index))
	}
	// boundedBy: on this path the index of the record used was compared (<, <=, >, >=) with a value derived from the
	// index of the other record: the record used lies in the run of entries that the other comparison delimited
	// (first, end := candidates(user); for idx := first; idx < end; idx++ { … db[idx] … })
	boundedBy := func(used, other *ssa.IndexAddr) bool {
		if p.Term(used.X) != p.Term(other.X) {
			return false
		}
		ui, oi := core.Strip(used.Index), core.Strip(other.Index) // the loop variables themselves, not their per-iteration values
		for _, d := range decisions(p) {
			bo, ok := d.Cond.(*ssa.BinOp)
			if !ok || (bo.Op != token.LSS && bo.Op != token.LEQ && bo.Op != token.GTR && bo.Op != token.GEQ) {
				continue
			}
			for _, pair := range [][2]ssa.Value{{bo.X, bo.Y}, {bo.Y, bo.X}} {
				a, b := core.Strip(pair[0]), pair[1]
				if a == ui && depReaches(b, func(v ssa.Value) bool { return v == oi }) {
					return true
				}
			}
		}
		return false
	}
	n, exact := 0, 0
	for _, bo := range heldEq {
		for _, side := range []ssa.Value{bo.X, bo.Y} {
			for _, e := range recordElems(p, side) {
				switch {
				case sameElem(e, mine[0]):
					exact++
				case boundedBy(mine[0], e):
				default:
					return false
				}
				n++
			}
		}
	}
	// at least the comparison that decides acceptance last (the password's) is made on the very record whose mount point
	// is returned; every other comparison on a record of the table is on that record too, or delimits the run it lies in
	return n >= 1 && exact >= 1
}

// mixesRawCredentials: v depends on a string/byte concatenation whose operands reach, without passing through any call, both the presented username and the presented password.
func (c *Ctx) mixesRawCredentials(v ssa.Value, f *ssa.Function) string {
	found := ""
	isField := func(name string) func(ssa.Value) bool {
		return func(x ssa.Value) bool {
			switch y := x.(type) {
			case *ssa.FieldAddr:
				return fieldNameOf(y.X.Type(), y.Field) == name && isNamed(derefT(y.X.Type()), "wasp/auth", "ApplicationContext")
			case *ssa.Field:
				return fieldNameOf(y.X.Type(), y.Field) == name && isNamed(y.X.Type(), "wasp/auth", "ApplicationContext")
			}
			return false
		}
	}
	reachesBoth := func(ops []ssa.Value) bool {
		u, p := false, false
		for _, o := range ops {
			if containerReaches(o, isField("Username")) {
				u = true
			}
			if containerReaches(o, isField("Password")) {
				p = true
			}
		}
		return u && p
	}
	seen := map[ssa.Value]bool{}
	var walk func(v ssa.Value, fn *ssa.Function, d int)
	walk = func(v ssa.Value, fn *ssa.Function, d int) {
		if v == nil || seen[v] || d > 40 || found != "" {
			return
		}
		seen[v] = true
		switch x := v.(type) {
		case *ssa.BinOp:
			if x.Op == token.ADD && reachesBoth([]ssa.Value{x.X, x.Y}) {
				found = "concatenation at " + c.P.Pos(x.Pos())
				return
			}
		case *ssa.Call:
			cl := core.CallOf(x)
			if cl.Builtin() == "append" && reachesBoth(x.Call.Args) {
				found = "append at " + c.P.Pos(x.Pos())
				return
			}
			if sc := x.Call.StaticCallee(); sc != nil {
				full := sc.String()
				if (full == "fmt.Sprintf" || full == "bytes.Join" || full == "strings.Join") && reachesBothDeep(x.Call.Args, isField("Username"), isField("Password")) {
					found = full + " at " + c.P.Pos(x.Pos())
					return
				}
				// follow module helpers: arguments that carry both fields into a helper that concatenates its parameters
				if sc.Pkg != nil && c.P.IsModPkg(sc.Pkg.Pkg) && len(sc.Blocks) > 0 {
					var carriesU, carriesP []int
					for i, a := range x.Call.Args {
						if containerReaches(a, isField("Username")) {
							carriesU = append(carriesU, i)
						}
						if containerReaches(a, isField("Password")) {
							carriesP = append(carriesP, i)
						}
					}
					if len(carriesU) > 0 && len(carriesP) > 0 {
						for _, b := range sc.Blocks {
							for _, in := range b.Instrs {
								var ops []ssa.Value
								switch y := in.(type) {
								case *ssa.BinOp:
									if y.Op == token.ADD {
										ops = []ssa.Value{y.X, y.Y}
									}
								case *ssa.Call:
									if core.CallOf(y).Builtin() == "append" {
										ops = y.Call.Args
									}
									if jc := y.Call.StaticCallee(); jc != nil {
										switch jc.String() {
										case "fmt.Sprintf", "bytes.Join", "strings.Join":
											ops = y.Call.Args
										}
									}
								}
								if ops == nil {
									continue
								}
								u, p := false, false
								reach := func(o ssa.Value, i int) bool {
									if i >= len(sc.Params) {
										return false
									}
									t := ssa.Value(sc.Params[i])
									return depReaches(o, func(z ssa.Value) bool {
										if cz, isCall := z.(*ssa.Call); isCall && cz.Call.StaticCallee() != nil && cz.Call.StaticCallee().Pkg != nil && c.P.IsModPkg(cz.Call.StaticCallee().Pkg.Pkg) {
											return false
										}
										return z == t
									})
								}
								for _, o := range ops {
									for _, i := range carriesU {
										if reach(o, i) {
											u = true
										}
									}
									for _, i := range carriesP {
										if reach(o, i) {
											p = true
										}
									}
								}
								if u && p {
									found = "concatenation of both credentials in " + c.fname(sc)
									return
								}
							}
						}
					}
				}
			}
		}
		if in, ok := v.(ssa.Instruction); ok {
			for _, op := range in.Operands(nil) {
				if *op != nil {
					walk(*op, fn, d+1)
				}
			}
		}
		if al, ok := v.(*ssa.Alloc); ok {
			for _, st := range allStoresTo(al) {
				walk(st.Val, fn, d+1)
			}
		}
	}
	walk(v, f, 0)
	return found
}

func reachesBothDeep(args []ssa.Value, a, b func(ssa.Value) bool) bool {
	u, p := false, false
	for _, x := range args {
		if depReaches(x, a) {
			u = true
		}
		if depReaches(x, b) {
			p = true
		}
	}
	return u && p
}

// authHandlerOf returns the Authenticate method of the handler type built by the exported constructor ctor of wasp/auth
// (found through the value the constructor boxes into the AuthenticationHandler interface, not by the type's name).
func (c *Ctx) authHandlerOf(authPkg, ctor string) *ssa.Function {
	f := c.P.Func(authPkg, ctor)
	if f == nil {
		return nil
	}
	for _, g := range c.funcsDeep(f, 2) {
		for _, b := range g.Blocks {
			for _, in := range b.Instrs {
				mi, ok := in.(*ssa.MakeInterface)
				if !ok || !isNamed(mi.Type(), authPkg, "AuthenticationHandler") {
					continue
				}
				if sel := c.P.SSA.MethodSets.MethodSet(mi.X.Type()).Lookup(f.Pkg.Pkg, "Authenticate"); sel != nil {
					if m := c.P.SSA.MethodValue(sel); m != nil {
						return m
					}
				}
			}
		}
	}
	return nil
}

// credentialHandlers: the Authenticate methods of the handlers that compare credentials locally (static pair, credentials file).
func (c *Ctx) credentialHandlers(authPkg string) map[string]*ssa.Function {
	return map[string]*ssa.Function{
		"StaticHandler": c.authHandlerOf(authPkg, "StaticHandler"),
		"FileHandler":   c.authHandlerOf(authPkg, "FileHandler"),
	}
}

// ruleRecordFromOwnLine implements C16-R8: each credential record is built from its own line only.
func (c *Ctx) ruleRecordFromOwnLine(id string, authPkg string) {
	ru := c.R.Rule(id, "each record of the credential table is built from its own line: no field of a record appended in the loader's loop depends on a value carried over from an earlier iteration (a variable set by one line and not reset for the next lets a user inherit another entry's mount point)", "E3 provenance of the appended record's fields up to the loop header's φs", 1)
	fh := c.P.Func(authPkg, "FileHandler")
	if !ru.Anchor(fh != nil, "auth.FileHandler") {
		return
	}
	n := 0
	for _, f := range c.funcsDeep(fh, 3) {
		loops := core.Loops(f)
		for _, b := range f.Blocks {
			for _, in := range b.Instrs {
				cv, ok := in.(*ssa.Call)
				if !ok || core.CallOf(cv).Builtin() != "append" || len(cv.Call.Args) != 2 {
					continue
				}
				l := core.InnermostLoop(loops, b)
				if l == nil {
					continue
				}
				sl, ok := cv.Type().Underlying().(*types.Slice)
				if !ok {
					continue
				}
				if _, isStruct := derefT(sl.Elem()).Underlying().(*types.Struct); !isStruct {
					continue
				}
				n++
				c.R.Fn(c.fname(f))
				key := fmt.Sprintf("record appended at %s", c.whereI(cv))
				bad := ""
				// the appended elements: the varargs slice's backing array elements
				depReaches(cv.Call.Args[1], func(v ssa.Value) bool {
					if al, isAl := v.(*ssa.Alloc); isAl && al.Parent() == f && loopCarriedCell(al, l, cv) {
						bad = "the record appended is (built from) the variable " + al.Comment + " declared outside the loop and only partly rewritten inside it: a field not set for the current line keeps the value of an earlier line"
						return false
					}
					phi, ok := v.(*ssa.Phi)
					if !ok || phi.Block() != l.Header {
						return false
					}
					// the loop's own counter (φ(init, φ+1)) selects the current line: allowed
					for _, e := range phi.Edges {
						if bo, ok := e.(*ssa.BinOp); ok && bo.Op == token.ADD && (bo.X == ssa.Value(phi) || bo.Y == ssa.Value(phi)) {
							return false
						}
					}
					// the table being built is carried, but it is the destination, not part of the element
					if types.Identical(phi.Type(), cv.Type()) {
						return false
					}
					bad = "a field of the record depends on " + short(core.Term(phi), 60) + " (" + phi.Comment + "), which is carried over from the previous iteration"
					return false
				})
				ru.Check(bad == "", key, c.whereI(cv), "fields depend on the current line only", bad)
			}
		}
	}
	ru.Anchor(n > 0, "an append of a record inside the loader's loop")
}

// ruleEveryMatchingRecord implements C16-R9: the file handler tries every record that carries the presented username.
func (c *Ctx) ruleEveryMatchingRecord(id string, authPkg string) {
	ru := c.R.Rule(id, "the credential-file lookup examines every record whose searched field equals the presented username, not only the one the binary search lands on: the record whose password is compared is indexed by a loop variable that starts at the search position and advances (two entries may share a username; the CONNECT matching the second one must be accepted too)", "E3 provenance of the index of the record whose password is compared (loop-carried φ seeded by sort.Search)", 1)
	auth := c.authHandlerOf(authPkg, "FileHandler")
	search := c.fo(ru, "sort", "Search")
	if !ru.Anchor(auth != nil, "Authenticate of the handler built by auth.FileHandler") || search == nil {
		return
	}
	n, bad := 0, ""
	for _, g := range c.funcsDeepStop(auth, 2, func(g *ssa.Function) bool { return g.Pkg != auth.Pkg }) {
		for _, b := range g.Blocks {
			for _, in := range b.Instrs {
				bo, ok := in.(*ssa.BinOp)
				if !ok || (bo.Op != token.EQL && bo.Op != token.NEQ) {
					continue
				}
				// a comparison involving the presented password …
				if !c.mentionsAppField(bo.X, g, "Password") && !c.mentionsAppField(bo.Y, g, "Password") {
					continue
				}
				// … and a field of a record of the table
				for _, side := range []ssa.Value{bo.X, bo.Y} {
					ld, ok := conversionsOnly(side).(*ssa.UnOp)
					if !ok || ld.Op != token.MUL {
						continue
					}
					fa, ok := ld.X.(*ssa.FieldAddr)
					if !ok {
						continue
					}
					ia, ok := fa.X.(*ssa.IndexAddr)
					if !ok {
						// a local copy of the record (candidate := h.db[idx]), possibly handed to a helper by value
						var find func(v ssa.Value, d int)
						find = func(v ssa.Value, d int) {
							if d > 4 || ok {
								return
							}
							switch x := v.(type) {
							case *ssa.Alloc:
								for _, st := range allStoresTo(x) {
									find(st.Val, d+1)
								}
							case *ssa.UnOp:
								if x.Op == token.MUL {
									if ia2, isIA := x.X.(*ssa.IndexAddr); isIA {
										ia, ok = ia2, true
									} else {
										find(x.X, d+1)
									}
								}
							case *ssa.Parameter:
								for _, a := range callerArgs(x) {
									find(a, d+1)
								}
							}
						}
						find(fa.X, 0)
					}
					if !ok {
						continue
					}
					n++
					c.R.Fn(c.fname(g))
					idx := deepStrip(ia.Index)
					phi, isPhi := idx.(*ssa.Phi)
					fromSearch := func(v ssa.Value) bool {
						if _, isAdd := conversionsOnly(v).(*ssa.BinOp); isAdd {
							return false
						}
						return depReaches(v, func(x ssa.Value) bool {
							cv, ok := x.(*ssa.Call)
							return ok && core.CallOf(cv).Is(search)
						})
					}
					switch {
					case isPhi:
						seeded, advances := false, false
						for _, e := range phi.Edges {
							if fromSearch(e) {
								seeded = true
							}
							if inc, ok := e.(*ssa.BinOp); ok && inc.Op == token.ADD && (inc.X == ssa.Value(phi) || inc.Y == ssa.Value(phi)) {
								advances = true
							}
						}
						if !seeded || !advances {
							bad = "the index of the record whose password is compared is neither seeded by the binary search nor advanced in a loop (" + c.whereI(bo) + ")"
						}
					case fromSearch(idx):
						bad = "only the record at the binary search's position is examined (" + c.whereI(bo) + "): of several entries with the same username only the first one in file order can ever log in"
					default:
						// a linear scan over the whole table examines every record
						if core.InnermostLoop(core.Loops(g), bo.Block()) == nil {
							bad = "the record whose password is compared is chosen outside any loop (" + c.whereI(bo) + ")"
						}
					}
				}
			}
		}
	}
	ru.Check(bad == "" && n > 0, "records examined by "+c.fname(auth), c.whereF(auth), fmt.Sprintf("%d password comparison(s) against table records, each inside the scan over the matching records", n), bad+map[bool]string{true: "", false: "no comparison of the presented password with a table record found"}[n > 0 || bad != ""])
}

// ruleMountPointNeverEmpty implements C16-R10.
func (c *Ctx) ruleMountPointNeverEmpty(id string, authPkg string) {
	ru := c.R.Rule(id, "no record of the credential table gets an empty mount point: the value stored is a non-empty constant (the default) or a field of the line tested non-empty on the way ('user:hash:' names no mount point — its sessions belong to the default one, not to the root of every trie)", "E3 provenance + E2 control dependence of the record's MountPoint", 1)
	fh := c.P.Func(authPkg, "FileHandler")
	if !ru.Anchor(fh != nil, "auth.FileHandler") {
		return
	}
	type condPol struct {
		cond ssa.Value
		pol  bool
	}
	var nonEmpty func(v ssa.Value, at *ssa.BasicBlock, edgeTo *ssa.BasicBlock, depth int) bool
	nonEmpty = func(v ssa.Value, at *ssa.BasicBlock, edgeTo *ssa.BasicBlock, depth int) bool {
		if depth > 6 {
			return false
		}
		v = conversionsOnly(v)
		if k, ok := v.(*ssa.Const); ok {
			return k.Value != nil && k.Value.Kind() == constant.String && constant.StringVal(k.Value) != ""
		}
		if phi, ok := v.(*ssa.Phi); ok {
			for i, e := range phi.Edges {
				if i >= len(phi.Block().Preds) || !nonEmpty(e, phi.Block().Preds[i], phi.Block(), depth+1) {
					return false
				}
			}
			return true
		}
		// the result of a module function (mountPointOf(fields)): every value it returns, judged where it returns it
		if cv, ok := v.(*ssa.Call); ok {
			if g := cv.Call.StaticCallee(); g != nil && g.Pkg != nil && c.P.IsModPkg(g.Pkg.Pkg) && len(g.Blocks) > 0 && g.Signature.Results().Len() == 1 {
				nRet := 0
				for _, rb := range g.Blocks {
					if r, ok := rb.Instrs[len(rb.Instrs)-1].(*ssa.Return); ok && len(r.Results) == 1 {
						nRet++
						if !nonEmpty(r.Results[0], rb, nil, depth+1) {
							return false
						}
					}
				}
				return nRet > 0
			}
		}
		vt := core.Term(v)
		var conds []condPol
		for _, cc := range controllingConds(at, nil) {
			conds = append(conds, condPol{cc.cond, cc.pol})
		}
		// the value travels along the edge at -> edgeTo: the branch taken at the end of `at` counts too
		if edgeTo != nil {
			if iff, ok := at.Instrs[len(at.Instrs)-1].(*ssa.If); ok && len(at.Succs) == 2 && at.Succs[0] != at.Succs[1] {
				conds = append(conds, condPol{iff.Cond, at.Succs[0] == edgeTo})
			}
		}
		for _, cc := range conds {
			bo, ok := cc.cond.(*ssa.BinOp)
			if !ok {
				continue
			}
			for _, pair := range [][2]ssa.Value{{bo.X, bo.Y}, {bo.Y, bo.X}} {
				// v != ""   /   len(v) != 0, > 0
				if k, ok := pair[1].(*ssa.Const); ok && k.Value != nil && k.Value.Kind() == constant.String && constant.StringVal(k.Value) == "" && core.Term(pair[0]) == vt {
					if (bo.Op == token.NEQ) == cc.pol {
						return true
					}
				}
				if lc, ok := pair[0].(*ssa.Call); ok && core.CallOf(lc).Builtin() == "len" && core.Term(lc.Call.Args[0]) == vt {
					if kv, isK := constInt(pair[1]); isK && kv == 0 {
						op := bo.Op
						if pair[0] == bo.Y {
							op = map[token.Token]token.Token{token.LSS: token.GTR, token.GTR: token.LSS, token.LEQ: token.GEQ, token.GEQ: token.LEQ, token.EQL: token.EQL, token.NEQ: token.NEQ}[op]
						}
						if holds(op, 0, 0) != cc.pol {
							return true
						}
					}
				}
			}
		}
		return false
	}
	n, bad := 0, ""
	for _, g := range c.funcsDeep(fh, 3) {
		for _, b := range g.Blocks {
			for _, in := range b.Instrs {
				st, ok := in.(*ssa.Store)
				if !ok {
					continue
				}
				fa, ok := st.Addr.(*ssa.FieldAddr)
				if !ok || fieldNameOf(fa.X.Type(), fa.Field) != "MountPoint" {
					continue
				}
				nn, isNamedT := derefT(fa.X.Type()).(*types.Named)
				if !isNamedT || nn.Obj().Pkg() == nil || nn.Obj().Pkg().Path() != c.P.Rel(authPkg) || nn.Obj().Name() == "Principal" {
					continue
				}
				n++
				c.R.Fn(c.fname(g))
				v := st.Val
				if p, isP := core.Strip(v).(*ssa.Parameter); isP {
					// a constructor of records: judged at its call sites
					okAll := true
					for _, site := range c.P.StaticCallers(g) {
						args := site.Common().Args
						if i := paramIdx(p); i < len(args) && !nonEmpty(args[i], site.Block(), nil, 0) {
							okAll = false
						}
					}
					if !okAll {
						bad = "a record is built with a mount point that may be empty (" + c.whereI(st) + ")"
					}
					continue
				}
				// judged per path to the store: φs resolved, infeasible combinations of flags pruned
				okPaths := true
				target := b
				if ps, err := core.EnumPaths(g, core.PathOpts{Stop: func(bb *ssa.BasicBlock) bool { return bb == target }}); err == nil {
					for _, p := range ps {
						if len(p.Blocks) == 0 || p.Blocks[len(p.Blocks)-1] != target {
							continue
						}
						pv := conversionsOnly(p.Resolve(conversionsOnly(v)))
						if k, isK := pv.(*ssa.Const); isK {
							if k.Value == nil || k.Value.Kind() != constant.String || constant.StringVal(k.Value) == "" {
								okPaths = false
							}
							continue
						}
						tested := false
						pt := core.Term(pv)
						for _, d := range decisions(p) {
							bo, isB := d.Cond.(*ssa.BinOp)
							if !isB {
								continue
							}
							for _, pair := range [][2]ssa.Value{{bo.X, bo.Y}, {bo.Y, bo.X}} {
								if k, isK := pair[1].(*ssa.Const); isK && k.Value != nil && k.Value.Kind() == constant.String && constant.StringVal(k.Value) == "" && core.Term(conversionsOnly(p.Resolve(pair[0]))) == pt {
									if (bo.Op == token.NEQ) == d.Val {
										tested = true
									}
								}
								if lc, isC := pair[0].(*ssa.Call); isC && core.CallOf(lc).Builtin() == "len" && core.Term(conversionsOnly(p.Resolve(lc.Call.Args[0]))) == pt {
									if kv, isK := constInt(pair[1]); isK && kv == 0 {
										op := bo.Op
										if pair[0] == bo.Y {
											op = map[token.Token]token.Token{token.LSS: token.GTR, token.GTR: token.LSS, token.LEQ: token.GEQ, token.GEQ: token.LEQ, token.EQL: token.EQL, token.NEQ: token.NEQ}[op]
										}
										if holds(op, 0, 0) != d.Val {
											tested = true
										}
									}
								}
							}
						}
						if !tested {
							okPaths = false
						}
					}
				} else {
					okPaths = nonEmpty(v, b, nil, 0)
				}
				if !okPaths && !nonEmpty(v, b, nil, 0) {
					bad = "the mount point stored at " + c.whereI(st) + " (" + short(core.Term(v), 50) + ") is not known to be non-empty: a line 'user:hash:' puts the user's sessions in the mount point \"\""
				}
			}
		}
	}
	ru.Check(bad == "" && n > 0, "mount point of the records built by "+c.fname(fh), c.whereF(fh), fmt.Sprintf("%d store(s), each a non-empty constant or a value tested non-empty", n), bad+map[bool]string{true: "", false: "no record mount point is stored"}[n > 0 || bad != ""])
}

// ruleSessionIDNeverEmpty implements C16-R11: an accepted principal always carries a session identifier. The identifier
// is the key of the session record, of its subscriptions and of its in-flight entries; the merge routines refuse an
// entry whose identifier is empty — together with the rest of the batch or snapshot it travels in.
func (c *Ctx) ruleSessionIDNeverEmpty(id string, authPkg string) {
	ru := c.R.Rule(id, "every path on which an authentication handler accepts (nil error) returns a Principal whose ID is not empty: a generated identifier, a non-empty constant, or a value tested against \"\" on the way (an identifier taken as it comes from an external service may be empty: the session is then stored and announced under the key \"\", which every other node refuses, dropping the remainder of the batch or snapshot)", "E1 paths of each Authenticate implementation + field-sensitive resolution of the returned identifier", 2)
	am := c.P.IfaceMethod(authPkg, "AuthenticationHandler", "Authenticate")
	if !ru.Anchor(am != nil, "auth.AuthenticationHandler.Authenticate") {
		return
	}
	isEmptyConst := func(v ssa.Value) bool {
		k, ok := v.(*ssa.Const)
		return ok && k.Value != nil && k.Value.Kind() == constant.String && constant.StringVal(k.Value) == ""
	}
	var nonEmpty func(p *core.Path, v ssa.Value, before int, depth int) bool
	nonEmpty = func(p *core.Path, v ssa.Value, before int, depth int) bool {
		if depth > 4 || v == nil {
			return false
		}
		isGenerator := func(x *ssa.Call) bool {
			// the module's identifier generator: no input, a string out
			if g := x.Call.StaticCallee(); g != nil && g.Pkg != nil && c.P.IsModPkg(g.Pkg.Pkg) && len(g.Params) == 0 && g.Signature.Results().Len() == 1 {
				if b, ok := g.Signature.Results().At(0).Type().Underlying().(*types.Basic); ok && b.Kind() == types.String {
					return true
				}
			}
			return false
		}
		// resolve step by step, so that a call of the generator is recognised before its spliced-in body replaces it
		for i := 0; i < 16; i++ {
			v = core.Strip(v)
			if cv, ok := v.(*ssa.Call); ok && isGenerator(cv) {
				return true
			}
			var nv ssa.Value
			switch x := v.(type) {
			case *ssa.Phi:
				nv = p.Phi[x]
			case *ssa.Parameter:
				nv = p.Params[x]
			case *ssa.Extract:
				if rs, ok := p.Rets[x.Tuple]; ok && x.Index < len(rs) {
					nv = rs[x.Index]
				}
			case *ssa.Call:
				if rs, ok := p.Rets[x]; ok && len(rs) == 1 {
					nv = rs[0]
				}
			}
			if nv == nil {
				break
			}
			v = nv
		}
		v = core.Strip(v)
		switch x := v.(type) {
		case *ssa.Const:
			return x.Value != nil && x.Value.Kind() == constant.String && constant.StringVal(x.Value) != ""
		case *ssa.Call:
			if isGenerator(x) {
				return true
			}
			// the module's identifier generator: no input, a string out
			if g := x.Call.StaticCallee(); g != nil && g.Pkg != nil && c.P.IsModPkg(g.Pkg.Pkg) && len(g.Params) == 0 && g.Signature.Results().Len() == 1 {
				if b, ok := g.Signature.Results().At(0).Type().Underlying().(*types.Basic); ok && b.Kind() == types.String {
					return true
				}
			}
		case *ssa.UnOp:
			fa, ok := x.X.(*ssa.FieldAddr)
			if x.Op != token.MUL || !ok {
				return false
			}
			sameCell := func(o *ssa.FieldAddr) bool {
				return o.Field == fa.Field && core.Strip(p.Resolve(o.X)) == core.Strip(p.Resolve(fa.X))
			}
			flat := p.Instrs()
			at := len(flat)
			for i, pi := range flat {
				if pi.In == ssa.Instruction(x) {
					at = i
				}
			}
			if before >= 0 && before < at {
				at = before
			}
			// the last value stored into that field before the read
			for i := at - 1; i >= 0; i-- {
				if st, ok := flat[i].In.(*ssa.Store); ok {
					if o, ok := st.Addr.(*ssa.FieldAddr); ok && sameCell(o) {
						return nonEmpty(p, st.Val, i, depth+1)
					}
				}
			}
			// never stored on this path: tested against "" ?
			for _, d := range decisions(p) {
				bo, ok := d.Cond.(*ssa.BinOp)
				if !ok || (bo.Op != token.EQL && bo.Op != token.NEQ) {
					continue
				}
				for _, pair := range [][2]ssa.Value{{bo.X, bo.Y}, {bo.Y, bo.X}} {
					ld, ok := core.Strip(pair[0]).(*ssa.UnOp)
					if !ok || ld.Op != token.MUL || !isEmptyConst(pair[1]) {
						continue
					}
					if o, ok := ld.X.(*ssa.FieldAddr); ok && sameCell(o) && d.Val == (bo.Op == token.NEQ) {
						return true
					}
				}
			}
		}
		return false
	}
	for _, f := range c.P.Implementations(am) {
		if f.Pkg == nil || !c.P.IsModPkg(f.Pkg.Pkg) || c.P.IsGenerated(f) || len(f.Blocks) == 0 {
			continue
		}
		c.R.Fn(c.fname(f))
		key := "identifier of the principal accepted by " + c.fname(f)
		paths, err := c.pathsInlinedPkg(f, core.PathOpts{}, nil)
		if err != nil {
			ru.Undecided(key, c.whereF(f), err.Error())
			continue
		}
		n, bad := 0, ""
		for _, p := range paths {
			r, ok := p.Exit.(*ssa.Return)
			if !ok || len(r.Results) != 2 {
				continue
			}
			if isNil, known := p.ReturnsNilError(); !known || !isNil {
				continue
			}
			n++
			idv := c.principalField(p, r.Results[0], "ID")
			if idv == nil || !nonEmpty(p, idv, -1, 0) {
				what := "?"
				if idv != nil {
					what = short(core.Term(idv), 60)
				}
				bad = "an accepting path returns the identifier " + what + " without having made sure it is not empty: " + fmtPath(p, c.P)
			}
		}
		ru.Check(bad == "" && n > 0, key, c.whereF(f), fmt.Sprintf("%d accepting path(s), each returns a non-empty identifier", n), bad+map[bool]string{true: "", false: " no accepting path"}[n > 0])
	}
}

// ruleCredentialsReadOnly implements C16-R12: no function of wasp/auth writes through a byte-slice parameter. The
// username and the password of a CONNECT are sub-slices of one packet buffer: a helper that reuses its argument as
// scratch space (h.Sum(buf[:0]), append(buf[:0], …), copy(buf, …)) while fingerprinting the username overwrites the
// password that is compared next.
func (c *Ctx) ruleCredentialsReadOnly(id string, authPkg string) {
	ru := c.R.Rule(id, "the functions of wasp/auth never write through a []byte parameter: no element store, no copy into it, no append onto a re-slice of it, and no zero-length re-slice of it handed to another function as a buffer (the presented username and password share one packet buffer: reusing the first as scratch space corrupts the second before it is compared)", "E11 who-may-write on the byte-slice parameters of the package (positive control: such parameters counted)", 1)
	n, bad := 0, ""
	for _, f := range c.P.ModFuncs() {
		if f.Package() == nil || f.Package().Pkg.Path() != c.P.Rel(authPkg) || c.P.IsGenerated(f) {
			continue
		}
		for _, prm := range f.Params {
			sl, ok := prm.Type().Underlying().(*types.Slice)
			if !ok {
				continue
			}
			if b, ok := sl.Elem().Underlying().(*types.Basic); !ok || b.Kind() != types.Byte {
				continue
			}
			n++
			c.R.Fn(c.fname(f))
			isPrm := func(v ssa.Value) bool { return core.Strip(v) == ssa.Value(prm) }
			for _, b := range f.Blocks {
				for _, in := range b.Instrs {
					switch x := in.(type) {
					case *ssa.Store:
						if ia, ok := x.Addr.(*ssa.IndexAddr); ok && isPrm(ia.X) {
							bad = "an element of the parameter " + prm.Name() + " is overwritten at " + c.whereI(x)
						}
					case *ssa.Slice:
						if !isPrm(x.X) || x.High == nil || x.Referrers() == nil {
							continue
						}
						if k, ok := x.High.(*ssa.Const); !ok || k.Value == nil || k.Int64() != 0 {
							continue
						}
						// p[:0] keeps the capacity: whoever receives it appends into the caller's buffer
						for _, r := range *x.Referrers() {
							if cl := core.CallOf(r); cl != nil {
								bad = "the parameter " + prm.Name() + " is handed out as an empty buffer with its capacity (" + prm.Name() + "[:0]) at " + c.whereI(r) + ": what is appended lands in the caller's slice"
							}
						}
					}
					if cl := core.CallOf(in); cl != nil && cl.Builtin() == "copy" && len(cl.Common.Args) == 2 && isPrm(cl.Common.Args[0]) {
						bad = "copy into the parameter " + prm.Name() + " at " + c.whereI(in)
					}
				}
			}
		}
	}
	ru.Check(bad == "" && n > 0, "byte-slice parameters of wasp/auth", "-", fmt.Sprintf("%d parameter(s), none written through", n), bad)
}

// ruleConfiguredCredentialsVerbatim implements C16-R13: the configured credentials reach the handler constructors as
// they were read: no string transformation (trimming, case folding, replacing) between the configuration getter and
// StaticHandler / FileHandler. A trimmed password admits a candidate the operator never configured and refuses the
// configured one.
func (c *Ctx) ruleConfiguredCredentialsVerbatim(id string, authPkg string) {
	ru := c.R.Rule(id, "what the operator configured is what the credential handlers are built from: the arguments of auth.StaticHandler / auth.FileHandler at their call sites in the module do not pass through a function of package strings, bytes or unicode (a trimmed or case-folded password admits a pair that was never configured and refuses the configured one)", "E3 provenance of the constructor arguments (positive control: call sites counted)", 1)
	n, bad := 0, ""
	for _, name := range []string{"StaticHandler", "FileHandler"} {
		h := c.P.Func(authPkg, name)
		if h == nil {
			continue
		}
		for _, site := range c.P.StaticCallers(h) {
			n++
			c.R.Fn(c.fname(site.Parent()))
			for _, a := range site.Common().Args {
				depReaches(a, func(v ssa.Value) bool {
					cv, ok := v.(*ssa.Call)
					if !ok {
						return false
					}
					if g := cv.Call.StaticCallee(); g != nil && g.Pkg != nil {
						switch g.Pkg.Pkg.Path() {
						case "strings", "bytes", "unicode":
							bad = "an argument of auth." + name + " at " + c.whereI(site) + " passes through " + g.Pkg.Pkg.Path() + "." + g.Name() + ": the handler is built from something else than what was configured"
						}
					}
					return false
				})
			}
		}
	}
	ru.Check(bad == "" && n > 0, "call sites of the credential handler constructors", "-", fmt.Sprintf("%d call site(s), arguments handed over verbatim", n), bad+map[bool]string{true: "", false: " no call site of StaticHandler / FileHandler in the module"}[n > 0])
}
