package rules

import (
	"go/token"
	"go/types"
	"sort"
	"strings"

	"golang.org/x/tools/go/ssa"

	"waspcheck/internal/core"
)

// ---- lockset engine (E5) ----

type heldLock struct {
	base  string // canonical term of the struct that owns the mutex
	field string // name of the mutex field
	excl  bool
}

type lockset map[string]heldLock // key base|field

func (l lockset) clone() lockset {
	o := lockset{}
	for k, v := range l {
		o[k] = v
	}
	return o
}

func intersect(a, b lockset) lockset {
	o := lockset{}
	for k, v := range a {
		if w, ok := b[k]; ok {
			v.excl = v.excl && w.excl
			o[k] = v
		}
	}
	return o
}

func equalLS(a, b lockset) bool {
	if len(a) != len(b) {
		return false
	}
	for k, v := range a {
		if w, ok := b[k]; !ok || w != v {
			return false
		}
	}
	return true
}

// lockOp classifies a call as an operation on a sync mutex that is a struct field.
func lockOp(cl *core.Call) (base, field, op string, ok bool) {
	if cl == nil || cl.Obj == nil || cl.Obj.Pkg() == nil || cl.Obj.Pkg().Path() != "sync" {
		return
	}
	switch cl.Obj.Name() {
	case "Lock", "RLock", "Unlock", "RUnlock":
	default:
		return
	}
	if len(cl.Common.Args) == 0 {
		return
	}
	fa, isFA := cl.Common.Args[0].(*ssa.FieldAddr)
	if !isFA {
		return
	}
	return core.Term(fa.X), fieldNameOf(fa.X.Type(), fa.Field), cl.Obj.Name(), true
}

// funcLocks computes the must-hold lockset before every instruction of fn (deferred unlocks keep the lock until return).
type funcLocks struct {
	fn     *ssa.Function
	before map[ssa.Instruction]lockset
	// acquires: locks (by field name) this function takes on its receiver / first parameter
	acquiresOnRecv map[string]bool
}

// lockWrappers: summaries of small helper methods that only take or release a lock of their receiver
// (s.lock() / s.unlock()): callee -> field -> effect ("Lock", "RLock", "Unlock").
var lockWrappers = map[*ssa.Function]map[string]string{}

// lockReleasers: wrappers that take a lock of their receiver and return the function that releases it
// (defer s.locked()()): callee -> field.
var lockReleasers = map[*ssa.Function]map[string]bool{}

// releasedBy: the dynamic call cl invokes the release function returned by a lock-taking wrapper; returns that wrapper call.
func releasedBy(cl *core.Call) *ssa.Call {
	if cl == nil || cl.Static != nil || cl.Invoke || cl.Common == nil {
		return nil
	}
	cv, ok := cl.Common.Value.(*ssa.Call)
	if !ok {
		return nil
	}
	if g := cv.Call.StaticCallee(); g != nil && len(lockReleasers[g]) > 0 {
		return cv
	}
	return nil
}

// returnsRelease: every return of wrapper f yields a function that unlocks field fd of f's receiver.
func returnsRelease(f *ssa.Function, fd string) bool {
	n := 0
	for _, rv := range returnValues(f) {
		n++
		mc, ok := core.Strip(rv).(*ssa.MakeClosure)
		if !ok {
			return false
		}
		target := closureArg(mc)
		if target == nil {
			return false
		}
		found := false
		if target.Pkg != nil && target.Pkg.Pkg.Path() == "sync" && (target.Name() == "Unlock" || target.Name() == "RUnlock") {
			// bound method value s.mtx.Unlock: the binding is the address of the field
			if len(mc.Bindings) == 1 {
				if fa, isFA := mc.Bindings[0].(*ssa.FieldAddr); isFA && core.Term(fa.X) == "P0" && fieldNameOf(fa.X.Type(), fa.Field) == fd {
					found = true
				}
			}
		} else {
			for _, cl := range core.CallsIn(target) {
				if bs, f2, op, ok := lockOp(cl); ok && bs == "P0" && f2 == fd && (op == "Unlock" || op == "RUnlock") {
					found = true
				}
			}
		}
		if !found {
			return false
		}
	}
	return n > 0
}

func computeLocks(fn *ssa.Function, entry lockset) *funcLocks {
	fl := &funcLocks{fn: fn, before: map[ssa.Instruction]lockset{}, acquiresOnRecv: map[string]bool{}}
	if len(fn.Blocks) == 0 {
		return fl
	}
	in := map[*ssa.BasicBlock]lockset{}
	out := map[*ssa.BasicBlock]lockset{}
	visited := map[*ssa.BasicBlock]bool{}
	if entry == nil {
		entry = lockset{}
	}
	work := []*ssa.BasicBlock{fn.Blocks[0]}
	in[fn.Blocks[0]] = entry
	for len(work) > 0 {
		b := work[0]
		work = work[1:]
		cur := in[b].clone()
		for _, instr := range b.Instrs {
			fl.before[instr] = cur.clone()
			if _, isDefer := instr.(*ssa.Defer); isDefer {
				continue
			}
			if _, isGo := instr.(*ssa.Go); isGo {
				continue
			}
			base, field, op, ok := lockOp(core.CallOf(instr))
			if !ok {
				if rc := releasedBy(core.CallOf(instr)); rc != nil && len(rc.Call.Args) > 0 {
					wb := core.Term(rc.Call.Args[0])
					for f := range lockReleasers[rc.Call.StaticCallee()] {
						delete(cur, wb+"|"+f)
					}
					continue
				}
				// a call to a lock / unlock wrapper of the same kind of object
				if cl := core.CallOf(instr); cl != nil && cl.Static != nil && len(cl.Common.Args) > 0 {
					if eff, isW := lockWrappers[cl.Static]; isW {
						wb := core.Term(cl.Common.Args[0])
						for f, e := range eff {
							k := wb + "|" + f
							switch e {
							case "Lock":
								cur[k] = heldLock{wb, f, true}
							case "RLock":
								cur[k] = heldLock{wb, f, false}
							case "Unlock":
								delete(cur, k)
							}
							if wb == "P0" && e != "Unlock" {
								fl.acquiresOnRecv[f] = true
							}
						}
					}
				}
				continue
			}
			k := base + "|" + field
			switch op {
			case "Lock":
				cur[k] = heldLock{base, field, true}
				if base == "P0" {
					fl.acquiresOnRecv[field] = true
				}
			case "RLock":
				cur[k] = heldLock{base, field, false}
				if base == "P0" {
					fl.acquiresOnRecv[field] = true
				}
			case "Unlock", "RUnlock":
				delete(cur, k)
			}
		}
		if old, ok := out[b]; ok && visited[b] && equalLS(old, cur) {
			continue
		}
		visited[b] = true
		out[b] = cur
		for _, s := range b.Succs {
			var ns lockset
			if prev, ok := in[s]; ok {
				ns = intersect(prev, cur)
				if equalLS(ns, prev) && visited[s] {
					continue
				}
			} else {
				ns = cur.clone()
			}
			in[s] = ns
			work = append(work, s)
		}
	}
	return fl
}

var mutMemo = map[*ssa.Function]int{}

// modOnly restricts receiver-mutation summaries to functions of the analysed module.
var modOnly = func(f *ssa.Function) bool {
	return theProg != nil && f.Pkg != nil && theProg.IsModPkg(f.Pkg.Pkg) && !theProg.IsGenerated(f)
}

// ---- monitors ----

type monitor struct {
	named  *types.Named
	locks  []string // mutex field names
	fields map[string]*memberInfo
}

type memberInfo struct {
	name     string
	mutated  bool           // assigned after construction, or mutated in place
	guardBy  map[string]int // lock field -> number of accesses holding it
	accesses []*memberAccess
}

type memberAccess struct {
	fn    *ssa.Function
	instr ssa.Instruction
	base  ssa.Value
	write bool
	ctor  bool
	held  lockset
}

func isMutexType(t types.Type) bool {
	return isNamed(t, "sync", "Mutex") || isNamed(t, "sync", "RWMutex")
}

// monitors finds the module's struct types that own a mutex.
func (c *Ctx) monitors() []*monitor {
	var out []*monitor
	for _, pkg := range c.P.Mod {
		sc := pkg.Types.Scope()
		for _, name := range sc.Names() {
			tn, ok := sc.Lookup(name).(*types.TypeName)
			if !ok {
				continue
			}
			named, ok := tn.Type().(*types.Named)
			if !ok {
				continue
			}
			st, ok := named.Underlying().(*types.Struct)
			if !ok {
				continue
			}
			if strings.HasSuffix(c.P.File(tn.Pos()), ".pb.go") {
				continue
			}
			m := &monitor{named: named, fields: map[string]*memberInfo{}}
			for i := 0; i < st.NumFields(); i++ {
				if isMutexType(st.Field(i).Type()) {
					m.locks = append(m.locks, st.Field(i).Name())
				}
			}
			if len(m.locks) > 0 {
				out = append(out, m)
			}
		}
	}
	sort.Slice(out, func(i, j int) bool { return out[i].named.String() < out[j].named.String() })
	return out
}

func (c *Ctx) monitorOf(ms []*monitor, t types.Type) *monitor {
	t = derefT(t)
	for _, m := range ms {
		if types.Identical(t, m.named) {
			return m
		}
	}
	return nil
}

// isWriteUse: the value loaded from a map/slice field is mutated in place.
func inPlaceMutation(ld *ssa.UnOp) bool {
	if ld.Referrers() == nil {
		return false
	}
	for _, r := range *ld.Referrers() {
		switch u := r.(type) {
		case *ssa.Call:
			// the guarded pointer is the receiver of a method that mutates the object it points to
			if sc := u.Call.StaticCallee(); sc != nil && len(u.Call.Args) > 0 && u.Call.Args[0] == ssa.Value(ld) {
				if _, isPtr := ld.Type().Underlying().(*types.Pointer); isPtr && mutatesReceiver(sc, mutMemo) {
					return true
				}
			}
			if b, ok := u.Call.Value.(*ssa.Builtin); ok && b.Name() == "delete" && len(u.Call.Args) > 0 && u.Call.Args[0] == ssa.Value(ld) {
				return true
			}
		case *ssa.MapUpdate:
			if u.Map == ssa.Value(ld) {
				return true
			}
		case *ssa.IndexAddr:
			if u.X == ssa.Value(ld) && u.Referrers() != nil {
				for _, rr := range *u.Referrers() {
					if st, ok := rr.(*ssa.Store); ok && st.Addr == ssa.Value(u) {
						return true
					}
				}
			}
		}
	}
	return false
}

// mutatesReceiver: fn stores through its first parameter (fields, elements, map entries of the object it points to, transitively through values read out of it), or passes it on to a static callee that does.
func mutatesReceiver(fn *ssa.Function, memo map[*ssa.Function]int) bool {
	if fn == nil || len(fn.Params) == 0 || len(fn.Blocks) == 0 || modOnly == nil || !modOnly(fn) {
		return false // third-party internals are contracts, not analysed
	}
	if v, ok := memo[fn]; ok {
		return v == 1
	}
	memo[fn] = 0
	p0 := ssa.Value(fn.Params[0])
	fromP0 := func(v ssa.Value) bool {
		return containerReachesLoads(v, func(x ssa.Value) bool { return x == p0 })
	}
	for _, b := range fn.Blocks {
		for _, in := range b.Instrs {
			switch x := in.(type) {
			case *ssa.Store:
				switch a := x.Addr.(type) {
				case *ssa.FieldAddr:
					if fromP0(a.X) {
						memo[fn] = 1
						return true
					}
				case *ssa.IndexAddr:
					if fromP0(a.X) {
						memo[fn] = 1
						return true
					}
				}
			case *ssa.MapUpdate:
				if fromP0(x.Map) {
					memo[fn] = 1
					return true
				}
			case *ssa.Call:
				if bi, ok := x.Call.Value.(*ssa.Builtin); ok && bi.Name() == "delete" && fromP0(x.Call.Args[0]) {
					memo[fn] = 1
					return true
				}
				if sc := x.Call.StaticCallee(); sc != nil && len(x.Call.Args) > 0 && sc != fn && fromP0(x.Call.Args[0]) {
					if _, isPtr := x.Call.Args[0].Type().Underlying().(*types.Pointer); isPtr && mutatesReceiver(sc, memo) {
						memo[fn] = 1
						return true
					}
				}
			}
		}
	}
	return false
}

// containerReachesLoads: v is the object pred denotes, or something read out of it (field loads, element loads, map lookups, phis), without crossing calls.
func containerReachesLoads(v ssa.Value, pred func(ssa.Value) bool) bool {
	seen := map[ssa.Value]bool{}
	var walk func(v ssa.Value, d int) bool
	walk = func(v ssa.Value, d int) bool {
		if v == nil || seen[v] || d > 40 {
			return false
		}
		seen[v] = true
		if pred(v) {
			return true
		}
		switch x := v.(type) {
		case *ssa.FieldAddr:
			return walk(x.X, d+1)
		case *ssa.IndexAddr:
			return walk(x.X, d+1)
		case *ssa.Field:
			return walk(x.X, d+1)
		case *ssa.Lookup:
			return walk(x.X, d+1)
		case *ssa.UnOp:
			return walk(x.X, d+1)
		case *ssa.Extract:
			return walk(x.Tuple, d+1)
		case *ssa.Next:
			return walk(x.Iter, d+1)
		case *ssa.Range:
			return walk(x.X, d+1)
		case *ssa.Phi:
			for _, e := range x.Edges {
				if walk(e, d+1) {
					return true
				}
			}
		case *ssa.Alloc:
			for _, st := range allStoresTo(x) {
				if walk(st.Val, d+1) {
					return true
				}
			}
		case *ssa.Slice:
			return walk(x.X, d+1)
		case *ssa.ChangeType:
			return walk(x.X, d+1)
		}
		return false
	}
	return walk(v, 0)
}

// lockAnalysis holds the whole-module result.
type lockAnalysis struct {
	wrappers  map[*ssa.Function]map[string]string
	releasers map[*ssa.Function]map[string]bool
	c         *Ctx
	monitors  []*monitor
	locks     map[*ssa.Function]*funcLocks
}

var laCache = map[*core.Prog]*lockAnalysis{}

// lockAnalysis computes (once per loaded program) the module-wide lockset facts.
func (c *Ctx) lockAnalysis() *lockAnalysis {
	if la, ok := laCache[c.P]; ok {
		lockWrappers, lockReleasers = la.wrappers, la.releasers
		return la
	}
	la := c.lockAnalysis0()
	la.wrappers, la.releasers = lockWrappers, lockReleasers
	laCache[c.P] = la
	return la
}

func (c *Ctx) lockAnalysis0() *lockAnalysis {
	la := &lockAnalysis{c: c, monitors: c.monitors(), locks: map[*ssa.Function]*funcLocks{}}
	mutMemo = map[*ssa.Function]int{}
	lockWrappers = map[*ssa.Function]map[string]string{}
	lockReleasers = map[*ssa.Function]map[string]bool{}
	for round := 0; round < 2; round++ {
		for _, f := range c.P.ModFuncs() {
			la.locks[f] = computeLocks(f, nil)
		}
		// derive wrapper summaries: every return holds a receiver lock that was not held at entry / an unlock that leaves nothing held
		for _, f := range c.P.ModFuncs() {
			if f.Parent() != nil || len(f.Params) == 0 || f.Signature.Recv() == nil {
				continue
			}
			fl := la.locks[f]
			eff := map[string]string{}
			var rets []ssa.Instruction
			unlocks := map[string]bool{}
			hasDefer := false
			for _, b := range f.Blocks {
				for _, in := range b.Instrs {
					if _, isD := in.(*ssa.Defer); isD {
						hasDefer = true
						continue
					}
					if r, ok := in.(*ssa.Return); ok {
						rets = append(rets, r)
					}
					if bs, fd, op, ok := lockOp(core.CallOf(in)); ok && bs == "P0" && (op == "Unlock" || op == "RUnlock") {
						unlocks[fd] = true
					}
				}
			}
			if len(rets) == 0 || hasDefer {
				continue
			}
			first := fl.before[rets[0]]
			for k, h := range first {
				if h.base != "P0" {
					continue
				}
				all := true
				for _, r := range rets[1:] {
					if h2, ok := fl.before[r][k]; !ok || h2.excl != h.excl {
						all = false
					}
				}
				if all {
					if h.excl {
						eff[h.field] = "Lock"
					} else {
						eff[h.field] = "RLock"
					}
				}
			}
			for fd := range unlocks {
				held := false
				for _, r := range rets {
					if _, ok := fl.before[r]["P0|"+fd]; ok {
						held = true
					}
				}
				if !held {
					eff[fd] = "Unlock"
				}
			}
			if len(eff) > 0 {
				lockWrappers[f] = eff
				for fd, e := range eff {
					if e != "Unlock" && returnsRelease(f, fd) {
						if lockReleasers[f] == nil {
							lockReleasers[f] = map[string]bool{}
						}
						lockReleasers[f][fd] = true
					}
				}
			}
		}
		if len(lockWrappers) == 0 {
			break
		}
	}
	// closures run by a lock-holding runner (s.writing(func() { ... })): the runner invokes its function parameter only
	// while holding a lock of its receiver, so the literal's body runs under that lock of the receiver passed.
	type runnerSum struct {
		field string
		excl  bool
	}
	// runnerArgs: the guarded members the runner hands to the function it runs (f(s.sessions)): runner -> function
	// parameter index -> argument position of f -> member name
	runnerArgs := map[*ssa.Function]map[int]map[int]string{}
	type aliasSite struct {
		cf     *ssa.Function // the literal run under the lock
		recv   ssa.Value     // the monitor the runner was called on, in the caller's frame
		member map[int]string
	}
	var aliasSites []aliasSite
	runners := map[*ssa.Function]map[int]runnerSum{}
	for _, f := range c.P.ModFuncs() {
		if f.Parent() != nil || f.Signature.Recv() == nil {
			continue
		}
		for i, prm := range f.Params {
			if _, isSig := prm.Type().Underlying().(*types.Signature); !isSig || i == 0 || prm.Referrers() == nil {
				continue
			}
			var sum *runnerSum
			okAll := true
			for _, r := range *prm.Referrers() {
				if _, isDbg := r.(*ssa.DebugRef); isDbg {
					continue
				}
				ci, isCall := r.(*ssa.Call)
				if !isCall || ci.Call.Value != ssa.Value(prm) {
					okAll = false
					break
				}
				var here *runnerSum
				for _, h := range la.locks[f].before[ci] {
					if h.base == "P0" {
						here = &runnerSum{h.field, h.excl}
					}
				}
				if here == nil || (sum != nil && *sum != *here) {
					okAll = false
					break
				}
				sum = here
				for k, a := range ci.Call.Args {
					if ld, isLd := a.(*ssa.UnOp); isLd && ld.Op == token.MUL {
						if fa, isFA := ld.X.(*ssa.FieldAddr); isFA && fa.X == ssa.Value(f.Params[0]) {
							if runnerArgs[f] == nil {
								runnerArgs[f] = map[int]map[int]string{}
							}
							if runnerArgs[f][i] == nil {
								runnerArgs[f][i] = map[int]string{}
							}
							runnerArgs[f][i][k] = fieldNameOf(fa.X.Type(), fa.Field)
						}
					}
				}
			}
			if okAll && sum != nil {
				if runners[f] == nil {
					runners[f] = map[int]runnerSum{}
				}
				runners[f][i] = *sum
			}
		}
	}
	if len(runners) > 0 {
		for _, f := range c.P.ModFuncs() {
			for _, cl := range core.CallsIn(f) {
				if cl.Static == nil || runners[cl.Static] == nil || len(cl.Common.Args) == 0 {
					continue
				}
				if _, isGo := cl.Instr.(*ssa.Go); isGo {
					continue
				}
				for i, rs := range runners[cl.Static] {
					if i >= len(cl.Common.Args) {
						continue
					}
					mc, isMC := cl.Common.Args[i].(*ssa.MakeClosure)
					if !isMC || mc.Referrers() == nil {
						continue
					}
					only := true
					for _, r := range *mc.Referrers() {
						if _, isDbg := r.(*ssa.DebugRef); !isDbg && r != cl.Instr {
							only = false
						}
					}
					cf, _ := mc.Fn.(*ssa.Function)
					if !only || cf == nil {
						continue
					}
					wb := core.Term(cl.Common.Args[0])
					la.locks[cf] = computeLocks(cf, lockset{wb + "|" + rs.field: heldLock{wb, rs.field, rs.excl}})
					if ra := runnerArgs[cl.Static][i]; len(ra) > 0 {
						aliasSites = append(aliasSites, aliasSite{cf, cl.Common.Args[0], ra})
					}
				}
			}
		}
	}
	// collect accesses
	for _, f := range c.P.ModFuncs() {
		fl := la.locks[f]
		for _, b := range f.Blocks {
			for _, in := range b.Instrs {
				fa, ok := in.(*ssa.FieldAddr)
				if !ok {
					continue
				}
				m := c.monitorOf(la.monitors, fa.X.Type())
				if m == nil {
					continue
				}
				name := fieldNameOf(fa.X.Type(), fa.Field)
				isLock := false
				for _, l := range m.locks {
					if l == name {
						isLock = true
					}
				}
				if isLock || fa.Referrers() == nil {
					continue
				}
				mi := m.fields[name]
				if mi == nil {
					mi = &memberInfo{name: name, guardBy: map[string]int{}}
					m.fields[name] = mi
				}
				_, ctor := core.Strip(fa.X).(*ssa.Alloc)
				for _, r := range *fa.Referrers() {
					acc := &memberAccess{fn: f, instr: r, base: fa.X, ctor: ctor, held: fl.before[r]}
					switch u := r.(type) {
					case *ssa.Store:
						if u.Addr != ssa.Value(fa) {
							continue
						}
						acc.write = true
					case *ssa.UnOp:
						if u.Op != token.MUL {
							continue
						}
						acc.write = inPlaceMutation(u)
					case *ssa.DebugRef:
						continue
					default:
						// address taken (method call on a struct-valued field, &x.f passed on): treat as read
					}
					if acc.write && !ctor {
						mi.mutated = true
					}
					bt := core.Term(fa.X)
					for _, h := range acc.held {
						if h.base == bt {
							mi.guardBy[h.field]++
						}
					}
					mi.accesses = append(mi.accesses, acc)
				}
			}
		}
	}
	// accesses made through a parameter that stands for a guarded member (the literal run by s.writing(func(registry) {…})
	// works on registry, which is s.sessions loaded under the lock by the runner)
	for _, as := range aliasSites {
		m := c.monitorOf(la.monitors, as.recv.Type())
		if m == nil {
			continue
		}
		fl := la.locks[as.cf]
		for k, name := range as.member {
			if k >= len(as.cf.Params) || as.cf.Params[k].Referrers() == nil {
				continue
			}
			mi := m.fields[name]
			if mi == nil {
				mi = &memberInfo{name: name, guardBy: map[string]int{}}
				m.fields[name] = mi
			}
			bt := core.Term(as.recv)
			for _, r := range *as.cf.Params[k].Referrers() {
				acc := &memberAccess{fn: as.cf, instr: r, base: as.recv, held: fl.before[r]}
				switch u := r.(type) {
				case *ssa.DebugRef:
					continue
				case *ssa.MapUpdate:
					acc.write = true
				case *ssa.Call:
					if b, isB := u.Call.Value.(*ssa.Builtin); isB && b.Name() == "delete" {
						acc.write = true
					}
				case *ssa.IndexAddr:
					if u.Referrers() != nil {
						for _, rr := range *u.Referrers() {
							if st, isSt := rr.(*ssa.Store); isSt && st.Addr == ssa.Value(u) {
								acc.write = true
							}
						}
					}
				}
				if acc.write {
					mi.mutated = true
				}
				for _, h := range acc.held {
					if h.base == bt {
						mi.guardBy[h.field]++
					}
				}
				mi.accesses = append(mi.accesses, acc)
			}
		}
	}
	return la
}

// guardLock returns the lock field that guards a member: the one held at every locked access; "" if the member is not guarded.
func (mi *memberInfo) guardLock() string {
	if !mi.mutated {
		return ""
	}
	best, n := "", 0
	for l, k := range mi.guardBy {
		if k > n || (k == n && l < best) {
			best, n = l, k
		}
	}
	return best
}

// heldFor: does the lockset contain lock `field` of the struct denoted by base (mode: exclusive required?)
func heldFor(ls lockset, base, field string, needExcl bool) bool {
	h, ok := ls[base+"|"+field]
	if !ok {
		return false
	}
	return h.excl || !needExcl
}

// callersHold: every module call site of fn holds lock `field` on the struct passed as fn's parameter pidx (up to depth levels of helpers).
func (la *lockAnalysis) callersHold(fn *ssa.Function, pidx int, field string, needExcl bool, depth int, seen map[*ssa.Function]bool) (bool, string) {
	if seen[fn] {
		return true, ""
	}
	seen[fn] = true
	c := la.c
	sites := c.P.StaticCallers(fn)
	if fn.Parent() != nil {
		// closure: it runs under whatever is held where it is created, unless it is started as a goroutine
		ok := true
		why := ""
		for _, mc := range c.P.ClosureSites(fn) {
			if mc.Referrers() != nil {
				for _, r := range *mc.Referrers() {
					if _, isGo := r.(*ssa.Go); isGo {
						return false, "the closure runs as a goroutine"
					}
				}
			}
			// translate: which value does the closure's base denote in the parent? terms are already resolved through free-variable bindings
			_ = mc
			ok = ok && true
		}
		return ok, why
	}
	if len(sites) == 0 {
		return false, "no call site holds the lock (the function has no caller in the module)"
	}
	for _, site := range sites {
		if _, isGo := site.(*ssa.Go); isGo {
			return false, "started as a goroutine at " + c.whereI(site)
		}
		caller := site.Parent()
		args := site.Common().Args
		if pidx >= len(args) {
			return false, "argument mismatch"
		}
		base := core.Term(args[pidx])
		ls := la.locks[caller].before[site]
		if heldFor(ls, base, field, needExcl) {
			continue
		}
		// the caller may itself be a helper on the same object
		if depth > 0 {
			if p, ok := core.Strip(args[pidx]).(*ssa.Parameter); ok && p.Parent() == caller {
				if ok2, _ := la.callersHold(caller, paramIdx(p), field, needExcl, depth-1, seen); ok2 {
					continue
				}
			}
		}
		return false, "called without the lock at " + c.whereI(site)
	}
	return true, ""
}
