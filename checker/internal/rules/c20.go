package rules

import (
	"fmt"
	"go/token"
	"go/types"
	"sort"
	"strings"

	"golang.org/x/tools/go/ssa"

	"waspcheck/internal/core"
)

func init() { register("C20", checkC20) }

func checkC20(c *Ctx) {
	c.R.Explanation = "Monitor discipline decided by a must-hold lockset analysis over every function of the module: monitors are the non-generated struct types that own a sync.Mutex/RWMutex; a member is guarded when it is mutated after construction and accessed at least once under one of the monitor's locks (recomputed from the code on every run). (R1) every access to a guarded member holds its lock — exclusively for writes — or is on a not-yet-published object, or sits in a helper whose every call site holds the lock; (R2) every Lock/RLock is released on every path, and no method that takes a monitor's lock is called while that lock is held; (R3) no check-then-act across a lock gap: a write to a guarded member in one critical section does not depend on a read of it in an earlier, already released one without re-reading; (R4) no method hands out a guarded map or slice itself."
	c.R.NotCovered = "gotomic lock-free internals, logical races not expressible as lock discipline (e.g. a bucket found under the list lock and used after it was released), channel protocols, anything dynamic; the race detector is not run."
	c.R.Assume("sync.Mutex / RWMutex semantics; callbacks passed to the tries run synchronously in the caller's critical section")
	la := c.lockAnalysis()
	ru1 := c.R.Rule("C20-R1", "every access to a guarded member of a monitor holds the monitor's lock (exclusively for writes), unless the object is still under construction or the function is a helper whose every call site holds it", "E5 lockset (forward must-hold dataflow) + requires-lock summaries over static callers", 5)
	guarded := []string{}
	for _, m := range la.monitors {
		names := make([]string, 0, len(m.fields))
		for n := range m.fields {
			names = append(names, n)
		}
		sort.Strings(names)
		for _, n := range names {
			mi := m.fields[n]
			gl := mi.guardLock()
			if gl == "" {
				continue
			}
			mname := shortType(c, m.named)
			guarded = append(guarded, mname+"."+n+" by "+gl)
			bad := ""
			for _, a := range mi.accesses {
				c.R.Fn(c.fname(a.fn))
				if a.ctor {
					continue
				}
				base := core.Term(a.base)
				if heldFor(a.held, base, gl, a.write) {
					continue
				}
				if heldFor(a.held, base, gl, false) && a.write {
					bad = fmt.Sprintf("%s.%s is written at %s while %s is only read-locked: concurrent readers and this writer race", mname, n, c.whereI(a.instr), gl)
					break
				}
				// reviewed exception: diagnostic Stringer without call sites
				if (a.fn.Name() == "String" || a.fn.Name() == "GoString") && len(c.P.StaticCallers(a.fn)) == 0 && !a.write {
					continue
				}
				// helper: callers must hold it
				ok, why := false, "the base object is not the function's parameter"
				if p, isP := core.Strip(a.base).(*ssa.Parameter); isP && p.Parent() == a.fn {
					ok, why = la.callersHold(a.fn, paramIdx(p), gl, a.write, 3, map[*ssa.Function]bool{})
				} else if a.fn.Parent() != nil {
					// closure: judged where it is created
					ok, why = la.closureCreatedUnder(a.fn, base, gl, a.write)
				}
				if !ok {
					bad = fmt.Sprintf("%s.%s is %s at %s without holding %s (%s): concurrent use tears or loses updates", mname, n, map[bool]string{true: "written", false: "read"}[a.write], c.whereI(a.instr), gl, why)
					break
				}
			}
			ru1.Evals(len(mi.accesses))
			ru1.Check(bad == "", "guarded member "+mname+"."+n+" (lock "+gl+")", c.P.Pos(m.named.Obj().Pos()), fmt.Sprintf("%d access(es), all under %s", len(mi.accesses), gl), bad)
		}
	}
	c.R.Extra["monitors"] = len(la.monitors)
	c.R.Extra["guarded_members"] = guarded

	// R2
	ru2 := c.R.Rule("C20-R2", "every Lock/RLock is released on every path to a return (directly or by a deferred unlock), and no function that acquires a monitor's lock on its receiver is called while the caller holds that same lock", "E5 lockset + path search", 8)
	for _, f := range c.P.ModFuncs() {
		fl := la.locks[f]
		for _, b := range f.Blocks {
			for _, in := range b.Instrs {
				if _, isDefer := in.(*ssa.Defer); isDefer {
					continue
				}
				cl := core.CallOf(in)
				base, field, op, ok := lockEffect(cl)
				if _, isWrapper := lockWrappers[f]; isWrapper {
					ok = false // a lock()/unlock() helper: judged at its call sites
				}
				if ok && (op == "Lock" || op == "RLock") {
					key := fmt.Sprintf("%s of %s.%s in %s", op, short(base, 40), field, c.fname(f))
					want := map[string]string{"Lock": "Unlock", "RLock": "RUnlock"}[op]
					if _, _, _, direct := lockOp(cl); !direct {
						want = "Unlock"
					}
					deferred := false
					for _, b2 := range f.Blocks {
						for _, in2 := range b2.Instrs {
							if d, isD := in2.(*ssa.Defer); isD {
								b3, f3, o3, ok3 := lockEffect(core.CallOf(d))
								if ok3 && b3 == base && f3 == field && o3 == want && (core.Dominates(in, d) || core.Dominates(d, in)) {
									deferred = true
								}
								// defer s.locked()(): the deferred function is the release returned by this very acquisition
								if rc := releasedBy(core.CallOf(d)); rc != nil && ssa.Instruction(rc) == in {
									deferred = true
								}
							}
						}
					}
					leak := false
					if !deferred {
						leak = core.ReachableAvoiding(in, core.IsReturn, func(x ssa.Instruction) bool {
							if _, isD := x.(*ssa.Defer); isD {
								return false
							}
							if rc := releasedBy(core.CallOf(x)); rc != nil && ssa.Instruction(rc) == in {
								return true
							}
							b3, f3, o3, ok3 := lockEffect(core.CallOf(x))
							return ok3 && b3 == base && f3 == field && (o3 == want || o3 == "Unlock")
						})
					}
					ru2.Check(!leak, key, c.whereI(in), "released on every path", "a path reaches a return with the lock still held: every later user of the monitor blocks forever")
				}
				// self-deadlock
				if cl != nil && cl.Static != nil && len(cl.Common.Args) > 0 {
					callee := la.locks[cl.Static]
					if callee != nil && len(callee.acquiresOnRecv) > 0 {
						abase := core.Term(cl.Common.Args[0])
						for lf := range callee.acquiresOnRecv {
							if heldFor(fl.before[in], abase, lf, false) {
								ru2.Fail(fmt.Sprintf("call of %s while holding %s.%s in %s", c.fname(cl.Static), short(abase, 40), lf, c.fname(f)), c.whereI(in), "the callee locks the same (non-reentrant) mutex the caller already holds: deadlock")
							}
						}
					}
				}
			}
		}
	}

	c.ruleGoCapturesLoopVar("C20-R5")
	c.ruleStoreWritesExclusive("C20-R6")
	c.ruleElementsFilledUnderContainerLock("C20-R7")
	c.ruleRegisteredBeforeServed("C20-R8")

	// R3
	ru3 := c.R.Rule("C20-R3", "no check-then-act across a lock gap: when a function releases a monitor's lock and takes it again, a write to a guarded member in the later critical section is preceded, in that same section, by a fresh read of that member; and when the later section is entered on the strength of a test made in the earlier one (or of the answer of a method of the monitor that locked for itself), it tests the member again before it changes it", "E5 critical-section structure + E2 control dependence", 1)
	for _, f := range c.P.ModFuncs() {
		fl := la.locks[f]
		// does f unlock (non-deferred) and later lock the same mutex again?
		for _, b := range f.Blocks {
			for _, in := range b.Instrs {
				if _, isDefer := in.(*ssa.Defer); isDefer {
					continue
				}
				base, field, op, ok := lockOp(core.CallOf(in))
				if !ok {
					// a call of a method of the same monitor that takes (and releases) the lock itself is a critical section that has ended
					if cl := core.CallOf(in); cl != nil && cl.Static != nil && len(cl.Common.Args) > 0 && la.locks[cl.Static] != nil && len(la.locks[cl.Static].acquiresOnRecv) > 0 {
						if _, isWrapper := lockWrappers[cl.Static]; !isWrapper {
							for lf := range la.locks[cl.Static].acquiresOnRecv {
								base, field, op, ok = core.Term(cl.Common.Args[0]), lf, "Unlock", true
							}
						}
					}
				}
				if !ok || (op != "Unlock" && op != "RUnlock") {
					continue
				}
				var relock ssa.Instruction
				for _, b2 := range f.Blocks {
					for _, in2 := range b2.Instrs {
						if _, isDefer := in2.(*ssa.Defer); isDefer {
							continue
						}
						b3, f3, o3, ok3 := lockOp(core.CallOf(in2))
						if ok3 && b3 == base && f3 == field && (o3 == "Lock" || o3 == "RLock") && reachesInstr(in, in2) {
							relock = in2
						}
					}
				}
				if relock == nil {
					continue
				}
				key := fmt.Sprintf("lock gap on %s.%s in %s", short(base, 40), field, c.fname(f))
				// writes to guarded members after the relock must be dominated by a read of the same member after the relock
				bad := ""
				for _, m := range la.monitors {
					for n, mi := range m.fields {
						if mi.guardLock() != field {
							continue
						}
						for _, a := range mi.accesses {
							if a.fn != f || !a.write || !core.Dominates(relock, a.instr) || core.Term(a.base) != base {
								continue
							}
							reread := false
							for _, a2 := range mi.accesses {
								if a2.fn == f && a2 != a && core.Dominates(relock, a2.instr) && core.Dominates(a2.instr, a.instr) && core.Term(a2.base) == base {
									reread = true
								}
							}
							if !reread {
								bad = fmt.Sprintf("%s is written after the lock was dropped and re-taken, based on what was read before the gap (no re-check under the new lock): another goroutine's update made in the gap is overwritten", n)
							}
							// the write is decided by a test made in the earlier critical section (a read of guarded
							// state before the gap, or the answer of a method of the monitor that locked for itself):
							// the later section must test again before it acts
							fromEarlier := func(x ssa.Value) bool {
								xi, isInstr := x.(ssa.Instruction)
								if !isInstr || xi.Parent() != f {
									return false
								}
								if xi == in {
									return true
								}
								for _, m2 := range la.monitors {
									for _, mi2 := range m2.fields {
										if mi2.guardLock() != field {
											continue
										}
										for _, a2 := range mi2.accesses {
											if a2.fn == f && a2.instr == xi && !core.Dominates(relock, xi) && reachesInstr(xi, relock) {
												return true
											}
										}
									}
								}
								return false
							}
							afterGap := func(x ssa.Value) bool {
								xi, isInstr := x.(ssa.Instruction)
								if !isInstr || xi.Parent() != f {
									return false
								}
								for _, a2 := range mi.accesses {
									if a2.fn == f && a2.instr == xi && core.Dominates(relock, xi) {
										return true
									}
								}
								return false
							}
							// the places of the later section that change the member: the write itself, and stores through
							// pointers into it (first := &m.intervals[0]; first.from++)
							muts := []ssa.Instruction{a.instr}
							for _, a2 := range mi.accesses {
								lv, isVal := a2.instr.(ssa.Value)
								if a2.fn != f || a2.write || !isVal || !core.Dominates(relock, a2.instr) {
									continue
								}
								for _, sb := range f.Blocks {
									for _, si := range sb.Instrs {
										st, isStore := si.(*ssa.Store)
										if !isStore {
											continue
										}
										addr := st.Addr
										for k := 0; k < 6; k++ {
											switch x := addr.(type) {
											case *ssa.FieldAddr:
												addr = x.X
												continue
											case *ssa.IndexAddr:
												addr = x.X
												continue
											}
											break
										}
										if addr == lv {
											muts = append(muts, st)
										}
									}
								}
							}
							for _, w := range muts {
								stale, rechecked := false, false
								for _, cc := range controllingConds(w.Block(), nil) {
									if depReaches(cc.cond, fromEarlier) {
										stale = true
									}
									if ci, ok := cc.cond.(ssa.Instruction); ok && core.Dominates(relock, ci) && depReaches(cc.cond, afterGap) {
										rechecked = true
									}
								}
								if stale && !rechecked {
									bad = fmt.Sprintf("%s is changed (%s) in a critical section that was entered on the strength of a test made in an earlier one (check, unlock, lock, act) and not repeated: another goroutine can change %s in the gap, and the act then runs on a state the test no longer describes", n, c.whereI(w), n)
								}
							}
						}
					}
				}
				_ = fl
				ru3.Check(bad == "", key, c.whereI(relock), "the later critical section re-reads before it writes (double-checked)", bad)
			}
		}
	}

	// R4
	ru4 := c.R.Rule("C20-R4", "no method of a monitor returns a guarded map or slice itself (callers would use it outside the lock); only copies leave the monitor", "E3 provenance of return values", 3)
	n := 0
	for _, m := range la.monitors {
		var fnames []string
		for fname := range m.fields {
			fnames = append(fnames, fname)
		}
		sort.Strings(fnames)
		for _, fname := range fnames {
			mi := m.fields[fname]
			if mi.guardLock() == "" {
				continue
			}
			for _, a := range mi.accesses {
				ld, ok := a.instr.(*ssa.UnOp)
				if !ok || ld.Op != token.MUL {
					continue
				}
				switch ld.Type().Underlying().(type) {
				case *types.Slice, *types.Map:
				default:
					continue
				}
				n++
				escapes := false
				// the loaded container and everything that still shares its storage: re-slices (s[:n:n] included), type
				// changes, φs
				aliases := []ssa.Value{ld}
				seenAl := map[ssa.Value]bool{ld: true}
				for i := 0; i < len(aliases); i++ {
					av := aliases[i]
					if av.Referrers() == nil {
						continue
					}
					for _, r := range *av.Referrers() {
						switch u := r.(type) {
						case *ssa.Return:
							escapes = true
						case *ssa.Store:
							// spilled result (defer): a store into a local that is returned
							if al, ok := u.Addr.(*ssa.Alloc); ok && u.Val == av && al.Comment == "" {
								escapes = true
							}
						case *ssa.Slice:
							if u.X == av && !seenAl[u] {
								seenAl[u] = true
								aliases = append(aliases, u)
							}
						case *ssa.ChangeType:
							if !seenAl[u] {
								seenAl[u] = true
								aliases = append(aliases, u)
							}
						case *ssa.Phi:
							if !seenAl[u] {
								seenAl[u] = true
								aliases = append(aliases, u)
							}
						}
					}
				}
				key := fmt.Sprintf("load #%d of %s.%s in %s", n, shortType(c, m.named), fname, c.fname(a.fn))
				ru4.Check(!escapes, key, c.whereI(a.instr), "not returned", "the live guarded "+strings.TrimPrefix(fmt.Sprintf("%T", ld.Type().Underlying()), "*types.")+" is returned to the caller, who reads it without the lock while other goroutines rewrite it in place")
			}
		}
	}
}

func init() {
	prev := registry["C20"]
	register("C20", func(c *Ctx) {
		prev(c)
		// "each in-flight entry still resolves exactly once" under concurrent ack / expiry: the winner-takes-callback protocol (shared with C04)
		c.ruleAckResolution("C20-T")
	})
}

// lockEffect is lockOp extended to the module's lock()/unlock() wrapper methods.
func lockEffect(cl *core.Call) (base, field, op string, ok bool) {
	if base, field, op, ok = lockOp(cl); ok {
		return
	}
	if cl != nil && cl.Static != nil && len(cl.Common.Args) > 0 {
		if eff, isW := lockWrappers[cl.Static]; isW {
			for f, e := range eff {
				return core.Term(cl.Common.Args[0]), f, e, true
			}
		}
	}
	return "", "", "", false
}

func shortType(c *Ctx, n *types.Named) string {
	p := n.Obj().Pkg().Path()
	p = strings.TrimPrefix(p, c.P.ModPath+"/")
	return p + "." + n.Obj().Name()
}

// accessOK: the access holds lock gl of its base object (exclusively for a write), or sits in a helper / closure whose every call or creation site does.
func (la *lockAnalysis) accessOK(a *memberAccess, gl string) (bool, string) {
	c := la.c
	base := core.Term(a.base)
	if a.ctor || heldFor(a.held, base, gl, a.write) {
		return true, ""
	}
	if heldFor(a.held, base, gl, false) && a.write {
		return false, "only read-locked"
	}
	if p, isP := core.Strip(a.base).(*ssa.Parameter); isP && p.Parent() == a.fn {
		return la.callersHold(a.fn, paramIdx(p), gl, a.write, 3, map[*ssa.Function]bool{})
	}
	if a.fn.Parent() != nil {
		return la.closureCreatedUnder(a.fn, base, gl, a.write)
	}
	_ = c
	return false, "the base object is not the function's parameter"
}

// closureCreatedUnder: every creation site of the closure fn (not started as a goroutine) holds lock field on base.
func (la *lockAnalysis) closureCreatedUnder(fn *ssa.Function, base, field string, needExcl bool) (bool, string) {
	c := la.c
	sites := c.P.ClosureSites(fn)
	if len(sites) == 0 {
		return false, "closure without creation site"
	}
	for _, mc := range sites {
		if mc.Referrers() != nil {
			for _, r := range *mc.Referrers() {
				if _, isGo := r.(*ssa.Go); isGo {
					return false, "the closure runs as a goroutine"
				}
			}
		}
		parent := mc.Parent()
		ls := la.locks[parent].before[mc]
		if heldFor(ls, base, field, needExcl) {
			continue
		}
		// the parent may be a helper itself
		if strings.HasPrefix(base, "P") {
			var idx int
			if _, err := fmt.Sscanf(base, "P%d", &idx); err == nil && idx < len(parent.Params) {
				if ok, _ := la.callersHold(parent, idx, field, needExcl, 3, map[*ssa.Function]bool{}); ok {
					continue
				}
			}
		}
		return false, "the closure is created at " + c.whereI(mc) + " without the lock"
	}
	return true, ""
}

// ruleGoCapturesLoopVar: no goroutine started inside a loop captures a variable of that loop that lives across
// iterations (with the module's go directive below 1.22 a range / for variable is one variable for the whole loop).
func (c *Ctx) ruleGoCapturesLoopVar(id string) {
	ru := c.R.Rule(id, "no goroutine started inside a loop captures a variable that the loop rewrites on its next iteration (module go directive < 1.22: one range variable for the whole loop): the goroutine would read another iteration's value — another session, another tenant's mount point", "E7 loop-alias on SSA: captured cell allocated outside the loop and stored inside it (positive control: go statements counted)", 1)
	nGo, bad := 0, ""
	var at ssa.Instruction
	for _, f := range c.P.ModFuncs() {
		loops := core.Loops(f)
		for _, b := range f.Blocks {
			for _, in := range b.Instrs {
				g, ok := in.(*ssa.Go)
				if !ok {
					continue
				}
				nGo++
				l := core.InnermostLoop(loops, b)
				mc, isMC := g.Call.Value.(*ssa.MakeClosure)
				if l == nil || !isMC {
					continue
				}
				c.R.Fn(c.fname(f))
				for _, bd := range mc.Bindings {
					al, ok := bd.(*ssa.Alloc)
					if !ok || l.Blocks[al.Block()] {
						continue // a per-iteration variable (x := x, or go >= 1.22)
					}
					for _, st := range allStoresTo(al) {
						if st.Parent() == f && l.Blocks[st.Block()] {
							bad = fmt.Sprintf("the goroutine started at %s captures %s, which the enclosing loop overwrites on its next iteration (stored at %s)", c.whereI(g), al.Comment, c.whereI(st))
							at = g
						}
					}
				}
			}
		}
	}
	if at != nil {
		ru.Fail("goroutines started in loops", c.whereI(at), bad)
	} else {
		ru.Check(nGo > 0, "goroutines started in loops", "-", fmt.Sprintf("%d go statement(s), none captures a loop-carried variable", nGo), "no go statement found in the module")
	}
}

// ruleStoreWritesExclusive: the replicated stores are written only with their state's mutex held exclusively.
// ruleElementsFilledUnderContainerLock implements C20-R7: lock coupling between a monitor and the elements of its
// guarded container. An element (a bucket, itself a monitor) read out of the container may be removed from it by a
// concurrent sweep as soon as the container's lock is released; a mutating method called on it afterwards fills an
// orphan: the entry is lost. So every such call is made while the owner's lock is held (any mode), in the function or at
// all its call sites. Owners that are never instantiated by live code are skipped (the skip list).
func (c *Ctx) ruleElementsFilledUnderContainerLock(id string) {
	ru := c.R.Rule(id, "lock coupling: an element read out of a monitor's guarded container (a bucket found in the index of buckets) receives new entries only while that monitor's lock is still held — in the function itself or at every call site of it; once the lock is released a concurrent sweep may have taken the element out of the container, and what is put into it afterwards is never seen again", "E5 lockset at the call site + provenance of the receiver to a read of the guarded container", 1)
	la := c.lockAnalysis()
	n := 0
	for _, m := range la.monitors {
		// live: allocated in an exported function or in one that has callers
		live := false
		for _, f := range c.P.ModFuncs() {
			for _, b := range f.Blocks {
				for _, in := range b.Instrs {
					if al, ok := in.(*ssa.Alloc); ok && types.Identical(derefT(al.Type()), m.named) {
						top := enclosingTop(f)
						if top.Object() != nil && top.Object().Exported() || len(c.P.StaticCallers(top)) > 0 {
							live = true
						}
					}
				}
			}
		}
		if !live {
			continue
		}
		st := m.named.Underlying().(*types.Struct)
		for i := 0; i < st.NumFields(); i++ {
			fld := st.Field(i)
			mi := m.fields[fld.Name()]
			if mi == nil || mi.guardLock() == "" {
				continue
			}
			var elem types.Type
			switch t := fld.Type().Underlying().(type) {
			case *types.Map:
				elem = t.Elem()
			case *types.Slice:
				elem = t.Elem()
			}
			if elem == nil {
				continue
			}
			em := c.monitorOf(la.monitors, elem)
			if _, isPtr := elem.Underlying().(*types.Pointer); !isPtr || em == nil {
				continue
			}
			lockField := mi.guardLock()
			fromContainer := func(v ssa.Value) bool {
				ld, ok := v.(*ssa.UnOp)
				if !ok || ld.Op != token.MUL {
					return false
				}
				fa, ok := ld.X.(*ssa.FieldAddr)
				return ok && types.Identical(derefT(fa.X.Type()), m.named) && fieldNameOf(fa.X.Type(), fa.Field) == fld.Name()
			}
			for _, f := range c.P.ModFuncs() {
				if c.P.IsGenerated(f) {
					continue
				}
				for _, cl := range core.CallsIn(f) {
					g := cl.Static
					if g == nil || g.Signature.Recv() == nil || len(cl.Common.Args) == 0 || !types.Identical(derefT(g.Signature.Recv().Type()), em.named) {
						continue
					}
					if !mutatesReceiver(g, mutMemo) || !addsToReceiver(g) || !depReaches(cl.Common.Args[0], fromContainer) {
						continue
					}
					n++
					c.R.Fn(c.fname(f))
					key := fmt.Sprintf("%s called on an element of %s.%s in %s", g.Name(), m.named.Obj().Name(), fld.Name(), c.fname(f))
					held, why := false, "the lock of the owning "+m.named.Obj().Name()+" is not held"
					fl := la.locks[f]
					var owners []ssa.Value
					for _, p := range f.Params {
						if types.Identical(derefT(p.Type()), m.named) {
							owners = append(owners, p)
						}
					}
					for _, fv := range f.FreeVars {
						if types.Identical(derefT(fv.Type()), m.named) {
							owners = append(owners, fv)
						}
					}
					for _, o := range owners {
						if fl != nil && heldFor(fl.before[cl.Instr], core.Term(o), lockField, false) {
							held = true
						}
						if p, ok := o.(*ssa.Parameter); ok && !held {
							if ok2, w := la.callersHold(f, paramIdx(p), lockField, false, 2, map[*ssa.Function]bool{}); ok2 {
								held = true
							} else if w != "" {
								why += " (" + w + ")"
							}
						}
					}
					ru.Check(held, key, c.whereI(cl.Instr), "owner's lock held", why+": the element may already have left the container")
				}
			}
		}
	}
	ru.Anchor(n > 0, "a mutating call on an element of a guarded container whose elements are monitors")
}

// addsToReceiver: g appends to its receiver's data a new element whose content comes from g's other parameters (a put,
// not a removal: removing from an element that has left its container is harmless, adding to it loses the entry).
func addsToReceiver(g *ssa.Function) bool {
	for _, cl := range core.CallsIn(g) {
		if cl.Builtin() != "append" || len(cl.Common.Args) != 2 {
			continue
		}
		sl, ok := core.Strip(cl.Common.Args[1]).(*ssa.Slice)
		if !ok {
			continue
		}
		arr, ok := sl.X.(*ssa.Alloc)
		if !ok || arr.Referrers() == nil {
			continue
		}
		for _, r := range *arr.Referrers() {
			ia, ok := r.(*ssa.IndexAddr)
			if !ok || ia.Referrers() == nil {
				continue
			}
			for _, rr := range *ia.Referrers() {
				st, ok := rr.(*ssa.Store)
				if !ok || st.Addr != ssa.Value(ia) {
					continue
				}
				if depReaches(st.Val, func(v ssa.Value) bool {
					p, ok := v.(*ssa.Parameter)
					return ok && p.Parent() == g && paramIdx(p) > 0
				}) {
					return true
				}
			}
		}
	}
	return false
}

func (c *Ctx) ruleStoreWritesExclusive(id string) {
	ru := c.R.Rule(id, "every write to a replicated store (sessions map, subscription trie, retained trie) is made with the state's mutex held exclusively, in the routine itself or at every call site of the helper that makes it: look-up, comparison and overwrite of an entry form one critical section (under a read lock two merges of different generations of one entry can both pass the comparison, and the older one is written last)", "E5 lockset with exclusiveness, helpers judged at their call sites", 3)
	ru0 := c.R.Rule(id+"-anchors", "anchors", "", 0)
	d := c.dstate(ru0)
	if d == nil {
		return
	}
	la := c.lockAnalysis()
	exclAt := func(in ssa.Instruction) bool {
		fl := la.locks[in.Parent()]
		if fl == nil {
			return false
		}
		for _, h := range fl.before[in] {
			if h.excl {
				return true
			}
		}
		return false
	}
	var heldByCallers func(f *ssa.Function, depth int, seen map[*ssa.Function]bool) (bool, string)
	heldByCallers = func(f *ssa.Function, depth int, seen map[*ssa.Function]bool) (bool, string) {
		if seen[f] {
			return true, ""
		}
		seen[f] = true
		if f.Parent() != nil {
			// a closure (the trie update callback): judged where it is created
			for _, mc := range c.P.ClosureSites(f) {
				if exclAt(mc) {
					continue
				}
				if ok, why := heldByCallers(mc.Parent(), depth, seen); !ok {
					return false, why
				}
			}
			return true, ""
		}
		sites := c.P.StaticCallers(f)
		if len(sites) == 0 {
			return false, c.fname(f) + " is entered without the lock"
		}
		for _, site := range sites {
			if _, isGo := site.(*ssa.Go); isGo {
				return false, "started as a goroutine at " + c.whereI(site)
			}
			if exclAt(site) {
				continue
			}
			if depth == 0 {
				return false, "called at " + c.whereI(site) + " without the exclusive lock"
			}
			if ok, why := heldByCallers(site.Parent(), depth-1, seen); !ok {
				return false, why
			}
		}
		return true, ""
	}
	for _, f := range c.P.ModFuncs() {
		if f.Package() != d.pkg {
			continue
		}
		for i, b := range f.Blocks {
			for _, in := range b.Instrs {
				if !d.isStoreWriteInstr(in) {
					continue
				}
				c.R.Fn(c.fname(f))
				key := fmt.Sprintf("store write in %s (block %d)", c.fname(f), i)
				if exclAt(in) {
					ru.OK(key, c.whereI(in), "under the exclusive lock")
					continue
				}
				ok, why := heldByCallers(f, 3, map[*ssa.Function]bool{})
				ru.Check(ok, key, c.whereI(in), "every call site of the helper holds the exclusive lock", "the replicated store is written without the state's mutex held exclusively ("+why+")")
			}
		}
	}
}
