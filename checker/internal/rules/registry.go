// Package rules holds the repository-specific rules, one file per property.
package rules

import (
	"runtime/debug"
	"sort"

	"golang.org/x/tools/go/ssa"

	"waspcheck/internal/core"
	"waspcheck/internal/report"
)

// Ctx is what a property check receives.
type Ctx struct {
	P      *core.Prog
	R      *report.Report
	Tier   string
	lender bool // this run only lends rules to another property's check: it borrows nothing itself
}

// PropertyFunc runs all rules of one property.
type PropertyFunc func(c *Ctx)

var registry = map[string]PropertyFunc{}

func register(id string, f PropertyFunc) { registry[id] = f }

// Lookup returns the check of a property.
func Lookup(id string) PropertyFunc {
	f := registry[id]
	if f == nil {
		return nil
	}
	return func(c *Ctx) {
		theProg = c.P
		theClock = findClock(c.P)
		f(c)
		c.borrowShared(id)
	}
}

// sharedRules: rules decided by one property's check that are necessary conditions of another property as well. They
// are decided once and reported under both (id here → lender's rule id, and why the borrower needs it). Each entry was
// added after a seeded change that breaks the borrowing property had been caught by the lender's rule only.
var sharedRules = map[string][]struct{ as, from, rule, why string }{
	"C01": {
		{"C01-S1", "C19", "C19-R2", "a filter pruned together with its parent's subscribers stops matching"},
		{"C01-S2", "C08", "C08-R8", "an unsubscribe stamped in the same tick as its subscribe is dropped and the session keeps receiving"},
		{"C01-S3", "C17", "C17-R1", "filters and topics meet only if both are mount-qualified"},
		{"C01-S4", "C17", "C17-R5", "two filters of one SUBSCRIBE sharing storage become the same filter"},
		{"C01-S5", "C11", "C11-R6", "clean-up after a lost peer must remove that peer's subscriptions, not this node's"},
		{"C01-S6", "C14", "C14-R5", "the recipients of a publish read back from the log are the sessions of the matching subscriptions this node hosts, each of them"},
	},
	"C02": {
		{"C02-S1", "C01", "C01-R4", "an acknowledged publish must be written once to every registered recipient"},
		{"C02-S2", "C03", "C03-R1", "what is armed for retransmission is the delivery itself"},
		{"C02-S3", "C17", "C17-R7", "publisher and subscriber of one tenant must land in the same mount point"},
		{"C02-S4", "C11", "C11-R6", "clean-up after a lost peer must not remove the subscriptions of connected sessions"},
	},
	"C03": {
		{"C03-S1", "C04", "C04-R9", "a timer lost in the timeout list is a delivery never retransmitted"},
		{"C03-S2", "C04", "C04-R11", "a bucket popped but not drained loses its timers"},
		{"C03-S3", "C11", "C11-R1", "an ended session that stays registered is retransmitted to for ever"},
	},
	"C04": {
		{"C04-S1", "C03", "C03-R4", "entries expire only if the sweep runs on its own ticker"},
		{"C04-S2", "C03", "C03-R5", "keys must be those of the registered session and identifier"},
	},
	"C05": {
		{"C05-S1", "C14", "C14-R1", "the acknowledgement covers the destinations resolved for this very publish"},
	},
	"C06": {
		{"C06-S1", "C04", "C04-R1", "an identifier is released by the one resolution of its entry"},
		{"C06-S2", "C04", "C04-R2", "an entry removed but never resolved never returns its identifier"},
		{"C06-S3", "C04", "C04-R11", "timers lost with a popped bucket never release their identifiers"},
	},
	"C07": {
		{"C07-S1", "C10", "C10-R1", "retained state reaches a lagging node through the snapshot"},
		{"C07-S2", "C10", "C10-R2", "clears travel in the snapshot too"},
		{"C07-S3", "C17", "C17-R5", "a retained message must be stored under its own topic"},
	},
	"C08": {
		{"C08-S1", "C09", "C09-R4", "a batch carrying N copies of one entry is not the set of updates"},
		{"C08-S2", "C10", "C10-R3", "the snapshot is a batch too"},
		{"C08-S3", "C19", "C19-R7", "the merge looks the local copy up in the trie: insert and look-up must stop at the same node"},
	},
	"C09": {
		{"C09-S1", "C16", "C16-R11", "an entry keyed by the empty identifier is refused by every receiver"},
		{"C09-S2", "C17", "C17-R4", "a filter without its mount-point level makes the mutator panic between write and broadcast"},
		{"C09-S3", "C08", "C08-R9", "a local update whose stamp is not newer than the entry it replaces is dropped by every receiver as not newer: the change never leaves the node"},
	},
	"C10": {
		{"C10-S1", "C16", "C16-R11", "an entry keyed by the empty identifier makes the receiver drop the rest of the snapshot"},
		{"C10-S2", "C08", "C08-R1", "which entries count as removals is decided by the LWW predicates"},
	},
	"C11": {
		{"C11-S1", "C08", "C08-R3", "the removal of a session record must survive the merge on every node"},
		{"C11-S2", "C08", "C08-R3b", "one bad entry must not hide the removals that follow it in a batch"},
		{"C11-S3", "C08", "C08-R6", "removed records are never listed"},
		{"C11-S4", "C17", "C17-R3", "the teardown finds its own record by mount point and client identifier"},
		{"C11-S5", "C12", "C12-R1", "displacement ends the earlier session: its record leaves every node's view only if the take-over deletes that very record"},
		{"C11-S6", "C09", "C09-R4", "the removal broadcast of a lost peer's subscriptions must carry each tombstone, not N pointers to the last one"},
	},
	"C12": {
		{"C12-S1", "C08", "C08-R3", "the displaced record's removal and the new record must both survive the merge"},
		{"C12-S2", "C08", "C08-R3b", "batches are merged entry by entry"},
		{"C12-S3", "C08", "C08-R6", "the client identifier resolves to live records only"},
		{"C12-S4", "C17", "C17-R3", "the client identifier is resolved within its mount point"},
		{"C12-S5", "C10", "C10-R3", "the snapshot must carry each record, not N copies of one"},
		{"C12-S6", "C11", "C11-R6", "clean-up after a lost peer must not delete the records of sessions taken over here"},
		{"C12-S7", "C09", "C09-R5", "the removal of the displaced record must not be evicted from the gossip queue by the new record"},
	},
	"C13": {
		{"C13-S1", "C11", "C11-R1", "the will is published by the teardown that the registry delete elects"},
		{"C13-S2", "C11", "C11-R8", "a session that is never served is never torn down"},
		{"C13-S3", "C10", "C10-R3", "survivors publish the wills of the records they hold"},
		{"C13-S4", "C09", "C09-R5", "the tombstone of a cleanly ended session must reach the survivors"},
		{"C13-S5", "C09", "C09-R1", "a tombstone that stays local lets survivors publish the will of a session that ended cleanly"},
		{"C13-S6", "C20", "C20-R3", "two teardowns of one session must not both pass the registry test"},
		{"C13-S7", "C09", "C09-R2", "the tombstone of a cleanly ended session must be what is broadcast: survivors that still see the session as live publish its will when its node fails"},
	},
	"C14": {
		{"C14-S1", "C08", "C08-R3", "destinations are computed from the replicated subscriptions"},
		{"C14-S2", "C08", "C08-R3b", "batches of subscriptions are merged entry by entry"},
		{"C14-S3", "C02", "C02-R1", "a failed destination withholds the acknowledgement"},
		{"C14-S4", "C02", "C02-R8", "the hosting node must still hold what it has not yet written to its sessions"},
	},
	"C15": {
		{"C15-S1", "C02", "C02-R7", "a look-up in the log must not move the cursor the consumer reads from: entries would be skipped or handed over twice"},
	},
	"C17": {
		{"C17-S1", "C13", "C13-R3", "the will is published under the topic captured inside the session's mount point"},
	},
	"C20": {
		{"C20-S1", "C06", "C06-R2c", "an identifier released while its delivery is still in flight is handed out a second time"},
	},
	"C18": {
		{"C18-S1", "C20", "C20-R1", "a field cleared by a concurrent teardown is dereferenced by the writer, which nothing recovers"},
	},
}

var lentCache = map[*core.Prog]map[string]*report.Report{}

// borrowShared adopts into the report of property id the shared rules listed for it.
func (c *Ctx) borrowShared(id string) {
	if c.lender {
		return
	}
	for _, sh := range sharedRules[id] {
		if lentCache[c.P] == nil {
			lentCache[c.P] = map[string]*report.Report{}
		}
		lr := lentCache[c.P][sh.from]
		if lr == nil {
			f := registry[sh.from]
			if f == nil {
				continue
			}
			lr = report.New(sh.from, c.Tier)
			func() {
				defer func() {
					if e := recover(); e != nil {
						lr.Rule(sh.from+"-PANIC", "the lending check panicked", "", 1)
					}
				}()
				f(&Ctx{P: c.P, R: lr, Tier: c.Tier, lender: true})
			}()
			lentCache[c.P][sh.from] = lr
		}
		c.R.Adopt(lr, sh.rule, sh.as, sh.why)
	}
}

// IDs lists the registered properties.
func IDs() []string {
	var out []string
	for k := range registry {
		out = append(out, k)
	}
	sort.Strings(out)
	return out
}

// Forget drops everything cached for a program (used by the self-test, which analyses many variants in one process).
func Forget(p *core.Prog) {
	delete(laCache, p)
	delete(clockCache, p)
	delete(lentCache, p)
	mutMemo = map[*ssa.Function]int{}
	lockWrappers = map[*ssa.Function]map[string]string{}
	lockReleasers = map[*ssa.Function]map[string]bool{}
	upsertBodyCache = map[*dstate]map[*ssa.Function]bool{}
	stampCache = map[*dstate]*stampFns{}
	core.Forget(p)
	if theProg == p {
		theProg = nil
	}
	theClock = nil
	debug.FreeOSMemory()
}
