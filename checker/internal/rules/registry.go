// Package rules holds the repository-specific rules, one file per property.
package rules

import (
	"runtime/debug"
	"sort"

	"golang.org/x/tools/go/ssa"

	"waspcheck/internal/core"
	"waspcheck/internal/report"
)

// Ctx is what a property check receives.
type Ctx struct {
	P    *core.Prog
	R    *report.Report
	Tier string
}

// PropertyFunc runs all rules of one property.
type PropertyFunc func(c *Ctx)

var registry = map[string]PropertyFunc{}

func register(id string, f PropertyFunc) { registry[id] = f }

// Lookup returns the check of a property.
func Lookup(id string) PropertyFunc {
	f := registry[id]
	if f == nil {
		return nil
	}
	return func(c *Ctx) {
		theProg = c.P
		theClock = findClock(c.P)
		f(c)
	}
}

// IDs lists the registered properties.
func IDs() []string {
	var out []string
	for k := range registry {
		out = append(out, k)
	}
	sort.Strings(out)
	return out
}

// Forget drops everything cached for a program (used by the self-test, which analyses many variants in one process).
func Forget(p *core.Prog) {
	delete(laCache, p)
	delete(clockCache, p)
	mutMemo = map[*ssa.Function]int{}
	lockWrappers = map[*ssa.Function]map[string]string{}
	lockReleasers = map[*ssa.Function]map[string]bool{}
	upsertBodyCache = map[*dstate]map[*ssa.Function]bool{}
	stampCache = map[*dstate]*stampFns{}
	core.Forget(p)
	if theProg == p {
		theProg = nil
	}
	theClock = nil
	debug.FreeOSMemory()
}
