package rules

import (
	"fmt"
	"go/constant"
	"go/token"
	"go/types"
	"sort"
	"strings"

	"golang.org/x/tools/go/ssa"

	"waspcheck/internal/core"
	"waspcheck/internal/report"
)

func init() { register("C19", checkC19) }

// triePkgs are the two sibling tries.
var triePkgs = []string{"subscriptions", "topics"}

// nodeFields returns the names of the children-map field and the payload ([]byte) field of the package's Node type.
func (c *Ctx) nodeFields(pkg string) (children, payload string, ok bool) {
	n := c.P.Named(pkg, "Node")
	if n == nil {
		return "", "", false
	}
	st, isStruct := n.Underlying().(*types.Struct)
	if !isStruct {
		return "", "", false
	}
	for i := 0; i < st.NumFields(); i++ {
		f := st.Field(i)
		if !f.Exported() || strings.HasPrefix(f.Name(), "XXX_") {
			continue
		}
		switch t := f.Type().Underlying().(type) {
		case *types.Map:
			children = f.Name()
		case *types.Slice:
			if b, isB := t.Elem().Underlying().(*types.Basic); isB && b.Kind() == types.Byte {
				payload = f.Name()
			}
		}
	}
	return children, payload, children != "" && payload != ""
}

func checkC19(c *Ctx) {
	c.R.Explanation = "Static rules cross-checked between the two sibling tries (subscriptions/node.go, topics/node.go): (R1) every store into a Node's children map is dominated by a nil-check-and-make of that very map (a tree rebuilt by Load has nil maps); (R2) every pruning delete of a child is control-dependent on a condition that reads both the child's payload length and the child's children count; (R3) counting, iteration and the emitting branch of matching use the same emptiness predicate on the node's own payload."
	c.R.NotCovered = "Map-like behaviour over all operation sequences, dump/load round-trip equality, aliasing of empty levels ('a//b', 'a/'), matching semantics."
	ru1 := c.R.Rule("C19-R1", "a store into a trie node's children map is dominated by a nil-check that allocates that map (trees rebuilt from a dump have nil maps)", "E2 dominance + E10 siblings", 2)
	ru2 := c.R.Rule("C19-R2", "a child is pruned from its parent only under a condition that tests both that the child holds no value and that it has no children", "E3 control dependence + E10 siblings", 2)
	ru3 := c.R.Rule("C19-R3", "count, iterate and the emitting branch of match agree on the emptiness predicate applied to a node's own payload", "E10 sibling agreement", 1)
	for _, pkg := range triePkgs {
		children, payload, ok := c.nodeFields(pkg)
		if !ru1.Anchor(ok, pkg+".Node with a children map and a []byte payload") {
			continue
		}
		isNode := func(t types.Type) bool { return isNamed(derefT(t), pkg, "Node") }
		predTerms := map[string][]string{}
		for _, f := range c.P.ModFuncs() {
			if f.Package() == nil || f.Package().Pkg.Path() != c.P.Rel(pkg) {
				continue
			}
			for _, b := range f.Blocks {
				for _, in := range b.Instrs {
					switch x := in.(type) {
					case *ssa.MapUpdate:
						ld, ok := x.Map.(*ssa.UnOp)
						if !ok || ld.Op != token.MUL {
							continue
						}
						fa, ok := ld.X.(*ssa.FieldAddr)
						if !ok || !isNode(fa.X.Type()) || fieldNameOf(fa.X.Type(), fa.Field) != children {
							continue
						}
						c.R.Fn(c.fname(f))
						key := fmt.Sprintf("store into %s.Node.%s in %s", pkg, children, c.fname(f))
						okStore, how := c.nilGuardedMap(f, fa, x), "dominated by `if m == nil { m = make(...) }` on the same node"
						if !okStore && c.childrenAlwaysAllocated(pkg, isNode, children, fa.Field) {
							okStore, how = true, "every node has its map from the moment it exists: literals allocate it, decoded trees are completed node by node before they are used"
						}
						ru1.Check(okStore, key, c.whereI(x), how, "the children map may be nil here (node rebuilt by Load, or zero Node): the store panics")
					case *ssa.Call:
						bi, ok := x.Call.Value.(*ssa.Builtin)
						if !ok || bi.Name() != "delete" {
							continue
						}
						ld, ok := x.Call.Args[0].(*ssa.UnOp)
						if !ok {
							continue
						}
						fa, ok := ld.X.(*ssa.FieldAddr)
						if !ok || !isNode(fa.X.Type()) || fieldNameOf(fa.X.Type(), fa.Field) != children {
							continue
						}
						c.R.Fn(c.fname(f))
						key := fmt.Sprintf("prune of a child in %s", c.fname(f))
						// every way the guarding condition can hold must have tested both fields
						alts := [][]nodeTest{nil}
						for _, cc := range controllingConds(b, nil) {
							alts = crossAlts(alts, c.nodeAlts(cc.cond, cc.pol, nil, isNode, 2))
						}
						seesPayload, seesChildren := len(alts) > 0, len(alts) > 0
						for _, alt := range alts {
							p, ch := false, false
							for _, t := range alt {
								if t.field == payload && t.class != "OTHER" {
									p = true
								}
								if t.field == children && t.class != "OTHER" {
									ch = true
								}
							}
							seesPayload = seesPayload && p
							seesChildren = seesChildren && ch
						}
						switch {
						case seesPayload && seesChildren:
							ru2.OK(key, c.whereI(x), "tests the child's payload and its children")
						case seesChildren:
							ru2.Fail(key, c.whereI(x), "the child is pruned as soon as it has no children, even if it holds a value: removing a/b/c drops the value stored at a/b")
						case seesPayload:
							ru2.Fail(key, c.whereI(x), "the child is pruned as soon as it holds no value, even if it has children: its whole subtree is lost")
						default:
							ru2.Fail(key, c.whereI(x), "the child is pruned unconditionally")
						}
					}
				}
				// R3: conditions on the receiver's own payload (directly, or through a predicate method of the node)
				var tested []ssa.Value
				switch t := b.Instrs[len(b.Instrs)-1].(type) {
				case *ssa.If:
					tested = append(tested, t.Cond)
				case *ssa.Return:
					if len(t.Results) == 1 {
						if bt, isB := t.Results[0].Type().Underlying().(*types.Basic); isB && bt.Kind() == types.Bool {
							tested = append(tested, t.Results[0])
						}
					}
				}
				for _, tv := range tested {
					// "own" payload: of the receiver, or of the node handed to a visitor function (func(cur *Node))
					// whose payload: the receiver's, a visitor's node parameter, or a child looked up in the same
					// function (the prune test) — every place that decides "this node holds a value"
					isOwnNode := func(v ssa.Value) bool { return isNode(v.Type()) }
					ts := c.nodeTests(tv, isNode, 2)
					onlyOwnPayload := len(ts) > 0
					for _, t := range ts {
						if t.field != payload || !isOwnNode(t.base) {
							onlyOwnPayload = false
						}
					}
					if onlyOwnPayload {
						for _, t := range ts {
							predTerms[c.fname(f)] = append(predTerms[c.fname(f)], t.class)
						}
					}
				}
			}
		}
		// a nil test next to a length test is the length test (a nil slice has length 0)
		for n, ts := range predTerms {
			set := map[string]bool{}
			for _, t := range ts {
				set[t] = true
			}
			if set["LEN0"] {
				delete(set, "NIL")
			}
			var out []string
			for t := range set {
				out = append(out, t)
			}
			predTerms[n] = out
		}
		// sibling agreement
		var names []string
		for n := range predTerms {
			sort.Strings(predTerms[n])
			names = append(names, n)
		}
		sort.Strings(names)
		if len(names) >= 2 {
			ref := strings.Join(predTerms[names[0]], " ; ")
			bad := ""
			for _, n := range names[1:] {
				if got := strings.Join(predTerms[n], " ; "); got != ref {
					bad = fmt.Sprintf("%s tests [%s] but %s tests [%s]", names[0], ref, n, got)
				}
			}
			ru3.Check(bad == "", "payload emptiness predicate across "+strings.Join(names, ", "), "-", "same predicate in "+fmt.Sprint(len(names))+" functions: "+short(ref, 120), "the functions disagree on when a node counts as holding a value: "+bad)
		} else if len(names) == 1 {
			ru3.OK("payload emptiness predicate of package "+pkg, "-", "decided in one place only ("+names[0]+": "+strings.Join(predTerms[names[0]], " ; ")+"): nothing to disagree with")
		}
	}
	c.ruleFullTraversal("C19-R4", 2)
	c.ruleValueRemovalKeepsChildren("C19-R5")
	c.ruleInteriorPointersFollowRoot("C19-R6")
	c.ruleEndOfKeyAgreement("C19-R7")
	c.ruleKeysAreCopied("C19-R8")
}

// nilGuardedMap: the MapUpdate through field address fa is dominated by an If on "(node).Children == nil" whose true branch stores a fresh map into the same field.
func (c *Ctx) nilGuardedMap(f *ssa.Function, fa *ssa.FieldAddr, at ssa.Instruction) bool {
	if c.nilGuardedMapHere(f, fa, at) {
		return true
	}
	// a method called on the same node before the store allocates the map on every path (n.lookup(token) / n.child(token))
	nodeTerm := core.Term(fa.X)
	for _, cl := range core.CallsIn(f) {
		g := cl.Static
		if g == nil || g == f || len(cl.Common.Args) == 0 || len(g.Params) == 0 || len(g.Blocks) == 0 || !core.Dominates(cl.Instr, at) || core.Term(cl.Common.Args[0]) != nodeTerm {
			continue
		}
		if !types.Identical(derefT(g.Params[0].Type()), derefT(fa.X.Type())) {
			continue
		}
		if c.ensuresChildren(g, fa.Field, 2) {
			return true
		}
	}
	return false
}

// ensuresChildren: on every returning path of method g the children map (field idx) of its receiver has been
// nil-checked and allocated: g does so itself in a block that dominates all its returns, or calls such a method on its receiver first.
func (c *Ctx) ensuresChildren(g *ssa.Function, field int, depth int) bool {
	var rets []*ssa.BasicBlock
	for _, b := range g.Blocks {
		if _, ok := b.Instrs[len(b.Instrs)-1].(*ssa.Return); ok {
			rets = append(rets, b)
		}
	}
	domAll := func(in ssa.Instruction) bool {
		for _, r := range rets {
			if !in.Block().Dominates(r) {
				return false
			}
		}
		return len(rets) > 0
	}
	for _, b := range g.Blocks {
		for _, in := range b.Instrs {
			fa, ok := in.(*ssa.FieldAddr)
			if !ok || fa.Field != field || core.Strip(fa.X) != ssa.Value(g.Params[0]) {
				continue
			}
			// a load of the field compared with nil whose true branch stores a fresh map, the test dominating all returns
			if fa.Referrers() == nil {
				continue
			}
			for _, r := range *fa.Referrers() {
				ld, ok := r.(*ssa.UnOp)
				if !ok || ld.Referrers() == nil {
					continue
				}
				for _, rr := range *ld.Referrers() {
					bo, ok := rr.(*ssa.BinOp)
					if !ok || bo.Op != token.EQL || !domAll(bo) {
						continue
					}
					iff, ok := bo.Block().Instrs[len(bo.Block().Instrs)-1].(*ssa.If)
					if !ok || iff.Cond != ssa.Value(bo) {
						continue
					}
					tb := bo.Block().Succs[0]
					for _, in2 := range tb.Instrs {
						if st, ok := in2.(*ssa.Store); ok {
							if fa2, ok := st.Addr.(*ssa.FieldAddr); ok && fa2.Field == field && core.Strip(fa2.X) == ssa.Value(g.Params[0]) {
								if _, isMake := st.Val.(*ssa.MakeMap); isMake {
									return true
								}
							}
						}
					}
				}
			}
		}
	}
	if depth > 0 {
		for _, cl := range core.CallsIn(g) {
			h := cl.Static
			if h != nil && h != g && len(h.Blocks) > 0 && len(cl.Common.Args) > 0 && len(h.Params) > 0 && core.Strip(cl.Common.Args[0]) == ssa.Value(g.Params[0]) && domAll(cl.Instr) && c.ensuresChildren(h, field, depth-1) {
				return true
			}
		}
	}
	return false
}

func (c *Ctx) nilGuardedMapHere(f *ssa.Function, fa *ssa.FieldAddr, at ssa.Instruction) bool {
	fieldTerm := core.Term(fa) // &(node).Children
	for _, b := range f.Blocks {
		iff, ok := b.Instrs[len(b.Instrs)-1].(*ssa.If)
		if !ok || !b.Dominates(at.Block()) {
			continue
		}
		bo, ok := iff.Cond.(*ssa.BinOp)
		if !ok || bo.Op != token.EQL {
			continue
		}
		var loaded ssa.Value
		if k, ok := bo.Y.(*ssa.Const); ok && k.Value == nil {
			loaded = bo.X
		} else if k, ok := bo.X.(*ssa.Const); ok && k.Value == nil {
			loaded = bo.Y
		}
		ld, ok := loaded.(*ssa.UnOp)
		if !ok || ld.Op != token.MUL || core.Term(ld.X) != fieldTerm {
			continue
		}
		// true branch stores make(map) into the same field
		tb := b.Succs[0]
		for _, rb := range f.Blocks {
			if !tb.Dominates(rb) {
				continue
			}
			for _, in := range rb.Instrs {
				if st, ok := in.(*ssa.Store); ok && core.Term(st.Addr) == fieldTerm {
					if _, ok := st.Val.(*ssa.MakeMap); ok {
						return true
					}
				}
			}
		}
	}
	return false
}

// nodeTest is one elementary test a condition applies to a field of a trie node.
type nodeTest struct {
	base  ssa.Value // the node
	field string
	class string // LEN0: decides len(field) == 0 (any spelling); NIL: decides field == nil; OTHER
}

// deepStripLocal strips conversions and cells without leaving the function.
func deepStripLocal(v ssa.Value) ssa.Value { return core.Strip(v) }

// nodeTests lists the elementary tests on node fields that make up the boolean value cond: comparisons of len(n.f) with
// a constant, nil tests of n.f, negations, the operands of && / || (phi), and — depth levels deep — the tests made by a
// boolean method of the node called on it (n.empty()), re-based on the node passed.
func (c *Ctx) nodeTests(cond ssa.Value, isNode func(types.Type) bool, depth int) []nodeTest {
	var out []nodeTest
	seen := map[ssa.Value]bool{}
	fieldOf := func(v ssa.Value) (*ssa.FieldAddr, bool) {
		ld, ok := v.(*ssa.UnOp)
		if !ok || ld.Op != token.MUL {
			return nil, false
		}
		fa, ok := ld.X.(*ssa.FieldAddr)
		if !ok || !isNode(fa.X.Type()) {
			return nil, false
		}
		return fa, true
	}
	var walk func(v ssa.Value, rebase ssa.Value, d int)
	walk = func(v ssa.Value, rebase ssa.Value, d int) {
		if v == nil || seen[v] {
			return
		}
		seen[v] = true
		add := func(fa *ssa.FieldAddr, class string) {
			base := fa.X
			if rebase != nil {
				if p, isP := core.Strip(base).(*ssa.Parameter); isP && paramIdx(p) == 0 {
					base = rebase
				}
			}
			out = append(out, nodeTest{base: base, field: fieldNameOf(fa.X.Type(), fa.Field), class: class})
		}
		switch x := v.(type) {
		case *ssa.UnOp:
			if x.Op == token.NOT {
				walk(x.X, rebase, d)
			}
		case *ssa.Phi:
			for _, e := range x.Edges {
				walk(e, rebase, d)
			}
			// the conditions that select among the edges (a && b: a is tested by the branch, b is the edge value)
			for _, pred := range x.Block().Preds {
				if iff, ok := pred.Instrs[len(pred.Instrs)-1].(*ssa.If); ok {
					walk(iff.Cond, rebase, d)
				}
			}
		case *ssa.BinOp:
			for _, pair := range [][2]ssa.Value{{x.X, x.Y}, {x.Y, x.X}} {
				k, isK := pair[1].(*ssa.Const)
				if !isK {
					continue
				}
				if k.Value == nil {
					if fa, ok := fieldOf(pair[0]); ok && (x.Op == token.EQL || x.Op == token.NEQ) {
						add(fa, "NIL")
					}
					continue
				}
				cl, isCall := pair[0].(*ssa.Call)
				if !isCall || core.CallOf(cl).Builtin() != "len" {
					continue
				}
				fa, ok := fieldOf(cl.Call.Args[0])
				if !ok {
					continue
				}
				kv, okK := constInt(k)
				if !okK {
					add(fa, "OTHER")
					continue
				}
				// truth table of the comparison at len = 0, 1, 2
				op := x.Op
				if pair[0] == x.Y { // const OP len  ==  len OP' const
					op = map[token.Token]token.Token{token.LSS: token.GTR, token.GTR: token.LSS, token.LEQ: token.GEQ, token.GEQ: token.LEQ, token.EQL: token.EQL, token.NEQ: token.NEQ}[op]
				}
				tt := ""
				for _, n := range []int64{0, 1, 2} {
					var r bool
					switch op {
					case token.EQL:
						r = n == kv
					case token.NEQ:
						r = n != kv
					case token.LSS:
						r = n < kv
					case token.LEQ:
						r = n <= kv
					case token.GTR:
						r = n > kv
					case token.GEQ:
						r = n >= kv
					}
					if r {
						tt += "T"
					} else {
						tt += "F"
					}
				}
				if tt == "TFF" || tt == "FTT" {
					add(fa, "LEN0")
				} else {
					add(fa, "OTHER")
				}
			}
		case *ssa.Call:
			g := x.Call.StaticCallee()
			if d <= 0 || g == nil || g.Pkg == nil || !c.P.IsModPkg(g.Pkg.Pkg) || g.Signature.Recv() == nil || !isNode(g.Signature.Recv().Type()) || len(x.Call.Args) == 0 {
				return
			}
			if g.Signature.Results().Len() != 1 {
				return
			}
			if b, isB := g.Signature.Results().At(0).Type().Underlying().(*types.Basic); !isB || b.Kind() != types.Bool {
				return
			}
			rb := x.Call.Args[0]
			if rebase != nil {
				if p, isP := core.Strip(rb).(*ssa.Parameter); isP && paramIdx(p) == 0 {
					rb = rebase
				}
			}
			for _, bb := range g.Blocks {
				switch t := bb.Instrs[len(bb.Instrs)-1].(type) {
				case *ssa.If:
					walk(t.Cond, rb, d-1)
				case *ssa.Return:
					for _, r := range t.Results {
						walk(r, rb, d-1)
					}
				}
			}
		}
	}
	walk(cond, nil, depth)
	return out
}

// crossAlts is the conjunction of two disjunctions of test sets.
func crossAlts(a, b [][]nodeTest) [][]nodeTest {
	var out [][]nodeTest
	for _, x := range a {
		for _, y := range b {
			if len(out) > 64 {
				return out
			}
			z := append(append([]nodeTest{}, x...), y...)
			out = append(out, z)
		}
	}
	return out
}

// nodeAlts lists the alternative ways the boolean value v can take the value want, each as the set of elementary
// node-field tests made on that way: a && b is one alternative testing both, a || b two alternatives; a boolean method
// of the node (n.empty(), or a recursive update that reports emptiness) contributes one alternative per return that can
// yield want, with the conditions that lead to that return.
func (c *Ctx) nodeAlts(v ssa.Value, want bool, rebase ssa.Value, isNode func(types.Type) bool, depth int) [][]nodeTest {
	ctrl := func(b *ssa.BasicBlock, rb ssa.Value, d int) [][]nodeTest {
		alts := [][]nodeTest{nil}
		for _, cc := range controllingConds(b, nil) {
			alts = crossAlts(alts, c.nodeAlts(cc.cond, cc.pol, rb, isNode, d))
		}
		return alts
	}
	switch x := v.(type) {
	case *ssa.Const:
		if x.Value != nil && x.Value.Kind() == constant.Bool {
			if constant.BoolVal(x.Value) == want {
				return [][]nodeTest{nil}
			}
			return nil
		}
	case *ssa.UnOp:
		if x.Op == token.NOT {
			return c.nodeAlts(x.X, !want, rebase, isNode, depth)
		}
	case *ssa.Phi:
		var out [][]nodeTest
		for i, e := range x.Edges {
			if i >= len(x.Block().Preds) {
				break
			}
			ea := c.nodeAlts(e, want, rebase, isNode, depth)
			if len(ea) == 0 {
				continue
			}
			out = append(out, crossAlts(ea, ctrlEdge(c, x.Block().Preds[i], x.Block(), rebase, isNode, depth))...)
		}
		return out
	case *ssa.Call:
		g := x.Call.StaticCallee()
		if depth > 0 && g != nil && g.Pkg != nil && c.P.IsModPkg(g.Pkg.Pkg) && g.Signature.Recv() != nil && isNode(g.Signature.Recv().Type()) && len(x.Call.Args) > 0 && g.Signature.Results().Len() == 1 {
			if bt, isB := g.Signature.Results().At(0).Type().Underlying().(*types.Basic); isB && bt.Kind() == types.Bool {
				rb := x.Call.Args[0]
				if rebase != nil {
					if p, isP := core.Strip(rb).(*ssa.Parameter); isP && paramIdx(p) == 0 {
						rb = rebase
					}
				}
				var out [][]nodeTest
				for _, bb := range g.Blocks {
					if r, ok := bb.Instrs[len(bb.Instrs)-1].(*ssa.Return); ok && len(r.Results) == 1 {
						ra := c.nodeAlts(r.Results[0], want, rb, isNode, depth-1)
						if len(ra) == 0 {
							continue
						}
						out = append(out, crossAlts(ra, ctrl(bb, rb, depth-1))...)
					}
				}
				return out
			}
		}
	}
	// an elementary test (or something opaque): one alternative
	var alt []nodeTest
	for _, t := range c.nodeTests(v, isNode, 0) {
		if rebase != nil {
			if p, isP := core.Strip(t.base).(*ssa.Parameter); isP && paramIdx(p) == 0 {
				t.base = rebase
			}
		}
		alt = append(alt, t)
	}
	return [][]nodeTest{alt}
}

// ctrlEdge: the tests made on the way to taking the edge pred -> blk (controlling conditions of pred, plus pred's own branch).
func ctrlEdge(c *Ctx, pred, blk *ssa.BasicBlock, rebase ssa.Value, isNode func(types.Type) bool, depth int) [][]nodeTest {
	alts := [][]nodeTest{nil}
	for _, cc := range controllingConds(pred, nil) {
		alts = crossAlts(alts, c.nodeAlts(cc.cond, cc.pol, rebase, isNode, depth))
	}
	if iff, ok := pred.Instrs[len(pred.Instrs)-1].(*ssa.If); ok && len(pred.Succs) == 2 && pred.Succs[0] != pred.Succs[1] {
		alts = crossAlts(alts, c.nodeAlts(iff.Cond, pred.Succs[0] == blk, rebase, isNode, depth))
	}
	return alts
}

// ruleFullTraversal: the trie functions that enumerate a whole subtree (iterate, count, dump helpers — recursive, not
// guided by a topic) reach the loop over the node's children on every path: emitting a node's own value never ends
// the enumeration of what lies below it.
func (c *Ctx) ruleFullTraversal(id string, min int) {
	ru := c.R.Rule(id, "every function that enumerates a whole subtree of a trie (recursive over the children, not guided by a topic) reaches the loop over the node's children on every path that does not fail: a node that holds a value is not a leaf", "E1 must-pass-through on all returning paths + E10 siblings", min)
	for _, pkg := range triePkgs {
		children, _, ok := c.nodeFields(pkg)
		if !ru.Anchor(ok, pkg+".Node with a children map") {
			continue
		}
		isNode := func(t types.Type) bool { return isNamed(derefT(t), pkg, "Node") }
		for _, f := range c.P.ModFuncs() {
			if f.Parent() != nil || f.Package() == nil || f.Package().Pkg.Path() != c.P.Rel(pkg) || f.Signature.Recv() == nil || !isNode(f.Signature.Recv().Type()) || len(f.Params) == 0 {
				continue
			}
			recursive, guided := false, false
			for _, cl := range core.CallsIn(f) {
				if cl.Static == f {
					recursive = true
				}
				if cl.Obj != nil && cl.Obj.Name() == "Next" && cl.Obj.Pkg() != nil && strings.HasSuffix(cl.Obj.Pkg().Path(), "/format") {
					guided = true
				}
			}
			isChildrenRange := func(in ssa.Instruction) bool {
				rg, ok := in.(*ssa.Range)
				if !ok {
					return false
				}
				ld, ok := rg.X.(*ssa.UnOp)
				if !ok || ld.Op != token.MUL {
					return false
				}
				fa, ok := ld.X.(*ssa.FieldAddr)
				return ok && fieldNameOf(fa.X.Type(), fa.Field) == children && core.Strip(fa.X) == ssa.Value(f.Params[0])
			}
			hasRange := false
			for _, b := range f.Blocks {
				for _, in := range b.Instrs {
					if isChildrenRange(in) {
						hasRange = true
					}
				}
			}
			if !recursive || guided || !hasRange {
				continue
			}
			c.R.Fn(c.fname(f))
			key := "subtree enumeration " + c.fname(f)
			paths, err := core.EnumPaths(f, core.PathOpts{})
			if err != nil {
				ru.Undecided(key, c.whereF(f), err.Error())
				continue
			}
			ru.Evals(len(paths))
			bad := ""
			for _, p := range paths {
				if _, isRet := p.Exit.(*ssa.Return); !isRet {
					continue
				}
				if isNil, known := p.ReturnsNilError(); known && !isNil {
					continue
				}
				through := false
				for _, pi := range p.Instrs() {
					if isChildrenRange(pi.In) {
						through = true
					}
				}
				if !through {
					bad = "a path returns without visiting the node's children: the subtree below a node is skipped — " + fmtPath(p, c.P)
				}
			}
			ru.Check(bad == "", key, c.whereF(f), "every returning path loops over the children", bad)
		}
	}
}

// subtreeEnumerations lists the trie functions of pkg that enumerate a whole subtree: methods of Node that are
// recursive over the children and not guided by a topic.
func (c *Ctx) subtreeEnumerations(pkg string) map[*ssa.Function]bool {
	out := map[*ssa.Function]bool{}
	children, _, ok := c.nodeFields(pkg)
	if !ok {
		return out
	}
	isNode := func(t types.Type) bool { return isNamed(derefT(t), pkg, "Node") }
	for _, f := range c.P.ModFuncs() {
		if f.Parent() != nil || f.Package() == nil || f.Package().Pkg.Path() != c.P.Rel(pkg) || f.Signature.Recv() == nil || !isNode(f.Signature.Recv().Type()) || len(f.Params) == 0 {
			continue
		}
		recursive, guided, ranges := false, false, false
		for _, cl := range core.CallsIn(f) {
			if cl.Static == f {
				recursive = true
			}
			if cl.Obj != nil && cl.Obj.Name() == "Next" && cl.Obj.Pkg() != nil && strings.HasSuffix(cl.Obj.Pkg().Path(), "/format") {
				guided = true
			}
		}
		for _, b := range f.Blocks {
			for _, in := range b.Instrs {
				if rg, ok := in.(*ssa.Range); ok {
					if ld, ok := rg.X.(*ssa.UnOp); ok && ld.Op == token.MUL {
						if fa, ok := ld.X.(*ssa.FieldAddr); ok && fieldNameOf(fa.X.Type(), fa.Field) == children && core.Strip(fa.X) == ssa.Value(f.Params[0]) {
							ranges = true
						}
					}
				}
			}
		}
		if recursive && !guided && ranges {
			out[f] = true
		}
	}
	return out
}

// ruleRetainedWildcardParent: in the retained trie a filter ending in '#' also selects the retained message of the parent level.
func (c *Ctx) ruleRetainedWildcardParent(id string) {
	ru := c.R.Rule(id, "retained trie match: where the filter's next level is '#', the enumeration of retained messages is rooted at the current node itself (its own message and everything below), not at its children: a subscription to home/# replays the message retained on home", "E1 paths of the topic-guided match under token == '#' + E3 receiver provenance of the subtree enumeration", 1)
	pkg := "topics"
	isNode := func(t types.Type) bool { return isNamed(derefT(t), pkg, "Node") }
	enums := c.subtreeEnumerations(pkg)
	// the recursive routine behind Store.Match: a call cycle (match calling itself, or match → matchLevel → match)
	// whose members together read the filter level by level and test for '#'
	var match *ssa.Function
	if entry := c.implOf(ru, "topics", "Store", "Match"); entry != nil {
		head, members := c.trieWalk(pkg, entry)
		guided, wild := false, false
		for g := range members {
			for _, cl := range core.CallsIn(g) {
				if cl.Obj != nil && cl.Obj.Name() == "Next" && cl.Obj.Pkg() != nil && strings.HasSuffix(cl.Obj.Pkg().Path(), "/format") {
					guided = true
				}
			}
			for _, b := range g.Blocks {
				for _, in := range b.Instrs {
					if bo, ok := in.(*ssa.BinOp); ok && isWildcardTest(bo) {
						wild = true
					}
				}
			}
		}
		if head != nil && head.Signature.Recv() != nil && isNode(head.Signature.Recv().Type()) && guided && wild {
			match = head
		}
	}
	if match == nil && len(enums) > 0 {
		// not a recursive descent: the match may walk the trie level by level, keeping the nodes reached so far in a
		// frontier slice (level := []*Node{n}; for … { token := next level; if token == "#" { for each node of level:
		// enumerate from node }; level = children selected by token })
		if c.worklistWildcardParent(ru, pkg, isNode, enums) {
			return
		}
	}
	if !ru.Anchor(match != nil, "the topic-guided recursive match of topics.Node that tests for '#'") || !ru.Anchor(len(enums) > 0, "a subtree enumeration of topics.Node") {
		return
	}
	c.R.Fn(c.fname(match))
	// rooted(g): calling g on a node enumerates the subtree rooted at that node: g is a subtree enumeration, or hands its own receiver to one
	var rooted func(g *ssa.Function, depth int) bool
	rooted = func(g *ssa.Function, depth int) bool {
		if g == nil || len(g.Params) == 0 {
			return false
		}
		if enums[g] {
			return true
		}
		if depth == 0 {
			return false
		}
		for _, in := range core.CallsIn(g) {
			if in.Static != nil && in.Static != g && len(in.Common.Args) > 0 && core.Strip(in.Common.Args[0]) == ssa.Value(g.Params[0]) && rooted(in.Static, depth-1) {
				return true
			}
		}
		return false
	}
	rootedHere := func(p *core.Path, cl *core.Call) bool {
		g := cl.Static
		if g == nil || len(cl.Common.Args) == 0 || core.Strip(p.Resolve(core.Strip(cl.Common.Args[0]))) != ssa.Value(match.Params[0]) {
			return false
		}
		return rooted(g, 3)
	}
	paths, err := c.pathsInlinedPkg(match, core.PathOpts{}, func(g *ssa.Function) bool { return enums[g] })
	if err != nil {
		ru.Undecided("'#' arm of "+c.fname(match), c.whereF(match), err.Error())
		return
	}
	ru.Evals(len(paths))
	bad, n := "", 0
	for _, p := range paths {
		isWild := false
		for _, d := range decisions(p) {
			if bo, ok := d.Cond.(*ssa.BinOp); ok && isWildcardTest(bo) && d.Val == (bo.Op == token.EQL) {
				isWild = true
			}
		}
		if !isWild {
			continue
		}
		n++
		ok := false
		for _, pc := range p.Calls() {
			if rootedHere(p, pc.Call) {
				ok = true
			}
		}
		if !ok {
			bad = "under '#' the retained messages are not enumerated from the current node itself: the message retained on the parent level of the filter (home for home/#) is not replayed — " + fmtPath(p, c.P)
		}
	}
	ru.Check(bad == "" && n > 0, "'#' arm of "+c.fname(match), c.whereF(match), fmt.Sprintf("%d path(s) under '#', each enumerates the subtree rooted at the current node", n), bad+map[bool]string{true: "", false: "no path decides token == '#'"}[n > 0 || bad != ""])
}

// worklistWildcardParent decides C07-R7 for a level-by-level match: under token == '#' the subtree enumeration is
// called on the nodes of the current frontier themselves (elements of the slice that the loop over the filter's levels
// carries from one iteration to the next, and that starts as the slice holding the receiver alone), not on nodes read
// out of a children map in that iteration. Returns false when no such routine is found (the caller reports the anchor).
func (c *Ctx) worklistWildcardParent(ru *report.Rule, pkg string, isNode func(types.Type) bool, enums map[*ssa.Function]bool) bool {
	entry := c.implOf(ru, "topics", "Store", "Match")
	if entry == nil {
		return false
	}
	var wl *ssa.Function
	var nextCall *core.Call
	for _, g := range c.reachInPkg(entry, entry.Package()) {
		if g.Signature.Recv() == nil || !isNode(g.Signature.Recv().Type()) {
			continue
		}
		wild := false
		var nx *core.Call
		loops := core.Loops(g)
		for _, cl := range core.CallsIn(g) {
			if cl.Obj != nil && cl.Obj.Name() == "Next" && cl.Obj.Pkg() != nil && strings.HasSuffix(cl.Obj.Pkg().Path(), "/format") && core.InnermostLoop(loops, cl.Instr.Block()) != nil {
				nx = cl
			}
		}
		for _, b := range g.Blocks {
			for _, in := range b.Instrs {
				if bo, ok := in.(*ssa.BinOp); ok && isWildcardTest(bo) {
					wild = true
				}
			}
		}
		if nx != nil && wild {
			wl, nextCall = g, nx
		}
	}
	if wl == nil {
		return false
	}
	c.R.Fn(c.fname(wl))
	loops := core.Loops(wl)
	// the loop over the filter's levels: the outermost loop that holds the Next call
	var outer *core.Loop
	for _, l := range loops {
		if l.Blocks[nextCall.Instr.Block()] && (outer == nil || len(l.Blocks) > len(outer.Blocks)) {
			outer = l
		}
	}
	var rooted func(g *ssa.Function, depth int) bool
	rooted = func(g *ssa.Function, depth int) bool {
		if g == nil || len(g.Params) == 0 {
			return false
		}
		if enums[g] {
			return true
		}
		if depth == 0 {
			return false
		}
		for _, in := range core.CallsIn(g) {
			if in.Static != nil && in.Static != g && len(in.Common.Args) > 0 && core.Strip(in.Common.Args[0]) == ssa.Value(g.Params[0]) && rooted(in.Static, depth-1) {
				return true
			}
		}
		return false
	}
	// v is an element of the frontier carried by the outer loop (no children map is read on the way)
	var frontier *ssa.Phi
	var fromFrontier func(v ssa.Value, depth int) bool
	fromFrontier = func(v ssa.Value, depth int) bool {
		if depth > 12 {
			return false
		}
		switch x := v.(type) {
		case *ssa.UnOp:
			if x.Op != token.MUL {
				return false
			}
			return fromFrontier(x.X, depth+1)
		case *ssa.IndexAddr:
			return fromFrontier(x.X, depth+1)
		case *ssa.Alloc:
			if sv := core.CellValue(x); sv != nil {
				return fromFrontier(sv, depth+1)
			}
			return false
		case *ssa.Phi:
			if x.Block() == outer.Header {
				if sl, ok := x.Type().Underlying().(*types.Slice); ok && isNode(sl.Elem()) {
					frontier = x
					return true
				}
				return false
			}
			for _, e := range x.Edges {
				if e != ssa.Value(x) && !fromFrontier(e, depth+1) {
					return false
				}
			}
			return len(x.Edges) > 0
		}
		return false
	}
	bad, n := "", 0
	for _, cl := range core.CallsIn(wl) {
		if cl.Static == nil || len(cl.Common.Args) == 0 || !rooted(cl.Static, 3) {
			continue
		}
		underWild := false
		for _, cc := range controllingConds(cl.Instr.Block(), nil) {
			if bo, ok := cc.cond.(*ssa.BinOp); ok && isWildcardTest(bo) && cc.pol == (bo.Op == token.EQL) {
				underWild = true
			}
		}
		if !underWild {
			continue
		}
		n++
		if !fromFrontier(cl.Common.Args[0], 0) {
			bad = "under '#' the retained messages are not enumerated from the nodes of the current level themselves (" + c.whereI(cl.Instr) + "): the message retained on the parent level of the filter (home for home/#) is not replayed"
		}
	}
	if bad == "" && frontier != nil {
		// the frontier starts as the slice that holds the receiver alone
		startsAtRecv := false
		for i, e := range frontier.Edges {
			if outer.Blocks[frontier.Block().Preds[i]] {
				continue
			}
			{
				// []*Node{n}: a slice of an array literal
				if sl, isSl := e.(*ssa.Slice); isSl {
					if arr, isAl := sl.X.(*ssa.Alloc); isAl && arr.Referrers() != nil {
						for _, r := range *arr.Referrers() {
							if ia, isIA := r.(*ssa.IndexAddr); isIA && ia.Referrers() != nil {
								for _, rr := range *ia.Referrers() {
									if st, isSt := rr.(*ssa.Store); isSt && core.Strip(st.Val) == ssa.Value(wl.Params[0]) {
										startsAtRecv = true
									}
								}
							}
						}
					}
				}
			}
		}
		if !startsAtRecv {
			bad = "the frontier of the level-by-level match does not start as the slice holding the node the match was called on"
		}
		// the next level is collected in storage of its own: a slice that re-uses the backing array of the level still
		// being read (next := level[:0]) overwrites nodes that have not been visited yet
		seen := map[ssa.Value]bool{}
		var shares func(v ssa.Value, bind map[*ssa.Parameter]ssa.Value, depth int) bool
		shares = func(v ssa.Value, bind map[*ssa.Parameter]ssa.Value, depth int) bool {
			if v == nil || depth > 14 || seen[v] {
				return false
			}
			seen[v] = true
			switch x := v.(type) {
			case *ssa.Phi:
				if x == frontier {
					return true
				}
				for _, e := range x.Edges {
					if shares(e, bind, depth+1) {
						return true
					}
				}
			case *ssa.Slice:
				return shares(x.X, bind, depth+1)
			case *ssa.UnOp:
				if x.Op == token.MUL {
					if al, ok := x.X.(*ssa.Alloc); ok {
						for _, st := range allStoresTo(al) {
							if shares(st.Val, bind, depth+1) {
								return true
							}
						}
					}
				}
			case *ssa.Parameter:
				if a, ok := bind[x]; ok {
					return shares(a, nil, depth+1)
				}
			case *ssa.Call:
				if b, isB := x.Call.Value.(*ssa.Builtin); isB && b.Name() == "append" {
					return shares(x.Call.Args[0], bind, depth+1)
				}
				if g := x.Call.StaticCallee(); g != nil && len(g.Blocks) > 0 && g.Pkg == wl.Pkg {
					nb := map[*ssa.Parameter]ssa.Value{}
					for i, prm := range g.Params {
						if i < len(x.Call.Args) {
							nb[prm] = x.Call.Args[i]
						}
					}
					for _, rv := range returnValues(g) {
						if shares(rv, nb, depth+1) {
							return true
						}
					}
				}
			}
			return false
		}
		for i, e := range frontier.Edges {
			if outer.Blocks[frontier.Block().Preds[i]] && shares(e, nil, 0) {
				bad = "the next level is collected in a slice that shares the backing array of the level still being read (a re-slice of it): as soon as a node has two children the nodes of the current level that have not been visited yet are overwritten, and the retained messages below them are not replayed"
			}
		}
	}
	ru.Check(bad == "" && n > 0, "'#' arm of "+c.fname(wl), c.whereF(wl), fmt.Sprintf("%d enumeration(s) under '#', each called on the nodes of the current level", n), bad+map[bool]string{true: "", false: "no subtree enumeration is made under token == '#'"}[n > 0 || bad != ""])
	return true
}

// isWildcardTest: a (dis)equality between something and the multi-level wildcard constant "#".
func isWildcardTest(bo *ssa.BinOp) bool {
	if bo.Op != token.EQL && bo.Op != token.NEQ {
		return false
	}
	for _, v := range []ssa.Value{bo.X, bo.Y} {
		if k, ok := v.(*ssa.Const); ok && k.Value != nil && k.Value.ExactString() == `"#"` {
			return true
		}
	}
	return false
}

// ruleInteriorPointersFollowRoot implements C19-R6: a store wrapper that replaces its tree (Load installs a root decoded
// from a dump) also resets every other pointer into the tree that it keeps (a remembered node, a cursor): such a pointer
// still designates a node of the discarded tree, and writes made through it are invisible to every later read.
func (c *Ctx) ruleInteriorPointersFollowRoot(id string) {
	ru := c.R.Rule(id, "when a trie wrapper replaces its tree by another one (a root that does not derive from the current tree: Load), every other field of the wrapper that points into the tree is assigned in the same function: a remembered node of the discarded tree would receive later writes that no read can see", "E11 shape rule on the wrapper's node-typed fields (positive control: root replacements counted)", 2)
	n := 0
	for _, pkg := range triePkgs {
		isNodePtr := func(t types.Type) bool {
			p, ok := t.Underlying().(*types.Pointer)
			return ok && isNamed(p.Elem(), pkg, "Node")
		}
		for _, f := range c.P.ModFuncs() {
			if f.Package() == nil || f.Package().Pkg.Path() != c.P.Rel(pkg) || c.P.IsGenerated(f) {
				continue
			}
			for _, b := range f.Blocks {
				for _, in := range b.Instrs {
					st, ok := in.(*ssa.Store)
					if !ok {
						continue
					}
					fa, ok := st.Addr.(*ssa.FieldAddr)
					if !ok || !isNodePtr(derefT(fa.Type())) {
						continue
					}
					wt, ok := derefT(fa.X.Type()).Underlying().(*types.Struct)
					if !ok || isNamed(derefT(fa.X.Type()), pkg, "Node") {
						continue
					}
					// the wrapper is being constructed here: not a replacement
					if _, fresh := core.Strip(fa.X).(*ssa.Alloc); fresh {
						continue
					}
					// derives from the current tree (a node found by walking it): not a replacement
					fromTree := depReaches(st.Val, func(v ssa.Value) bool {
						ld, ok := v.(*ssa.UnOp)
						if !ok || ld.Op != token.MUL {
							return false
						}
						ofa, ok := ld.X.(*ssa.FieldAddr)
						return ok && isNodePtr(derefT(ofa.Type())) && types.Identical(derefT(ofa.X.Type()), derefT(fa.X.Type()))
					})
					if fromTree {
						continue
					}
					n++
					c.R.Fn(c.fname(f))
					key := fmt.Sprintf("tree replaced in %s", c.fname(f))
					bad := ""
					for i := 0; i < wt.NumFields(); i++ {
						if i == fa.Field || !isNodePtr(wt.Field(i).Type()) {
							continue
						}
						reset := false
						for _, ob := range f.Blocks {
							for _, oin := range ob.Instrs {
								if ost, ok := oin.(*ssa.Store); ok {
									if ofa, ok := ost.Addr.(*ssa.FieldAddr); ok && ofa.Field == i && types.Identical(derefT(ofa.X.Type()), derefT(fa.X.Type())) && (ob.Dominates(b) || b.Dominates(ob)) {
										reset = true
									}
								}
							}
						}
						if !reset {
							bad = "the field " + wt.Field(i).Name() + " keeps pointing into the tree that is being discarded"
						}
					}
					ru.Check(bad == "", key, c.whereI(st), "no other pointer into the tree survives", bad)
				}
			}
		}
	}
	ru.Anchor(n > 0, "a function that installs a new root in a trie wrapper")
}

// ruleEndOfKeyAgreement implements C19-R7: the routines of one trie that consume a key level by level agree on what ends
// a key — the level token being empty, or the remaining key being empty. The two differ for keys with an empty level
// (a//b, a/): a store whose insert stops at the first empty level while its look-up goes on never finds what it stored.
func (c *Ctx) ruleEndOfKeyAgreement(id string) {
	ru := c.R.Rule(id, "within one trie, every routine that walks a key level by level (format.Topic.Next) recognises the end of the key by the same test — the level just read is empty, or nothing remains — so that insert, remove and look-up stop at the same node for every key, keys with empty levels included", "E10 sibling agreement on the end-of-key predicate", 2)
	for _, pkg := range triePkgs {
		classOf := map[*ssa.Function]string{}
		var fns []*ssa.Function
		for _, f := range c.P.ModFuncs() {
			if f.Package() == nil || f.Package().Pkg.Path() != c.P.Rel(pkg) || c.P.IsGenerated(f) || f.Signature.Recv() == nil || !isNamed(derefT(f.Signature.Recv().Type()), pkg, "Node") {
				continue
			}
			var next *ssa.Call
			for _, cl := range core.CallsIn(f) {
				if cl.Obj != nil && cl.Obj.Name() == "Next" && cl.Obj.Pkg() != nil && strings.HasSuffix(cl.Obj.Pkg().Path(), "/format") {
					if cv, ok := cl.Instr.(*ssa.Call); ok {
						next = cv
					}
				}
			}
			if next == nil {
				continue
			}
			tokEmpty, remaining := false, false
			for _, b := range f.Blocks {
				for _, in := range b.Instrs {
					bo, ok := in.(*ssa.BinOp)
					if !ok || (bo.Op != token.EQL && bo.Op != token.NEQ && bo.Op != token.GTR && bo.Op != token.LSS) {
						continue
					}
					for _, pair := range [][2]ssa.Value{{bo.X, bo.Y}, {bo.Y, bo.X}} {
						k, isK := pair[1].(*ssa.Const)
						if !isK || k.Value == nil {
							continue
						}
						if ex, ok := core.Strip(pair[0]).(*ssa.Extract); ok && ex.Tuple == ssa.Value(next) && ex.Index == 1 && k.Value.ExactString() == `""` {
							tokEmpty = true
						}
						if lc, ok := core.Strip(pair[0]).(*ssa.Call); ok && core.CallOf(lc).Builtin() == "len" && len(lc.Call.Args) == 1 {
							if nt, ok := lc.Call.Args[0].Type().(*types.Named); ok && nt.Obj().Name() == "Topic" && k.Value.ExactString() == "0" {
								remaining = true
							}
						}
					}
				}
			}
			cls := map[[2]bool]string{{true, false}: "the level just read is empty", {false, true}: "nothing remains of the key", {true, true}: "both tests", {false, false}: "no end-of-key test"}[[2]bool{tokEmpty, remaining}]
			classOf[f] = cls
			fns = append(fns, f)
		}
		if !ru.Anchor(len(fns) > 0, "level-by-level routines of "+pkg+".Node") {
			continue
		}
		count := map[string]int{}
		for _, f := range fns {
			count[classOf[f]]++
		}
		major := ""
		for cls, n := range count {
			if n > count[major] || (n == count[major] && cls < major) {
				major = cls
			}
		}
		for _, f := range fns {
			c.R.Fn(c.fname(f))
			ru.Check(classOf[f] == major, "end-of-key test of "+c.fname(f), c.whereF(f), classOf[f], fmt.Sprintf("this routine ends a key when %s, its %d sibling(s) when %s: for a key with an empty level they stop at different nodes", classOf[f], count[major], major))
		}
	}
}

// ruleKeysAreCopied implements C19-R8: the level tokens that become map keys of the tries are strings of their own: no
// unsafe pointer conversion in the tokeniser or in the tries (a key that aliases the caller's topic buffer is rewritten
// when the caller reuses that buffer: the entry stored under it becomes unreachable).
func (c *Ctx) ruleKeysAreCopied(id string) {
	ru := c.R.Rule(id, "the keys of the tries do not alias their callers' buffers: no function of wasp/format, topics or subscriptions converts through unsafe.Pointer (a zero-copy []byte→string conversion of a level makes a map key change when the caller reuses the slice it passed as topic)", "E11 who-may-convert over the three packages (positive control: their string conversions counted)", 1)
	n, bad := 0, ""
	for _, f := range c.P.ModFuncs() {
		if f.Package() == nil || c.P.IsGenerated(f) {
			continue
		}
		pp := f.Package().Pkg.Path()
		if pp != c.P.Rel("wasp/format") && pp != c.P.Rel("topics") && pp != c.P.Rel("subscriptions") {
			continue
		}
		for _, b := range f.Blocks {
			for _, in := range b.Instrs {
				cv, ok := in.(*ssa.Convert)
				if !ok {
					continue
				}
				isUnsafe := func(t types.Type) bool {
					bt, ok := t.Underlying().(*types.Basic)
					return ok && bt.Kind() == types.UnsafePointer
				}
				if isUnsafe(cv.Type()) || isUnsafe(cv.X.Type()) {
					bad = "conversion through unsafe.Pointer at " + c.whereI(cv)
				}
				if bt, ok := cv.Type().Underlying().(*types.Basic); ok && bt.Kind() == types.String {
					n++
					c.R.Fn(c.fname(f))
				}
			}
		}
	}
	ru.Check(bad == "" && n > 0, "conversions in wasp/format, topics, subscriptions", "-", fmt.Sprintf("%d copying string conversion(s), no unsafe pointer", n), bad+map[bool]string{true: "", false: " no string conversion found in the tokeniser"}[n > 0])
}

// ruleValueRemovalKeepsChildren implements C19-R5.
func (c *Ctx) ruleValueRemovalKeepsChildren(id string) {
	ru := c.R.Rule(id, "the trie code clears a node's value by assigning its payload field only: it never overwrites a whole node (no *n = Node{…}, no call of the generated Reset) — that would drop the node's children, i.e. every longer key stored below the one removed", "E11 who-may-call / shape rule on the hand-written Node methods (positive control: payload stores counted)", 2)
	for _, pkg := range triePkgs {
		_, payload, ok := c.nodeFields(pkg)
		if !ru.Anchor(ok, pkg+".Node") {
			continue
		}
		isNode := func(t types.Type) bool { return isNamed(derefT(t), pkg, "Node") }
		n, bad := 0, ""
		for _, f := range c.P.ModFuncs() {
			if f.Package() == nil || f.Package().Pkg.Path() != c.P.Rel(pkg) || c.P.IsGenerated(f) {
				continue
			}
			for _, b := range f.Blocks {
				for _, in := range b.Instrs {
					switch x := in.(type) {
					case *ssa.Store:
						if fa, ok := x.Addr.(*ssa.FieldAddr); ok && isNode(fa.X.Type()) && fieldNameOf(fa.X.Type(), fa.Field) == payload {
							n++
							c.R.Fn(c.fname(f))
						}
						// *n = Node{...} on an existing node (not the initialisation of a fresh one)
						if isNode(x.Addr.Type()) {
							if _, isStructVal := x.Val.Type().Underlying().(*types.Struct); isStructVal {
								if _, fresh := core.Strip(x.Addr).(*ssa.Alloc); !fresh {
									bad = "a whole node is overwritten at " + c.whereI(x) + ": its children are dropped together with its value"
								}
							}
						}
					case *ssa.Call:
						if g := x.Call.StaticCallee(); g != nil && g.Name() == "Reset" && g.Signature.Recv() != nil && isNode(g.Signature.Recv().Type()) && c.P.IsGenerated(g) {
							bad = "the generated Reset is called on a trie node at " + c.whereI(x) + ": it zeroes the whole node, children included — removing a key drops every longer key stored below it"
						}
					}
				}
			}
		}
		ru.Check(bad == "" && n > 0, "node overwrites in package "+pkg, "-", fmt.Sprintf("%d payload assignment(s), no whole-node overwrite", n), bad+map[bool]string{true: "", false: "no assignment to the payload field found"}[n > 0 || bad != ""])
	}
}

// childrenAlwaysAllocated: the package keeps the invariant "every Node has a non-nil children map": every Node literal
// of the package's own code either sets the field to a fresh map, or is handed to proto.Unmarshal and then to a method
// that allocates the map of the node it is called on (if nil) and calls itself on every child (so that a decoded tree
// is completed node by node), before the function returns.
func (c *Ctx) childrenAlwaysAllocated(pkg string, isNode func(types.Type) bool, children string, field int) bool {
	// the completing methods
	completes := map[*ssa.Function]bool{}
	for _, g := range c.P.ModFuncs() {
		if g.Package() == nil || g.Package().Pkg.Path() != c.P.Rel(pkg) || c.P.IsGenerated(g) || len(g.Params) == 0 || !isNode(g.Params[0].Type()) {
			continue
		}
		allocs, recurses := false, false
		for _, b := range g.Blocks {
			for _, in := range b.Instrs {
				switch x := in.(type) {
				case *ssa.Store:
					if fa, ok := x.Addr.(*ssa.FieldAddr); ok && fa.Field == field && core.Strip(fa.X) == ssa.Value(g.Params[0]) {
						if _, isMake := x.Val.(*ssa.MakeMap); isMake {
							// unconditional, or under `== nil` on that field
							allocs = true
						}
					}
				case *ssa.Call:
					if x.Call.StaticCallee() == g && len(x.Call.Args) > 0 && core.InnermostLoop(core.Loops(g), b) != nil {
						// called on a value that comes out of a range over the receiver's children map
						if depReaches(x.Call.Args[0], func(v ssa.Value) bool {
							rg, ok := v.(*ssa.Range)
							if !ok {
								return false
							}
							ld, ok := rg.X.(*ssa.UnOp)
							if !ok || ld.Op != token.MUL {
								return false
							}
							fa, ok := ld.X.(*ssa.FieldAddr)
							return ok && fa.Field == field && core.Strip(fa.X) == ssa.Value(g.Params[0])
						}) {
							recurses = true
						}
					}
				}
			}
		}
		if allocs && recurses {
			completes[g] = true
			c.R.Fn(c.fname(g))
		}
	}
	unmarshal := c.P.FuncObj("github.com/golang/protobuf/proto", "Unmarshal")
	n := 0
	for _, f := range c.P.ModFuncs() {
		if f.Package() == nil || f.Package().Pkg.Path() != c.P.Rel(pkg) || c.P.IsGenerated(f) {
			continue
		}
		for _, b := range f.Blocks {
			for _, in := range b.Instrs {
				al, ok := in.(*ssa.Alloc)
				if !ok || !isNode(al.Type()) || !al.Heap {
					continue
				}
				if _, isStruct := derefT(al.Type()).Underlying().(*types.Struct); !isStruct {
					continue
				}
				n++
				decoded := false
				for _, um := range core.CallsIn(f) {
					if unmarshal != nil && um.Is(unmarshal) && depReaches(um.Arg(1), func(v ssa.Value) bool { return v == ssa.Value(al) }) {
						decoded = true // whatever the literal held is replaced by what the dump holds, at every level
					}
				}
				if !decoded {
					if mv := (&builtObj{alloc: al}).field(children); mv != nil {
						if _, isMake := mv.(*ssa.MakeMap); isMake {
							continue
						}
					}
				}
				// decoded, then completed
				completed := false
				for _, cl := range core.CallsIn(f) {
					if cl.Static != nil && completes[cl.Static] && len(cl.Common.Args) > 0 && core.Strip(cl.Common.Args[0]) == ssa.Value(al) {
						for _, um := range core.CallsIn(f) {
							if unmarshal != nil && um.Is(unmarshal) && core.Dominates(um.Instr, cl.Instr) && depReaches(um.Arg(1), func(v ssa.Value) bool { return v == ssa.Value(al) }) {
								completed = true
							}
						}
					}
				}
				if !completed {
					return false
				}
			}
		}
	}
	return n > 0
}
