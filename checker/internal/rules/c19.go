package rules

import (
	"fmt"
	"go/token"
	"go/types"
	"sort"
	"strings"

	"golang.org/x/tools/go/ssa"

	"waspcheck/internal/core"
)

func init() { register("C19", checkC19) }

// triePkgs are the two sibling tries.
var triePkgs = []string{"subscriptions", "topics"}

// nodeFields returns the names of the children-map field and the payload ([]byte) field of the package's Node type.
func (c *Ctx) nodeFields(pkg string) (children, payload string, ok bool) {
	n := c.P.Named(pkg, "Node")
	if n == nil {
		return "", "", false
	}
	st, isStruct := n.Underlying().(*types.Struct)
	if !isStruct {
		return "", "", false
	}
	for i := 0; i < st.NumFields(); i++ {
		f := st.Field(i)
		if !f.Exported() || strings.HasPrefix(f.Name(), "XXX_") {
			continue
		}
		switch t := f.Type().Underlying().(type) {
		case *types.Map:
			children = f.Name()
		case *types.Slice:
			if b, isB := t.Elem().Underlying().(*types.Basic); isB && b.Kind() == types.Byte {
				payload = f.Name()
			}
		}
	}
	return children, payload, children != "" && payload != ""
}

func checkC19(c *Ctx) {
	c.R.Explanation = "Static rules cross-checked between the two sibling tries (subscriptions/node.go, topics/node.go): (R1) every store into a Node's children map is dominated by a nil-check-and-make of that very map (a tree rebuilt by Load has nil maps); (R2) every pruning delete of a child is control-dependent on a condition that reads both the child's payload length and the child's children count; (R3) counting, iteration and the emitting branch of matching use the same emptiness predicate on the node's own payload."
	c.R.NotCovered = "Map-like behaviour over all operation sequences, dump/load round-trip equality, aliasing of empty levels ('a//b', 'a/'), matching semantics."
	ru1 := c.R.Rule("C19-R1", "a store into a trie node's children map is dominated by a nil-check that allocates that map (trees rebuilt from a dump have nil maps)", "E2 dominance + E10 siblings", 2)
	ru2 := c.R.Rule("C19-R2", "a child is pruned from its parent only under a condition that tests both that the child holds no value and that it has no children", "E3 control dependence + E10 siblings", 2)
	ru3 := c.R.Rule("C19-R3", "count, iterate and the emitting branch of match agree on the emptiness predicate applied to a node's own payload", "E10 sibling agreement", 1)
	for _, pkg := range triePkgs {
		children, payload, ok := c.nodeFields(pkg)
		if !ru1.Anchor(ok, pkg+".Node with a children map and a []byte payload") {
			continue
		}
		isNode := func(t types.Type) bool { return isNamed(derefT(t), pkg, "Node") }
		predTerms := map[string][]string{}
		for _, f := range c.P.ModFuncs() {
			if f.Package() == nil || f.Package().Pkg.Path() != c.P.Rel(pkg) {
				continue
			}
			for _, b := range f.Blocks {
				for _, in := range b.Instrs {
					switch x := in.(type) {
					case *ssa.MapUpdate:
						ld, ok := x.Map.(*ssa.UnOp)
						if !ok || ld.Op != token.MUL {
							continue
						}
						fa, ok := ld.X.(*ssa.FieldAddr)
						if !ok || !isNode(fa.X.Type()) || fieldNameOf(fa.X.Type(), fa.Field) != children {
							continue
						}
						c.R.Fn(c.fname(f))
						key := fmt.Sprintf("store into %s.Node.%s in %s", pkg, children, c.fname(f))
						ru1.Check(c.nilGuardedMap(f, fa, x), key, c.whereI(x), "dominated by `if m == nil { m = make(...) }` on the same node", "the children map may be nil here (node rebuilt by Load, or zero Node): the store panics")
					case *ssa.Call:
						bi, ok := x.Call.Value.(*ssa.Builtin)
						if !ok || bi.Name() != "delete" {
							continue
						}
						ld, ok := x.Call.Args[0].(*ssa.UnOp)
						if !ok {
							continue
						}
						fa, ok := ld.X.(*ssa.FieldAddr)
						if !ok || !isNode(fa.X.Type()) || fieldNameOf(fa.X.Type(), fa.Field) != children {
							continue
						}
						c.R.Fn(c.fname(f))
						key := fmt.Sprintf("prune of a child in %s", c.fname(f))
						seesPayload, seesChildren := false, false
						for _, cc := range controllingConds(b, nil) {
							t := core.Term(cc.cond)
							if strings.Contains(t, "builtin:len(") && strings.Contains(t, ")."+payload) {
								seesPayload = true
							}
							if strings.Contains(t, "builtin:len(") && strings.Contains(t, ")."+children) {
								seesChildren = true
							}
						}
						switch {
						case seesPayload && seesChildren:
							ru2.OK(key, c.whereI(x), "tests the child's payload and its children")
						case seesChildren:
							ru2.Fail(key, c.whereI(x), "the child is pruned as soon as it has no children, even if it holds a value: removing a/b/c drops the value stored at a/b")
						case seesPayload:
							ru2.Fail(key, c.whereI(x), "the child is pruned as soon as it holds no value, even if it has children: its whole subtree is lost")
						default:
							ru2.Fail(key, c.whereI(x), "the child is pruned unconditionally")
						}
					}
				}
				// R3: conditions on the receiver's own payload
				if iff, ok := b.Instrs[len(b.Instrs)-1].(*ssa.If); ok && f.Signature.Recv() != nil && isNode(f.Signature.Recv().Type()) {
					t := core.Term(iff.Cond)
					for strings.HasPrefix(t, "!(") && strings.HasSuffix(t, ")") {
						t = t[2 : len(t)-1] // the atom, whatever branch the code hangs on it
					}
					if strings.Contains(t, "(*P0)."+payload) && !strings.Contains(t, "Children") {
						predTerms[c.fname(f)] = append(predTerms[c.fname(f)], t)
					}
				}
			}
		}
		// sibling agreement
		var names []string
		for n := range predTerms {
			sort.Strings(predTerms[n])
			names = append(names, n)
		}
		sort.Strings(names)
		if len(names) >= 2 {
			ref := strings.Join(predTerms[names[0]], " ; ")
			bad := ""
			for _, n := range names[1:] {
				if got := strings.Join(predTerms[n], " ; "); got != ref {
					bad = fmt.Sprintf("%s tests [%s] but %s tests [%s]", names[0], ref, n, got)
				}
			}
			ru3.Check(bad == "", "payload emptiness predicate across "+strings.Join(names, ", "), "-", "same predicate in "+fmt.Sprint(len(names))+" functions: "+short(ref, 120), "the functions disagree on when a node counts as holding a value: "+bad)
		}
	}
}

// nilGuardedMap: the MapUpdate through field address fa is dominated by an If on "(node).Children == nil" whose true branch stores a fresh map into the same field.
func (c *Ctx) nilGuardedMap(f *ssa.Function, fa *ssa.FieldAddr, at ssa.Instruction) bool {
	fieldTerm := core.Term(fa) // &(node).Children
	for _, b := range f.Blocks {
		iff, ok := b.Instrs[len(b.Instrs)-1].(*ssa.If)
		if !ok || !b.Dominates(at.Block()) {
			continue
		}
		bo, ok := iff.Cond.(*ssa.BinOp)
		if !ok || bo.Op != token.EQL {
			continue
		}
		var loaded ssa.Value
		if k, ok := bo.Y.(*ssa.Const); ok && k.Value == nil {
			loaded = bo.X
		} else if k, ok := bo.X.(*ssa.Const); ok && k.Value == nil {
			loaded = bo.Y
		}
		ld, ok := loaded.(*ssa.UnOp)
		if !ok || ld.Op != token.MUL || core.Term(ld.X) != fieldTerm {
			continue
		}
		// true branch stores make(map) into the same field
		tb := b.Succs[0]
		for _, rb := range f.Blocks {
			if !tb.Dominates(rb) {
				continue
			}
			for _, in := range rb.Instrs {
				if st, ok := in.(*ssa.Store); ok && core.Term(st.Addr) == fieldTerm {
					if _, ok := st.Val.(*ssa.MakeMap); ok {
						return true
					}
				}
			}
		}
	}
	return false
}
