package rules

import (
	"fmt"
	"go/token"
	"go/types"

	"golang.org/x/tools/go/ssa"

	"waspcheck/internal/core"
)

var errorType = types.Universe.Lookup("error").Type()

// errValueOf returns the value carrying the error result of a call (the call itself, or nil when it is a tuple — then extracts are matched by tuple).
func isErrOperandOf(v ssa.Value, call *core.Call) bool {
	cv := call.Value()
	if cv == nil {
		return false
	}
	if v == cv {
		return types.Identical(v.Type(), errorType)
	}
	if ex, ok := v.(*ssa.Extract); ok && ex.Tuple == cv {
		return types.Identical(ex.Type(), errorType)
	}
	return false
}

// errFinding is one problem found by errDiscipline.
type errFinding struct {
	call   *core.Call
	kind   string // dropped, swallowed, undecided
	detail string
}

// errDiscipline checks, on every returning path of fn (two loop iterations),
// that the error result of each matched call is tested or returned, and that a
// path on which a matched call reported an error returns a non-nil error.
func (c *Ctx) errDiscipline(fn *ssa.Function, match func(*core.Call) bool) (findings []errFinding, npaths int, err error) {
	paths, err := core.EnumPaths(fn, core.PathOpts{BlockVisits: 3, MaxPaths: 400000})
	if err != nil {
		return nil, 0, err
	}
	seen := map[string]bool{}
	add := func(f errFinding) {
		k := fmt.Sprintf("%p|%s", f.call.Instr, f.kind)
		if !seen[k] {
			seen[k] = true
			findings = append(findings, f)
		}
	}
	for _, p := range paths {
		if _, ok := p.Exit.(*ssa.Return); !ok {
			continue
		}
		npaths++
		type occ struct {
			call   *core.Call
			tested bool
			isErr  bool
		}
		var occs []*occ
		latest := map[ssa.Instruction]*occ{}
		ci := 0
		for step, b := range p.Blocks {
			for _, in := range b.Instrs {
				if _, isDefer := in.(*ssa.Defer); isDefer {
					continue
				}
				if cl := core.CallOf(in); cl != nil && cl.Value() != nil && match(cl) {
					o := &occ{call: cl}
					occs = append(occs, o)
					latest[in] = o
				}
			}
			for ; ci < len(p.Conds) && p.Conds[ci].Step <= step; ci++ {
				cd := p.Conds[ci]
				if cd.Step != step {
					continue
				}
				bo, ok := cd.V.(*ssa.BinOp)
				if !ok || (bo.Op != token.EQL && bo.Op != token.NEQ) {
					continue
				}
				for _, o := range latest {
					for _, pair := range [][2]ssa.Value{{bo.X, bo.Y}, {bo.Y, bo.X}} {
						if !isErrOperandOf(p.Resolve(pair[0]), o.call) {
							continue
						}
						if k, isK := p.Resolve(pair[1]).(*ssa.Const); isK && k.Value == nil {
							o.tested = true
							// positive term is (e == nil); Val is its truth value
							o.isErr = !cd.Val
						} else if cd.Val {
							// e equals some non-nil sentinel: the call failed, in a particular way
							o.tested = true
							o.isErr = true
						}
					}
				}
			}
		}
		ret := p.Exit.(*ssa.Return)
		var retErr ssa.Value
		if n := len(ret.Results); n > 0 && types.Identical(ret.Results[n-1].Type(), errorType) {
			retErr = p.ResolveMem(ret.Results[n-1])
		}
		anyErr := false
		for _, o := range occs {
			if !o.tested {
				if retErr != nil && isErrOperandOf(retErr, o.call) && latest[o.call.Instr] == o {
					continue // returned as is
				}
				add(errFinding{o.call, "dropped", "its error result is neither tested nor returned on path " + fmtPath(p, c.P)})
				continue
			}
			if o.isErr {
				anyErr = true
			}
		}
		if anyErr {
			isNil, known := p.ReturnsNilError()
			for _, o := range occs {
				if o.tested && o.isErr {
					if !known {
						add(errFinding{o.call, "undecided", "cannot decide whether the function returns a non-nil error after this call failed, on path " + fmtPath(p, c.P)})
					} else if isNil {
						add(errFinding{o.call, "swallowed", "the function returns nil although this call reported an error, on path " + fmtPath(p, c.P)})
					}
				}
			}
		}
	}
	return findings, npaths, nil
}
