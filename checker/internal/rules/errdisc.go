package rules

import (
	"fmt"
	"go/token"
	"go/types"

	"golang.org/x/tools/go/ssa"

	"waspcheck/internal/core"
)

var errorType = types.Universe.Lookup("error").Type()

// errValueOf returns the value carrying the error result of a call (the call itself, or nil when it is a tuple — then extracts are matched by tuple).
func isErrOperandOf(v ssa.Value, call *core.Call) bool {
	cv := call.Value()
	if cv == nil {
		return false
	}
	if v == cv {
		return types.Identical(v.Type(), errorType)
	}
	if ex, ok := v.(*ssa.Extract); ok && ex.Tuple == cv {
		return types.Identical(ex.Type(), errorType)
	}
	return false
}

// errFinding is one problem found by errDiscipline.
type errFinding struct {
	call   *core.Call
	kind   string // dropped, swallowed, undecided
	detail string
}

// errDiscipline checks, on every returning path of fn (two loop iterations),
// that the error result of each matched call is tested or returned, and that a
// path on which a matched call reported an error returns a non-nil error.
func (c *Ctx) errDiscipline(fn *ssa.Function, match func(*core.Call) bool) (findings []errFinding, npaths int, err error) {
	paths, err := core.EnumPaths(fn, core.PathOpts{BlockVisits: 3, MaxPaths: 400000})
	if err != nil {
		return nil, 0, err
	}
	seen := map[string]bool{}
	add := func(f errFinding) {
		k := fmt.Sprintf("%p|%s", f.call.Instr, f.kind)
		if !seen[k] {
			seen[k] = true
			findings = append(findings, f)
		}
	}
	for _, p := range paths {
		if _, ok := p.Exit.(*ssa.Return); !ok {
			continue
		}
		npaths++
		type occ struct {
			call   *core.Call
			tested bool
			isErr  bool
		}
		var occs []*occ
		latest := map[ssa.Instruction]*occ{}
		ci := 0
		for step, b := range p.Blocks {
			for _, in := range b.Instrs {
				if _, isDefer := in.(*ssa.Defer); isDefer {
					continue
				}
				if cl := core.CallOf(in); cl != nil && cl.Value() != nil && match(cl) {
					o := &occ{call: cl}
					occs = append(occs, o)
					latest[in] = o
				}
			}
			for ; ci < len(p.Conds) && p.Conds[ci].Step <= step; ci++ {
				cd := p.Conds[ci]
				if cd.Step != step {
					continue
				}
				bo, ok := cd.V.(*ssa.BinOp)
				if !ok || (bo.Op != token.EQL && bo.Op != token.NEQ) {
					continue
				}
				// the operands as they stood when the branch was taken (a phi of the loop body is another value in the next iteration)
				opX, opY := p.Resolve(bo.X), p.Resolve(bo.Y)
				if cd.X != nil && cd.Y != nil {
					opX, opY = cd.X, cd.Y
				}
				for _, o := range latest {
					for _, pair := range [][2]ssa.Value{{opX, opY}, {opY, opX}} {
						if !isErrOperandOf(pair[0], o.call) {
							continue
						}
						if k, isK := pair[1].(*ssa.Const); isK && k.Value == nil {
							o.tested = true
							// positive term is (e == nil); Val is its truth value
							o.isErr = !cd.Val
						} else if cd.Val {
							// e equals some non-nil sentinel: the call failed, in a particular way
							o.tested = true
							o.isErr = true
						}
					}
				}
			}
		}
		ret := p.Exit.(*ssa.Return)
		var retErr ssa.Value
		if n := len(ret.Results); n > 0 && types.Identical(ret.Results[n-1].Type(), errorType) {
			retErr = p.ResolveMem(ret.Results[n-1])
		}
		anyErr := false
		for _, o := range occs {
			if !o.tested {
				if retErr != nil && isErrOperandOf(retErr, o.call) && latest[o.call.Instr] == o {
					continue // returned as is
				}
				add(errFinding{o.call, "dropped", "its error result is neither tested nor returned on path " + fmtPath(p, c.P)})
				continue
			}
			if o.isErr {
				anyErr = true
			}
		}
		if anyErr {
			isNil, known := p.ReturnsNilError()
			for _, o := range occs {
				if o.tested && o.isErr {
					if !known {
						add(errFinding{o.call, "undecided", "cannot decide whether the function returns a non-nil error after this call failed, on path " + fmtPath(p, c.P)})
					} else if isNil {
						add(errFinding{o.call, "swallowed", "the function returns nil although this call reported an error, on path " + fmtPath(p, c.P)})
					}
				}
			}
		}
	}
	return findings, npaths, nil
}

// errDisciplineDeep is errDiscipline made compositional: a static call in fn to a declared function of fn's package
// that makes matched calls (transitively) is itself a matched call of fn if it returns an error, and that helper is
// checked the same way in turn (depth levels). A helper that makes matched calls but returns no error cannot report
// their failure: errDiscipline flags the calls inside it. Returns the findings (each at its own call site), the
// number of paths examined and the primitive matched call sites found in fn and its helpers.
func (c *Ctx) errDisciplineDeep(fn *ssa.Function, match func(*core.Call) bool, depth int) (findings []errFinding, npaths int, sites []*core.Call, err error) {
	seen := map[*ssa.Function]bool{}
	var visit func(f *ssa.Function, d int) error
	visit = func(f *ssa.Function, d int) error {
		if seen[f] {
			return nil
		}
		seen[f] = true
		helpers := map[*ssa.Function]bool{}
		if d > 0 {
			for _, cl := range core.CallsIn(f) {
				g := cl.Static
				if g == nil || g == f || g.Pkg != f.Pkg || g.Parent() != nil || len(g.Blocks) == 0 || match(cl) {
					continue
				}
				if _, isGo := cl.Instr.(*ssa.Go); isGo {
					continue
				}
				if c.reaches(g, 2, match) {
					helpers[g] = true
				}
			}
		}
		for _, cl := range core.CallsIn(f) {
			if match(cl) {
				sites = append(sites, cl)
			}
		}
		returnsErr := func(g *ssa.Function) bool {
			r := g.Signature.Results()
			return r.Len() > 0 && types.Identical(r.At(r.Len()-1).Type(), errorType)
		}
		fs, n, e := c.errDiscipline(f, func(cl *core.Call) bool {
			return match(cl) || (cl.Static != nil && helpers[cl.Static] && returnsErr(cl.Static))
		})
		if e != nil {
			return e
		}
		findings = append(findings, fs...)
		npaths += n
		for g := range helpers {
			if e := visit(g, d-1); e != nil {
				return e
			}
		}
		return nil
	}
	err = visit(fn, depth)
	return
}
