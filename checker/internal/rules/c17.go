package rules

import (
	"fmt"
	"go/token"
	"go/types"
	"strings"

	"golang.org/x/tools/go/ssa"

	"waspcheck/internal/core"
)

func init() { register("C17", checkC17) }

type mstate int

const (
	mUnknown mstate = iota
	mMounted
	mRaw
	mMixed
)

func (m mstate) String() string {
	return [...]string{"unknown", "mounted", "raw", "mixed(raw on some source)"}[m]
}

func meet(a, b mstate) mstate {
	switch {
	case a == b:
		return a
	case a == mUnknown:
		return b
	case b == mUnknown:
		return a
	default:
		return mMixed
	}
}

// mountAnalysis computes the mounted-topic typestate.
type mountAnalysis struct {
	c                                 *Ctx
	prefixM, prefixF, lwtM, getTopics *types.Func
	logGet, logConsume, topicsGet     *types.Func
	byPattern, subsAll, byPeerSubs    *types.Func
	sessByPeer, sessAll, sessGet      *types.Func
	decode                            *types.Func
	memo                              map[string]mstate
	why                               map[string]string
	depth                             int
}

func (ma *mountAnalysis) isPrefixCall(cl *core.Call) bool { return cl.Is(ma.prefixM, ma.prefixF) }

// topic returns the typestate of a []byte topic value as seen at instruction at.
func (ma *mountAnalysis) topic(v ssa.Value, at ssa.Instruction, depth int) (mstate, string) {
	if depth > 12 {
		return mUnknown, "depth"
	}
	switch x := v.(type) {
	case *ssa.Call:
		cl := core.CallOf(x)
		switch {
		case ma.isPrefixCall(cl):
			return mMounted, "PrefixMountPoint"
		case cl.Builtin() == "append":
			return mUnknown, "append"
		}
		if cl.Static != nil && cl.Static.Pkg != nil && ma.c.P.IsModPkg(cl.Static.Pkg.Pkg) {
			// value returned by a module function: meet over its returns
			st := mUnknown
			for _, rv := range returnValues(cl.Static) {
				s, _ := ma.topic(rv, nil, depth+1)
				st = meet(st, s)
			}
			return st, "result of " + ma.c.fname(cl.Static)
		}
		return mUnknown, "call " + short(core.Term(x), 60)
	case *ssa.Convert:
		// []byte(fmt.Sprintf("%s/...", tenant)) — tenant-first topic
		if cv, ok := x.X.(*ssa.Call); ok {
			if sc := cv.Call.StaticCallee(); sc != nil && sc.String() == "fmt.Sprintf" {
				if k, ok := cv.Call.Args[0].(*ssa.Const); ok && strings.HasPrefix(k.Value.ExactString(), "\"%s/") {
					return mMounted, "tenant-first Sprintf"
				}
			}
		}
		return ma.topic(x.X, at, depth+1)
	case *ssa.ChangeType:
		return ma.topic(x.X, at, depth+1)
	case *ssa.Phi:
		st := mUnknown
		for _, e := range x.Edges {
			s, _ := ma.topic(e, at, depth+1)
			st = meet(st, s)
		}
		return st, "phi"
	case *ssa.UnOp:
		if x.Op != token.MUL {
			return mUnknown, "unop"
		}
		switch a := x.X.(type) {
		case *ssa.FieldAddr:
			fname := fieldNameOf(a.X.Type(), a.Field)
			switch {
			case fname == "Topic" && isNamed(a.X.Type(), pkgPacket, "Publish"):
				if at == nil {
					at = x
				}
				return ma.publishTopic(a.X, at, depth+1)
			case isAPIRequest(a.X.Type()):
				return mMounted, "field of an inter-node / admin RPC request (contract: callers send mounted names)"
			case fname == "Pattern" && isNamed(a.X.Type(), "wasp/api", "Subscription"):
				return mMounted, "pattern of a stored subscription"
			case (fname == "WillTopic" || fname == "Topic") && isNamed(a.X.Type(), pkgPacket, "Connect"):
				return mRaw, "CONNECT will topic"
			}
			return mUnknown, "field " + fname
		case *ssa.IndexAddr:
			return ma.sliceElems(a.X, x, depth+1)
		case *ssa.Alloc, *ssa.FreeVar:
			if sv := core.Strip(x); sv != ssa.Value(x) {
				return ma.topic(sv, at, depth+1)
			}
			if cell := cellOf(a); cell != nil {
				st := mUnknown
				for _, s := range allStoresTo(cell) {
					ss, _ := ma.topic(s.Val, at, depth+1)
					st = meet(st, ss)
				}
				return st, "local"
			}
		}
		return mUnknown, "load"
	case *ssa.Parameter:
		return ma.param(x, depth+1, func(arg ssa.Value, site ssa.Instruction) (mstate, string) { return ma.topic(arg, site, depth+1) })
	case *ssa.Slice:
		return ma.topic(x.X, at, depth+1)
	}
	return mUnknown, fmt.Sprintf("%T", v)
}

func isAPIRequest(t types.Type) bool {
	t = derefT(t)
	n, ok := t.(*types.Named)
	return ok && n.Obj().Pkg() != nil && strings.HasSuffix(n.Obj().Pkg().Path(), "/wasp/api") && strings.HasSuffix(n.Obj().Name(), "Request")
}

// sliceElems: state of the elements of slice s.
func (ma *mountAnalysis) sliceElems(s ssa.Value, at ssa.Instruction, depth int) (mstate, string) {
	s = core.Strip(s)
	if cv, ok := s.(*ssa.Call); ok {
		cl := core.CallOf(cv)
		if cl.Is(ma.getTopics) {
			return ma.rememberedFilters(depth + 1)
		}
		if cl.Static != nil && cl.Static.Pkg != nil && ma.c.P.IsModPkg(cl.Static.Pkg.Pkg) && depth < 10 {
			st := mUnknown
			for _, rv := range returnValues(cl.Static) {
				ss, _ := ma.sliceElems(rv, nil, depth+1)
				st = meet(st, ss)
			}
			return st, "elements of the slice returned by " + ma.c.fname(cl.Static)
		}
		if cl.Builtin() == "" && cl.Static == nil {
			return mUnknown, "slice from call"
		}
	}
	if prm, ok := s.(*ssa.Parameter); ok {
		// a slice handed to a helper: meet over the helper's call sites
		return ma.param(prm, depth+1, func(arg ssa.Value, site ssa.Instruction) (mstate, string) { return ma.sliceElems(arg, site, depth+1) })
	}
	if ms, ok := s.(*ssa.MakeSlice); ok {
		// elements stored through IndexAddr in the same function
		st := mUnknown
		fn := ms.Parent()
		for _, b := range fn.Blocks {
			for _, in := range b.Instrs {
				if sto, ok := in.(*ssa.Store); ok {
					if ia, ok := sto.Addr.(*ssa.IndexAddr); ok && core.Strip(ia.X) == ssa.Value(ms) {
						ss, _ := ma.topic(sto.Val, sto, depth+1)
						st = meet(st, ss)
					}
				}
			}
		}
		return st, "elements stored into the slice"
	}
	if ld, ok := s.(*ssa.UnOp); ok && ld.Op == token.MUL {
		if fa, ok := ld.X.(*ssa.FieldAddr); ok {
			if isNamed(fa.X.Type(), pkgPacket, "Subscribe") || isNamed(fa.X.Type(), pkgPacket, "Unsubscribe") {
				return mRaw, "filter list of a decoded packet"
			}
		}
	}
	// a slice the function accumulates itself with append: meet over what it appends
	if elems, from, _, ok := sliceSources(s); ok && len(elems) > 0 {
		st := mUnknown
		for i, e := range elems {
			ss, _ := ma.topic(e, from[i], depth+1)
			st = meet(st, ss)
		}
		return st, fmt.Sprintf("elements appended to the slice (%d append(s))", len(elems))
	}
	return mUnknown, "slice " + short(core.Term(s), 60)
}

// rememberedFilters: state of what Session.AddTopic receives at all its call sites.
func (ma *mountAnalysis) rememberedFilters(depth int) (mstate, string) {
	add := ma.c.P.MethodObj("wasp/sessions", "Session", "AddTopic")
	st := mUnknown
	n := 0
	for _, f := range ma.c.P.ModFuncs() {
		for _, cl := range core.CallsTo(f, add) {
			n++
			s, _ := ma.topic(cl.Arg(0), cl.Instr, depth+1)
			st = meet(st, s)
		}
	}
	if n == 0 {
		return mUnknown, "no AddTopic site"
	}
	return st, fmt.Sprintf("filters remembered by AddTopic (%d site(s))", n)
}

// publishTopic: state of the Topic of the publish object p (a *packet.Publish value) as seen at instruction at.
func (ma *mountAnalysis) publishTopic(p ssa.Value, at ssa.Instruction, depth int) (mstate, string) {
	if depth > 12 {
		return mUnknown, "depth"
	}
	obj := core.Strip(p)
	// a captured object: judge it where the closure is created, in the function that defines the object
	if at != nil {
		var home *ssa.Function
		switch oi := obj.(type) {
		case *ssa.Parameter:
			home = oi.Parent() // a parameter captured by a closure of its function
		case ssa.Instruction:
			home = oi.Parent()
		}
		if home != nil && home != at.Parent() {
			for g := at.Parent(); g != nil && g != home; g = g.Parent() {
				sites := ma.c.P.ClosureSites(g)
				if len(sites) != 1 {
					break
				}
				at = sites[0]
			}
		}
	}
	// a dominating assignment to obj.Topic wins
	if at != nil {
		fn := at.Parent()
		var best *ssa.Store
		for _, b := range fn.Blocks {
			for _, in := range b.Instrs {
				st, ok := in.(*ssa.Store)
				if !ok {
					continue
				}
				fa, ok := st.Addr.(*ssa.FieldAddr)
				if !ok || fieldNameOf(fa.X.Type(), fa.Field) != "Topic" || core.Strip(fa.X) != obj {
					continue
				}
				if core.Dominates(st, at) && st != at {
					if best == nil || core.Dominates(best, st) {
						best = st
					}
				}
			}
		}
		if best != nil {
			// avoid the self-reference p.Topic = Prefix(p.Topic)
			return ma.topic(best.Val, best, depth+1)
		}
	}
	switch x := obj.(type) {
	case *ssa.Alloc:
		// composite literal without Topic store: zero topic
		return mUnknown, "literal without topic"
	case *ssa.Extract:
		switch t := x.Tuple.(type) {
		case *ssa.Call:
			cl := core.CallOf(t)
			if cl.Is(ma.logGet) {
				return mMounted, "entry read back from the message log"
			}
		case *ssa.TypeAssert:
			return ma.packetSource(t.X, depth+1)
		}
	case *ssa.TypeAssert:
		return ma.packetSource(x.X, depth+1)
	case *ssa.Call:
		cl := core.CallOf(x)
		switch {
		case cl.Is(ma.lwtM):
			return ma.sessionWill(depth + 1)
		case cl.Is(ma.logGet):
			return mMounted, "entry read back from the message log"
		}
		// a module constructor returning one literal (willPublish(mountPoint, lwt)): the literal's Topic, arguments bound
		if b := ma.c.builtObject(x); b != nil {
			if tv := b.field("Topic"); tv != nil {
				return ma.topic(tv, x, depth+1)
			}
		}
	case *ssa.Parameter:
		// consume callbacks receive log entries
		fn := x.Parent()
		for _, mc := range ma.c.P.ClosureSites(fn) {
			if mc.Referrers() != nil {
				for _, r := range *mc.Referrers() {
					if cl := core.CallOf(asInstr(r)); cl != nil && cl.Is(ma.logConsume) {
						return mMounted, "log entry handed to the consume callback"
					}
				}
			}
		}
		return ma.param(x, depth+1, func(arg ssa.Value, site ssa.Instruction) (mstate, string) { return ma.publishTopic(arg, site, depth+1) })
	case *ssa.UnOp:
		if x.Op == token.MUL {
			if fa, ok := x.X.(*ssa.FieldAddr); ok {
				fname := fieldNameOf(fa.X.Type(), fa.Field)
				switch {
				case isAPIRequest(fa.X.Type()):
					return mMounted, "message of an inter-node RPC request (contract)"
				case fname == "Publish" && isNamed(fa.X.Type(), "wasp/api", "RetainedMessage"):
					return mMounted, "retained message read from the replicated state"
				case fname == "LWT" && isNamed(fa.X.Type(), "wasp/api", "SessionMetadatas"):
					return ma.sessionWill(depth + 1)
				case fname == "publish" || isPublishPtr(derefT(fa.Type())):
					// struct field carrying a publish (queue job, hand-off request): meet over stores into that field
					st := mUnknown
					n := 0
					for _, f := range ma.c.P.ModFuncs() {
						for _, b := range f.Blocks {
							for _, in := range b.Instrs {
								if s, ok := in.(*ssa.Store); ok {
									if fa2, ok := s.Addr.(*ssa.FieldAddr); ok && fa2.Field == fa.Field && types.Identical(derefT(fa2.X.Type()), derefT(fa.X.Type())) {
										n++
										ss, _ := ma.publishTopic(s.Val, s, depth+1)
										st = meet(st, ss)
									}
								}
							}
						}
					}
					return st, fmt.Sprintf("field %s (%d store(s))", fname, n)
				}
			}
			if ia, ok := x.X.(*ssa.IndexAddr); ok {
				// an element of a slice the function accumulates itself: meet over what it appends
				if elems, from, _, ok := sliceSources(ia.X); ok && len(elems) > 0 {
					st := mUnknown
					for i, e := range elems {
						s, _ := ma.publishTopic(e, from[i], depth+1)
						st = meet(st, s)
					}
					return st, fmt.Sprintf("element of a slice accumulated here (%d append(s))", len(elems))
				}
			}
		}
	case *ssa.Phi:
		st := mUnknown
		for _, e := range x.Edges {
			s, _ := ma.publishTopic(e, at, depth+1)
			st = meet(st, s)
		}
		return st, "phi"
	case *ssa.Const:
		return mUnknown, "nil publish"
	}
	return mUnknown, "publish from " + short(core.Term(obj), 60)
}

func asInstr(r ssa.Instruction) ssa.Instruction { return r }

// packetSource: state of a value of interface type packet.Packet.
func (ma *mountAnalysis) packetSource(v ssa.Value, depth int) (mstate, string) {
	v = core.Strip(v)
	switch x := v.(type) {
	case *ssa.Parameter:
		return ma.param(x, depth+1, func(arg ssa.Value, site ssa.Instruction) (mstate, string) {
			if mi, ok := arg.(*ssa.MakeInterface); ok && isPublishPtr(mi.X.Type()) {
				return ma.publishTopic(mi.X, site, depth+1)
			}
			return ma.packetSource(arg, depth+1)
		})
	case *ssa.Extract:
		if cv, ok := x.Tuple.(*ssa.Call); ok && core.CallOf(cv).Is(ma.decode) {
			return mRaw, "packet decoded from the client connection"
		}
	case *ssa.MakeInterface:
		if isPublishPtr(x.X.Type()) {
			return ma.publishTopic(x.X, x, depth+1)
		}
	}
	return mUnknown, "packet " + short(core.Term(v), 60)
}

// sessionWill: state of the will topic a session captures from CONNECT.
func (ma *mountAnalysis) sessionWill(depth int) (mstate, string) {
	if s, ok := ma.memo["will"]; ok {
		return s, ma.why["will"]
	}
	ma.memo["will"] = mUnknown
	ns := ma.c.P.Func("wasp/sessions", "NewSession")
	st := mUnknown
	if ns != nil {
		reach := ma.c.P.Reach([]*ssa.Function{ns}, func(from *ssa.Function, cl *core.Call, to *ssa.Function) bool { return to.Package() == ns.Package() })
		for f := range reach {
			for _, b := range f.Blocks {
				for _, in := range b.Instrs {
					if s, ok := in.(*ssa.Store); ok {
						if fa, ok := s.Addr.(*ssa.FieldAddr); ok && fieldNameOf(fa.X.Type(), fa.Field) == "Topic" && isNamed(fa.X.Type(), pkgPacket, "Publish") {
							ss, _ := ma.topic(s.Val, s, depth+1)
							st = meet(st, ss)
						}
					}
				}
			}
		}
	}
	ma.memo["will"] = st
	ma.why["will"] = "the will captured from CONNECT by the session constructor"
	return st, ma.why["will"]
}

// param: meet over the module's call sites of the parameter's function (static calls and calls through the interface method it implements).
func (ma *mountAnalysis) param(p *ssa.Parameter, depth int, at func(arg ssa.Value, site ssa.Instruction) (mstate, string)) (mstate, string) {
	fn := p.Parent()
	key := fmt.Sprintf("param|%s|%s", fn.String(), p.Name())
	if s, ok := ma.memo[key]; ok {
		return s, ma.why[key]
	}
	ma.memo[key] = mUnknown
	idx := paramIdx(p)
	st := mUnknown
	n := 0
	why := ""
	for _, site := range ma.c.P.StaticCallers(fn) {
		if idx < len(site.Common().Args) {
			n++
			s, w := at(site.Common().Args[idx], site)
			st = meet(st, s)
			if s != mMounted {
				why = w + " at " + ma.c.whereI(site)
			}
		}
	}
	// interface dispatch: find the interface methods fn implements (by name and receiver), and their invoke sites
	if fn.Signature.Recv() != nil {
		for _, f := range ma.c.P.ModFuncs() {
			for _, cl := range core.CallsIn(f) {
				if !cl.Invoke || cl.Obj.Name() != fn.Name() {
					continue
				}
				impls := ma.c.P.Implementations(cl.Obj)
				for _, im := range impls {
					if im == fn && idx-1 < len(cl.Common.Args) && idx >= 1 {
						n++
						s, w := at(cl.Common.Args[idx-1], cl.Instr)
						st = meet(st, s)
						if s != mMounted {
							why = w + " at " + ma.c.whereI(cl.Instr)
						}
					}
				}
			}
		}
	}
	if n == 0 {
		why = "parameter " + p.Name() + " of " + ma.c.fname(fn) + " has no call site in the module"
	}
	if why == "" {
		why = fmt.Sprintf("parameter %s of %s: mounted at all %d call site(s)", p.Name(), ma.c.fname(fn), n)
	}
	ma.memo[key] = st
	ma.why[key] = why
	return st, why
}

func checkC17(c *Ctx) {
	c.R.Explanation = "Static rules over topic flow: (R1) mounted-topic typestate: every topic or filter that reaches the replicated state, the message log, the distributor or the writer derives only from mount-qualified sources (PrefixMountPoint results, entries read back from the log or the replicated state, inter-node requests, filters remembered at a mounted site, tenant-first audit topics), never from a raw packet field or a raw will; and PrefixMountPoint is never applied to an already mounted name (double prefix); (R2) on delivery the prefix is stripped with the mount point of the very session being written to; (R3) client-identifier lookups always pass the asking session's mount point together with its client id, and the lookup predicate compares both; (R4) the prefix / trim helpers are verbatim concatenation / slicing (no path cleaning)."
	c.R.NotCovered = "Value-level identity trim(prefix(t)) == t, mount points that contain '/', topics containing the separator in odd places, audit stream contents."
	c.R.Assume("other nodes and admin RPC clients send mount-qualified names (inter-node contract)")
	ru1 := c.R.Rule("C17-R1", "mounted-topic typestate: every sink (SubscriptionsState.{Create,CreateFrom,Delete,ByPattern}, TopicsState.{Get,Set,Delete}, Distribute, messageLog.Append, Writer.Send, the publish hand-off) receives a mount-qualified name; PrefixMountPoint receives only raw names", "E3 typestate over provenance with interprocedural parameter meet", 8)
	ma := &mountAnalysis{c: c, memo: map[string]mstate{}, why: map[string]string{}}
	ma.prefixM = c.cm(ru1, "wasp/sessions", "Session", "PrefixMountPoint")
	ma.prefixF = c.fo(ru1, "wasp/sessions", "PrefixMountPoint")
	ma.lwtM = c.cm(ru1, "wasp/sessions", "Session", "LWT")
	ma.getTopics = c.cm(ru1, "wasp/sessions", "Session", "GetTopics")
	ma.logGet = c.im(ru1, "wasp", "messageLog", "Get")
	ma.logConsume = c.im(ru1, "wasp", "messageLog", "Consume")
	ma.decode = c.cm(ru1, pkgDecoder, "Sync", "Decode")
	type sink struct {
		obj     *types.Func
		arg     int
		publish bool
		name    string
	}
	sinks := []sink{
		{c.im(ru1, "wasp/distributed", "SubscriptionsState", "Create"), 1, false, "SubscriptionsState.Create"},
		{c.im(ru1, "wasp/distributed", "SubscriptionsState", "CreateFrom"), 2, false, "SubscriptionsState.CreateFrom"},
		{c.im(ru1, "wasp/distributed", "SubscriptionsState", "Delete"), 1, false, "SubscriptionsState.Delete"},
		{c.im(ru1, "wasp/distributed", "SubscriptionsState", "ByPattern"), 0, false, "SubscriptionsState.ByPattern"},
		{c.im(ru1, "wasp/distributed", "TopicsState", "Get"), 0, false, "TopicsState.Get"},
		{c.im(ru1, "wasp/distributed", "TopicsState", "Delete"), 0, false, "TopicsState.Delete"},
		{c.im(ru1, "wasp/distributed", "TopicsState", "Set"), 0, true, "TopicsState.Set"},
		{c.cm(ru1, "wasp", "PublishDistributor", "Distribute"), 1, true, "PublishDistributor.Distribute"},
		{c.im(ru1, "wasp", "messageLog", "Append"), 0, true, "messageLog.Append"},
		{c.im(ru1, "wasp", "Writer", "Send"), 3, true, "Writer.Send"},
	}
	for _, s := range sinks {
		if s.obj == nil {
			return
		}
	}
	hs := c.handoffs(ru1)
	waspPkgs := func(f *ssa.Function) bool {
		p := f.Package()
		if p == nil {
			return false
		}
		path := p.Pkg.Path()
		// the state implementation itself and generated code are below the sinks
		return !strings.HasSuffix(path, "/wasp/distributed") && !strings.HasSuffix(path, "/wasp/api") && !strings.HasSuffix(path, "/cmd/waspctl")
	}
	n := 0
	for _, f := range c.P.ModFuncs() {
		if !waspPkgs(f) {
			continue
		}
		for _, cl := range core.CallsIn(f) {
			var st mstate
			var why, name string
			matched := false
			for _, s := range sinks {
				if !cl.Is(s.obj) {
					continue
				}
				matched = true
				name = s.name
				args := cl.Args()
				if s.arg >= len(args) {
					continue
				}
				if s.publish {
					st, why = ma.publishTopic(args[s.arg], cl.Instr, 0)
				} else {
					st, why = ma.topic(args[s.arg], cl.Instr, 0)
				}
			}
			if h := c.isHandoffCall(cl, hs); h != nil {
				matched = true
				name = "publish hand-off " + c.fname(h.fn)
				st, why = ma.publishTopic(cl.Common.Args[h.pubIdx], cl.Instr, 0)
			}
			if !matched {
				continue
			}
			n++
			c.R.Fn(c.fname(f))
			key := fmt.Sprintf("sink %s #%d in %s", name, n, c.fname(f))
			switch st {
			case mMounted:
				ru1.OK(key, c.whereI(cl.Instr), "mounted: "+why)
			case mUnknown:
				ru1.Undecided(key, c.whereI(cl.Instr), "cannot establish that the name is mount-qualified: "+why)
			default:
				ru1.Fail(key, c.whereI(cl.Instr), "a name that is not mount-qualified ("+st.String()+": "+why+") reaches "+name+": it is stored / published outside the session's mount point and can be observed by other tenants")
			}
		}
		// transformer applied to an already mounted name
		for _, cl := range core.CallsTo(f, ma.prefixM, ma.prefixF) {
			args := cl.Args()
			st, why := ma.topic(args[len(args)-1], cl.Instr, 0)
			n++
			key := fmt.Sprintf("PrefixMountPoint argument #%d in %s", n, c.fname(f))
			if st == mMounted || st == mMixed {
				ru1.Fail(key, c.whereI(cl.Instr), "PrefixMountPoint is applied to a name that is (or may be) already mount-qualified ("+why+"): the topic carries the prefix twice and is delivered with a leaked prefix")
			} else {
				ru1.OK(key, c.whereI(cl.Instr), "raw argument")
			}
		}
	}

	// R2
	ru2 := c.R.Rule("C17-R2", "delivery strips the prefix with the recipient's own mount point: the outgoing Topic is recipient.TrimMountPoint(source.Topic), and the packet is written to that same recipient", "E3 provenance", 1)
	trim := c.cm(ru2, "wasp/sessions", "Session", "TrimMountPoint")
	if o := c.outbound(ru2); o != nil && trim != nil {
		if fan := c.fanOut(o); ru2.Anchor(fan != nil, "the fan-out function") {
			lookup := c.fanLookup(o, fan)
			for i, pk := range c.deliveryPackets(o, fan) {
				c.R.Fn(c.fname(pk.alloc.Parent()))
				key := fmt.Sprintf("outgoing topic #%d (packet built in %s)", i+1, c.fname(pk.alloc.Parent()))
				tv := pk.field("Topic")
				cv, isCall := core.Strip(tv).(*ssa.Call)
				var recvArg ssa.Value
				if isCall && core.CallOf(cv).Is(trim) {
					recvArg = cv.Call.Args[0]
				} else if isCall {
					// a wrapper of the package (outgoingTopic(session, topic) = session.TrimMountPoint(topic)): the
					// session is the argument bound to the parameter the wrapper trims with
					if g := cv.Call.StaticCallee(); g != nil && g.Pkg != nil && c.P.IsModPkg(g.Pkg.Pkg) && len(g.Blocks) > 0 {
						if rvs := returnValues(g); len(rvs) == 1 {
							if inner, ok := core.Strip(rvs[0]).(*ssa.Call); ok && core.CallOf(inner).Is(trim) {
								if prm, ok := core.Strip(inner.Call.Args[0]).(*ssa.Parameter); ok && prm.Parent() == g {
									if k := paramIdx(prm); k >= 0 && k < len(cv.Call.Args) {
										recvArg = cv.Call.Args[k]
										c.R.Fn(c.fname(g))
									}
								}
							}
						}
					}
				}
				if tv == nil || recvArg == nil {
					ru2.Fail(key, c.whereI(pk.site), "the outgoing packet's topic is not TrimMountPoint(…) of the stored topic: the client sees the internal prefix")
					continue
				}
				recv := deepStrip(recvArg)
				okRecv := lookup != nil && (recv == lookup.sess || recv == lookup.get.Value())
				// the packet goes to that same recipient: the arming call's session argument, or the Writer() the direct write uses
				okWriter := false
				for _, cl := range c.callsDeep(fan, 2) {
					switch {
					case cl.Is(o.sessWr):
						if deepStrip(cl.Common.Args[0]) == recv {
							okWriter = true
						}
					default:
						if tgt, off := c.armTarget(o, nil, cl); tgt != nil && tgt.sessIdx-off >= 0 && tgt.sessIdx-off < len(cl.Common.Args) {
							if deepStrip(cl.Common.Args[tgt.sessIdx-off]) == recv {
								okWriter = true
							}
						}
					}
				}
				ru2.Check(okRecv && okWriter, key, c.whereI(pk.site), "TrimMountPoint of the recipient looked up in the registry, written to that recipient", "the prefix is stripped with a session other than the one the packet is written to")
			}
		}
	}

	// R3
	ru3 := c.R.Rule("C17-R3", "client-identifier resolution is tenant-scoped: every ByClientID call passes MountPoint() and ClientID() of one and the same session, and the implementation's predicate compares both the MountPoint and the ClientID field with the respective argument", "E3 provenance + predicate shape", 4)
	byCID := c.im(ru3, "wasp/distributed", "SessionMetadatasState", "ByClientID")
	mp := c.cm(ru3, "wasp/sessions", "Session", "MountPoint")
	cid := c.cm(ru3, "wasp/sessions", "Session", "ClientID")
	if byCID != nil && mp != nil && cid != nil {
		n := 0
		for _, f := range c.P.ModFuncs() {
			for _, cl := range core.CallsTo(f, byCID) {
				n++
				key := fmt.Sprintf("ByClientID call #%d in %s", n, c.fname(f))
				ok := false
				pairOK := func(x, y ssa.Value) bool {
					a, ok1 := core.Strip(x).(*ssa.Call)
					b, ok2 := core.Strip(y).(*ssa.Call)
					return ok1 && ok2 && core.CallOf(a).Is(mp) && core.CallOf(b).Is(cid) && core.Strip(a.Call.Args[0]) == core.Strip(b.Call.Args[0])
				}
				if len(cl.Args()) >= 2 {
					ok = pairOK(cl.Arg(0), cl.Arg(1))
					if !ok {
						// inside a helper that receives both (releaseClientID(metadatas, mountPoint, clientID)): judged at
						// every call site of the helper
						pa, isPa := core.Strip(cl.Arg(0)).(*ssa.Parameter)
						pb, isPb := core.Strip(cl.Arg(1)).(*ssa.Parameter)
						if isPa && isPb && pa.Parent() == pb.Parent() {
							ia, ib := paramIdx(pa), paramIdx(pb)
							sites := c.P.StaticCallers(pa.Parent())
							ok = len(sites) > 0
							for _, site := range sites {
								args := site.Common().Args
								if ia >= len(args) || ib >= len(args) || !pairOK(args[ia], args[ib]) {
									ok = false
								}
							}
						}
					}
				}
				ru3.Check(ok, key, c.whereI(cl.Instr), "ByClientID(s.MountPoint(), s.ClientID())", "the client id is resolved without the asking session's mount point: a session of another tenant with the same client id is found (and displaced, or answered for)")
			}
		}
		impl := c.implOf(ru3, "wasp/distributed", "SessionMetadatasState", "ByClientID")
		if impl != nil {
			fields := map[string]bool{}
			// the predicate may be a literal of the look-up itself, or one built by a constructor of the package that the
			// look-up calls with its own arguments (sessionOfClient(mountPoint, clientID))
			ctors := map[*ssa.Function]bool{}
			for _, cl := range core.CallsIn(impl) {
				if g := cl.Static; g != nil && g.Package() == impl.Package() && g.Signature.Recv() == nil && len(g.AnonFuncs) > 0 {
					if _, returnsFunc := g.Signature.Results().At(0).Type().Underlying().(*types.Signature); g.Signature.Results().Len() == 1 && returnsFunc {
						ctors[g] = true
					}
				}
			}
			reach := c.P.Reach([]*ssa.Function{impl}, func(from *ssa.Function, cl *core.Call, to *ssa.Function) bool {
				if hasAncestor(to, impl) || ctors[to] {
					return true
				}
				for g := range ctors {
					if hasAncestor(to, g) {
						return true
					}
				}
				return false
			})
			for g := range ctors {
				// Reach follows calls; the literals a constructor returns are not called from it
				for _, af := range g.AnonFuncs {
					reach[af] = true
				}
			}
			for g := range reach {
				for _, b := range g.Blocks {
					for _, in := range b.Instrs {
						bo, ok := in.(*ssa.BinOp)
						if !ok || bo.Op != token.EQL {
							continue
						}
						for _, pair := range [][2]ssa.Value{{bo.X, bo.Y}, {bo.Y, bo.X}} {
							lf := lastField(core.Term(pair[0]))
							for i := 1; i < len(impl.Params); i++ {
								if reachesParam(pair[1], impl, i) && (lf == ".MountPoint" || lf == ".ClientID") {
									fields[lf+fmt.Sprint(i)] = true
								}
							}
						}
					}
				}
			}
			ok := len(impl.Params) == 3 && fields[".MountPoint1"] && fields[".ClientID2"]
			ru3.Check(ok, "predicate of "+c.fname(impl), c.where(impl, impl), "MountPoint == arg1 && ClientID == arg2", fmt.Sprintf("the lookup does not compare both the mount point and the client id with its arguments (found %v)", fields))
		}
	}

	// R4
	ru4 := c.R.Rule("C17-R4", "the mount-point helpers are verbatim: the prefix helper only concatenates mount point, '/' and topic; the trim helper only slices", "E11 who-may-call inside the helper", 2)
	for _, name := range []string{"prefixMountPoint", "trimMountPoint"} {
		h := c.P.Func("wasp/sessions", name)
		if h == nil {
			// helper inlined into the exported functions: use those
			continue
		}
		c.R.Fn(c.fname(h))
		bad := ""
		var scan func(g *ssa.Function, depth int)
		scan = func(g *ssa.Function, depth int) {
			for _, cl := range core.CallsIn(g) {
				if cl.Builtin() != "" {
					continue
				}
				full := ""
				if cl.Obj != nil && cl.Obj.Pkg() != nil {
					full = cl.Obj.Pkg().Path() + "." + cl.Obj.Name()
				}
				switch full {
				case "bytes.Join", "strings.Join", "fmt.Sprintf", "bytes.NewBuffer":
					continue
				}
				// a helper of the same package that computes a length (mountPointPrefixLen(mp)): returns an integer
				// and is itself verbatim
				if cl.Static != nil && cl.Static.Package() == h.Package() && depth > 0 && len(cl.Static.Blocks) > 0 && cl.Static.Signature.Results().Len() == 1 {
					if bt, ok := cl.Static.Signature.Results().At(0).Type().Underlying().(*types.Basic); ok && bt.Info()&types.IsInteger != 0 {
						scan(cl.Static, depth-1)
						continue
					}
				}
				bad = "the helper calls " + full + ": names are no longer prefixed / trimmed verbatim (e.g. path cleaning resolves '..' levels and lets a client escape its mount point)"
			}
		}
		scan(h, 2)
		ru4.Check(bad == "", "verbatim "+name, c.where(h, h), "builtins only", bad)
	}

	c.ruleGoCapturesLoopVar("C17-R6")
	c.ruleSessionFromPrincipal("C17-R7")

	// R5: a prefixed name is a fresh slice
	ru5 := c.R.Rule("C17-R5", "the functions of wasp/sessions that return a topic build it in fresh storage: no result is an append onto a slice kept in a struct field or package variable (two results would share that slice's spare capacity, and the second call would overwrite the name the first one returned — a message is then delivered or stored under another topic)", "E3 provenance of returned slices", 2)
	for _, f := range c.P.ModFuncs() {
		if f.Parent() != nil || f.Package() == nil || f.Package().Pkg.Path() != c.P.Rel("wasp/sessions") || f.Signature.Results().Len() != 1 {
			continue
		}
		sl, ok := f.Signature.Results().At(0).Type().Underlying().(*types.Slice)
		if !ok {
			continue
		}
		if b, isB := sl.Elem().Underlying().(*types.Basic); !isB || b.Kind() != types.Byte {
			continue
		}
		c.R.Fn(c.fname(f))
		bad := ""
		for _, rv := range returnValues(f) {
			cv, ok := core.Strip(rv).(*ssa.Call)
			if !ok || core.CallOf(cv).Builtin() != "append" || len(cv.Call.Args) == 0 {
				continue
			}
			base := conversionsOnly(cv.Call.Args[0])
			if s2, isSl := base.(*ssa.Slice); isSl {
				base = conversionsOnly(s2.X)
			}
			if ld, isLd := base.(*ssa.UnOp); isLd && ld.Op == token.MUL {
				switch ld.X.(type) {
				case *ssa.FieldAddr, *ssa.Global:
					bad = "the result is append(" + short(core.Term(base), 50) + ", …): successive results share the stored slice's backing array"
				}
			}
		}
		ru5.Check(bad == "", "storage of the topic returned by "+c.fname(f), c.whereF(f), "fresh storage", bad)
		// and a helper that maps names between the client's view and the broker's never hands its argument back as it is:
		// a name returned unchanged is neither qualified nor stripped (a special case such as "no mount point, no prefix"
		// produces names without any '/' level in front, which the replicated state cannot attribute to a tenant)
		bad = ""
		for _, rv := range returnValues(f) {
			if prm, ok := core.Strip(rv).(*ssa.Parameter); ok && prm.Parent() == f {
				bad = "a path returns the argument " + prm.Name() + " unchanged: that name is neither prefixed with nor stripped of the mount point"
			}
		}
		ru4.Check(bad == "", "every result of "+c.fname(f)+" is a transformed name", c.whereF(f), "no path returns the argument as it is", bad)
	}
}

// ruleSessionFromPrincipal implements C17-R7 (= C16-R11): the session is created under the identifier and in the mount
// point that authentication returned. The constructor takes several strings in a row (id, mount point, listener name):
// which parameter ends up as the session's mount point / id is read off the constructor and the accessors, and at every
// call site that argument must come from the corresponding field of the principal.
func (c *Ctx) ruleSessionFromPrincipal(id string) {
	ru := c.R.Rule(id, "the session is created with what authentication returned: the constructor argument that becomes Session.MountPoint() derives from Principal.MountPoint, the one that becomes Session.ID() from Principal.ID, at every call site (two same-typed neighbours swapped — the listener's name for the mount point — put every client of a listener into one tenant named after the listener, and publishers and subscribers of one tenant on different listeners no longer meet)", "E3 provenance of constructor arguments, parameter roles read off the accessors", 2)
	ns := c.P.Func("wasp/sessions", "NewSession")
	if !ru.Anchor(ns != nil, "sessions.NewSession") {
		return
	}
	sessT := c.P.Named("wasp/sessions", "Session")
	if !ru.Anchor(sessT != nil, "sessions.Session") {
		return
	}
	// field returned by an accessor of *Session
	accessorField := func(name string) int {
		mo := c.P.MethodObj(c.P.Rel("wasp/sessions"), "Session", name)
		if mo == nil {
			mo = c.P.MethodObj("wasp/sessions", "Session", name)
		}
		if mo == nil {
			return -1
		}
		m := c.P.SSA.FuncValue(mo)
		if m == nil {
			return -1
		}
		for _, rv := range returnValues(m) {
			if ld, ok := core.Strip(rv).(*ssa.UnOp); ok && ld.Op == token.MUL {
				if fa, ok := ld.X.(*ssa.FieldAddr); ok && isNamed(derefT(fa.X.Type()), "wasp/sessions", "Session") {
					return fa.Field
				}
			}
		}
		return -1
	}
	// constructor parameter stored into that field
	paramOf := func(field int) int {
		for _, g := range c.funcsDeepStop(ns, 1, func(x *ssa.Function) bool { return x.Package() != ns.Package() }) {
			for _, b := range g.Blocks {
				for _, in := range b.Instrs {
					st, ok := in.(*ssa.Store)
					if !ok {
						continue
					}
					fa, ok := st.Addr.(*ssa.FieldAddr)
					if !ok || fa.Field != field || !isNamed(derefT(fa.X.Type()), "wasp/sessions", "Session") {
						continue
					}
					if prm, ok := core.Strip(st.Val).(*ssa.Parameter); ok && prm.Parent() == ns {
						return paramIdx(prm)
					}
				}
			}
		}
		return -1
	}
	for _, role := range []struct{ accessor, field string }{{"MountPoint", "MountPoint"}, {"ID", "ID"}} {
		f := accessorField(role.accessor)
		pi := -1
		if f >= 0 {
			pi = paramOf(f)
		}
		if !ru.Anchor(pi >= 0, "the NewSession parameter that becomes Session."+role.accessor+"()") {
			continue
		}
		sites := c.P.StaticCallers(ns)
		ru.Anchor(len(sites) > 0, "a call of sessions.NewSession")
		for _, site := range sites {
			c.R.Fn(c.fname(site.Parent()))
			key := fmt.Sprintf("%s of the session created in %s", role.accessor, c.fname(site.Parent()))
			args := site.Common().Args
			ok := pi < len(args) && depReaches(args[pi], func(v ssa.Value) bool {
				switch x := v.(type) {
				case *ssa.Field:
					return fieldNameOf(x.X.Type(), x.Field) == role.field && isNamed(derefT(x.X.Type()), "wasp/auth", "Principal")
				case *ssa.FieldAddr:
					return fieldNameOf(x.X.Type(), x.Field) == role.field && isNamed(derefT(x.X.Type()), "wasp/auth", "Principal")
				}
				return false
			})
			what := ""
			if pi < len(args) {
				what = short(core.Term(args[pi]), 60)
			}
			ru.Check(ok, key, c.whereI(site), "Principal."+role.field, "the argument that becomes the session's "+role.accessor+"() is "+what+", not the principal's "+role.field+" returned by authentication")
		}
	}
}
