package rules

import (
	"fmt"
	"go/constant"
	"go/token"
	"go/types"

	"golang.org/x/tools/go/ssa"

	"waspcheck/internal/core"
)

func init() { register("C14", checkC14) }

func checkC14(c *Ctx) {
	c.R.Explanation = "Static rules over wasp/publish.go, wasp/grpc.go, wasp/writer.go: (R1) destinations are the distinct peers (a map keyed by peer) of the subscriptions matching the publish's own topic; per destination exactly one local Append (peer == self) or exactly one Transport.Call to that peer carrying ScheduleMessage(the publish) (peer != self), never both; (R2) the destination loop has no early exit: one failing destination cannot starve the others; (R3) every destination failure forces a non-nil return, also when a later destination succeeds; (R4) the remote side appends the received message to its own log and returns that error; (R5) the writer stores a recipient for fan-out only under subscription.Peer == its own peer id."
	c.R.NotCovered = "Matching semantics of ByPattern (C01), gRPC delivery, duplicate suppression across retries by the publisher."
	ru1 := c.R.Rule("C14-R1", "Distribute: destination set = distinct .Peer of ByPattern(publish.Topic), iterated as a map; per destination: self ⇒ one Append(publish) and no remote call; other ⇒ one Transport.Call(that peer, ScheduleMessage(publish)) and no Append", "E1 per-iteration table + E3 provenance", 2)
	dist := c.cm(ru1, "wasp", "PublishDistributor", "Distribute")
	app := c.im(ru1, "wasp", "messageLog", "Append")
	tcall := c.im(ru1, "wasp", "publishDistributorTransport", "Call")
	byPattern := c.im(ru1, "wasp/distributed", "SubscriptionsState", "ByPattern")
	clientSched := c.im(ru1, "wasp/api", "MQTTClient", "ScheduleMessage")
	if dist == nil || app == nil || tcall == nil || byPattern == nil || clientSched == nil {
		return
	}
	f := c.fn(dist)
	c.R.Fn(c.fname(f))
	pubIdx := -1
	for i, p := range f.Params {
		if isPublishPtr(p.Type()) {
			pubIdx = i
		}
	}
	// destinations
	bad := ""
	bps := c.callsToDeep(f, 2, byPattern)
	if len(bps) != 1 {
		bad = fmt.Sprintf("%d ByPattern calls, want 1", len(bps))
	} else if !(reachesParam(bps[0].Arg(0), f, pubIdx) && stringsContains(core.Term(bps[0].Arg(0)), ".Topic")) &&
		!(pubIdx >= 0 && depReaches(bps[0].Arg(0), func(v ssa.Value) bool {
			// through a helper (destinations(publish.Topic)): the helper's parameter is what Distribute passes for it
			fa, ok := v.(*ssa.FieldAddr)
			return ok && fieldNameOf(fa.X.Type(), fa.Field) == "Topic" && core.Strip(fa.X) == ssa.Value(f.Params[pubIdx])
		})) {
		bad = "destinations are not resolved from the publish's own topic"
	}
	var destMap ssa.Value
	if bad == "" {
		for _, b := range bps[0].Instr.Parent().Blocks {
			for _, in := range b.Instrs {
				if mu, ok := in.(*ssa.MapUpdate); ok {
					if stringsContains(core.Term(mu.Key), ".Peer") && depReaches(mu.Key, func(v ssa.Value) bool { return v == bps[0].Value() }) {
						destMap = mu.Map
					}
				}
			}
		}
		if destMap == nil {
			bad = "the peers of the matching subscriptions are not collected into a set keyed by peer: a node hosting several matching subscriptions would receive the message once per subscription"
		}
	}
	ru1.Check(bad == "", "destination set of "+c.fname(f), c.where(f, f), "map keyed by subscription.Peer of ByPattern(publish.Topic)", bad)
	// loop over the set
	var loop *core.Loop
	var key ssa.Value
	for _, l := range core.Loops(f) {
		for _, in := range l.Header.Instrs {
			if nx, ok := in.(*ssa.Next); ok {
				if rg, ok := nx.Iter.(*ssa.Range); ok && destMap != nil && sameOrReturned(rg.X, destMap) {
					loop = l
					if nx.Referrers() != nil {
						for _, r := range *nx.Referrers() {
							if ex, ok := r.(*ssa.Extract); ok && ex.Index == 1 {
								key = ex
							}
						}
					}
				}
			}
		}
	}
	// selfExcluded: the collection keeps this node out of the slice the loop ranges over (remotes) and reports it
	// apart, as a flag (local, remotes := destinations(topic)): the local append is then made once, outside the loop
	selfExcluded := false
	var destCall *ssa.Call
	if loop == nil && destMap != nil {
		// the destinations may be handed to the loop as a slice of distinct peers: each peer appended once, under a
		// test that it is not yet in the set (if _, ok := seen[p]; ok { continue }; seen[p] = …; peers = append(peers, p))
		for _, l := range core.Loops(f) {
			for b := range l.Blocks {
				for _, in := range b.Instrs {
					ia, ok := in.(*ssa.IndexAddr)
					if !ok || ia.Referrers() == nil {
						continue
					}
					src := core.Strip(ia.X)
					ridx := 0
					cvv := src
					if ex, isEx := src.(*ssa.Extract); isEx {
						cvv, ridx = ex.Tuple, ex.Index
					}
					if cv, isCall := cvv.(*ssa.Call); isCall {
						if g := cv.Call.StaticCallee(); g != nil && len(g.Blocks) > 0 {
							var rv ssa.Value
							n := 0
							for _, gb := range g.Blocks {
								if r, isRet := gb.Instrs[len(gb.Instrs)-1].(*ssa.Return); isRet && ridx < len(r.Results) {
									rv = r.Results[ridx]
									n++
								}
							}
							if n == 1 {
								src = rv
							}
						}
					}
					elems, from, _, ok := sliceSources(src)
					if !ok || len(elems) == 0 {
						continue
					}
					distinct, excl := true, true
					for i, e := range elems {
						notSelf := false
						for _, cc := range controllingConds(from[i].Block(), nil) {
							if bo, isBo := cc.cond.(*ssa.BinOp); isBo && bo.Op == token.EQL && !cc.pol {
								if (stringsContains(core.Term(bo.X), ".Peer") && lastField(core.Term(bo.Y)) == ".ID") || (stringsContains(core.Term(bo.Y), ".Peer") && lastField(core.Term(bo.X)) == ".ID") {
									notSelf = true
								}
							}
						}
						if !notSelf {
							excl = false
						}
						if !stringsContains(core.Term(e), ".Peer") || !depReaches(e, func(v ssa.Value) bool { return v == bps[0].Value() }) {
							distinct = false
						}
						unseen := false
						for _, cc := range controllingConds(from[i].Block(), nil) {
							if ex, isEx := cc.cond.(*ssa.Extract); isEx && ex.Index == 1 && !cc.pol {
								if lk, isLk := ex.Tuple.(*ssa.Lookup); isLk && lk.CommaOk && core.Strip(lk.X) == core.Strip(destMap) {
									unseen = true
								}
							}
						}
						if !unseen {
							distinct = false
						}
					}
					if !distinct {
						continue
					}
					for _, r := range *ia.Referrers() {
						if ld, isLoad := r.(*ssa.UnOp); isLoad && ld.Op == token.MUL {
							loop, key = l, ld
							selfExcluded = excl
							if ex, isEx := core.Strip(ia.X).(*ssa.Extract); isEx {
								destCall, _ = ex.Tuple.(*ssa.Call)
							}
						}
					}
				}
			}
		}
	}
	sends := c.callsToDeep(f, 2, app, tcall)
	bad = ""
	localServed := false
	if loop == nil {
		bad = "the loop that writes to destinations does not range over the destination set"
	} else {
		for _, s := range sends {
			at := c.liftTo(f, s.Instr)
			if len(at) == 0 {
				bad = "a log append / remote call happens outside the loop over the destination set"
			}
			for _, in := range at {
				if loop.Blocks[in.Block()] {
					continue
				}
				if selfExcluded && s.Is(app) && c.localAppendUnderFlag(f, in, s, destCall, pubIdx) {
					localServed = true
					continue
				}
				bad = "a log append / remote call happens outside the loop over the destination set"
			}
		}
		if selfExcluded && !localServed && bad == "" {
			bad = "this node is kept out of the destinations the loop serves, and nothing appends the message to the local log when this node hosts a matching subscription"
		}
	}
	if bad == "" {
		paths, err := c.pathsInlined(f, core.PathOpts{Start: loop.Header, Stop: func(b *ssa.BasicBlock) bool { return b == loop.Header }}, isAny(app, tcall), nil)
		if err != nil {
			bad = err.Error()
		} else {
			ru1.Evals(len(paths))
			rows := map[string]int{}
			for _, p := range paths {
				inBody := false
				for _, b := range p.Blocks[1:] {
					if loop.Blocks[b] {
						inBody = true
					}
				}
				if !inBody {
					continue
				}
				self, transportNil := tri{}, tri{}
				if selfExcluded {
					self = tri{true, false}
				}
				infeasible := false
				for _, cd := range p.Conds {
					bo, ok := cd.V.(*ssa.BinOp)
					if !ok || (bo.Op != token.EQL && bo.Op != token.NEQ) {
						continue
					}
					x, y := p.Resolve(bo.X), p.Resolve(bo.Y)
					if (x == key && stringsContains(core.Term(y), ".ID")) || (y == key && stringsContains(core.Term(x), ".ID")) {
						if self.known && self.val != cd.Val {
							infeasible = true // the same destination tested against this node's id twice, with two answers (helper and caller forked independently)
						}
						self = tri{true, cd.Val}
					}
					for _, pair := range [][2]ssa.Value{{x, y}, {y, x}} {
						if k, ok := pair[1].(*ssa.Const); ok && k.Value == nil && lastField(core.Term(pair[0])) == ".Transport" {
							transportNil = tri{true, cd.Val}
						}
					}
				}
				if infeasible {
					continue
				}
				na, nc := 0, 0
				for _, pc := range p.Calls() {
					switch {
					case pc.Is(app):
						na++
						if !same(p.Resolve(pc.Arg(0)), f.Params[pubIdx]) {
							bad = "what is appended to the local log is not the publish being distributed"
						}
					case pc.Is(tcall):
						nc++
						if p.Resolve(pc.Arg(0)) != key {
							bad = "the remote call does not target the destination of this iteration"
						}
						cf := closureArg(pc.Arg(1))
						okMsg := false
						if cf != nil {
							for _, rpc := range core.CallsTo(cf, clientSched) {
								if msg := complitField(rpc.Arg(1), "Message"); msg != nil && same(p.Resolve(msg), f.Params[pubIdx]) {
									okMsg = true
								}
							}
						}
						if !okMsg {
							bad = "the remote call does not carry ScheduleMessage(the publish being distributed)"
						}
					}
				}
				switch {
				case !self.known:
					if na+nc > 0 {
						bad = "a destination is written to without deciding whether it is this node"
					}
				case self.val:
					rows["self"]++
					if na != 1 || nc != 0 {
						bad = fmt.Sprintf("for the local destination: %d appends, %d remote calls (want 1, 0)", na, nc)
					}
				case transportNil.known && transportNil.val:
					rows["remote,no transport"]++
					if na != 0 || nc != 0 {
						bad = "without a transport nothing can be sent, yet something is written"
					}
				default:
					rows["remote"]++
					if na != 0 || nc != 1 {
						bad = fmt.Sprintf("for a remote destination: %d appends, %d remote calls (want 0, 1): the message is logged on the wrong node or more than once", na, nc)
					}
				}
			}
			if selfExcluded && localServed {
				rows["self"]++
			}
			if bad == "" && (rows["self"] == 0 || rows["remote"] == 0) {
				bad = fmt.Sprintf("rows covered %v: a destination kind is never served", rows)
			}
		}
	}
	ru1.Check(bad == "", "per-destination table of "+c.fname(f), c.where(f, f), "self ⇒ Append once; other ⇒ Call(peer, ScheduleMessage(publish)) once", bad)

	// R2
	ru2 := c.R.Rule("C14-R2", "failure isolation: the destination loop is left only through its normal end (no return / break on error)", "E2 loop exit edges", 1)
	if loop != nil {
		bad := ""
		for b := range loop.Blocks {
			for _, s := range b.Succs {
				if !loop.Blocks[s] && b != loop.Header {
					bad = "the loop over destinations can be left early at " + c.P.Pos(b.Instrs[len(b.Instrs)-1].Pos()) + ": when one destination fails the remaining ones never receive the message"
				}
			}
			if _, ok := b.Instrs[len(b.Instrs)-1].(*ssa.Return); ok {
				bad = "return inside the destination loop"
			}
		}
		ru2.Check(bad == "", "exits of the destination loop in "+c.fname(f), c.where(f, f), "only the header's normal end", bad)
	}

	c.ruleDistributeErrors("C14-R3")
	c.ruleSubscriptionPeer("C14-R6")
	c.ruleNoTransparentRetry("C14-R7")
	c.ruleWorkerServesEveryRequest("C14-R8", "")

	// R4 provenance
	ru4 := c.R.Rule("C14-R4", "the remote side appends exactly the message it received (request.Message) to its own log", "E3", 1)
	sched := c.cm(ru4, "wasp", "mqttServer", "ScheduleMessage")
	if sched != nil {
		sf := c.fn(sched)
		bad := "no Append"
		for _, a := range core.CallsTo(sf, app) {
			if stringsContains(core.Term(a.Arg(0)), ".Message") && reachesParam(a.Arg(0), sf, 2) {
				bad = ""
			} else {
				bad = "what is appended is not the request's Message"
			}
		}
		ru4.Check(bad == "", "message appended by "+c.fname(sf), c.where(sf, sf), "Append(r.Message)", bad)
	}

	// R5
	ru5 := c.R.Rule("C14-R5", "the writer keeps a subscription as a recipient only under subscription.Peer == the writer's own peer id", "E2 control dependence + E3", 1)
	run := c.implOf(ru5, "wasp", "Writer", "Run")
	if run != nil {
		c.R.Fn(c.fname(run))
		n := 0
		bad := ""
		reachRun := c.P.Reach([]*ssa.Function{run}, func(from *ssa.Function, cl *core.Call, to *ssa.Function) bool {
			if cl != nil {
				if _, isGo := cl.Instr.(*ssa.Go); isGo || cl.Invoke {
					return false
				}
			}
			return to.Package() == run.Package() && to.Parent() == nil
		})
		for _, rf := range sortedFuncs(reachRun) {
			for _, b := range rf.Blocks {
				for _, in := range b.Instrs {
					st, ok := in.(*ssa.Store)
					if !ok {
						continue
					}
					if _, ok := st.Addr.(*ssa.IndexAddr); !ok {
						continue
					}
					if bt, ok := st.Val.Type().Underlying().(*types.Basic); !ok || bt.Kind() != types.String || !stringsContains(core.Term(st.Val), ".SessionID") {
						continue
					}
					n++
					guarded := false
					for _, cc := range controllingConds(b, nil) {
						bo, ok := cc.cond.(*ssa.BinOp)
						if !ok || bo.Op != token.EQL || !cc.pol {
							continue
						}
						lt, rt := core.Term(bo.X), core.Term(bo.Y)
						// subscription.Peer compared with a value read from the writer itself (its own peer id)
						ownID := func(v ssa.Value) bool {
							return len(rf.Params) > 0 && !stringsContains(core.Term(v), ".Peer") && containerReaches(v, func(x ssa.Value) bool { return x == ssa.Value(rf.Params[0]) })
						}
						if (stringsContains(lt, ".Peer") && ownID(bo.Y)) || (stringsContains(rt, ".Peer") && ownID(bo.X)) {
							guarded = true
						}
					}
					if !guarded {
						// read out of the result of a helper that keeps hosted subscriptions only
						// (local := w.hosted(subscriptions): appends an element only under element.Peer == w.peerID)
						guarded = containerReaches(st.Val, func(x ssa.Value) bool {
							cv, ok := x.(*ssa.Call)
							if !ok {
								return false
							}
							g := cv.Call.StaticCallee()
							return g != nil && g.Package() == rf.Package() && returnsOnlyHosted(g)
						})
					}
					if !guarded {
						bad = "a recipient is recorded at " + c.whereI(st) + " without checking that its subscription is hosted by this node: sessions of other nodes would be looked up (and a message delivered twice cluster-wide if ids collide)"
					}
				}
			}
		}
		ru5.Check(bad == "" && n > 0, "recipients kept by "+c.fname(run), c.where(run, run), fmt.Sprintf("%d recipient store(s), all under Peer == peerID", n), bad)
	}
}

// localAppendUnderFlag: the Append reached through instruction at of f (outside the destination loop) is made once (in no
// loop), with the publish being distributed, under a flag returned by the collection (destCall) that is true only when
// a matching subscription is hosted by this node (set to true only under subscription.Peer == self.ID).
func (c *Ctx) localAppendUnderFlag(f *ssa.Function, at ssa.Instruction, app *core.Call, destCall *ssa.Call, pubIdx int) bool {
	if destCall == nil || pubIdx < 0 || core.InnermostLoop(core.Loops(f), at.Block()) != nil {
		return false
	}
	if app.Instr.Parent() != f && core.InnermostLoop(core.Loops(app.Instr.Parent()), app.Instr.Block()) != nil {
		return false
	}
	if !same(app.Arg(0), f.Params[pubIdx]) {
		return false
	}
	g := destCall.Call.StaticCallee()
	if g == nil || len(g.Blocks) == 0 {
		return false
	}
	for _, cc := range controllingConds(at.Block(), nil) {
		ex, ok := cc.cond.(*ssa.Extract)
		if !ok || ex.Tuple != ssa.Value(destCall) || !cc.pol {
			continue
		}
		// what g returns there
		var rv ssa.Value
		n := 0
		for _, b := range g.Blocks {
			if r, isRet := b.Instrs[len(b.Instrs)-1].(*ssa.Return); isRet && ex.Index < len(r.Results) {
				rv = r.Results[ex.Index]
				n++
			}
		}
		if n != 1 {
			return false
		}
		ok = true
		sawTrue := false
		seen := map[ssa.Value]bool{}
		var walk func(v ssa.Value, from *ssa.BasicBlock)
		walk = func(v ssa.Value, from *ssa.BasicBlock) {
			if seen[v] {
				return
			}
			seen[v] = true
			switch x := v.(type) {
			case *ssa.Phi:
				for i, e := range x.Edges {
					walk(e, x.Block().Preds[i])
				}
			case *ssa.Const:
				if x.Value == nil || x.Value.Kind() != constant.Bool {
					ok = false
					return
				}
				if constant.BoolVal(x.Value) {
					sawTrue = true
					// the edge that brings true comes from a block run only when the subscription is hosted here
					hosted := false
					if from != nil {
						for _, fc := range controllingConds(from, nil) {
							if bo, isBo := fc.cond.(*ssa.BinOp); isBo && bo.Op == token.EQL && fc.pol {
								if (stringsContains(core.Term(bo.X), ".Peer") && lastField(core.Term(bo.Y)) == ".ID") || (stringsContains(core.Term(bo.Y), ".Peer") && lastField(core.Term(bo.X)) == ".ID") {
									hosted = true
								}
							}
						}
					}
					if !hosted {
						ok = false
					}
				}
			default:
				ok = false
			}
		}
		walk(rv, nil)
		return ok && sawTrue
	}
	return false
}

// returnsOnlyHosted: the slice g returns is accumulated in g with appends only, each made under a test that the
// element's Peer equals a value read from g's receiver (the node's own id).
func returnsOnlyHosted(g *ssa.Function) bool {
	if len(g.Blocks) == 0 || len(g.Params) == 0 {
		return false
	}
	n := 0
	for _, b := range g.Blocks {
		r, ok := b.Instrs[len(b.Instrs)-1].(*ssa.Return)
		if !ok {
			continue
		}
		for _, rv := range r.Results {
			if _, isSlice := rv.Type().Underlying().(*types.Slice); !isSlice {
				continue
			}
			elems, from, _, ok := sliceSources(rv)
			if !ok {
				return false
			}
			for i := range elems {
				hosted := false
				for _, cc := range controllingConds(from[i].Block(), nil) {
					bo, isBo := cc.cond.(*ssa.BinOp)
					if !isBo || !((bo.Op == token.EQL && cc.pol) || (bo.Op == token.NEQ && !cc.pol)) {
						continue
					}
					own := func(v ssa.Value) bool {
						return !stringsContains(core.Term(v), ".Peer") && containerReaches(v, func(x ssa.Value) bool { return x == ssa.Value(g.Params[0]) })
					}
					// the element tested is the element appended (same range variable)
					if (stringsContains(core.Term(bo.X), ".Peer") && own(bo.Y)) || (stringsContains(core.Term(bo.Y), ".Peer") && own(bo.X)) {
						hosted = true
					}
				}
				if !hosted {
					return false
				}
				n++
			}
		}
	}
	return n > 0
}
