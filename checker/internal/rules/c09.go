package rules

import (
	"fmt"
	"go/constant"
	"go/token"
	"go/types"
	"strings"

	"golang.org/x/tools/go/ssa"

	"waspcheck/internal/core"
	"waspcheck/internal/report"
)

func init() { register("C09", checkC09) }

// loopAliases finds E7 violations in fn: a local defined outside a loop, overwritten inside it, whose address is stored into memory inside the same loop.
func loopAliases(fn *ssa.Function) []*ssa.Store {
	var out []*ssa.Store
	loops := core.Loops(fn)
	if len(loops) == 0 {
		return nil
	}
	for _, b := range fn.Blocks {
		for _, in := range b.Instrs {
			st, ok := in.(*ssa.Store)
			if !ok {
				continue
			}
			al, ok := st.Val.(*ssa.Alloc)
			if !ok || !al.Heap {
				continue
			}
			switch st.Addr.(type) {
			case *ssa.IndexAddr, *ssa.FieldAddr:
			default:
				continue
			}
			l := core.InnermostLoop(loops, b)
			if l == nil || l.Blocks[al.Block()] {
				continue // not in a loop, or the local is allocated per iteration
			}
			// overwritten inside the loop?
			overwritten := false
			if al.Referrers() != nil {
				for _, r := range *al.Referrers() {
					switch u := r.(type) {
					case *ssa.Store:
						if u.Addr == ssa.Value(al) && l.Blocks[u.Block()] {
							overwritten = true
						}
					case *ssa.FieldAddr:
						if u.Referrers() != nil {
							for _, rr := range *u.Referrers() {
								if s2, ok := rr.(*ssa.Store); ok && s2.Addr == ssa.Value(u) && l.Blocks[s2.Block()] {
									overwritten = true
								}
							}
						}
					}
				}
			}
			if overwritten {
				out = append(out, st)
			}
		}
	}
	return out
}

// ruleLoopAlias implements C09-R4 / C10-R3 over the given functions.
func (c *Ctx) ruleLoopAlias(id string, fns []*ssa.Function, min int) {
	c.ruleLoopAliasOf(id, "a pointer appended to a broadcast / snapshot event inside a loop", fns, min)
}

// ruleLoopAliasOf is ruleLoopAlias with the kind of pointer named in the rule's text.
func (c *Ctx) ruleLoopAliasOf(id, what string, fns []*ssa.Function, min int) {
	ru := c.R.Rule(id, "no loop-carried alias: "+what+" points to a variable that is distinct per iteration (the module's go directive decides whether a range variable is shared)", "E7 loop-alias on SSA (version-aware: go/ssa allocates per-iteration variables inside the loop for go >= 1.22)", min)
	for _, f := range fns {
		if len(core.Loops(f)) == 0 {
			continue
		}
		c.R.Fn(c.fname(f))
		key := "loops of " + c.fname(f)
		al := loopAliases(f)
		if len(al) > 0 {
			ru.Fail(key, c.whereI(al[0]), fmt.Sprintf("the address of a variable that lives across iterations (module go %s: one range variable for the whole loop) is stored into a slice inside the loop: the event ends up holding N pointers to the last entry", c.P.GoVersion))
		} else {
			ru.OK(key, c.where(f, f), "every address stored inside a loop belongs to a per-iteration variable")
		}
	}
}

// mutatorCore returns the function that holds the mutator's store write and the construction of the broadcast event:
// the mutator itself, or the package helper it hands the work to (helpers are followed depth levels deep; other
// mutators are not). viaCall is the call in fn that leads there (nil for fn itself).
func (c *Ctx) mutatorCore(d *dstate, fn *ssa.Function, depth int) (*ssa.Function, *core.Call) {
	holds := func(g *ssa.Function) bool {
		w, e := false, false
		for _, b := range g.Blocks {
			for _, in := range b.Instrs {
				if c.isStoreWrite(d, in) {
					w = true
				}
				if st, ok := in.(*ssa.Store); ok {
					if _, ok := st.Addr.(*ssa.IndexAddr); ok && d.isEntryType(st.Val.Type()) {
						e = true
					}
				}
			}
		}
		return w && e
	}
	if holds(fn) || depth == 0 {
		return fn, nil
	}
	for _, cl := range core.CallsIn(fn) {
		if cl.Static == nil || cl.Static.Package() != d.pkg || d.mutatorOf(cl.Static) != nil || cl.Static == fn {
			continue
		}
		if g, _ := c.mutatorCore(d, cl.Static, depth-1); holds(g) {
			return g, cl
		}
	}
	return fn, nil
}

// queuesAfterWrites: on every successful path of fn, a store write is followed by a QueueBroadcast. The package's
// helpers are inlined into the paths (three levels); other mutators are events that write and broadcast themselves.
// Returns the number of writing+queueing paths and a counterexample.
// Package helpers are spliced into the paths, so a write is the store operation itself (map update, trie Insert / Upsert),
// not the call of the helper that contains it: a helper that returns early has written nothing on that path.
func (c *Ctx) queuesAfterWrites(d *dstate, fn *ssa.Function, bulk bool) (nOK int, bad string, npaths int) {
	paths, err := c.pathsInlinedPkg(fn, core.PathOpts{}, func(g *ssa.Function) bool { return d.mutatorOf(g) != nil })
	if err != nil {
		return 0, err.Error(), 0
	}
	for _, p := range paths {
		if _, ok := p.Exit.(*ssa.Return); !ok {
			continue
		}
		failed := false
		if isNil, known := p.ReturnsNilError(); known && !isNil {
			failed = true
		}
		if errorNonNilOnPath(p) {
			failed = true
		}
		if failed {
			// a failure after the local write may only be the failure to build the broadcast itself (marshalling):
			// any other error that makes the mutator leave between the write and the broadcast loses the change for the peers
			wroteAt, queued := -1, false
			for i, pi := range p.Instrs() {
				if _, isDefer := pi.In.(*ssa.Defer); isDefer && !pi.Deferred {
					continue
				}
				if cl := core.CallOf(pi.In); cl != nil {
					if cl.Is(d.queueBroadcast) || (cl.Static != nil && cl.Static != fn && d.mutatorOf(cl.Static) != nil) {
						queued = true
						continue
					}
				}
				if d.isStoreWriteInstr(pi.In) {
					wroteAt, queued = i, false
				}
			}
			if wroteAt >= 0 && !queued && !bulk {
				// a single-entry mutator builds its broadcast before it touches the store: an entry that cannot be encoded
				// (a client identifier that is not valid UTF-8) must not stay in the store — unbroadcast, and making every
				// later snapshot of the node fail to encode
				bad = "after the local store was changed the mutator can still leave on an error: the change stays local and is never gossiped — " + fmtPath(p, c.P)
			}
			if wroteAt >= 0 && !queued && bulk {
				for _, dd := range decisions(p) {
					if dd.Seq < wroteAt {
						continue
					}
					bo, ok := dd.Cond.(*ssa.BinOp)
					if !ok || (bo.Op != token.EQL && bo.Op != token.NEQ) || !types.Identical(bo.X.Type(), errorType) {
						continue
					}
					if nonNil := dd.Val == (bo.Op == token.NEQ); !nonNil {
						continue
					}
					var ev ssa.Value
					for _, pair := range [][2]ssa.Value{{bo.X, bo.Y}, {bo.Y, bo.X}} {
						if k, isK := pair[1].(*ssa.Const); isK && k.Value == nil {
							ev = p.Resolve(pair[0])
						}
					}
					fromMarshal := ev != nil && depReaches(ev, func(v ssa.Value) bool {
						cv, ok := v.(*ssa.Call)
						return ok && core.CallOf(cv).Is(d.marshal...)
					})
					if !fromMarshal {
						bad = "after the local store was changed the mutator can leave on an error that has nothing to do with building the broadcast (tested at " + c.whereI(dd.If) + "): the change stays local and is never gossiped — " + fmtPath(p, c.P)
					}
				}
			}
			continue
		}
		wrote, queuedAfter := false, false
		for _, pi := range p.Instrs() {
			if _, isDefer := pi.In.(*ssa.Defer); isDefer && !pi.Deferred {
				continue
			}
			if cl := core.CallOf(pi.In); cl != nil {
				if cl.Is(d.queueBroadcast) {
					queuedAfter = true
					continue
				}
				if cl.Static != nil && cl.Static != fn && d.mutatorOf(cl.Static) != nil {
					wrote, queuedAfter = true, true
					continue
				}
			}
			if d.isStoreWriteInstr(pi.In) {
				wrote, queuedAfter = true, false
			}
		}
		if wrote && !queuedAfter {
			bad = "a path changes the local store and reports success without queueing a broadcast: " + fmtPath(p, c.P)
		}
		if wrote && queuedAfter {
			nOK++
		}
	}
	return nOK, bad, len(paths)
}

// ruleSuccessWrites implements C09-R9 / C07-R8 / C01-R10: a mutator that builds a fresh entry (a create, a set, a removal
// that records a tombstone) stores and broadcasts it on every path that reports success. The only mutators that may
// report success without writing are the bulk ones (nothing matched) and those that update the entry they looked up
// (there is nothing to update). A "nothing stored here, nothing to do" fast path in a tombstone-writing removal loses
// the removal whenever it overtakes the addition it removes: the addition arrives later and is accepted.
func (c *Ctx) ruleSuccessWrites(id string, d *dstate, only string) {
	ru := c.R.Rule(id, "a mutator that builds a fresh entry (create, set, tombstone-recording removal) writes it to the store and queues its broadcast on every path that reports success; only bulk mutators and mutators that update the entry they looked up may succeed without writing (a removal that returns early because nothing is stored locally leaves no tombstone: the addition it overtook is accepted when it arrives)", "E1 paths with package helpers inlined + provenance of the entry object", 1)
	for _, m := range d.mutators {
		if only != "" && m.iface != only {
			continue
		}
		f := m.fn
		key := m.iface + "." + m.name + " always writes"
		delegated := false
		for _, cl := range core.CallsIn(f) {
			if cl.Static != nil && d.mutatorOf(cl.Static) != nil {
				delegated = true
			}
		}
		if delegated || m.bulk {
			continue
		}
		// updater: the object that receives the stamp was initialised as a whole from a value read from the store
		updater := false
		for _, g := range c.funcsDeepStop(f, 2, func(g *ssa.Function) bool { return g.Package() != d.pkg || d.mutatorOf(g) != nil }) {
			for _, b := range g.Blocks {
				for _, in := range b.Instrs {
					st, ok := in.(*ssa.Store)
					if !ok {
						continue
					}
					fa, ok := st.Addr.(*ssa.FieldAddr)
					if !ok || !d.isEntryType(fa.X.Type()) {
						continue
					}
					n := fieldNameOf(fa.X.Type(), fa.Field)
					if n != "LastAdded" && n != "LastDeleted" {
						continue
					}
					base, ok := core.Strip(fa.X).(*ssa.Alloc)
					if !ok {
						continue
					}
					for _, ws := range allStoresTo(base) {
						if depReaches(ws.Val, func(v ssa.Value) bool { return c.isStoreRead(d, v) }) {
							updater = true
						}
					}
				}
			}
		}
		if updater {
			ru.OK(key, c.where(f, f), "updates the entry it looked up: nothing to write when there is none")
			continue
		}
		paths, err := c.pathsInlinedPkg(f, core.PathOpts{}, func(g *ssa.Function) bool { return d.mutatorOf(g) != nil })
		if err != nil {
			ru.Undecided(key, c.where(f, f), err.Error())
			continue
		}
		nOK, bad := 0, ""
		for _, p := range paths {
			if _, ok := p.Exit.(*ssa.Return); !ok {
				continue
			}
			if isNil, known := p.ReturnsNilError(); known && !isNil {
				continue
			}
			if errorNonNilOnPath(p) {
				continue
			}
			wrote := false
			for _, pi := range p.Instrs() {
				if _, isDefer := pi.In.(*ssa.Defer); isDefer && !pi.Deferred {
					continue
				}
				if c.isStoreWrite(d, pi.In) {
					wrote = true
				}
			}
			if wrote {
				nOK++
			} else {
				bad = "a path reports success without having written the entry (no tombstone / no value recorded, nothing broadcast): " + fmtPath(p, c.P)
			}
		}
		ru.Check(bad == "" && nOK > 0, key, c.where(f, f), fmt.Sprintf("%d successful path(s), each writes the store", nOK), bad+map[bool]string{true: "", false: " (no successful writing path)"}[nOK > 0])
	}
}

// ruleEventLoopsAppendEveryEntry implements C09-R10 (= C10-R7): a loop that fills a repeated field of a
// StateBroadcastEvent appends on every iteration. An append that sits on one branch only (the entry that makes a chunk
// overflow starts the next chunk but is not put into it) leaves an entry out of every broadcast.
func (c *Ctx) ruleEventLoopsAppendEveryEntry(id string, d *dstate) {
	ru := c.R.Rule(id, "every loop of wasp/distributed that appends to a repeated field of a StateBroadcastEvent does so on each of its iterations: the append dominates every back edge of the loop (an entry skipped by the loop that builds the events is in no broadcast and no snapshot)", "E2 dominance over back edges of event-building loops", 1)
	n := 0
	for _, f := range c.P.ModFuncs() {
		if f.Package() != d.pkg || c.P.IsGenerated(f) {
			continue
		}
		loops := core.Loops(f)
		for _, b := range f.Blocks {
			for _, in := range b.Instrs {
				st, ok := in.(*ssa.Store)
				if !ok {
					continue
				}
				fa, ok := st.Addr.(*ssa.FieldAddr)
				if !ok || !isNamed(derefT(fa.X.Type()), "wasp/api", "StateBroadcastEvent") {
					continue
				}
				cv, ok := core.Strip(st.Val).(*ssa.Call)
				if !ok || core.CallOf(cv).Builtin() != "append" {
					// the field is assigned once from a slice accumulated in a loop (deleted = append(deleted, &e))
					seenApp := map[*ssa.Call]bool{}
					depReaches(st.Val, func(v ssa.Value) bool {
						ac, ok := v.(*ssa.Call)
						if !ok || core.CallOf(ac).Builtin() != "append" || ac.Parent() != f || seenApp[ac] {
							return false
						}
						seenApp[ac] = true
						al := core.InnermostLoop(loops, ac.Block())
						if al == nil {
							return false
						}
						n++
						c.R.Fn(c.fname(f))
						key := fmt.Sprintf("slice assigned to %s accumulated in a loop of %s", fieldNameOf(fa.X.Type(), fa.Field), c.fname(f))
						bad := ""
						for _, pr := range al.Header.Preds {
							if al.Blocks[pr] && !ac.Block().Dominates(pr) {
								bad = "an iteration can reach the next one without appending its entry to the slice that becomes the event's field (back edge at " + c.P.Pos(lastPos(pr)) + ")"
							}
						}
						ru.Check(bad == "", key, c.whereI(ac), "the append dominates every back edge", bad)
						return false
					})
					continue
				}
				l := core.InnermostLoop(loops, b)
				if l == nil {
					// the loop body may be a helper: the append runs once per call, the call once per iteration
					for _, site := range c.P.StaticCallers(f) {
						caller := site.Parent()
						cl := core.InnermostLoop(core.Loops(caller), site.Block())
						if cl == nil {
							continue
						}
						n++
						c.R.Fn(c.fname(f))
						key := fmt.Sprintf("append to %s in %s, called in a loop of %s", fieldNameOf(fa.X.Type(), fa.Field), c.fname(f), c.fname(caller))
						bad := ""
						for _, rb := range f.Blocks {
							if _, isRet := rb.Instrs[len(rb.Instrs)-1].(*ssa.Return); isRet && !b.Dominates(rb) {
								bad = "the helper can return without appending its entry to the event (" + c.P.Pos(lastPos(rb)) + ")"
							}
						}
						for _, pr := range cl.Header.Preds {
							if cl.Blocks[pr] && !site.Block().Dominates(pr) {
								bad = "an iteration can reach the next one without calling the helper that appends its entry (back edge at " + c.P.Pos(lastPos(pr)) + ")"
							}
						}
						ru.Check(bad == "", key, c.whereI(st), "the helper appends on every path and is called on every iteration", bad)
					}
					continue
				}
				n++
				c.R.Fn(c.fname(f))
				key := fmt.Sprintf("append to %s in a loop of %s", fieldNameOf(fa.X.Type(), fa.Field), c.fname(f))
				bad := ""
				// another append to the same field elsewhere in the loop may cover the other branch
				covered := func(pr *ssa.BasicBlock) bool {
					for ob := range l.Blocks {
						for _, oin := range ob.Instrs {
							ost, ok := oin.(*ssa.Store)
							if !ok {
								continue
							}
							ofa, ok := ost.Addr.(*ssa.FieldAddr)
							if !ok || !isNamed(derefT(ofa.X.Type()), "wasp/api", "StateBroadcastEvent") || ofa.Field != fa.Field {
								continue
							}
							if ocv, ok := core.Strip(ost.Val).(*ssa.Call); ok && core.CallOf(ocv).Builtin() == "append" && ob.Dominates(pr) {
								return true
							}
						}
					}
					return false
				}
				for _, pr := range l.Header.Preds {
					if l.Blocks[pr] && !covered(pr) {
						bad = "an iteration can reach the next one without appending its entry to the event (back edge at " + c.P.Pos(lastPos(pr)) + "): that entry is missing from what is gossiped"
					}
				}
				ru.Check(bad == "", key, c.whereI(st), "the append dominates every back edge", bad)
			}
		}
	}
	ru.Anchor(n > 0, "a loop appending to a StateBroadcastEvent field")
}

// wildcardCharsTested lists which of '+' and '#' the value v (a branch condition) probes for: a bytes/strings search
// with a constant needle containing them, or a comparison of a byte / rune with the constants 43 / 35 — directly or
// inside a module function whose result v depends on.
func wildcardCharsTested(v ssa.Value) (plus, hash bool) {
	note := func(k *ssa.Const) {
		if k == nil || k.Value == nil {
			return
		}
		switch k.Value.Kind() {
		case constant.String:
			str := constant.StringVal(k.Value)
			plus = plus || strings.Contains(str, "+")
			hash = hash || strings.Contains(str, "#")
		case constant.Int:
			if n, ok := constant.Int64Val(k.Value); ok {
				plus = plus || n == 43
				hash = hash || n == 35
			}
		}
	}
	depReaches(v, func(w ssa.Value) bool {
		switch x := w.(type) {
		case *ssa.Call:
			if g := x.Call.StaticCallee(); g != nil && g.Pkg != nil && (g.Pkg.Pkg.Path() == "bytes" || g.Pkg.Pkg.Path() == "strings") {
				for _, a := range x.Call.Args {
					if k, ok := core.Strip(a).(*ssa.Const); ok {
						note(k)
					}
					// []byte("+#")
					if cv, ok := core.Strip(a).(*ssa.Convert); ok {
						if k, ok := cv.X.(*ssa.Const); ok {
							note(k)
						}
					}
				}
			}
		case *ssa.BinOp:
			if x.Op == token.EQL || x.Op == token.NEQ {
				for _, o := range []ssa.Value{x.X, x.Y} {
					if k, ok := o.(*ssa.Const); ok {
						if b, isB := k.Type().Underlying().(*types.Basic); isB && (b.Kind() == types.Uint8 || b.Kind() == types.Int32 || b.Kind() == types.UntypedRune) {
							note(k)
						}
					}
				}
			}
		}
		return false
	})
	return
}

// ruleRetainedKeysLiteral implements C09-R11 (= C10-R7, C07-R9).
func (c *Ctx) ruleRetainedKeysLiteral(id string, d *dstate) {
	ru := c.R.Rule(id, "the retained store is keyed by literal topic names: every path of TopicsState.Set / Delete that writes the store has tested the topic for both wildcard characters, and the store is written on one outcome of that test only. The receiving side of a merge looks the local copy up by wildcard match, so an entry stored under a key containing '+' or '#' is refused by every peer that holds two matching topics — together with the rest of its batch — and the issuer lists what no peer can list", "E1 paths with package helpers inlined: must-pass-through a wildcard test, one polarity only", 2)
	for _, m := range d.mutators {
		if m.iface != "TopicsState" {
			continue
		}
		f := m.fn
		key := m.iface + "." + m.name + " refuses wildcard characters"
		paths, err := c.pathsInlinedPkg(f, core.PathOpts{}, func(g *ssa.Function) bool { return d.mutatorOf(g) != nil })
		if err != nil {
			ru.Undecided(key, c.where(f, f), err.Error())
			continue
		}
		nW, bad := 0, ""
		polarity := map[ssa.Value]map[bool]bool{}
		for _, p := range paths {
			wrote := false
			for _, pi := range p.Instrs() {
				if pi.Deferred {
					continue
				}
				if c.isStoreWrite(d, pi.In) {
					wrote = true
				}
			}
			if !wrote {
				continue
			}
			nW++
			plus, hash := false, false
			for _, dd := range decisions(p) {
				pl, hs := wildcardCharsTested(dd.Cond)
				if pl || hs {
					if polarity[dd.Cond] == nil {
						polarity[dd.Cond] = map[bool]bool{}
					}
					polarity[dd.Cond][dd.Val] = true
				}
				plus, hash = plus || pl, hash || hs
			}
			if !plus || !hash {
				bad = "the store is written on a path that never tested the topic for '+' and '#': " + fmtPath(p, c.P)
			}
		}
		for cond, vals := range polarity {
			if len(vals) > 1 {
				bad = "the store is written whatever the wildcard test " + short(core.Term(cond), 60) + " says"
			}
		}
		ru.Check(bad == "" && nW > 0, key, c.where(f, f), fmt.Sprintf("%d writing path(s), each behind a wildcard test", nW), bad+map[bool]string{true: "", false: " (no writing path)"}[nW > 0])
	}
}

func checkC09(c *Ctx) {
	c.R.Explanation = "Static rules over the mutators of the three replicated state types (wasp/distributed): (R1) every path that wrote the store and reports success queues a broadcast afterwards; (R2) what is queued is proto.Marshal of a StateBroadcastEvent whose element is the very variable written to the store; (R3) in bulk mutators the store write and the append to the event happen in the same loop iteration; (R4) no loop-carried alias: the pointer appended is distinct per iteration (go 1.14 range-variable semantics are honoured); (R5) the broadcast type queued by mutators never invalidates another broadcast; (R6) the timestamp is read and the entry stored under one hold of the state lock, so stamp order equals local application order."
	c.R.NotCovered = "Value-level equality of the receiver's listing with the sender's (needs execution of the merge algebra, partly decided under C08), memberlist queue behaviour (retransmit limits)."
	c.R.Assume("memberlist.TransmitLimitedQueue delivers queued broadcasts that are not invalidated")
	ru1 := c.R.Rule("C09-R1", "in every mutator, each path that wrote the replicated store and returns success passes TransmitLimitedQueue.QueueBroadcast after the write; a single-entry mutator has no failing exit after the write at all (the broadcast is built first), a bulk mutator — whose entries come out of the store — only the failure to build the broadcast", "E1 paths (one loop iteration)", 9)
	d := c.dstate(ru1)
	if d == nil {
		return
	}
	ru2 := c.R.Rule("C09-R2", "the bytes queued are proto.Marshal of a StateBroadcastEvent, and the entry placed in the event is the very variable that was written to the store (after stamping)", "E3 provenance", 9)
	ru3 := c.R.Rule("C09-R3", "bulk mutators: the store write and the append to the event are in the same loop iteration", "E1/E2 loop membership", 3)
	ru6 := c.R.Rule("C09-R6", "the clock is read (directly or by a stamp function) while the state lock is held (between Lock and the store write), so timestamps order like local application", "E2 dominance", 9)
	var fns []*ssa.Function
	for _, m := range d.mutators {
		f := m.fn
		c.R.Fn(c.fname(f))
		fns = append(fns, f)
		key := m.iface + "." + m.name + " (" + c.fname(f) + ")"
		// delegation to another mutator?
		delegated := false
		for _, cl := range core.CallsIn(f) {
			if cl.Static != nil && d.mutatorOf(cl.Static) != nil {
				delegated = true
			}
		}
		nOK, bad, np := c.queuesAfterWrites(d, f, m.bulk)
		ru1.Evals(np)
		ru1.Check(bad == "" && nOK > 0, key, c.where(f, f), fmt.Sprintf("%d successful writing path(s), each followed by a broadcast", nOK), bad+map[bool]string{true: "", false: " (no path both writes the store and queues a broadcast)"}[nOK > 0])
		if delegated {
			ru2.OK(key, c.where(f, f), "delegates to another mutator")
			ru6.OK(key, c.where(f, f), "delegates to another mutator")
			continue
		}
		// the rest is judged on the function that holds the write and the broadcast (the mutator or its helper)
		outer := f
		var via *core.Call
		f, via = c.mutatorCore(d, outer, 2)
		if f != outer {
			c.R.Fn(c.fname(f))
			fns = append(fns, f)
		}
		// R2
		bad = ""
		qs := c.callsToDeep(f, 3, d.queueBroadcast)
		if len(qs) == 0 && outer != f {
			qs = c.callsToDeep(outer, 3, d.queueBroadcast) // the helper holds write and event element, the mutator queues
		}
		if len(qs) == 0 {
			bad = "no broadcast is queued"
		}
		for _, q := range qs {
			var mcall *ssa.Call
			depReaches(q.Arg(0), func(v ssa.Value) bool {
				if cv, ok := v.(*ssa.Call); ok && core.CallOf(cv).Is(d.marshal...) {
					mcall = cv
					return true
				}
				return false
			})
			if mcall == nil {
				bad = "the queued bytes are not the result of proto.Marshal"
				continue
			}
			if !isNamed(boxedType(mcall.Call.Args[0]), "wasp/api", "StateBroadcastEvent") {
				bad = "what is marshalled is not a StateBroadcastEvent"
				continue
			}
		}
		// elements put in the event vs. values written to the store
		elems := map[ssa.Value]bool{}
		fset := c.funcsDeepStop(outer, 3, func(g *ssa.Function) bool { return g.Package() != d.pkg || d.mutatorOf(g) != nil })
		// bind: a helper's parameter is what this mutator's own code passes for it (the helper may serve other mutators too)
		var bind func(v ssa.Value, depth int)
		bind = func(v ssa.Value, depth int) {
			v = core.Strip(v)
			elems[v] = true
			elems[deepStrip(v)] = true
			prm, ok := v.(*ssa.Parameter)
			if !ok || depth <= 0 {
				return
			}
			idx := paramIdx(prm)
			for _, h := range fset {
				for _, cl := range core.CallsIn(h) {
					if cl.Static == prm.Parent() && idx >= 0 && idx < len(cl.Common.Args) {
						bind(cl.Common.Args[idx], depth-1)
					}
				}
			}
		}
		for _, g := range fset {
			for _, b := range g.Blocks {
				for _, in := range b.Instrs {
					if st, ok := in.(*ssa.Store); ok {
						if _, ok := st.Addr.(*ssa.IndexAddr); ok && d.isEntryType(st.Val.Type()) {
							bind(st.Val, 2)
						}
					}
				}
			}
		}
		var writes []ssa.Instruction
		wholeSlice := map[ssa.Instruction]bool{} // writes of s[j] for every j, the event holding &s[i] for every i
		for _, b := range f.Blocks {
			for _, in := range b.Instrs {
				if c.isStoreWrite(d, in) {
					writes = append(writes, in)
				}
			}
		}
		if len(writes) == 0 {
			bad = "the mutator never writes the store"
		}
		for _, w := range writes {
			match := false
			for _, op := range w.Operands(nil) {
				v := *op
				if v == nil {
					continue
				}
				if elems[core.Strip(v)] || elems[deepStrip(v)] {
					match = true
				}
				if ld, ok := v.(*ssa.UnOp); ok && ld.Op == token.MUL && (elems[ld.X] || elems[deepStrip(ld.X)]) {
					match = true
				}
				// the event was filled with &s[i] for every i in one loop, and s[j] is written for every j in another:
				// the same elements of the same slice
				if ld, ok := v.(*ssa.UnOp); ok && ld.Op == token.MUL {
					if ia2, ok := ld.X.(*ssa.IndexAddr); ok && rangesWholeSlice(ia2) {
						for e := range elems {
							if ia1, ok := e.(*ssa.IndexAddr); ok && core.Strip(ia1.X) == core.Strip(ia2.X) && rangesWholeSlice(ia1) {
								match = true
								wholeSlice[w] = true
							}
						}
					}
				}
			}
			if !match {
				bad = "the value written to the store at " + c.whereI(w) + " is not the variable whose address is placed in the broadcast event: the broadcast can carry something else than what was applied locally"
			}
		}
		ru2.Check(bad == "", key, c.where(f, f), "event element = stored variable; queued bytes = Marshal(event)", bad)
		// R3
		if m.bulk {
			bad = ""
			loops := core.Loops(f)
			for _, w := range writes {
				lw := core.InnermostLoop(loops, w.Block())
				if lw == nil && outer != f && via != nil && core.InnermostLoop(core.Loops(outer), via.Instr.Block()) != nil {
					// the loop body is a helper called once per iteration: write and append share the helper's invocation
					inHelper := false
					for _, b := range f.Blocks {
						for _, in := range b.Instrs {
							if st, ok := in.(*ssa.Store); ok {
								if _, ok := st.Addr.(*ssa.IndexAddr); ok && d.isEntryType(st.Val.Type()) {
									inHelper = true
								}
							}
						}
					}
					if !inHelper {
						bad = "entries are written to the store by a helper called in a loop, but the helper does not append them to the event"
					}
					continue
				}
				if lw == nil {
					bad = "the store write of a bulk mutator is not in a loop"
					continue
				}
				same := false
				for _, b := range f.Blocks {
					for _, in := range b.Instrs {
						if st, ok := in.(*ssa.Store); ok {
							if _, ok := st.Addr.(*ssa.IndexAddr); ok && d.isEntryType(st.Val.Type()) && core.InnermostLoop(loops, b) == lw {
								same = true
							}
						}
					}
				}
				if !same && wholeSlice[w] && everyIteration(w) {
					same = true // two loops over the whole of one slice: every element written is an element of the event
				}
				if !same {
					bad = "entries are written to the store in a loop but not appended to the event in the same iteration: some touched entries are missing from the broadcast"
				}
			}
			ru3.Check(bad == "", key, c.where(f, f), "write and append share the loop iteration", bad)
		}
		// R6: clock read under the lock
		bad = ""
		la := c.lockAnalysis()
		exclHeld := func(at ssa.Instruction) bool {
			fl := la.locks[at.Parent()]
			if fl == nil {
				return false
			}
			for _, h := range fl.before[at] {
				if h.excl {
					return true
				}
			}
			return false
		}
		nclock := 0
		clockFns := []*ssa.Function{f}
		if outer != f {
			clockFns = append(clockFns, outer) // the stamp may be taken by the mutator and the entry handed to the helper
		}
		var clockCalls []*core.Call
		for _, g := range clockFns {
			clockCalls = append(clockCalls, core.CallsIn(g)...)
		}
		sf := c.stampFuncs(d)
		for _, cl := range clockCalls {
			if isClockCall(cl) || (cl.Static != nil && sf.ok[cl.Static]) {
				nclock++
				at := cl.Instr
				if via != nil && at.Parent() == f && !exclHeld(at) {
					at = via.Instr // the helper runs where the mutator calls it
				}
				if !exclHeld(at) {
					bad = "the timestamp is read before the state lock is taken: another writer can apply a later-stamped change first and then be overwritten locally by this older-stamped one, while remote nodes keep the later one"
				}
			}
		}
		if nclock == 0 {
			// the stamp may be taken by a small helper of the package that marks an entry (tombstone(session) reading
			// the clock or a stamp function): it runs where the mutator calls it
			for _, g := range clockFns {
				for _, hc := range core.CallsIn(g) {
					h := hc.Static
					if h == nil || h.Package() != d.pkg || d.mutatorOf(h) != nil || len(h.Blocks) == 0 {
						continue
					}
					for _, cl := range core.CallsIn(h) {
						if isClockCall(cl) || (cl.Static != nil && sf.ok[cl.Static]) {
							nclock++
							at := hc.Instr
							if via != nil && at.Parent() == f && !exclHeld(at) {
								at = via.Instr
							}
							if !exclHeld(at) {
								bad = "the timestamp is read before the state lock is taken: another writer can apply a later-stamped change first and then be overwritten locally by this older-stamped one"
							}
						}
					}
				}
			}
		}
		if nclock == 0 {
			bad = "the mutator never reads the clock"
		}
		ru6.Check(bad == "", key, c.where(f, f), "clock() read with the state lock held exclusively", bad)
	}
	c.ruleLoopAlias("C09-R4", fns, 2)
	c.ruleSuccessWrites("C09-R9", d, "")
	c.ruleEventLoopsAppendEveryEntry("C09-R10", d)
	c.ruleRetainedKeysLiteral("C09-R11", d)

	// R5
	ru5 := c.R.Rule("C09-R5", "the memberlist.Broadcast type queued by mutators reports Invalidates == false for every other broadcast", "E11 constant return", 1)
	seen := map[string]bool{}
	for _, m := range d.mutators {
		for _, q := range c.callsToDeep(m.fn, 3, d.queueBroadcast) {
			// the concrete types queued: boxed at the call, or inside the constructor that returns the broadcast
			// (update, err := encodeBroadcast(event); QueueBroadcast(update))
			var concrete []types.Type
			if t := boxedType(q.Arg(0)); t != nil && !types.IsInterface(t) {
				concrete = append(concrete, t)
			} else {
				depReaches(q.Arg(0), func(x ssa.Value) bool {
					if mi, isMI := x.(*ssa.MakeInterface); isMI && !types.IsInterface(mi.X.Type()) {
						concrete = append(concrete, mi.X.Type())
					}
					return false
				})
			}
			if len(concrete) == 0 {
				ru5.Undecided("broadcast queued at "+c.whereI(q.Instr), c.whereI(q.Instr), "the concrete type of the queued broadcast cannot be established")
				continue
			}
			for _, t := range concrete {
				n, ok := t.(*types.Named)
				if !ok || seen[n.Obj().Name()] {
					continue
				}
				seen[n.Obj().Name()] = true
				key := "Invalidates of " + n.Obj().Name()
				inv := c.P.Func("wasp/distributed", n.Obj().Name()+".Invalidates")
				if inv == nil {
					ru5.Undecided(key, "-", "method not found")
					continue
				}
				bad := ""
				for _, rv := range returnValues(inv) {
					if k, ok := rv.(*ssa.Const); !ok || k.Value == nil || k.Value.String() != "false" {
						bad = "Invalidates can return true: a later change would evict an earlier, different change from the transmit queue"
					}
				}
				ru5.Check(bad == "", key, c.where(inv, inv), "constant false", bad)
			}
		}
	}
}

func init() {
	prev := registry["C09"]
	register("C09", func(c *Ctx) {
		prev(c)
		// receiver side: what the queued broadcasts do on the node that gets them
		ru := c.R.Rule("C09-R0", "anchors", "", 0)
		if d := c.dstate(ru); d != nil {
			c.ruleDelegateWiring("C09-R7", d)
			c.ruleMergeTable("C09-R8", d)
		}
	})
}

func isClockCall(cl *core.Call) bool {
	if cl.Static != nil || cl.Invoke || cl.Builtin() != "" {
		return false
	}
	ld, ok := cl.Common.Value.(*ssa.UnOp)
	if !ok || ld.Op != token.MUL {
		return false
	}
	g, ok := ld.X.(*ssa.Global)
	return ok && theClock != nil && g == theClock
}

// theClock is the package-level clock of wasp/distributed: the variable of type func() int64 whose initial value reads
// time.Now (found by shape, not by name). Set per loaded program by the registry.
var theClock *ssa.Global
var clockCache = map[*core.Prog]*ssa.Global{}

func findClock(p *core.Prog) *ssa.Global {
	if g, ok := clockCache[p]; ok {
		return g
	}
	var found *ssa.Global
	if pk := p.SSAPkg("wasp/distributed"); pk != nil {
		for _, m := range pk.Members {
			g, ok := m.(*ssa.Global)
			if !ok {
				continue
			}
			sig, ok := derefT(g.Type()).Underlying().(*types.Signature)
			if !ok || sig.Params().Len() != 0 || sig.Results().Len() != 1 {
				continue
			}
			if b, ok := sig.Results().At(0).Type().Underlying().(*types.Basic); !ok || b.Kind() != types.Int64 {
				continue
			}
			if f := clockImpl(pk, g); f != nil && readsWallClock(f, 2) {
				found = g
			}
		}
	}
	clockCache[p] = found
	return found
}

// clockImpl: the function stored into the clock variable by the package initialiser.
func clockImpl(pk *ssa.Package, g *ssa.Global) *ssa.Function {
	var out *ssa.Function
	for _, m := range pk.Members {
		f, ok := m.(*ssa.Function)
		if !ok || !strings.HasPrefix(f.Name(), "init") {
			continue
		}
		for _, b := range f.Blocks {
			for _, in := range b.Instrs {
				if st, ok := in.(*ssa.Store); ok && st.Addr == ssa.Value(g) {
					if fn := closureArg(st.Val); fn != nil {
						out = fn
					}
				}
			}
		}
	}
	return out
}

func readsWallClock(f *ssa.Function, depth int) bool {
	for _, cl := range core.CallsIn(f) {
		if cl.Static != nil && cl.Static.Pkg != nil && cl.Static.Pkg.Pkg.Path() == "time" && cl.Static.Name() == "Now" {
			return true
		}
		if depth > 0 && cl.Static != nil && len(cl.Static.Blocks) > 0 && cl.Static.Pkg == f.Pkg && readsWallClock(cl.Static, depth-1) {
			return true
		}
	}
	return false
}

// ruleClockResolution: the clock that stamps replicated entries keeps the full resolution of the wall clock.
func (c *Ctx) ruleClockResolution(id string) {
	ru := c.R.Rule(id, "the clock that stamps replicated entries returns time.Now().UnixNano() unscaled: a later local update of the same key must get a strictly larger stamp, because an entry only replaces one that is strictly older (a coarser clock makes an unsubscribe, a clear or a re-creation that follows within one tick tie with what it supersedes — and be dropped)", "E11 shape of the clock function: UnixNano with conversions only", 1)
	if !ru.Anchor(theClock != nil, "the package-level clock (func() int64 reading time.Now) of wasp/distributed") {
		return
	}
	f := clockImpl(theClock.Pkg, theClock)
	if !ru.Anchor(f != nil, "the function the clock variable is initialised with") {
		return
	}
	c.R.Fn(c.fname(f))
	bad := ""
	for _, rv := range returnValues(f) {
		v := conversionsOnly(rv)
		cv, ok := v.(*ssa.Call)
		if !ok {
			bad = "the clock's value is computed (" + short(core.Term(rv), 80) + "), not the wall clock's nanosecond reading taken as is: stamps of successive local updates can tie"
			continue
		}
		cl := core.CallOf(cv)
		if cl.Obj == nil || cl.Obj.Pkg() == nil || cl.Obj.Pkg().Path() != "time" || cl.Obj.Name() != "UnixNano" {
			bad = "the clock returns " + short(core.Term(rv), 80) + ", not time.Now().UnixNano(): stamps of successive local updates can tie"
		}
	}
	ru.Check(bad == "", "resolution of "+c.fname(f), c.whereF(f), "time.Now().UnixNano(), conversions only", bad)
}

var _ = report.Discharged
