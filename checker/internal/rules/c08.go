package rules

import (
	"fmt"
	"go/token"
	"go/types"
	"strings"

	"golang.org/x/tools/go/ssa"

	"waspcheck/internal/core"
)

func init() { register("C08", checkC08) }

func checkC08(c *Ctx) {
	c.R.Explanation = "Static rules over crdt/entry.go and wasp/distributed: (R1) order-domain normal form of the four LWW predicates, tabulated completely over all weak orderings of their timestamp inputs and 0 (the predicates touch timestamps only through comparisons, so the table is exact): update time is max(LastAdded, LastDeleted), an entry is outdated iff strictly older, added/removed follow the larger stamp; (R2) timestamps are only compared, copied or assigned from clock() anywhere in crdt and wasp/distributed (precondition of R1); (R3) merge decision table per remote entry in the three merge routines, with IsEntryOutdated(local, remote) in that argument order, additions and removals alike; (R4) batches are merged element by element; (R5) every local mutator stamps the field it sets with a fresh clock() read under the lock; (R6) every query result is filtered by exactly IsEntryAdded; (R7) gossip wiring covers every repeated field of the event."
	c.R.NotCovered = "The full algebra (commutativity / associativity / idempotence of the three stateful merges over all multisets of updates) needs enumeration of histories; ties (equal timestamps from different nodes) are left free by R1; protobuf round trips."
	c.R.Assume("api entry types implement crdt.Entry by returning their LastAdded / LastDeleted fields (generated getters)")
	ru1 := c.R.Rule("C08-R1", "order-domain normal form of the LWW predicates over all weak orderings of {LastAdded, LastDeleted} of each argument and 0", "E6 abstract interpretation in the finite domain of weak orderings (exhaustive, exact for comparison-only functions)", 4)
	d := c.dstate(ru1)
	if d == nil {
		return
	}
	type spec struct {
		obj   *types.Func
		check func(w *odWorld, res odVal) string
	}
	la := func(w *odWorld, p int) int { return w.rank[odSym{p, "LA"}] }
	ld := func(w *odWorld, p int) int { return w.rank[odSym{p, "LD"}] }
	upd := func(w *odWorld, p int) int { return maxi(la(w, p), ld(w, p)) }
	specs := []spec{
		{d.lastU, func(w *odWorld, r odVal) string {
			if r.kind != "rank" || r.rank != upd(w, 0) {
				return "GetLastEntryUpdate is not max(LastAdded, LastDeleted)"
			}
			return ""
		}},
		{d.isOutdated, func(w *odWorld, r odVal) string {
			if r.kind != "bool" {
				return "result is not boolean"
			}
			if upd(w, 0) < upd(w, 1) && !r.b {
				return "local is strictly older than remote but is not reported outdated: a newer update is ignored"
			}
			if upd(w, 0) > upd(w, 1) && r.b {
				return "local is strictly newer than remote but is reported outdated: an older update overrides a newer one"
			}
			return ""
		}},
		{d.isAdded, func(w *odWorld, r odVal) string {
			if r.kind != "bool" {
				return "result is not boolean"
			}
			if la(w, 0) > ld(w, 0) && la(w, 0) > w.zero && !r.b {
				return "added later than removed, yet not reported added"
			}
			if (la(w, 0) < ld(w, 0) || la(w, 0) <= w.zero) && r.b {
				return "removed later than added (or never added), yet reported added"
			}
			return ""
		}},
		{d.isRemoved, func(w *odWorld, r odVal) string {
			if r.kind != "bool" {
				return "result is not boolean"
			}
			if ld(w, 0) > la(w, 0) && ld(w, 0) > w.zero && !r.b {
				return "removed later than added, yet not reported removed"
			}
			if (ld(w, 0) < la(w, 0) || ld(w, 0) <= w.zero) && r.b {
				return "added later than removed (or never removed), yet reported removed"
			}
			return ""
		}},
	}
	total := 0
	for _, s := range specs {
		if s.obj == nil {
			continue
		}
		fn := c.fn(s.obj)
		c.R.Fn(c.fname(fn))
		key := "normal form of " + c.fname(fn)
		n, bad, err := c.odTabulate(fn, s.check)
		total += n
		ru1.Evals(n)
		switch {
		case err != nil:
			ru1.Undecided(key, c.where(fn, fn), "the function leaves the comparison-only fragment, the order-domain table is not exact: "+err.Error())
		case bad != "":
			ru1.Fail(key, c.where(fn, fn), bad)
		default:
			ru1.OK(key, c.where(fn, fn), fmt.Sprintf("holds on all %d weak orderings", n))
		}
	}
	c.R.Extra["orderings_tabulated"] = total
	c.R.Extra["exhaustive_for_R1"] = true

	// R2
	ru2 := c.R.Rule("C08-R2", "timestamps (LastAdded / LastDeleted and their getters) are only compared, copied, or assigned from clock() or from a stamp function (clock value tested greater than the stamp replaced, or that stamp plus a positive constant): no other arithmetic, no conversion, no other source", "E3 use/def scan over crdt and wasp/distributed", 2)
	sf := c.stampFuncs(d)
	crdtPkg := c.P.SSAPkg("crdt")
	isStampField := func(fa *ssa.FieldAddr) bool {
		n := fieldNameOf(fa.X.Type(), fa.Field)
		return (n == "LastAdded" || n == "LastDeleted") && isNamed(derefT(fa.X.Type()).(types.Type), "wasp/api", derefNamedName(fa.X.Type()))
	}
	isStampValue := func(v ssa.Value) bool {
		switch x := v.(type) {
		case *ssa.UnOp:
			if fa, ok := x.X.(*ssa.FieldAddr); ok && x.Op == token.MUL {
				return isStampField(fa)
			}
		case *ssa.Call:
			if x.Call.IsInvoke() && (x.Call.Method.Name() == "GetLastAdded" || x.Call.Method.Name() == "GetLastDeleted") {
				return true
			}
			if sc := x.Call.StaticCallee(); sc != nil && (sc.Name() == "GetLastAdded" || sc.Name() == "GetLastDeleted" || (d.lastU != nil && sc.Object() == d.lastU)) {
				return true
			}
		}
		return false
	}
	for _, pk := range []*ssa.Package{crdtPkg, d.pkg} {
		if pk == nil {
			continue
		}
		bad, nUses := "", 0
		for _, f := range c.P.ModFuncs() {
			if f.Package() != pk {
				continue
			}
			for _, b := range f.Blocks {
				for _, in := range b.Instrs {
					switch x := in.(type) {
					case *ssa.BinOp:
						if isStampValue(x.X) || isStampValue(x.Y) {
							nUses++
							switch x.Op {
							case token.LSS, token.LEQ, token.GTR, token.GEQ, token.EQL, token.NEQ:
							case token.ADD:
								if !sf.ok[f] {
									bad = "timestamp arithmetic (" + x.Op.String() + ") outside a stamp function at " + c.whereI(x)
								}
							default:
								bad = "timestamp arithmetic (" + x.Op.String() + ") at " + c.whereI(x)
							}
						}
					case *ssa.Convert:
						if isStampValue(x.X) {
							bad = "timestamp converted at " + c.whereI(x)
						}
					case *ssa.Store:
						if fa, ok := x.Addr.(*ssa.FieldAddr); ok && isStampField(fa) {
							nUses++
							v := core.Strip(x.Val)
							okSrc := false
							if sf.fresh(v) {
								okSrc = true
							}
							if isStampValue(v) {
								okSrc = true
							}
							if !okSrc {
								bad = "a timestamp field is assigned from something else than clock() or another entry's stamp at " + c.whereI(x) + ": " + short(core.Term(x.Val), 60)
							}
						}
					}
				}
			}
		}
		ru2.Check(bad == "" && nUses > 0, "timestamp uses in package "+pk.Pkg.Path()[len(c.P.ModPath)+1:], "-", fmt.Sprintf("%d uses, all comparisons / clock() assignments", nUses), bad)
	}

	c.ruleMergeTable("C08-R3", d)

	// R5
	ru5 := c.R.Rule("C08-R5", "every local mutator stamps the field it sets (LastAdded on create/set, LastDeleted on delete) of the entry it stores with a fresh clock() result, and does not stamp the opposite field", "E3 provenance", 9)
	for _, m := range d.mutators {
		f := m.fn
		key := m.iface + "." + m.name + " stamps " + m.kind
		delegated := false
		for _, cl := range core.CallsIn(f) {
			if cl.Static != nil && d.mutatorOf(cl.Static) != nil {
				delegated = true
			}
		}
		if delegated {
			ru5.OK(key, c.where(f, f), "delegates to another mutator")
			continue
		}
		// the mutator and the package helpers it hands the work to (other mutators excluded)
		var blocks []*ssa.BasicBlock
		for _, g := range c.funcsDeepStop(f, 2, func(g *ssa.Function) bool { return g.Package() != d.pkg || d.mutatorOf(g) != nil }) {
			blocks = append(blocks, g.Blocks...)
		}
		want, other := "LastAdded", "LastDeleted"
		if m.kind == "deleted" {
			want, other = other, want
		}
		okStamp, badStamp := false, ""
		for _, b := range blocks {
			for _, in := range b.Instrs {
				st, ok := in.(*ssa.Store)
				if !ok {
					continue
				}
				fa, ok := st.Addr.(*ssa.FieldAddr)
				if !ok || !d.isEntryType(fa.X.Type()) {
					continue
				}
				n := fieldNameOf(fa.X.Type(), fa.Field)
				fresh := sf.fresh(st.Val)
				if n == want && fresh {
					okStamp = true
				}
				if n == want && !fresh {
					badStamp = "the " + want + " stamp is not a fresh clock() result (stale or constant time): " + short(core.Term(st.Val), 60)
				}
				if n == other && fresh {
					badStamp = "the mutator stamps " + other + " although it is a " + m.kind + " operation"
				}
			}
		}
		ru5.Check(okStamp && badStamp == "", key, c.where(f, f), want+" = clock()", badStamp+map[bool]string{true: "", false: " no " + want + " = clock() store found"}[okStamp])
	}

	c.ruleVisibility("C08-R6", d, 3)
	c.ruleDelegateWiring("C08-R7", d)
	c.ruleClockResolution("C08-R8")
	c.ruleLocalWritesMonotone("C08-R9", d)
}

func derefNamedName(t types.Type) string {
	t = derefT(t)
	if n, ok := t.(*types.Named); ok {
		return n.Obj().Name()
	}
	return ""
}

// ruleVisibility implements C08-R6 / C01-R1 / C07-R3: query results contain only entries for which IsEntryAdded holds.
func (c *Ctx) ruleVisibility(id string, d *dstate, min int) {
	ru := c.R.Rule(id, "every entry that flows into the result of a state query is copied only under crdt.IsEntryAdded(entry) == true (removed entries are never listed)", "E3 taint (store entries) cleansed by the guard + E2 control dependence", min)
	seen := map[*ssa.Function]bool{}
	n := 0
	for _, q := range d.queries {
		fns := c.reachInPkg(q, d.pkg)
		for _, f := range fns {
			if seen[f] {
				continue
			}
			seen[f] = true
			c.R.Fn(c.fname(f))
			// result-spill locals: entry-typed locals that are loaded right into a return
			spill := map[*ssa.Alloc]bool{}
			for _, b := range f.Blocks {
				if r, ok := b.Instrs[len(b.Instrs)-1].(*ssa.Return); ok {
					for _, rv := range r.Results {
						if ld, ok := rv.(*ssa.UnOp); ok && ld.Op == token.MUL {
							if al, ok := ld.X.(*ssa.Alloc); ok && d.isEntryType(al.Type()) && al.Comment == "" {
								spill[al] = true // unnamed result spilled because of a defer
							}
						}
					}
				}
			}
			for _, b := range f.Blocks {
				for _, in := range b.Instrs {
					var what string
					var val ssa.Value
					switch x := in.(type) {
					case *ssa.Store:
						if _, isFresh := x.Val.(*ssa.Alloc); isFresh {
							continue // a fresh object, filled later; not an entry read from a store
						}
						if _, ok := x.Addr.(*ssa.IndexAddr); ok && d.isEntryType(x.Val.Type()) {
							what, val = "element store", x.Val
						}
						if al, ok := x.Addr.(*ssa.Alloc); ok && spill[al] && !isZeroEntry(x.Val) && !fromPkgCall(x.Val, d.pkg) {
							what, val = "returned value", x.Val
						}
					case *ssa.Return:
						for _, r := range x.Results {
							if !d.isEntryType(r.Type()) || isZeroEntry(r) {
								continue
							}
							if ld, ok := r.(*ssa.UnOp); ok && ld.Op == token.MUL {
								if al, ok := ld.X.(*ssa.Alloc); ok && spill[al] {
									continue // judged at the stores into the spill
								}
							}
							if fromPkgCall(r, d.pkg) {
								continue // result of a package function that is judged itself
							}
							what, val = "return", r
						}
					}
					if what == "" {
						continue
					}
					if f.Name() == "init" {
						continue
					}
					// only entries read from a store matter; skip literals built from parameters (mutators are not on this path)
					n++
					key := fmt.Sprintf("%s of an entry in %s #%d", what, c.fname(f), n)
					guarded := false
					for _, cc := range controllingConds(b, nil) {
						if cv, ok := cc.cond.(*ssa.Call); ok && core.CallOf(cv).Is(d.isAdded) && cc.pol {
							// the guard must be about the same entry
							if sameEntry(cv.Call.Args[0], val) {
								guarded = true
							}
						}
					}
					if !guarded {
						// read out of the result of a package function that hands out added entries only
						// (retained(pattern): appends an entry to its result only under IsEntryAdded(entry))
						guarded = containerReaches(val, func(x ssa.Value) bool {
							cv, ok := x.(*ssa.Call)
							if !ok {
								return false
							}
							g := cv.Call.StaticCallee()
							return g != nil && g.Package() == d.pkg && c.returnsOnlyAdded(d, g)
						})
					}
					ru.Check(guarded, key, c.whereI(in), "under IsEntryAdded(entry)", "an entry reaches a query result without passing IsEntryAdded on that very entry: removed (or never added) entries are listed")
				}
			}
		}
	}
}

// returnsOnlyAdded: every slice of entries g returns is accumulated, in g, with appends only, each of them made under
// IsEntryAdded(that element) == true.
func (c *Ctx) returnsOnlyAdded(d *dstate, g *ssa.Function) bool {
	if len(g.Blocks) == 0 {
		return false
	}
	n := 0
	for _, b := range g.Blocks {
		r, ok := b.Instrs[len(b.Instrs)-1].(*ssa.Return)
		if !ok {
			continue
		}
		for _, rv := range r.Results {
			sl, isSlice := rv.Type().Underlying().(*types.Slice)
			if !isSlice || !d.isEntryType(sl.Elem()) {
				continue
			}
			if k, isConst := rv.(*ssa.Const); isConst && k.IsNil() {
				continue
			}
			elems, from, _, ok := sliceSources(rv)
			if !ok {
				return false
			}
			for i, e := range elems {
				guarded := false
				for _, cc := range controllingConds(from[i].Block(), nil) {
					if cv, isCall := cc.cond.(*ssa.Call); isCall && core.CallOf(cv).Is(d.isAdded) && cc.pol && sameEntry(cv.Call.Args[0], e) {
						guarded = true
					}
				}
				if !guarded {
					return false
				}
				n++
			}
		}
	}
	return n > 0
}

func isZeroEntry(v ssa.Value) bool {
	// a composite literal with no field stores, or a constant zero
	switch x := v.(type) {
	case *ssa.Const:
		return true
	case *ssa.UnOp:
		if al, ok := x.X.(*ssa.Alloc); ok && x.Op == token.MUL {
			if al.Referrers() != nil {
				for _, r := range *al.Referrers() {
					if _, ok := r.(*ssa.Store); ok {
						return false
					}
					if _, ok := r.(*ssa.FieldAddr); ok {
						return false
					}
				}
			}
			return strings.Contains(al.Comment, "complit")
		}
	}
	return false
}

// sameEntry: the guard argument and the copied value denote the same entry (same local, or pointer to / load of it).
func sameEntry(guardArg, val ssa.Value) bool {
	base := func(v ssa.Value) ssa.Value {
		for i := 0; i < 10; i++ {
			switch x := v.(type) {
			case *ssa.MakeInterface:
				v = x.X
			case *ssa.ChangeInterface:
				v = x.X
			case *ssa.UnOp:
				if x.Op == token.MUL {
					v = x.X
				} else {
					return v
				}
			default:
				return v
			}
		}
		return v
	}
	a, b := base(guardArg), base(val)
	if a == b {
		return true
	}
	return core.Term(a) == core.Term(b)
}

// fromPkgCall: v is the (extracted) result of a static call to a function of package pk.
func fromPkgCall(v ssa.Value, pk *ssa.Package) bool {
	if ex, ok := v.(*ssa.Extract); ok {
		v = ex.Tuple
	}
	if cv, ok := v.(*ssa.Call); ok {
		if sc := cv.Call.StaticCallee(); sc != nil && sc.Package() == pk {
			return true
		}
	}
	return false
}
