package rules

import (
	"fmt"
	"go/token"
	"go/types"
	"os"
	"sort"
	"strings"

	"golang.org/x/tools/go/ssa"

	"waspcheck/internal/core"
	"waspcheck/internal/report"
)

const (
	pkgPacket     = "github.com/vx-labs/mqtt-protocol/packet"
	pkgEncoder    = "github.com/vx-labs/mqtt-protocol/encoder"
	pkgDecoder    = "github.com/vx-labs/mqtt-protocol/decoder"
	pkgMemberlist = "github.com/hashicorp/memberlist"
	pkgCommitlog  = "github.com/vx-labs/commitlog"
	pkgStream     = "github.com/vx-labs/commitlog/stream"
	pkgGotomic    = "github.com/zond/gotomic"
	pkgGommap     = "github.com/tysontate/gommap"
)

// ifaceShapes: the module's unexported interfaces used as anchors, recognised by their exact method set when the
// type has been renamed (an unexported name is not an API object; its shape is).
var ifaceShapes = map[string][]string{
	"wasp.messageLog":                  {"Append", "Close", "Consume", "Get", "Stream"},
	"wasp.midPool":                     {"Get", "Put"},
	"wasp.publishDistributorTransport": {"Call"},
}

// im resolves an interface method anchor, reporting it unresolved through ru.
func (c *Ctx) im(ru *report.Rule, pkg, iface, method string) *types.Func {
	f := c.P.IfaceMethod(pkg, iface, method)
	if f == nil {
		if shape, ok := ifaceShapes[pkg+"."+iface]; ok {
			f = c.ifaceMethodByShape(pkg, shape, method)
		}
	}
	ru.Anchor(f != nil, pkg+"."+iface+"."+method)
	return f
}

// ifaceMethodByShape finds method in the unique named interface of pkg whose method set is exactly shape.
func (c *Ctx) ifaceMethodByShape(pkg string, shape []string, method string) *types.Func {
	tp := c.P.TypesPkg(pkg)
	if tp == nil {
		return nil
	}
	var found *types.Func
	n := 0
	for _, name := range tp.Scope().Names() {
		tn, ok := tp.Scope().Lookup(name).(*types.TypeName)
		if !ok {
			continue
		}
		it, ok := tn.Type().Underlying().(*types.Interface)
		if !ok || it.NumMethods() != len(shape) {
			continue
		}
		have := map[string]*types.Func{}
		for i := 0; i < it.NumMethods(); i++ {
			have[it.Method(i).Name()] = it.Method(i)
		}
		all := true
		for _, m := range shape {
			if have[m] == nil {
				all = false
			}
		}
		if all && have[method] != nil {
			found = have[method]
			n++
		}
	}
	if n != 1 {
		return nil
	}
	return found
}

// cm resolves a concrete method anchor.
func (c *Ctx) cm(ru *report.Rule, pkg, typ, method string) *types.Func {
	f := c.P.MethodObj(pkg, typ, method)
	if f == nil && pkg == "wasp" && typ == "mqttServer" {
		// the node's gRPC server, whatever its type is called: the module's implementation of the generated server interface
		if im := c.P.IfaceMethod("wasp/api", "MQTTServer", method); im != nil {
			for _, impl := range c.P.Implementations(im) {
				if impl.Pkg != nil && impl.Pkg.Pkg.Path() == c.P.Rel("wasp") {
					if o, ok := impl.Object().(*types.Func); ok {
						f = o
					}
				}
			}
		}
	}
	ru.Anchor(f != nil, pkg+"."+typ+"."+method)
	return f
}

// fo resolves a package-level function anchor.
func (c *Ctx) fo(ru *report.Rule, pkg, name string) *types.Func {
	f := c.P.FuncObj(pkg, name)
	ru.Anchor(f != nil, pkg+"."+name)
	return f
}

// fn returns the ssa function of a types.Func.
func (c *Ctx) fn(o *types.Func) *ssa.Function {
	if o == nil {
		return nil
	}
	return c.P.SSA.FuncValue(o)
}

// where renders "file:line func".
func (c *Ctx) where(in interface{ Pos() token.Pos }, f *ssa.Function) string {
	pos := in.Pos()
	if !pos.IsValid() && f != nil {
		pos = f.Pos()
	}
	return c.P.Pos(pos) + " " + c.P.FuncName(f)
}

// whereI renders the position of an instruction (falls back to the enclosing function's position).
func (c *Ctx) whereI(in ssa.Instruction) string {
	pos := in.Pos()
	if !pos.IsValid() {
		if v, ok := in.(ssa.Value); ok {
			pos = v.Pos()
		}
	}
	if !pos.IsValid() {
		// nearest instruction with a position in the same block
		for _, x := range in.Block().Instrs {
			if x.Pos().IsValid() {
				pos = x.Pos()
				if x == in {
					break
				}
			}
		}
	}
	if !pos.IsValid() {
		pos = in.Parent().Pos()
	}
	return c.P.Pos(pos) + " " + c.P.FuncName(in.Parent())
}

// fname is the stable name of a function used in construct keys.
func (c *Ctx) fname(f *ssa.Function) string { return c.P.FuncName(f) }

// modFuncsCalling returns the module functions containing a call to one of objs, with those calls.
func (c *Ctx) modFuncsCalling(objs ...*types.Func) map[*ssa.Function][]*core.Call {
	out := map[*ssa.Function][]*core.Call{}
	for _, f := range c.P.ModFuncs() {
		if cs := core.CallsTo(f, objs...); len(cs) > 0 {
			out[f] = cs
			c.R.CallSites += len(cs)
		}
	}
	return out
}

// sortedFuncs returns the keys of a function map in deterministic order.
func sortedFuncs[T any](m map[*ssa.Function]T) []*ssa.Function {
	var out []*ssa.Function
	for f := range m {
		out = append(out, f)
	}
	for i := 1; i < len(out); i++ {
		for j := i; j > 0 && (out[j].Pos() < out[j-1].Pos() || (out[j].Pos() == out[j-1].Pos() && out[j].String() < out[j-1].String())); j-- {
			out[j], out[j-1] = out[j-1], out[j]
		}
	}
	return out
}

// isNamed reports whether t (possibly a pointer) is the named type pkg.name.
func isNamed(t types.Type, pkg, name string) bool {
	if p, ok := t.(*types.Pointer); ok {
		t = p.Elem()
	}
	n, ok := t.(*types.Named)
	if !ok || n.Obj().Pkg() == nil {
		return false
	}
	return n.Obj().Name() == name && (n.Obj().Pkg().Path() == pkg || strings.HasSuffix(n.Obj().Pkg().Path(), "/"+pkg))
}

// staticTypeOf returns the static (pre-boxing) type of a value passed as an interface.
func staticTypeOf(v ssa.Value) types.Type {
	v = core.Strip(v)
	if mi, ok := v.(*ssa.MakeInterface); ok {
		return mi.X.Type()
	}
	return v.Type()
}

// closureArg resolves a call argument to the function it denotes: a function literal, a named function, a bound
// method value (resolved to the method), or the literal returned by a module function that builds the callback.
func closureArg(v ssa.Value) *ssa.Function {
	switch x := core.Strip(v).(type) {
	case *ssa.MakeClosure:
		f, _ := x.Fn.(*ssa.Function)
		if f != nil && f.Synthetic != "" {
			// bound method wrapper: the method it forwards to
			for _, b := range f.Blocks {
				for _, in := range b.Instrs {
					if ci, ok := in.(ssa.CallInstruction); ok {
						if sc := ci.Common().StaticCallee(); sc != nil {
							return sc
						}
					}
				}
			}
		}
		return f
	case *ssa.Function:
		return x
	case *ssa.Call:
		if sc := x.Call.StaticCallee(); sc != nil && len(sc.Blocks) > 0 {
			var found *ssa.Function
			n := 0
			for _, rv := range returnValues(sc) {
				if f := closureArg(rv); f != nil {
					found = f
					n++
				}
			}
			if n >= 1 {
				return found
			}
		}
	}
	return nil
}

// cbParam returns the parameter of an ack.Callback implementation counted from the end of its signature
// (0 = expired, 1 = stored, 2 = received): a named method used as callback carries its receiver in front.
func cbParam(cb *ssa.Function, k int) *ssa.Parameter {
	i := len(cb.Params) - 3 + k
	if i < 0 || i >= len(cb.Params) {
		return nil
	}
	return cb.Params[i]
}

func cbParamIdx(cb *ssa.Function, k int) int { return len(cb.Params) - 3 + k }

// enclosingTop returns the outermost declared function enclosing f.
func enclosingTop(f *ssa.Function) *ssa.Function {
	for f.Parent() != nil {
		f = f.Parent()
	}
	return f
}

// hasAncestor reports whether f is anc or nested inside it.
func hasAncestor(f, anc *ssa.Function) bool {
	for ; f != nil; f = f.Parent() {
		if f == anc {
			return true
		}
	}
	return false
}

func short(s string, n int) string {
	if len(s) > n {
		return s[:n] + "…"
	}
	return s
}

func fmtPath(p *core.Path, pr *core.Prog) string {
	if os.Getenv("WASPCHECK_LONGPATHS") != "" {
		return p.Describe(pr)
	}
	return short(p.Describe(pr), 400)
}

var _ = fmt.Sprintf

func stringsContains(a, b string) bool { return strings.Contains(a, b) }

func stringsToLower(s string) string { return strings.ToLower(s) }

func sortStrings(s []string) { sort.Strings(s) }

// whereF renders the position of a function.
func (c *Ctx) whereF(f *ssa.Function) string { return c.where(f, f) }
