package rules

import (
	"fmt"

	"golang.org/x/tools/go/ssa"

	"waspcheck/internal/core"
)

func init() { register("C10", checkC10) }

// reachInPkg: functions of package pk reachable from root through static calls and closure creation.
func (c *Ctx) reachInPkg(root *ssa.Function, pk *ssa.Package) []*ssa.Function {
	seen := c.P.Reach([]*ssa.Function{root}, func(from *ssa.Function, cl *core.Call, to *ssa.Function) bool {
		if to.Package() != pk {
			// a bound-method wrapper (s.topics.dump used as a value) belongs to no package: it is the method it wraps
			if to.Synthetic == "" || to.Pkg != nil {
				return false
			}
		}
		if cl != nil && cl.Invoke {
			return false // interface dispatch stays out: the snapshot path is made of direct calls
		}
		return true
	})
	return sortedFuncs(seen)
}

func checkC10(c *Ctx) {
	c.R.Explanation = "Static rules over the full-state exchange (wasp/distributed): (R1) LocalState fills every repeated field of StateBroadcastEvent from the corresponding store and returns its marshalling; (R2) no function on the snapshot path filters on IsEntryAdded/IsEntryRemoved: the dump iterates raw entries, so removals travel too; (R3) no loop-carried alias in the dump loops; (R4) on the receiving side MergeRemoteState hands every repeated field to a merge routine, each of which follows the merge decision table (shared with C08)."
	c.R.NotCovered = "Which of two concurrent histories wins (decided by the LWW predicates under C08), memberlist's push/pull scheduling, value-level equality of listings after the exchange."
	c.R.Assume("memberlist calls Delegate.LocalState / MergeRemoteState on join and on periodic push-pull")
	ru1 := c.R.Rule("C10-R1", "the snapshot producer fills every repeated field of StateBroadcastEvent and returns its proto.Marshal", "E9 struct-field exhaustiveness", 3)
	d := c.dstate(ru1)
	if d == nil {
		return
	}
	fns := c.reachInPkg(d.localState, d.pkg)
	for _, f := range fns {
		c.R.Fn(c.fname(f))
	}
	for _, field := range d.repeatedFields() {
		key := "StateBroadcastEvent." + field + " filled on the snapshot path"
		found := false
		for _, f := range fns {
			for _, b := range f.Blocks {
				for _, in := range b.Instrs {
					if st, ok := in.(*ssa.Store); ok {
						if fa, ok := st.Addr.(*ssa.FieldAddr); ok && isNamed(fa.X.Type(), "wasp/api", "StateBroadcastEvent") && fieldNameOf(fa.X.Type(), fa.Field) == field {
							// must be an append of entries, not a reset
							if cv, ok := st.Val.(*ssa.Call); ok && core.CallOf(cv).Builtin() == "append" {
								found = true
							}
							// or assigned once from a slice that was appended to (accumulated in a local first)
							if depReaches(st.Val, func(v ssa.Value) bool {
								ac, ok := v.(*ssa.Call)
								return ok && core.CallOf(ac).Builtin() == "append"
							}) {
								found = true
							}
						}
					}
				}
			}
		}
		ru1.Check(found, key, c.where(d.localState, d.localState), "appended to by a function reachable from LocalState", "no function reachable from LocalState appends to this field: that kind of state never travels in a snapshot")
		// and on every call of LocalState: the call that leads to the append dominates every return of the producer (a
		// dump made only when join is true leaves the periodic exchange without that kind of state)
		if found {
			uncond := false
			appendsField := func(g *ssa.Function) bool {
				for _, h := range c.funcsDeepStop(g, 3, func(x *ssa.Function) bool { return x.Package() != d.pkg }) {
					for _, b := range h.Blocks {
						for _, in := range b.Instrs {
							if st, ok := in.(*ssa.Store); ok {
								if fa, ok := st.Addr.(*ssa.FieldAddr); ok && isNamed(fa.X.Type(), "wasp/api", "StateBroadcastEvent") && fieldNameOf(fa.X.Type(), fa.Field) == field {
									return true
								}
							}
						}
					}
				}
				return false
			}
			ls := d.localState
			var anchors []*ssa.BasicBlock
			for _, b := range ls.Blocks {
				for _, in := range b.Instrs {
					if st, ok := in.(*ssa.Store); ok {
						if fa, ok := st.Addr.(*ssa.FieldAddr); ok && isNamed(fa.X.Type(), "wasp/api", "StateBroadcastEvent") && fieldNameOf(fa.X.Type(), fa.Field) == field {
							anchors = append(anchors, b)
						}
					}
					if cl := core.CallOf(in); cl != nil && cl.Static != nil && cl.Static.Package() == d.pkg && appendsField(cl.Static) {
						anchors = append(anchors, b)
					}
				}
			}
			// the dumps called through function values collected in LocalState itself (a slice of bound methods ranged
			// over): the loop is reached on every path and left only through its normal end
			loops := core.Loops(ls)
			for _, b := range ls.Blocks {
				for _, in := range b.Instrs {
					mc, ok := in.(*ssa.MakeClosure)
					if !ok {
						continue
					}
					cf, ok := mc.Fn.(*ssa.Function)
					if !ok || !appendsField(cf) {
						continue
					}
					for _, cl := range core.CallsIn(ls) {
						if cl.Static != nil || cl.Invoke || cl.Builtin() != "" {
							continue
						}
						l := core.InnermostLoop(loops, cl.Instr.Block())
						if l == nil || !depReaches(cl.Common.Value, func(v ssa.Value) bool { return v == ssa.Value(mc) }) {
							continue
						}
						early := false
						for lb := range l.Blocks {
							for _, sb := range lb.Succs {
								if !l.Blocks[sb] && lb != l.Header {
									early = true
								}
							}
						}
						callEvery := true
						for _, pr := range l.Header.Preds {
							if l.Blocks[pr] && !cl.Instr.Block().Dominates(pr) {
								callEvery = false
							}
						}
						if !early && callEvery && b.Dominates(l.Header) {
							anchors = append(anchors, l.Header)
						}
					}
				}
			}
			for _, ab := range anchors {
				all := true
				for _, rb := range ls.Blocks {
					if _, isRet := rb.Instrs[len(rb.Instrs)-1].(*ssa.Return); isRet && !ab.Dominates(rb) {
						all = false
					}
				}
				if all {
					uncond = true
				}
			}
			ru1.Check(uncond, "StateBroadcastEvent."+field+" filled on every call of the snapshot producer", c.where(ls, ls), "the dump dominates every return of LocalState", "the dump of this field is conditional in "+c.fname(ls)+": some snapshots (for instance the periodic exchange, join == false) do not carry this kind of state, so a node that missed the gossip never catches up")
		}
	}
	// returns the marshalling of the payload it filled
	okRet := false
	for _, rv := range returnValues(d.localState) {
		if depReaches(rv, func(v ssa.Value) bool {
			cv, ok := v.(*ssa.Call)
			return ok && core.CallOf(cv).Is(d.marshal...) && isNamed(boxedType(cv.Call.Args[0]), "wasp/api", "StateBroadcastEvent")
		}) {
			okRet = true
		}
	}
	ru1.Check(okRet, "LocalState returns Marshal(StateBroadcastEvent)", c.where(d.localState, d.localState), "yes", "LocalState does not return the marshalled event")

	ru2 := c.R.Rule("C10-R2", "the snapshot path contains no visibility filter (crdt.IsEntryAdded / IsEntryRemoved): it dumps raw entries, tombstones included", "E8 reachability within the package + who-may-call", 1)
	bad := ""
	for _, f := range fns {
		for _, cl := range core.CallsTo(f, d.isAdded, d.isRemoved) {
			bad = fmt.Sprintf("%s is called at %s on the snapshot path (reached from LocalState): entries that are not visible — removals — are left out, so a lagging node never learns them", cl.Obj.Name(), c.whereI(cl.Instr))
		}
	}
	ru2.Check(bad == "", "functions reachable from LocalState", c.where(d.localState, d.localState), fmt.Sprintf("%d functions, none filters on visibility", len(fns)), bad)

	c.ruleLoopAlias("C10-R3", fns, 1)
	c.ruleDelegateWiring("C10-R4", d)
	c.ruleMergeTable("C10-R5", d)
}

// ruleDelegateWiring implements C08-R7 / C10-R4.
func (c *Ctx) ruleDelegateWiring(id string, d *dstate) {
	ru := c.R.Rule(id, "gossip wiring: NotifyMsg reaches MergeRemoteState; MergeRemoteState unmarshals a StateBroadcastEvent and hands every repeated field of it to a merge routine", "E9 struct-field exhaustiveness + call reachability", 4)
	reach := c.P.Reach([]*ssa.Function{d.notifyMsg}, func(from *ssa.Function, cl *core.Call, to *ssa.Function) bool { return to.Package() == d.pkg })
	ru.Check(reach[d.mergeRemote], "NotifyMsg → MergeRemoteState", c.where(d.notifyMsg, d.notifyMsg), "reachable", "incremental gossip messages are not merged")
	for _, field := range d.repeatedFields() {
		key := "MergeRemoteState consumes StateBroadcastEvent." + field
		found := false
		for _, cl := range c.callsDeep(d.mergeRemote, 2) {
			if cl.Static == nil || cl.Static.Package() != d.pkg {
				continue
			}
			for _, a := range cl.Common.Args {
				if depReaches(a, func(v ssa.Value) bool {
					fa, ok := v.(*ssa.FieldAddr)
					return ok && isNamed(fa.X.Type(), "wasp/api", "StateBroadcastEvent") && fieldNameOf(fa.X.Type(), fa.Field) == field
				}) && c.writesStore(d, cl.Static, 3) {
					found = true
				}
			}
		}
		ru.Check(found, key, c.where(d.mergeRemote, d.mergeRemote), "passed to a routine that writes the store", "this kind of state is dropped on reception: replicas never converge on it")
	}
	// the kinds of state are merged independently of one another: once the first merge routine is reached, every
	// return of the function that hands the fields out is reached through all of them (an entry refused in one kind
	// must not keep the other kinds of the same event from being merged)
	for _, g := range c.funcsDeepStop(d.mergeRemote, 2, func(x *ssa.Function) bool { return x.Package() != d.pkg || c.writesStore(d, x, 3) }) {
		var merges []*core.Call
		for _, cl := range core.CallsIn(g) {
			if cl.Static == nil || cl.Static.Package() != d.pkg || !c.writesStore(d, cl.Static, 3) {
				continue
			}
			for _, a := range cl.Common.Args {
				if depReaches(a, func(v ssa.Value) bool {
					fa, ok := v.(*ssa.FieldAddr)
					return ok && isNamed(fa.X.Type(), "wasp/api", "StateBroadcastEvent")
				}) {
					merges = append(merges, cl)
					break
				}
			}
		}
		if len(merges) < 2 {
			continue
		}
		first := merges[0]
		for _, m := range merges {
			if core.Dominates(m.Instr, first.Instr) {
				first = m
			}
		}
		bad := ""
		for _, rb := range g.Blocks {
			if _, isRet := rb.Instrs[len(rb.Instrs)-1].(*ssa.Return); !isRet || !first.Instr.Block().Dominates(rb) {
				continue
			}
			for _, m := range merges {
				if !m.Instr.Block().Dominates(rb) {
					bad = "the function can return (" + c.P.Pos(lastPos(rb)) + ") after " + c.fname(first.Static) + " without having called " + c.fname(m.Static) + ": a refused entry of one kind leaves the other kinds of the same event unmerged"
				}
			}
		}
		ru.Check(bad == "", "the merges of "+c.fname(g)+" are independent", c.where(g, g), fmt.Sprintf("%d merge call(s), all reached on every path once the first is", len(merges)), bad)
	}
}
