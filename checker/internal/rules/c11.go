package rules

import (
	"fmt"
	"go/token"
	"go/types"

	"golang.org/x/tools/go/ssa"

	"waspcheck/internal/core"
)

func init() {
	register("C11", checkC11)
	register("C12", checkC12)
	register("C13", checkC13)
}

// serveFunc: the per-connection goroutine started by the CONNECT handler.
func (c *Ctx) serveFunc(handler *ssa.Function) (*ssa.Function, *ssa.Go) {
	if f, g := c.serveFuncIn(handler); f != nil {
		return f, g
	}
	for _, cl := range core.CallsIn(handler) {
		if cl.Static != nil && cl.Static.Package() == handler.Package() && cl.Static.Parent() == nil {
			if f, g := c.serveFuncIn(cl.Static); f != nil {
				return f, g
			}
		}
	}
	return nil, nil
}

func (c *Ctx) serveFuncIn(handler *ssa.Function) (*ssa.Function, *ssa.Go) {
	for _, b := range handler.Blocks {
		for _, in := range b.Instrs {
			if g, ok := in.(*ssa.Go); ok {
				if sc := g.Call.StaticCallee(); sc != nil {
					return sc, g
				}
				if cf := closureArg(g.Call.Value); cf != nil {
					return cf, g
				}
			}
		}
	}
	return nil, nil
}

func checkC11(c *Ctx) {
	c.R.Explanation = "Static rules over wasp/conn.go, wasp/packets.go, wasp/nodes.go, wasp/writer.go: (R1) teardown decision table: one registry delete, one subscription delete per remembered filter, the session record deleted whenever it is still ours — also after a clean DISCONNECT; (R2) every path out of the per-connection goroutine closes the connection; (R3) the keep-alive deadline is armed before the per-connection goroutine starts and re-armed after every processed packet; (R4) the read loop ends only when decoding or processing failed; (R5) subscribe/unsubscribe bookkeeping pairs; (R6) peer-failure cleanup removes the peer's subscriptions and session records by peer id; (R7) the fan-out dereferences a session only when the registry returned one; (R8) once a session is registered the goroutine that will tear it down is always started."
	c.R.NotCovered = "Keep-alive arithmetic and wall-clock behaviour, delivery of the resulting gossip, quiescent cross-node consistency of listings."
	c.R.Assume("closing the transport makes a blocked Decode return an error")
	defer c.ruleKeepAliveZero("C11-R9")
	defer c.ruleKeepAliveWidth("C11-R10")
	ru1 := c.R.Rule("C11-R1", "teardown (first caller only): exactly one registry delete of the session's own id; a loop over session.GetTopics() deleting each subscription under the session's own id; on every path where the client id still resolves to this session the session record is deleted exactly once, whether or not DISCONNECT was seen", "E1 decision table + loop matcher + E3", 3)
	td := c.teardown(ru1)
	if td != nil {
		ru1.Evals(len(td.paths))
		f := td.fn
		bad := ""
		for _, tp := range td.paths {
			if len(tp.regDeletes) != 1 || !td.ownID(tp.p, tp.regDeletes[0].Arg(0)) {
				bad = fmt.Sprintf("%d registry deletes keyed by the session's own id on path [%s], want exactly 1", len(tp.regDeletes), tp.atoms())
			}
		}
		ru1.Check(bad == "" && len(td.paths) > 0, "registry delete in "+c.fname(f), c.where(f, f), fmt.Sprintf("once on each of %d paths", len(td.paths)), bad)
		// subscriptions loop (possibly in a helper): every first-caller path reads GetTopics() of this session; every
		// subscription delete is keyed by the own id, takes its filter from GetTopics() and sits in a loop
		bad = ""
		nDel := 0
		for _, tp := range td.paths {
			if !(tp.first.known && tp.first.val) {
				continue
			}
			reads := false
			for _, pc := range tp.p.Calls() {
				if pc.Is(td.getTopics) && same(tp.p.Resolve(core.Strip(pc.Common.Args[0])), f.Params[td.sessIdx]) {
					reads = true
				}
			}
			if !reads {
				bad = "a teardown path skips the subscription clean-up (never reads the session's remembered filters) [" + tp.atoms() + "]"
			}
			for _, sd := range tp.subDeletes {
				nDel++
				if !td.ownID(tp.p, sd.Arg(1-1)) {
					bad = "the subscription delete is not keyed by the session's own id"
				}
				if !depReaches(sd.Arg(1), func(v ssa.Value) bool {
					cv, ok := v.(*ssa.Call)
					return ok && core.CallOf(cv).Is(td.getTopics)
				}) {
					bad = "the filter deleted is not an element of session.GetTopics()"
				}
				if core.InnermostLoop(core.Loops(sd.Instr.Parent()), sd.Instr.Block()) == nil {
					bad = "subscriptions are deleted outside a loop over the remembered filters"
				}
			}
		}
		if nDel == 0 && bad == "" {
			bad = "no teardown path deletes a subscription"
		}
		ru1.Check(bad == "", "subscription clean-up in "+c.fname(f), c.where(f, f), "for each element of GetTopics(): Subscriptions.Delete(session.ID(), elem)", bad)
		bad = ""
		n := 0
		for _, tp := range td.paths {
			if !(tp.first.consistent(true) && tp.found.consistent(true) && tp.mine.consistent(true)) || !tp.first.known {
				continue
			}
			if !(tp.found.known && tp.found.val && tp.mine.known && tp.mine.val) {
				continue
			}
			n++
			cnt := 0
			for _, rd := range tp.recDeletes {
				if td.ownID(tp.p, rd.Arg(0)) {
					cnt++
				}
			}
			if cnt != 1 {
				bad = fmt.Sprintf("the session record is deleted %d time(s) on a path where it is still ours [%s]: the session stays listed on every node", cnt, tp.atoms())
			}
		}
		ru1.Check(bad == "" && n > 0, "session record delete in "+c.fname(f), c.where(f, f), fmt.Sprintf("%d path(s) FOUND∧MINE, each deletes the record once", n), bad+map[bool]string{true: "", false: " no path with FOUND∧MINE"}[n > 0])
	}

	ru2 := c.R.Rule("C11-R2", "every path out of the per-connection goroutine closes the session's connection (directly, deferred, or inside the teardown on all its paths)", "E1 must-call summary (depth 3)", 1)
	ru3 := c.R.Rule("C11-R3", "the keep-alive deadline (Session.ExtendDeadline) is armed on the accepting CONNECT path before the per-connection goroutine is started, and re-armed on every iteration of the read loop", "E2 path order", 2)
	ru8 := c.R.Rule("C11-R8", "the session is inserted in the registry before its per-connection goroutine is started, and once it is inserted every path of the CONNECT handler starts that goroutine (the only place that tears the session down)", "E1 paths", 1)
	handler, authCall := c.connectHandler(ru2)
	sa := c.setupAnchors(ru2)
	if handler != nil && sa != nil && td != nil {
		serve, _ := c.serveFunc(handler)
		if ru2.Anchor(serve != nil, "the function started with `go` by the CONNECT handler") {
			c.R.Fn(c.fname(serve))
			ok, detail := c.mustCall(serve, func(cl *core.Call) bool { return cl.Is(td.closeM) }, 3, map[*ssa.Function]int{})
			ru2.Check(ok, "connection closed on every exit of "+c.fname(serve), c.where(serve, serve), "Session.Close on every returning path", "the broker can end the session without closing its socket: "+detail)
			// R3b: loop re-arm
			bad := "the read loop does not re-arm the keep-alive deadline"
			for _, l := range core.Loops(serve) {
				for b := range l.Blocks {
					for _, in := range b.Instrs {
						if cl := core.CallOf(in); cl != nil && cl.Is(sa.extend) {
							// must dominate the back edges
							okAll := true
							for _, pr := range l.Header.Preds {
								if l.Blocks[pr] && !b.Dominates(pr) {
									okAll = false
								}
							}
							if okAll {
								bad = ""
							}
						}
					}
				}
			}
			ru3.Check(bad == "", "re-arm in the read loop of "+c.fname(serve), c.where(serve, serve), "ExtendDeadline on every iteration", bad)
		}
		paths, err := c.handlerPaths(handler, sa)
		if err == nil {
			ru3.Evals(len(paths))
			bad3, bad8, n := "", "", 0
			for _, p := range paths {
				if isNil, tested := authErrNil(p, authCall); !tested || !isNil {
					continue
				}
				armed, started, registered := false, false, false
				for _, pc := range p.Calls() {
					switch {
					case pc.Is(sa.extend):
						armed = true
					case pc.Is(sa.localCreate):
						registered = true
					case isGo(pc):
						started = true
						n++
						if !armed {
							bad3 = "the per-connection goroutine is started while the 3 s CONNECT read deadline is still in force: a client idle right after CONNECT is cut although it is within its keep-alive"
						}
						if !registered {
							bad8 = "the per-connection goroutine is started before the session is in the registry: if the connection ends at once its teardown finds nothing to remove and takes the session for already shut down (no will, record and subscriptions left behind), and the session is then registered as a zombie — " + fmtPath(p, c.P)
						}
					}
				}
				if registered && !started {
					bad8 = "a path registers the session and returns without starting its goroutine: nobody ever tears that session down — " + fmtPath(p, c.P)
				}
			}
			ru3.Check(bad3 == "" && n > 0, "keep-alive armed before `go` in "+c.fname(handler), c.where(handler, handler), "ExtendDeadline precedes the go statement on every accepting path", bad3)
			ru8.Check(bad8 == "", "registered ⇒ served in "+c.fname(handler), c.where(handler, handler), "every path that registers the session starts its goroutine", bad8)
		} else {
			ru3.Undecided("paths of the CONNECT handler", c.where(handler, handler), err.Error())
		}
	}

	// R4
	c.ruleStepStopsOnlyOnError("C11-R4")
	dec := c.P.MethodObj(pkgDecoder, "Sync", "Decode")
	proc := c.P.IfaceMethod("wasp", "PacketProcessor", "Process")
	_ = dec

	// R5
	ru5 := c.R.Rule("C11-R5", "bookkeeping: a successful Subscriptions.Create(id, f) is followed by Session.AddTopic(f) with the same value; Subscriptions.Delete(id, f) in the dispatcher by Session.RemoveTopic(f)", "E1 order within the loop iteration + E3", 2)
	subsCreate := c.im(ru5, "wasp/distributed", "SubscriptionsState", "Create")
	subsDelete := c.im(ru5, "wasp/distributed", "SubscriptionsState", "Delete")
	addTopic := c.cm(ru5, "wasp/sessions", "Session", "AddTopic")
	rmTopic := c.cm(ru5, "wasp/sessions", "Session", "RemoveTopic")
	if proc != nil && subsCreate != nil && subsDelete != nil && addTopic != nil && rmTopic != nil {
		var disp *ssa.Function
		for _, f := range c.P.Implementations(proc) {
			if c.P.IsModPkg(f.Package().Pkg) {
				disp = f
			}
		}
		if ru5.Anchor(disp != nil, "dispatcher") {
			for _, pair := range []struct {
				a, b *types.Func
				name string
			}{{subsCreate, addTopic, "Create→AddTopic"}, {subsDelete, rmTopic, "Delete→RemoveTopic"}} {
				as := c.callsToDeep(disp, 3, pair.a)
				bad := ""
				if len(as) == 0 {
					bad = "no " + pair.a.Name() + " call in the dispatcher"
				}
				for _, a := range as {
					g := a.Instr.Parent() // the dispatcher or the helper that handles this packet type
					c.R.Fn(c.fname(g))
					found := false
					for _, b := range core.CallsTo(g, pair.b) {
						if core.Dominates(a.Instr, b.Instr) && core.Term(a.Arg(1)) == core.Term(b.Arg(0)) {
							// b must be on the success path of a
							ok, _, _ := c.guardedByNilResult(g, a, b.Instr)
							if ok {
								found = true
							}
						}
					}
					if !found {
						bad = "the session's remembered filters are not updated with the same value right after the state change: teardown would leave that subscription behind (or delete a live one)"
					}
				}
				ru5.Check(bad == "", pair.name+" in "+c.fname(disp), c.where(disp, disp), "paired on the success path with the same filter value", bad)
			}
		}
	}

	// R6
	ru6 := c.R.Rule("C11-R6", "peer-failure cleanup: NotifyGossipLeave(id) removes the failed peer's subscriptions (Subscriptions.DeletePeer(id)) and session records (SessionMetadatas.DeletePeer(id), possibly deferred to a goroutine) with its own parameter", "E1/E3", 2)
	leave := c.implOf(ru6, "wasp", "NodeMemberManager", "NotifyGossipLeave")
	subsDP := c.im(ru6, "wasp/distributed", "SubscriptionsState", "DeletePeer")
	sessDP := c.im(ru6, "wasp/distributed", "SessionMetadatasState", "DeletePeer")
	if leave != nil && subsDP != nil && sessDP != nil {
		c.R.Fn(c.fname(leave))
		for _, t := range []struct {
			obj  *types.Func
			name string
		}{{subsDP, "Subscriptions.DeletePeer"}, {sessDP, "SessionMetadatas.DeletePeer"}} {
			found := false
			reach := c.P.Reach([]*ssa.Function{leave}, func(from *ssa.Function, cl *core.Call, to *ssa.Function) bool {
				return hasAncestor(to, leave) || (to.Package() == leave.Package() && (cl == nil || !cl.Invoke))
			})
			uncond := false
			for f := range reach {
				for _, cl := range core.CallsTo(f, t.obj) {
					if reachesParam(cl.Arg(0), leave, paramIndexOfType(leave, "uint64")) {
						found = true
						// on every call of the handler: the call (or the go / call statement of the handler that leads to
						// it) dominates every return of the handler
						ats := c.liftTo(leave, cl.Instr)
						// inside a function literal of the handler (the delayed clean-up runs in a goroutine): the place
						// where the handler creates that literal
						for g := cl.Instr.Parent(); g != nil && g != leave; g = g.Parent() {
							if g.Parent() == leave {
								for _, mc := range c.P.ClosureSites(g) {
									ats = append(ats, mc)
								}
							}
						}
						// or inside a named function that the handler starts with `go` (liftTo leaves go statements out)
						for _, lc := range core.CallsIn(leave) {
							if _, isGo := lc.Instr.(*ssa.Go); !isGo || lc.Static == nil {
								continue
							}
							for _, g := range c.funcsDeep(lc.Static, 3) {
								if g == cl.Instr.Parent() {
									ats = append(ats, lc.Instr)
								}
							}
						}
						for _, at := range ats {
							all := true
							for _, rb := range leave.Blocks {
								if _, isRet := rb.Instrs[len(rb.Instrs)-1].(*ssa.Return); isRet && !at.Block().Dominates(rb) {
									all = false
								}
							}
							if all {
								uncond = true
							}
						}
					}
				}
			}
			ru6.Check(found, t.name+"(id) in "+c.fname(leave), c.where(leave, leave), "called with the failed peer's id", "entries hosted by a failed peer are not all removed by peer id: subscriptions or sessions whose record is missing or displaced stay listed forever")
			if found {
				ru6.Check(uncond, t.name+"(id) on every call of "+c.fname(leave), c.where(leave, leave), "dominates every return of the handler", "the clean-up is skipped on some path of the handler (for instance when no session record of the lost peer is known here): what the peer hosted stays listed")
			}
		}
	}

	// R7
	ru7 := c.R.Rule("C11-R7", "the fan-out uses a session looked up in the local registry only under a non-nil check", "E2 control dependence", 1)
	localGet := c.im(ru7, "wasp", "LocalState", "Get")
	run := c.implOf(ru7, "wasp", "Writer", "Run")
	if localGet != nil && run != nil {
		reach := c.P.Reach([]*ssa.Function{run}, func(from *ssa.Function, cl *core.Call, to *ssa.Function) bool {
			return to.Package() == run.Package() && (cl == nil || !cl.Invoke)
		})
		n := 0
		for _, f := range sortedFuncs(reach) {
			if f.Parent() != nil {
				continue
			}
			for _, g := range core.CallsTo(f, localGet) {
				gv := g.Value()
				if gv == nil || gv.Referrers() == nil {
					continue
				}
				uses := 0
				bad := ""
				for _, r := range *gv.Referrers() {
					if _, isCmp := r.(*ssa.BinOp); isCmp {
						continue
					}
					if _, isDbg := r.(*ssa.DebugRef); isDbg {
						continue
					}
					uses++
					guarded := false
					for _, cc := range controllingConds(r.Block(), nil) {
						if bo, ok := cc.cond.(*ssa.BinOp); ok && (bo.X == gv || bo.Y == gv) {
							if (bo.Op == token.NEQ && cc.pol) || (bo.Op == token.EQL && !cc.pol) {
								guarded = true
							}
						}
					}
					if !guarded {
						bad = "the session returned by the registry is used at " + c.whereI(r) + " without a nil check: a recipient that has just disconnected makes the writer dereference nil"
					}
				}
				if uses > 0 {
					n++
					ru7.Check(bad == "", fmt.Sprintf("registry lookup #%d in %s", n, c.fname(f)), c.whereI(g.Instr), fmt.Sprintf("%d use(s), all under != nil", uses), bad)
				}
			}
		}
	}
}
