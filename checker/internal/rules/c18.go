package rules

import (
	"fmt"
	"go/token"
	"go/types"
	"strings"

	"golang.org/x/tools/go/ssa"

	"waspcheck/internal/core"
)

func init() { register("C18", checkC18) }

// isFatalCall: process-terminating call.
func isFatalCall(cl *core.Call) bool {
	if cl.Builtin() == "panic" {
		return true
	}
	if cl.Obj == nil || cl.Obj.Pkg() == nil {
		return false
	}
	full := cl.Obj.Pkg().Path() + "." + cl.Obj.Name()
	switch {
	case full == "os.Exit", strings.HasPrefix(full, "log.Fatal"), strings.HasPrefix(full, "log.Panic"):
		return true
	case cl.Obj.Pkg().Path() == "go.uber.org/zap" && (cl.Obj.Name() == "Fatal" || cl.Obj.Name() == "Panic" || cl.Obj.Name() == "DPanic" || cl.Obj.Name() == "Fatalf" || cl.Obj.Name() == "Panicf" || cl.Obj.Name() == "Fatalw" || cl.Obj.Name() == "Panicw"):
		return true
	}
	return false
}

func hasPanicInstr(f *ssa.Function) *ssa.Panic {
	for _, b := range f.Blocks {
		if p, ok := b.Instrs[len(b.Instrs)-1].(*ssa.Panic); ok {
			if mi, ok := p.X.(*ssa.MakeInterface); ok {
				if k, ok := mi.X.(*ssa.Const); ok && k.Value != nil && strings.Contains(k.Value.String(), "blocking select matched no case") {
					continue
				}
			}
			return p
		}
	}
	return nil
}

// protectiveDefer: a defer in fn, dominating `at`, whose callee directly calls recover() and cannot reach a fatal call.
func (c *Ctx) protectiveDefer(fn *ssa.Function, at ssa.Instruction) *ssa.Defer {
	for _, b := range fn.Blocks {
		for _, in := range b.Instrs {
			d, ok := in.(*ssa.Defer)
			if !ok || !core.Dominates(d, at) {
				continue
			}
			var callee *ssa.Function
			if sc := d.Call.StaticCallee(); sc != nil {
				callee = sc
			} else if cf := closureArg(d.Call.Value); cf != nil {
				callee = cf
			}
			if callee == nil {
				continue
			}
			recovers := false
			for _, cl := range core.CallsIn(callee) {
				if cl.Builtin() == "recover" {
					recovers = true
				}
			}
			if !recovers {
				continue
			}
			fatal := false
			reach := c.P.Reach([]*ssa.Function{callee}, func(from *ssa.Function, cl *core.Call, to *ssa.Function) bool {
				return to.Pkg != nil && c.P.IsModPkg(to.Pkg.Pkg)
			})
			for g := range reach {
				if hasPanicInstr(g) != nil {
					fatal = true
				}
				for _, cl := range core.CallsIn(g) {
					if isFatalCall(cl) {
						fatal = true
					}
				}
			}
			if !fatal {
				return d
			}
		}
	}
	return nil
}

// unprotectedChain walks from call site `at` in fn up the static callers; returns "" if every chain meets a protective frame, else a description of an unprotected chain ending at a goroutine root.
func (c *Ctx) unprotectedChain(fn *ssa.Function, at ssa.Instruction, seen map[*ssa.Function]bool, depth int) string {
	if c.protectiveDefer(fn, at) != nil {
		return ""
	}
	if seen[fn] || depth > 8 {
		return ""
	}
	seen[fn] = true
	callers := c.P.StaticCallers(fn)
	// closures invoked through a func value: treat their creation site as the call site when they are immediately launched
	if len(callers) == 0 {
		if fn.Parent() != nil {
			for _, mc := range c.P.ClosureSites(fn) {
				// where is the closure value used?
				if mc.Referrers() != nil {
					for _, r := range *mc.Referrers() {
						if g, ok := r.(*ssa.Go); ok {
							_ = g
							return c.fname(fn) + " (goroutine root, started at " + c.whereI(mc) + ")"
						}
					}
				}
				if s := c.unprotectedChain(mc.Parent(), mc, seen, depth+1); s != "" {
					return c.fname(fn) + " ← " + s
				}
			}
			return ""
		}
		return c.fname(fn) + " (entry point without callers in the module)"
	}
	for _, site := range callers {
		if _, isGo := site.(*ssa.Go); isGo {
			return c.fname(fn) + " (goroutine root, started at " + c.whereI(site) + ")"
		}
		if s := c.unprotectedChain(site.Parent(), site, seen, depth+1); s != "" {
			return c.fname(fn) + " ← " + s
		}
	}
	return ""
}

func checkC18(c *Ctx) {
	c.R.Explanation = "Static containment rules (wasp/conn.go, wasp/packets.go, wasp/writer.go): (R1) every call chain from a goroutine root to a decoder.Sync.Decode call, or to the dispatch of its result, passes a frame that established a non-fatal deferred recover() before the call — the decoder indexes client-controlled buffers unchecked, so containment is the only protection; (R2) no process-terminating call is reachable by ordinary calls from the connection roots inside the module, except the reviewed messages.mustEncode / mustDecode; (R3) a decode / dispatch error ends only that session's loop; (R4) an in-flight callback touches the received packet only where it did not fire as expired (the sweep passes nil and runs on a goroutine without recover); (R5) every decoder instance is freshly created for the struct that owns it, never shared between goroutines."
	c.R.NotCovered = "Liveness ('stall other clients': synchronous TLS handshake in the accept loop, synchronous writes on the writer goroutine, 256 MB length prefixes), panic-freedom of every index expression in the module for every input."
	c.R.Assume("a panic raised below a frame with a deferred recover() is contained by it (Go semantics)")
	ru1 := c.R.Rule("C18-R1", "every call chain from a goroutine root to decoder.Sync.Decode / to the dispatcher invoked on a decoded packet passes a frame with a non-fatal deferred recover() established before the call", "E8 frames: backward walk over static callers, closures and go statements", 3)
	dec := c.cm(ru1, pkgDecoder, "Sync", "Decode")
	proc := c.im(ru1, "wasp", "PacketProcessor", "Process")
	if dec == nil || proc == nil {
		return
	}
	n := 0
	var roots []*ssa.Function
	for _, f := range c.P.ModFuncs() {
		if f.Package() == nil || f.Package().Pkg.Path() != c.P.Rel("wasp") {
			continue
		}
		sites := core.CallsTo(f, dec)
		if len(sites) > 0 {
			sites = append(sites, core.CallsTo(f, proc)...)
			roots = append(roots, f)
		}
		for _, s := range sites {
			n++
			c.R.Fn(c.fname(f))
			key := fmt.Sprintf("%s call #%d in %s", s.Obj.Name(), n, c.fname(f))
			chain := c.unprotectedChain(f, s.Instr, map[*ssa.Function]bool{}, 0)
			ru1.Check(chain == "", key, c.whereI(s.Instr), "every chain to a goroutine root passes a recovering frame", "a panic raised while decoding / processing client input unwinds to a goroutine root without meeting a recover: the whole broker dies — chain: "+chain)
		}
	}

	// the handling of client input is everything that runs on a goroutine fed by the decoder: the functions that call
	// Decode and their callers up to the goroutine roots (the decoding may sit in a helper: readConnect)
	{
		seenR := map[*ssa.Function]bool{}
		for _, r := range roots {
			seenR[r] = true
		}
		for i := 0; i < len(roots) && i < 200; i++ {
			for _, site := range c.P.StaticCallers(roots[i]) {
				if _, isGo := site.(*ssa.Go); isGo {
					continue
				}
				up := site.Parent()
				if up != nil && !seenR[up] && up.Pkg != nil && c.P.IsModPkg(up.Pkg.Pkg) {
					seenR[up] = true
					roots = append(roots, up)
				}
			}
		}
	}

	// R2
	ru2 := c.R.Rule("C18-R2", "no process-terminating call (panic, os.Exit, log.Fatal*, zap Fatal/Panic) is reachable by ordinary calls from the functions that handle client input, except the reviewed messages.mustEncode / mustDecode", "E8 reachability (static calls, closures, interface calls resolved over module implementations)", 1)
	reach := c.P.Reach(roots, func(from *ssa.Function, cl *core.Call, to *ssa.Function) bool {
		if to.Pkg == nil || !c.P.IsModPkg(to.Pkg.Pkg) || c.P.IsGenerated(to) {
			return false
		}
		if cl != nil {
			if _, isGo := cl.Instr.(*ssa.Go); isGo {
				return false
			}
		}
		return true
	})
	reviewed := map[string]string{"wasp/messages.mustEncode": "proto.Marshal of a well-typed message", "wasp/messages.mustDecode": "proto.Unmarshal of an entry this node wrote itself"}
	for _, f := range sortedFuncs(reach) {
		name := c.fname(f)
		var what, where string
		if p := hasPanicInstr(f); p != nil {
			what, where = "panic", c.whereI(p)
		}
		for _, cl := range core.CallsIn(f) {
			if isFatalCall(cl) {
				what, where = cl.Obj.Name(), c.whereI(cl.Instr)
			}
		}
		if what == "" {
			continue
		}
		if why, ok := reviewed[name]; ok {
			ru2.OK("reviewed exception "+name, where, "may panic: "+why)
			continue
		}
		ru2.Fail("terminating call in "+name, where, what+" is reachable from the handling of client input: a client can stop the broker")
	}
	c.R.Extra["functions_reachable_from_connection_roots"] = len(reach)
	// positive control of the reachability machinery: the set must contain the dispatcher and a state mutator reached through two interface hops
	ctl := 0
	for _, want := range []*ssa.Function{c.implOf(ru2, "wasp", "PacketProcessor", "Process"), c.implOf(ru2, "wasp/distributed", "SubscriptionsState", "CreateFrom"), c.implOf(ru2, "wasp/distributed", "SessionMetadatasState", "Create")} {
		if want != nil && reach[want] {
			ctl++
		}
	}
	ru2.Check(ctl == 3 && len(reach) >= 20, "reachability control (dispatcher, SubscriptionsState.CreateFrom, SessionMetadatasState.Create reachable)", "-", fmt.Sprintf("%d module functions reachable from the connection roots, none terminates the process", len(reach)), "the reachable set misses functions that client input certainly reaches: the rule cannot see its constructs")

	c.ruleStepStopsOnlyOnError("C18-R3")

	// R4
	ru4 := c.R.Rule("C18-R4", "an in-flight callback dereferences / type-asserts its received-packet parameter only where expired is false (the expiry sweep passes a nil packet and runs without a recover)", "E2 control dependence across nested closures", 1)
	q := c.queueAnchors(ru4)
	if q != nil {
		sites := c.modFuncsCalling(q.insert)
		n := 0
		for _, f := range sortedFuncs(sites) {
			for _, s := range sites[f] {
				cb := closureArg(s.Arg(3))
				if cb == nil || len(cb.Params) < 3 {
					ru4.Undecided(fmt.Sprintf("callback of the Insert at %s", c.whereI(s.Instr)), c.whereI(s.Instr), "the in-flight callback cannot be resolved to a function")
					continue
				}
				usesBefore := n
				// all functions nested in cb
				var nested []*ssa.Function
				for _, g := range c.P.ModFuncs() {
					if hasAncestor(g, cb) {
						nested = append(nested, g)
					}
				}
				for _, g := range nested {
					for _, b := range g.Blocks {
						for _, in := range b.Instrs {
							ta, ok := in.(*ssa.TypeAssert)
							if !ok || ta.CommaOk || !reachesParam(ta.X, cb, cbParamIdx(cb, 2)) {
								continue
							}
							n++
							key := fmt.Sprintf("use #%d of the received packet in callback %s", n, c.fname(cb))
							// find the block of cb that controls this use
							var blk *ssa.BasicBlock
							if g == cb {
								blk = b
							} else {
								h := g
								for h.Parent() != cb && h.Parent() != nil {
									h = h.Parent()
								}
								for _, mc := range c.P.ClosureSites(h) {
									blk = mc.Block()
								}
							}
							guarded := false
							if blk != nil {
								for _, cc := range controllingConds(blk, nil) {
									if cc.cond == ssa.Value(cbParam(cb, 0)) && !cc.pol {
										guarded = true
									}
								}
							}
							ru4.Check(guarded, key, c.whereI(ta), "only under expired == false", "the received packet is type-asserted where the callback may have fired as expired: received is nil there, the assertion panics on the sweep goroutine and the broker dies")
						}
					}
				}
				// the callback itself is an instance: one that never looks at the received packet satisfies the rule
				ru4.OK("received-packet uses in callback "+c.fname(cb)+" registered at "+c.fname(f), c.where(cb, cb), fmt.Sprintf("%d use(s) examined", n-usesBefore))
			}
		}
	}

	// R5
	ru5 := c.R.Rule("C18-R5", "every *decoder.Sync placed in a struct is a fresh decoder.New() result (decoders keep a header buffer; sharing one between goroutines lets one client's bytes corrupt another client's framing)", "E3 provenance of composite-literal fields", 2)
	newDec := c.fo(ru5, pkgDecoder, "New")
	if newDec != nil {
		n := 0
		for _, f := range c.P.ModFuncs() {
			for _, b := range f.Blocks {
				for _, in := range b.Instrs {
					st, ok := in.(*ssa.Store)
					if !ok {
						continue
					}
					fa, ok := st.Addr.(*ssa.FieldAddr)
					if !ok || !isNamed(st.Val.Type(), pkgDecoder, "Sync") {
						continue
					}
					n++
					key := fmt.Sprintf("decoder stored into %s.%s in %s", derefNamedName(fa.X.Type()), fieldNameOf(fa.X.Type(), fa.Field), c.fname(f))
					cv, ok := core.Strip(st.Val).(*ssa.Call)
					ru5.Check(ok && core.CallOf(cv).Is(newDec), key, c.whereI(st), "decoder.New()", "the decoder is not a fresh instance: it is shared with whoever owns the value it was copied from")
				}
			}
		}
	}
	c.ruleLoggerContext("C18-R6")
	c.ruleGuardedMaps("C18-R7")
	c.ruleOptionalCallbacksGuarded("C18-R8")
	c.ruleWorkerServesEveryRequest("", "C18-R9")
	_ = token.ADD
	_ = types.Typ
}

// ruleStepStopsOnlyOnError implements C11-R4 / C18-R3.
func (c *Ctx) ruleStepStopsOnlyOnError(id string) {
	ru := c.R.Rule(id, "the per-packet step reports 'stop' only on paths where decoding or processing returned an error, and 'continue' only where both succeeded; an error therefore ends exactly the session whose loop called the step", "E1 path atoms", 1)
	dec := c.cm(ru, pkgDecoder, "Sync", "Decode")
	proc := c.im(ru, "wasp", "PacketProcessor", "Process")
	if dec == nil || proc == nil {
		return
	}
	var step *ssa.Function
	for _, f := range c.P.ModFuncs() {
		if len(core.CallsTo(f, dec)) > 0 && len(core.CallsTo(f, proc)) > 0 {
			step = f
		}
	}
	if !ru.Anchor(step != nil, "the function that decodes one packet and dispatches it") {
		return
	}
	c.R.Fn(c.fname(step))
	paths, err := core.EnumPaths(step, core.PathOpts{})
	if err != nil {
		ru.Undecided("paths of "+c.fname(step), c.where(step, step), err.Error())
		return
	}
	ru.Evals(len(paths))
	bad := ""
	for _, p := range paths {
		r, ok := p.Exit.(*ssa.Return)
		if !ok || len(r.Results) != 1 {
			continue
		}
		k, ok := p.ResolveMem(r.Results[0]).(*ssa.Const)
		if !ok {
			bad = "cannot decide the result on path " + fmtPath(p, c.P)
			continue
		}
		cont := k.Value.String() == "true"
		failed := errorNonNilOnPath(p)
		if cont && failed {
			bad = "the loop continues after a decode/processing error"
		}
		if !cont && !failed {
			bad = "the session is ended on a path where neither decoding nor processing failed: " + fmtPath(p, c.P)
		}
	}
	ru.Check(bad == "", "stop ⇔ error in "+c.fname(step), c.where(step, step), "consistent on all paths", bad)
}

// ruleOptionalCallbacksGuarded implements C18-R8: a function value kept in a struct field that some producer leaves nil
// (the completion callback of a publish request: a will has nobody to answer) is called only under a test that it is
// not nil. The workers that call it run without recover: calling nil there ends the process — and the input that
// selects that path is a client's (a CONNECT with a will, then a dropped connection).
func (c *Ctx) ruleOptionalCallbacksGuarded(id string) {
	ru := c.R.Rule(id, "a callback stored in a struct field that may be nil — some store into that field writes nil, directly or through a parameter that a call site fills with nil — is invoked only where a dominating test established that it is not nil (a nil call in a worker goroutine is an unrecovered panic: one will-carrying client that drops its connection stops the broker)", "E3 may-be-nil over the stores into the field + E2 control dependence of each call through it", 1)
	type fkey struct {
		t   types.Type
		idx int
	}
	isNilFunc := func(v ssa.Value) bool {
		k, ok := v.(*ssa.Const)
		if !ok || k.Value != nil {
			return false
		}
		_, isSig := k.Type().Underlying().(*types.Signature)
		return isSig
	}
	mayBeNil := map[fkey]bool{}
	known := map[fkey]bool{}
	for _, f := range c.P.ModFuncs() {
		for _, b := range f.Blocks {
			for _, in := range b.Instrs {
				st, ok := in.(*ssa.Store)
				if !ok {
					continue
				}
				fa, ok := st.Addr.(*ssa.FieldAddr)
				if !ok {
					continue
				}
				if _, isSig := derefT(fa.Type()).Underlying().(*types.Signature); !isSig {
					continue
				}
				k := fkey{derefT(fa.X.Type()), fa.Field}
				known[k] = true
				if depReaches(st.Val, isNilFunc) {
					mayBeNil[k] = true
				}
			}
		}
	}
	n := 0
	for _, f := range c.P.ModFuncs() {
		if c.P.IsGenerated(f) {
			continue
		}
		for _, cl := range core.CallsIn(f) {
			if cl.Static != nil || cl.Invoke || cl.Builtin() != "" || cl.Common == nil {
				continue
			}
			cv := core.Strip(cl.Common.Value)
			var k fkey
			var base ssa.Value
			switch x := cv.(type) {
			case *ssa.UnOp:
				fa, ok := x.X.(*ssa.FieldAddr)
				if x.Op != token.MUL || !ok {
					continue
				}
				k, base = fkey{derefT(fa.X.Type()), fa.Field}, fa.X
			case *ssa.Field:
				k, base = fkey{x.X.Type(), x.Field}, x.X
			default:
				continue
			}
			found := false
			for kk := range mayBeNil {
				if kk.idx == k.idx && types.Identical(kk.t, k.t) {
					found = true
				}
			}
			if !found {
				continue
			}
			n++
			c.R.Fn(c.fname(f))
			guarded := false
			for _, cc := range controllingConds(cl.Instr.Block(), nil) {
				bo, ok := cc.cond.(*ssa.BinOp)
				if !ok || (bo.Op != token.EQL && bo.Op != token.NEQ) {
					continue
				}
				for _, pair := range [][2]ssa.Value{{bo.X, bo.Y}, {bo.Y, bo.X}} {
					if kc, ok := pair[1].(*ssa.Const); !ok || kc.Value != nil {
						continue
					}
					// another read of the same field of the same object
					same := false
					switch y := core.Strip(pair[0]).(type) {
					case *ssa.UnOp:
						if fa, ok := y.X.(*ssa.FieldAddr); ok && y.Op == token.MUL && fa.Field == k.idx && core.Term(fa.X) == core.Term(base) {
							same = true
						}
					case *ssa.Field:
						if y.Field == k.idx && core.Term(y.X) == core.Term(base) {
							same = true
						}
					}
					if same && cc.pol == (bo.Op == token.NEQ) {
						guarded = true
					}
				}
			}
			key := fmt.Sprintf("call through %s in %s", short(core.Term(cv), 40), c.fname(f))
			ru.Check(guarded, key, c.whereI(cl.Instr), "under a non-nil test", "this field is left nil by some producer, and it is called here without a test: a nil function call panics, in a goroutine that nothing recovers")
		}
	}
	ru.Anchor(n > 0, "a call through a callback field that some producer leaves nil")
}
