package rules

import (
	"go/token"

	"golang.org/x/tools/go/ssa"

	"waspcheck/internal/core"
)

// builtObj is an object constructed for one use: a composite literal of the function at hand, or the one composite
// literal returned by a module constructor called there (newDelivery(p, qos, topic)).
type builtObj struct {
	alloc *ssa.Alloc                   // the literal
	bind  map[*ssa.Parameter]ssa.Value // constructor parameter -> argument at the call (nil for a literal built in place)
	site  ssa.Instruction              // where the object comes to exist in the using function: the literal or the constructor call
}

// builtObject resolves v (a pointer to a struct) to the literal it denotes.
func (c *Ctx) builtObject(v ssa.Value) *builtObj {
	v = core.Strip(v)
	switch x := v.(type) {
	case *ssa.Alloc:
		return &builtObj{alloc: x, site: x}
	case *ssa.Call:
		g := x.Call.StaticCallee()
		if g == nil || g.Pkg == nil || !c.P.IsModPkg(g.Pkg.Pkg) || len(g.Blocks) == 0 {
			return nil
		}
		var al *ssa.Alloc
		for _, rv := range returnValues(g) {
			if k, isConst := rv.(*ssa.Const); isConst && k.IsNil() {
				continue // "nothing to build" (willOf(session) when the session has no will): the caller tests for it
			}
			a, ok := core.Strip(rv).(*ssa.Alloc)
			if !ok || (al != nil && a != al) {
				return nil
			}
			al = a
		}
		if al == nil {
			return nil
		}
		o := &builtObj{alloc: al, bind: map[*ssa.Parameter]ssa.Value{}, site: x}
		for i, p := range g.Params {
			if i < len(x.Call.Args) {
				o.bind[p] = x.Call.Args[i]
			}
		}
		return o
	case *ssa.Parameter:
		if args := callerArgs(x); len(args) == 1 {
			return c.builtObject(args[0])
		}
	}
	return nil
}

// field returns the value the literal's field name is initialised with (the last store into it in the literal's own
// function); a constructor parameter is replaced by the argument bound to it.
func (o *builtObj) field(name string) ssa.Value {
	if o == nil || o.alloc.Referrers() == nil {
		return nil
	}
	var best *ssa.Store
	for _, r := range *o.alloc.Referrers() {
		fa, ok := r.(*ssa.FieldAddr)
		if !ok || fieldNameOf(fa.X.Type(), fa.Field) != name || fa.Referrers() == nil {
			continue
		}
		for _, rr := range *fa.Referrers() {
			if st, ok := rr.(*ssa.Store); ok && st.Addr == ssa.Value(fa) {
				if best == nil || st.Pos() > best.Pos() {
					best = st
				}
			}
		}
	}
	if best == nil {
		return nil
	}
	return o.subst(best.Val)
}

// subst replaces a constructor parameter (seen through conversions) by its argument.
func (o *builtObj) subst(v ssa.Value) ssa.Value {
	if o.bind != nil {
		if p, ok := core.Strip(v).(*ssa.Parameter); ok {
			if a, ok := o.bind[p]; ok {
				return a
			}
		}
	}
	return v
}

// sub resolves a pointer-typed field of the literal to the literal it points to (the header of a packet), keeping the binding.
func (c *Ctx) sub(o *builtObj, name string) *builtObj {
	v := o.field(name)
	if v == nil {
		return nil
	}
	s := c.builtObject(v)
	if s == nil {
		return nil
	}
	if s.bind == nil {
		s.bind = o.bind
	}
	if _, inPlace := core.Strip(v).(*ssa.Alloc); inPlace {
		s.site = o.site
	}
	return s
}

// isLoadOfField: v is (conversions of) a load of field name of some struct.
func isLoadOfField(v ssa.Value, name string) (*ssa.FieldAddr, bool) {
	ld, ok := conversionsOnly(v).(*ssa.UnOp)
	if !ok || ld.Op != token.MUL {
		return nil, false
	}
	fa, ok := ld.X.(*ssa.FieldAddr)
	if !ok || fieldNameOf(fa.X.Type(), fa.Field) != name {
		return nil, false
	}
	return fa, true
}

// armTarget resolves a call to the arming function it invokes: a static call, or a call through a function value that
// is (on path p, or at every call site of the enclosing helper) a method value of an arming function
// (deliverWithID(…, w.sendQoS1)). off is the number of leading parameters of the arming function that the call does not
// pass (1 for a bound method value: the receiver).
func (c *Ctx) armTarget(o *outbound, p *core.Path, cl *core.Call) (tgt *armSite, off int) {
	if cl == nil {
		return nil, 0
	}
	if cl.Static != nil {
		return o.arming[cl.Static], 0
	}
	if cl.Invoke || cl.Builtin() != "" || cl.Common == nil {
		return nil, 0
	}
	var cands []ssa.Value
	v := cl.Common.Value
	if p != nil {
		if r := p.Resolve(v); r != v {
			cands = append(cands, r)
		}
	}
	if len(cands) == 0 {
		if prm, ok := core.Strip(v).(*ssa.Parameter); ok {
			cands = callerArgs(prm)
		} else {
			cands = []ssa.Value{v}
		}
	}
	for _, cv := range cands {
		f := closureArg(cv)
		if f == nil || o.arming[f] == nil {
			return nil, 0
		}
		if tgt != nil && (o.arming[f].pktIdx != tgt.pktIdx || o.arming[f].sessIdx != tgt.sessIdx) {
			return nil, 0
		}
		tgt = o.arming[f]
		off = len(f.Params) - len(cl.Common.Args)
	}
	if off < 0 {
		return nil, 0
	}
	return tgt, off
}
