package rules

import (
	"fmt"
	"go/token"
	"go/types"

	"golang.org/x/tools/go/ssa"

	"waspcheck/internal/core"
)

// containerReaches walks data dependencies like depReaches but does not enter
// call arguments and follows only the container operand of index/lookup
// expressions: "is this value read out of <pred>?".
func containerReaches(v ssa.Value, pred func(ssa.Value) bool) bool {
	return containerReachesOn(nil, v, pred)
}

// containerReachesOn is containerReaches along an inlined path: the parameter of an inlined helper is the argument bound to it.
func containerReachesOn(p *core.Path, v ssa.Value, pred func(ssa.Value) bool) bool {
	seen := map[ssa.Value]bool{}
	var walk func(v ssa.Value, d int) bool
	walk = func(v ssa.Value, d int) bool {
		if v == nil || seen[v] || d > 60 {
			return false
		}
		seen[v] = true
		if pred(v) {
			return true
		}
		switch x := v.(type) {
		case *ssa.Call:
			return false
		case *ssa.Lookup:
			return walk(x.X, d+1)
		case *ssa.IndexAddr:
			return walk(x.X, d+1)
		case *ssa.Index:
			return walk(x.X, d+1)
		case *ssa.FreeVar:
			if b := core.FreeVarBinding(x); b != nil {
				return walk(b, d+1)
			}
			return false
		case *ssa.Alloc:
			for _, st := range allStoresTo(x) {
				if walk(st.Val, d+1) {
					return true
				}
			}
			return false
		case *ssa.Parameter:
			if p != nil {
				if r := p.Resolve(x); r != ssa.Value(x) {
					return walk(r, d+1)
				}
			}
			return false
		}
		if in, ok := v.(ssa.Instruction); ok {
			for _, op := range in.Operands(nil) {
				if *op != nil && walk(*op, d+1) {
					return true
				}
			}
		}
		return false
	}
	return walk(v, 0)
}

// mergeRoutine is a function that decides whether a remote entry replaces the local one.
type mergeRoutine struct {
	fn       *ssa.Function
	outdated []*core.Call
}

func (c *Ctx) mergeRoutines(d *dstate) []*mergeRoutine {
	reach := c.P.Reach([]*ssa.Function{d.mergeRemote}, func(from *ssa.Function, cl *core.Call, to *ssa.Function) bool { return to.Package() == d.pkg })
	var out []*mergeRoutine
	for _, f := range sortedFuncs(reach) {
		// the routine is where the remote entry gets written; the LWW predicate may be consulted through a helper
		writes := false
		for _, b := range f.Blocks {
			for _, in := range b.Instrs {
				if c.remoteWriteInstr(d, f, in) {
					// a call to something that itself consults the predicate is a call to the routine, not the routine's write
					if cl := core.CallOf(in); cl != nil && cl.Static != nil && c.reaches(cl.Static, 4, isAny(d.isOutdated)) {
						continue
					}
					if cl := core.CallOf(in); cl != nil && cl.Is(d.upsert) {
						continue // the trie update: its callback is the routine
					}
					writes = true
				}
			}
		}
		if !writes || !c.reaches(f, 4, isAny(d.isOutdated)) {
			continue
		}
		var cs []*core.Call
		seen := map[*ssa.Function]bool{}
		var collect func(g *ssa.Function, depth int)
		collect = func(g *ssa.Function, depth int) {
			if seen[g] || depth < 0 {
				return
			}
			seen[g] = true
			cs = append(cs, core.CallsTo(g, d.isOutdated)...)
			for _, cl := range core.CallsIn(g) {
				if cl.Static != nil && cl.Static.Package() == d.pkg && cl.Static.Parent() == nil && !c.writesStore(d, cl.Static, 2) {
					collect(cl.Static, depth-1)
				}
			}
		}
		collect(f, 2)
		out = append(out, &mergeRoutine{fn: f, outdated: cs})
	}
	// a routine called by another routine is a part of it (replaceOutdated(list, remote) bool called by the function
	// that appends when nothing was found): the caller is judged, with the part spliced in
	var top []*mergeRoutine
	for _, r := range out {
		inner := false
		for _, o := range out {
			if o == r {
				continue
			}
			for _, cl := range core.CallsIn(o.fn) {
				if cl.Static == r.fn {
					inner = true
				}
			}
		}
		if !inner {
			top = append(top, r)
		}
	}
	return top
}

// isRemote: v is read out of the routine's payload parameter (a slice of entry pointers) or, in a closure, out of a captured entry.
func (d *dstate) isRemoteValue(fn *ssa.Function, v ssa.Value) bool {
	return d.isRemoteValueOn(nil, fn, v)
}

// isRemoteValueOn is isRemoteValue along an inlined path (helper parameters are seen through).
func (d *dstate) isRemoteValueOn(p *core.Path, fn *ssa.Function, v ssa.Value) bool {
	return containerReachesOn(p, v, func(x ssa.Value) bool {
		switch y := x.(type) {
		case *ssa.Parameter:
			if y.Parent() != fn {
				return false
			}
			if sl, ok := y.Type().Underlying().(*types.Slice); ok {
				return d.isEntryType(sl.Elem())
			}
			return d.isEntryType(y.Type())
		case *ssa.FreeVar:
			if y.Parent() != fn {
				return false
			}
			if d.isEntryType(derefT(y.Type())) {
				return true
			}
			// a captured batch of entries (the updates that bear on one key, merged in one trie update)
			if sl, ok := derefT(y.Type()).Underlying().(*types.Slice); ok && d.isEntryType(sl.Elem()) {
				return true
			}
		}
		return false
	})
}

// remoteWriteInstr: the instruction stores the remote entry: a store write, or — inside a trie update callback — a store of an entry pointer into a list element / an append to the list.
func (c *Ctx) remoteWriteInstr(d *dstate, fn *ssa.Function, in ssa.Instruction) bool {
	if c.isStoreWrite(d, in) {
		return true
	}
	if fn.Parent() == nil && !c.upsertBodies(d)[fn] {
		return false
	}
	switch x := in.(type) {
	case *ssa.Store:
		if ia, ok := x.Addr.(*ssa.IndexAddr); ok && d.isEntryType(x.Val.Type()) {
			// only element stores into an existing list (not the varargs temp of an append)
			if _, isAlloc := ia.X.(*ssa.Alloc); !isAlloc {
				return true
			}
		}
	case *ssa.Call:
		if cl := core.CallOf(x); cl.Builtin() == "append" {
			if sl, ok := x.Type().Underlying().(*types.Slice); ok && d.isEntryType(sl.Elem()) {
				return true
			}
		}
	}
	return false
}

// ruleMergeTable implements C08-R3 (and its converse) and C08-R4.
func (c *Ctx) ruleMergeTable(id string, d *dstate) {
	ru := c.R.Rule(id, "merge decision table, per remote entry: local present ∧ ¬IsEntryOutdated(local, remote) ⇒ no write; local present ∧ outdated ⇒ exactly one write; local absent ⇒ exactly one write (additions and removals alike); a local entry is never overwritten without consulting IsEntryOutdated(local, remote) in that argument order", "E1 pathspec over one iteration with atoms present/outdated/added/removed + E3 argument provenance", 3)
	rs := c.mergeRoutines(d)
	ru.Anchor(len(rs) >= 3, "three merge routines (sessions, subscriptions, retained messages) that consult crdt.IsEntryOutdated")
	for _, r := range rs {
		f := r.fn
		c.R.Fn(c.fname(f))
		key := "merge routine " + c.fname(f)
		// argument order
		bad := ""
		for _, oc := range r.outdated {
			a0, a1 := oc.Common.Args[0], oc.Common.Args[1]
			g := oc.Instr.Parent()
			if g != f {
				// consulted through a helper: the helper's parameters must arrive in the same order at its call sites in f
				for _, site := range core.CallsIn(f) {
					if site.Static != g {
						continue
					}
					i0, i1 := -1, -1
					for i, prm := range g.Params {
						if core.Strip(a0) == ssa.Value(prm) || containerReaches(a0, func(v ssa.Value) bool { return v == ssa.Value(prm) }) {
							i0 = i
						}
						if core.Strip(a1) == ssa.Value(prm) || containerReaches(a1, func(v ssa.Value) bool { return v == ssa.Value(prm) }) {
							i1 = i
						}
					}
					switch {
					case i1 < 0 || i1 >= len(site.Common.Args) || !d.isRemoteValue(f, site.Common.Args[i1]):
						bad = "IsEntryOutdated is not consulted as (local entry read from the store, remote entry from the payload)"
					case i0 >= 0 && (i0 >= len(site.Common.Args) || d.isRemoteValue(f, site.Common.Args[i0])):
						bad = "IsEntryOutdated is not consulted as (local entry read from the store, remote entry from the payload)"
					case i0 < 0:
						// the helper looks the local entry up itself (isNewer(remote)): its first argument must not be read out of the remote one
						if containerReaches(a0, func(v ssa.Value) bool { return v == ssa.Value(g.Params[i1]) }) {
							bad = "IsEntryOutdated is not consulted as (local entry read from the store, remote entry from the payload)"
						}
					}
				}
				continue
			}
			if !d.isRemoteValue(f, a1) || d.isRemoteValue(f, a0) {
				bad = "IsEntryOutdated is not called as (local entry read from the store, remote entry from the payload): with the arguments swapped a newer local entry is overwritten by an older remote one"
			}
		}
		ru.Check(bad == "", key+"|argument order", c.where(f, f), "IsEntryOutdated(local, remote)", bad)

		// one iteration of the batch loop, entered with whatever the previous iteration left behind (header phis unbound);
		// routines without a batch loop (the trie update callback) are judged from their entry
		opts := core.PathOpts{}
		var batch *core.Loop
		for _, l := range core.Loops(f) {
			inLoop := false
			for _, oc := range r.outdated {
				if oc.Instr.Parent() == f && l.Blocks[oc.Instr.Block()] {
					inLoop = true
				}
			}
			for _, site := range core.CallsIn(f) {
				for _, oc := range r.outdated {
					if site.Static != nil && site.Static == oc.Instr.Parent() && l.Blocks[site.Instr.Block()] {
						inLoop = true
					}
				}
			}
			if !inLoop {
				continue
			}
			overPayload := false
			for b := range l.Blocks {
				for _, in := range b.Instrs {
					if ia, ok := in.(*ssa.IndexAddr); ok {
						if prm, ok := ia.X.(*ssa.Parameter); ok && prm.Parent() == f {
							overPayload = true
						}
						// in a function literal: the captured batch of the enclosing routine
						if prm, ok := core.Strip(ia.X).(*ssa.Parameter); ok && f.Parent() != nil && hasAncestor(f, prm.Parent()) {
							if sl, isSl := prm.Type().Underlying().(*types.Slice); isSl && d.isEntryType(sl.Elem()) {
								overPayload = true
							}
						}
					}
				}
			}
			if overPayload && (batch == nil || len(l.Blocks) > len(batch.Blocks)) {
				batch = l
			}
		}
		if batch != nil {
			hdr := batch.Header
			opts = core.PathOpts{Start: hdr, Stop: func(b *ssa.BasicBlock) bool { return b == hdr }}
			// iterations are independent: the local entry compared must not depend on a variable that outlives the
			// iteration and is modified inside the loop (a scratch buffer reused from one entry to the next: whatever
			// path skips its reset makes the next entry be compared with the previous entry's look-up)
			carried := map[*ssa.Alloc]ssa.Instruction{}
			for b := range batch.Blocks {
				for _, in := range b.Instrs {
					var addrs []ssa.Value
					switch x := in.(type) {
					case *ssa.Store:
						addrs = append(addrs, x.Addr)
					default:
						if cl := core.CallOf(in); cl != nil {
							for _, a := range cl.Common.Args {
								if _, isPtr := a.Type().Underlying().(*types.Pointer); isPtr {
									addrs = append(addrs, a)
								}
							}
						}
					}
					for _, a := range addrs {
						if al := cellOf(a); al != nil && al.Parent() == f && !batch.Blocks[al.Block()] {
							if _, seen := carried[al]; !seen {
								carried[al] = in
							}
						}
					}
				}
			}
			badIter := ""
			for _, oc := range r.outdated {
				if oc.Instr.Parent() != f || !batch.Blocks[oc.Instr.Block()] {
					continue
				}
				for al, at := range carried {
					al := al
					// re-initialised before use in every iteration: a store to it that dominates the comparison and
					// writes a value independent of its previous content (or the empty re-slice x[:0])
					reinit := false
					for b := range batch.Blocks {
						for _, in := range b.Instrs {
							st, ok := in.(*ssa.Store)
							if !ok || cellOf(st.Addr) != al || !core.Dominates(st, oc.Instr) {
								continue
							}
							if sl, ok := core.Strip(st.Val).(*ssa.Slice); ok && sl.High != nil {
								if k, ok := sl.High.(*ssa.Const); ok && k.Value != nil && k.Int64() == 0 {
									reinit = true
								}
							}
							if !depReaches(st.Val, func(v ssa.Value) bool { return v == ssa.Value(al) }) {
								reinit = true
							}
						}
					}
					if reinit {
						continue
					}
					if depReaches(oc.Common.Args[0], func(v ssa.Value) bool { return v == ssa.Value(al) }) {
						badIter = "the local entry compared at " + c.whereI(oc.Instr) + " depends on a variable declared outside the batch loop and modified inside it (" + c.whereI(at) + "): state is carried from one remote entry to the next"
					}
				}
			}
			ru.Check(badIter == "", key+"|iterations independent", c.where(f, f), fmt.Sprintf("%d variable(s) outlive an iteration, none reaches the local entry compared", len(carried)), badIter)
		}
		// helpers that look the local copy up (localCopy(key) (entry, present, error)) are seen through: they hold the
		// conditions that say whether an entry is present
		readsStore := func(g *ssa.Function) bool {
			if g.Package() != d.pkg || len(core.Loops(g)) > 0 {
				return false
			}
			for _, b := range g.Blocks {
				for _, in := range b.Instrs {
					if v, ok := in.(ssa.Value); ok && c.isStoreRead(d, v) {
						return true
					}
				}
			}
			return false
		}
		paths, err := c.pathsInlinedWorth(f, opts, isAny(d.isOutdated, d.isAdded, d.isRemoved), func(g *ssa.Function) bool { return c.writesStore(d, g, 2) }, readsStore)
		if err != nil {
			ru.Undecided(key+"|table", c.where(f, f), err.Error())
			continue
		}
		ru.Evals(len(paths))
		rows := map[string]int{}
		bad = ""
		// a scan routine looks the local entry up by comparing a key field of stored elements with the remote's: seen on
		// some path (in the routine or in a helper spliced in)
		scanSeen := false
		for _, p := range paths {
			for _, cd := range p.Conds {
				if bo, ok := p.Resolve(cd.V).(*ssa.BinOp); ok && (bo.Op == token.EQL || bo.Op == token.NEQ) {
					if fl, fr := lastField(core.Term(bo.X)), lastField(core.Term(bo.Y)); fl != "" && fl == fr && d.isRemoteValueOn(p, f, p.Resolve(bo.X)) != d.isRemoteValueOn(p, f, p.Resolve(bo.Y)) {
						scanSeen = true
					}
				}
			}
		}
		for _, p := range paths {
			if _, ok := p.Exit.(*ssa.Return); !ok && !p.Cut {
				continue
			}
			if isNil, known := p.ReturnsNilError(); known && !isNil {
				continue
			}
			if errorNonNilOnPath(p) {
				continue
			}
			present, presentKnown := false, false
			var presenceIndex ssa.Value // the map whose look-up said whether the entry is present
			outd, outdKnown := false, false
			added, addedKnown, removed, removedKnown := false, false, false, false
			keyEqSeen := false
			for _, cd := range p.Conds {
				v := p.Resolve(cd.V)
				// a negated condition (switch { case !present: … }): Cond.Val is already the value of the positive term
				for {
					u, isNot := v.(*ssa.UnOp)
					if !isNot || u.Op != token.NOT {
						break
					}
					v = p.Resolve(u.X)
				}
				// commaok lookup
				if ex, ok := v.(*ssa.Extract); ok && ex.Index == 1 {
					if lk, ok := ex.Tuple.(*ssa.Lookup); ok && lk.CommaOk {
						present, presentKnown = cd.Val, true
						presenceIndex = lk.X
					}
				}
				if cv, ok := v.(*ssa.Call); ok {
					cl := core.CallOf(cv)
					switch {
					case cl.Is(d.isOutdated):
						outd, outdKnown = cd.Val, true
					case cl.Is(d.isAdded) && d.isRemoteValueOn(p, f, p.Resolve(cv.Call.Args[0])):
						added, addedKnown = cd.Val, true
					case cl.Is(d.isRemoved) && d.isRemoteValueOn(p, f, p.Resolve(cv.Call.Args[0])):
						removed, removedKnown = cd.Val, true
					}
				}
				if bo, ok := v.(*ssa.BinOp); ok {
					// len(localRead) == 1  /  0 < len(localRead)
					for _, pair := range [][2]ssa.Value{{bo.X, bo.Y}, {bo.Y, bo.X}} {
						lc, ok := pair[0].(*ssa.Call)
						if !ok || core.CallOf(lc).Builtin() != "len" {
							continue
						}
						k, isK := constInt(pair[1])
						larg := p.Resolve(core.Strip(lc.Call.Args[0])) // seen through a helper's parameter
						if !isK || d.isRemoteValueOn(p, f, larg) {
							continue
						}
						if sl, ok := larg.Type().Underlying().(*types.Slice); !ok || !d.isEntryType(sl.Elem()) {
							continue
						}
						switch core.Strip(larg).(type) {
						case *ssa.Extract, *ssa.Call:
						default:
							continue
						}
						switch {
						case bo.Op == token.EQL && k == 1:
							present, presentKnown = cd.Val, true
						case bo.Op == token.NEQ && k == 1:
							present, presentKnown = !cd.Val, true
						case bo.Op == token.EQL && k == 0:
							present, presentKnown = !cd.Val, true
						}
					}
					// key equality between a stored element and the remote (scan)
					if bo.Op == token.EQL || bo.Op == token.NEQ {
						lt, rt := core.Term(bo.X), core.Term(bo.Y)
						if fl, fr := lastField(lt), lastField(rt); fl != "" && fl == fr && d.isRemoteValueOn(p, f, p.Resolve(bo.X)) != d.isRemoteValueOn(p, f, p.Resolve(bo.Y)) {
							keyEqSeen = true
							eq := cd.Val // positive term is the equality
							if eq {
								present, presentKnown = true, true
							}
						}
					}
				}
			}
			scanRoutine := scanSeen
			if scanRoutine && !presentKnown {
				// a scan that never met the remote's key on this path: absent
				present, presentKnown = false, true
			}
			_ = keyEqSeen
			writes := 0
			for _, pi := range p.Instrs() {
				if c.remoteWriteInstr(d, f, pi.In) {
					writes++
				}
			}
			if batch != nil && len(p.Blocks) <= 2 && !presentKnown {
				continue // the loop's normal end
			}
			if !presentKnown {
				// path that does not look the local entry up at all (validation / bookkeeping only)
				if writes > 0 {
					bad = "the remote entry is written without looking the local one up: " + fmtPath(p, c.P)
				}
				continue
			}
			neither := addedKnown && removedKnown && !added && !removed
			switch {
			case present && !outdKnown:
				rows["present,unconsulted"]++
				if writes > 0 {
					bad = "an existing local entry is overwritten without consulting IsEntryOutdated: " + fmtPath(p, c.P)
				} else {
					bad = "a local entry exists but the decision is taken without consulting IsEntryOutdated(local, remote): a newer remote update (for instance the re-creation of an entry held as removed) is dropped — " + fmtPath(p, c.P)
				}
			case present && !outd:
				rows["present,not-outdated"]++
				if writes != 0 {
					bad = "a local entry that is not outdated is overwritten by the remote one: an older update overrides a newer one — " + fmtPath(p, c.P)
				}
			case present && outd:
				rows["present,outdated"]++
				if writes != 1 && !neither {
					bad = fmt.Sprintf("an outdated local entry is replaced %d time(s), want 1: a newer remote update is dropped — %s", writes, fmtPath(p, c.P))
				}
			default:
				rows["absent"]++
				// presence read from an index built beforehand from the list (positions := index(list)), inside a loop
				// over several remote entries: the entry appended must be recorded in the index too, or a second update
				// for the same key in the same batch is appended as well
				if batch != nil && writes == 1 && presenceIndex != nil {
					switch core.Strip(presenceIndex).(type) {
					case *ssa.Call, *ssa.MakeMap:
						if !batch.Blocks[indexDef(presenceIndex)] {
							updated := false
							for _, pi := range p.Instrs() {
								if mu, ok := pi.In.(*ssa.MapUpdate); ok && core.Strip(mu.Map) == core.Strip(presenceIndex) {
									updated = true
								}
							}
							if !updated {
								bad = "whether an entry is present is read from an index built before the loop over the remote entries, and the entry appended here is not recorded in it: a second update for the same key in the same batch is appended as well, and the older one stays listed — " + fmtPath(p, c.P)
							}
						}
					}
				}
				if writes != 1 && !neither {
					bad = fmt.Sprintf("a remote entry for a key that is not known locally is stored %d time(s), want 1 (additions and removals alike): a removal that arrives before the addition it supersedes is lost and the entry is resurrected — %s", writes, fmtPath(p, c.P))
				}
			}
		}
		for _, row := range []string{"present,not-outdated", "present,outdated", "absent"} {
			if rows[row] == 0 && bad == "" {
				bad = "no path of the routine covers the situation '" + row + "'"
			}
		}
		ru.Check(bad == "", key+"|table", c.where(f, f), fmt.Sprintf("rows covered: %v", rows), bad)
	}

	ru4 := c.R.Rule(id+"b", "each batch is merged element by element: the routine loops over its whole payload slice and leaves the loop early only by returning a non-nil error", "E1 loop exits", 3)
	seenBatch := map[*ssa.Function]bool{}
	for _, cl := range c.callsDeep(d.mergeRemote, 2) {
		m := cl.Static
		if m == nil || m.Package() != d.pkg || !c.writesStore(d, m, 3) || seenBatch[m] {
			continue
		}
		seenBatch[m] = true
		pidx := -1
		for i, p := range m.Params {
			if sl, ok := p.Type().Underlying().(*types.Slice); ok && d.isEntryType(sl.Elem()) {
				pidx = i
			}
		}
		if pidx < 0 {
			continue
		}
		c.R.Fn(c.fname(m))
		key := "batch loop of " + c.fname(m)
		var loop *core.Loop
		loopFn := m
		for _, l := range core.Loops(m) {
			for b := range l.Blocks {
				for _, in := range b.Instrs {
					if ia, ok := in.(*ssa.IndexAddr); ok && ia.X == ssa.Value(m.Params[pidx]) {
						loop = l
					}
				}
			}
		}
		if loop == nil {
			// the loop may sit in a function literal of the routine that captures the payload (the trie update callback
			// merging, in one go, the entries that bear on one key)
			for _, af := range m.AnonFuncs {
				for _, l := range core.Loops(af) {
					for b := range l.Blocks {
						for _, in := range b.Instrs {
							if ia, ok := in.(*ssa.IndexAddr); ok && core.Strip(ia.X) == ssa.Value(m.Params[pidx]) {
								loop, loopFn = l, af
							}
						}
					}
				}
			}
		}
		if loop == nil {
			ru4.Fail(key, c.where(m, m), "the routine does not loop over its payload slice")
			continue
		}
		m = loopFn
		paths, err := core.EnumPaths(m, core.PathOpts{})
		if err != nil {
			ru4.Undecided(key, c.where(m, m), err.Error())
			continue
		}
		bad := ""
		for _, p := range paths {
			r, ok := p.Exit.(*ssa.Return)
			if !ok || !loop.Blocks[lastNonSyntheticBlock(p, loop)] {
				continue
			}
			_ = r
			if isNil, known := p.ReturnsNilError(); !known || isNil {
				bad = "the batch loop is left early with a nil error (or an undecided one): the remaining entries of the batch are silently skipped — " + fmtPath(p, c.P)
			}
		}
		// every iteration that continues has consulted the store for that entry (no entry is skipped on the quiet)
		var consults []ssa.Instruction
		for _, b := range m.Blocks {
			if !loop.Blocks[b] {
				continue
			}
			for _, in := range b.Instrs {
				switch x := in.(type) {
				case *ssa.Lookup:
					if x.CommaOk {
						consults = append(consults, x)
					}
				case *ssa.Call:
					cl := core.CallOf(x)
					if cl.Static != nil && cl.Static.Package() == d.pkg && cl.Static != m {
						// a package helper that reads or writes the store for this entry (get / set)
						if c.writesStore(d, cl.Static, 2) || c.isStoreRead(d, x) || c.callsTransitively(cl.Static, 2, func(y *core.Call) bool { return y.Obj != nil && (y.Obj.Name() == "Match" || y.Obj.Name() == "Walk") }) {
							consults = append(consults, x)
						}
					}
				}
			}
		}
		if len(consults) == 0 {
			bad = "the batch loop never consults the store"
		} else {
			okAny := false
			var firstSkip *ssa.BasicBlock
			for _, consult := range consults {
				all := true
				for _, pr := range loop.Header.Preds {
					if loop.Blocks[pr] && !consult.Block().Dominates(pr) {
						all = false
						if firstSkip == nil {
							firstSkip = pr
						}
					}
				}
				if all {
					okAny = true
				}
			}
			if !okAny {
				bad = "an iteration of the batch loop can move on to the next entry without consulting the store for the current one (at " + c.P.Pos(lastPos(firstSkip)) + "): that class of remote entries is silently ignored, so the two nodes never agree on them"
			}
		}
		ru4.Check(bad == "", key, c.where(m, m), "early exits return a non-nil error only; every continuing iteration consults the store", bad)
	}
}

// lastNonSyntheticBlock: the block from which the path left towards its return; for returns placed in their own block it is the predecessor inside the loop, if any.
func lastNonSyntheticBlock(p *core.Path, loop *core.Loop) *ssa.BasicBlock {
	// a return "inside the loop" in source terms is a return block whose path predecessor belongs to the loop and which is not the loop's normal exit (the header's false edge)
	n := len(p.Blocks)
	if n == 0 {
		return nil
	}
	last := p.Blocks[n-1]
	if loop.Blocks[last] {
		return last
	}
	if n >= 2 {
		prev := p.Blocks[n-2]
		if loop.Blocks[prev] && prev != loop.Header {
			return prev
		}
	}
	return last
}

// lastField returns the trailing ".Field" of a term, or "".
func lastField(term string) string {
	for i := len(term) - 1; i >= 0; i-- {
		ch := term[i]
		if ch == '.' {
			return term[i:]
		}
		if !(ch == '_' || (ch >= 'a' && ch <= 'z') || (ch >= 'A' && ch <= 'Z') || (ch >= '0' && ch <= '9')) {
			return ""
		}
	}
	return ""
}

var upsertBodyCache = map[*dstate]map[*ssa.Function]bool{}

// upsertBodies: the functions that run as part of a trie update callback (the function value handed to Tree.Upsert):
// the callback itself and the package functions it calls. Storing into the decoded list there is the store write.
func (c *Ctx) upsertBodies(d *dstate) map[*ssa.Function]bool {
	if m, ok := upsertBodyCache[d]; ok {
		return m
	}
	m := map[*ssa.Function]bool{}
	upsertBodyCache[d] = m
	for _, f := range c.P.ModFuncs() {
		if f.Package() != d.pkg {
			continue
		}
		for _, cl := range core.CallsTo(f, d.upsert) {
			if len(cl.Args()) < 2 {
				continue
			}
			cb := closureArg(cl.Args()[1])
			if cb == nil {
				continue
			}
			for _, g := range c.funcsDeepStop(cb, 3, func(g *ssa.Function) bool { return g.Package() != d.pkg }) {
				m[g] = true
			}
		}
	}
	return m
}

// indexDef: the block in which the value (a map) comes to exist.
func indexDef(v ssa.Value) *ssa.BasicBlock {
	if in, ok := core.Strip(v).(ssa.Instruction); ok {
		return in.Block()
	}
	return nil
}
