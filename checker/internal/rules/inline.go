package rules

import (
	"go/types"

	"golang.org/x/tools/go/ssa"

	"waspcheck/internal/core"
)

// pathsInlined enumerates the paths of fn and splices in (three levels deep) the bodies of the module's declared
// functions that it calls statically and that — transitively — contain a call matching interesting. Functions for
// which stop returns true are events of the rule, not bodies to look into (e.g. arming functions, other mutators).
func (c *Ctx) pathsInlined(fn *ssa.Function, opts core.PathOpts, interesting func(*core.Call) bool, stop func(*ssa.Function) bool) ([]*core.Path, error) {
	return c.pathsInlinedWorth(fn, opts, interesting, stop, nil)
}

// pathsInlinedWorth is pathsInlined with one more reason to look into a callee: alsoWorth(g).
func (c *Ctx) pathsInlinedWorth(fn *ssa.Function, opts core.PathOpts, interesting func(*core.Call) bool, stop func(*ssa.Function) bool, alsoWorth func(*ssa.Function) bool) ([]*core.Path, error) {
	paths, err := core.EnumPaths(fn, opts)
	if err != nil {
		return nil, err
	}
	memo := map[*ssa.Function]bool{}
	worth := func(g *ssa.Function) bool {
		if v, ok := memo[g]; ok {
			return v
		}
		memo[g] = false
		v := c.callsTransitively(g, 3, interesting) || (alsoWorth != nil && alsoWorth(g))
		memo[g] = v
		return v
	}
	pick := func(cl *core.Call) *ssa.Function {
		g := cl.Static
		if g == nil || g == fn || g.Pkg == nil || !c.P.IsModPkg(g.Pkg.Pkg) || c.P.IsGenerated(g) || g.Parent() != nil {
			return nil
		}
		if stop != nil && stop(g) {
			return nil
		}
		if interesting(cl) {
			return nil // the call itself is an event
		}
		if !worth(g) {
			return nil
		}
		return g
	}
	enum := func(g *ssa.Function) ([]*core.Path, error) {
		return core.EnumPaths(g, core.PathOpts{Assume: opts.Assume})
	}
	return core.ExpandInline(paths, pick, enum, 3, 300000)
}

// isAny builds an interesting-call predicate from callee objects.
func isAny(objs ...*types.Func) func(*core.Call) bool {
	return func(cl *core.Call) bool { return cl.Is(objs...) }
}

// reaches: fn calls (statically, within the module, up to depth) something matching pred.
func (c *Ctx) reaches(fn *ssa.Function, depth int, pred func(*core.Call) bool) bool {
	return c.callsTransitively(fn, depth, pred)
}

// deepestReachingAll returns the declared functions of package pkgRel from which every one of objs is reachable
// (static calls, depth 3) and that do not statically call another such function: the innermost function that still
// does the whole job. Robust against extracting parts of it into helpers and against wrappers around it.
func (c *Ctx) deepestReachingAll(pkgRel string, objs ...*types.Func) []*ssa.Function {
	var preds []func(*core.Call) bool
	for _, o := range objs {
		o := o
		preds = append(preds, func(cl *core.Call) bool { return cl.Is(o) })
	}
	return c.deepestReaching(pkgRel, preds...)
}

// pathsInlinedPkg enumerates the paths of fn with the bodies of the declared functions of fn's own package that it
// calls statically spliced in (three levels deep), whatever they contain: helpers extracted from fn are seen through.
func (c *Ctx) pathsInlinedPkg(fn *ssa.Function, opts core.PathOpts, skip func(*ssa.Function) bool) ([]*core.Path, error) {
	paths, err := core.EnumPaths(fn, opts)
	if err != nil {
		return nil, err
	}
	pick := func(cl *core.Call) *ssa.Function {
		g := cl.Static
		if g == nil || g == fn || g.Pkg == nil || g.Pkg != fn.Pkg || c.P.IsGenerated(g) || g.Parent() != nil || len(g.Blocks) == 0 {
			return nil
		}
		if skip != nil && skip(g) {
			return nil
		}
		return g
	}
	enum := func(g *ssa.Function) ([]*core.Path, error) {
		return core.EnumPaths(g, core.PathOpts{Assume: opts.Assume})
	}
	return core.ExpandInline(paths, pick, enum, 3, 300000)
}
