package rules

import (
	"go/types"

	"golang.org/x/tools/go/ssa"

	"waspcheck/internal/core"
)

// pathsInlined enumerates the paths of fn and splices in (three levels deep) the bodies of the module's declared
// functions that it calls statically and that — transitively — contain a call matching interesting. Functions for
// which stop returns true are events of the rule, not bodies to look into (e.g. arming functions, other mutators).
func (c *Ctx) pathsInlined(fn *ssa.Function, opts core.PathOpts, interesting func(*core.Call) bool, stop func(*ssa.Function) bool) ([]*core.Path, error) {
	paths, err := core.EnumPaths(fn, opts)
	if err != nil {
		return nil, err
	}
	memo := map[*ssa.Function]bool{}
	worth := func(g *ssa.Function) bool {
		if v, ok := memo[g]; ok {
			return v
		}
		memo[g] = false
		v := c.callsTransitively(g, 3, interesting)
		memo[g] = v
		return v
	}
	pick := func(cl *core.Call) *ssa.Function {
		g := cl.Static
		if g == nil || g == fn || g.Pkg == nil || !c.P.IsModPkg(g.Pkg.Pkg) || c.P.IsGenerated(g) || g.Parent() != nil {
			return nil
		}
		if stop != nil && stop(g) {
			return nil
		}
		if interesting(cl) {
			return nil // the call itself is an event
		}
		if !worth(g) {
			return nil
		}
		return g
	}
	enum := func(g *ssa.Function) ([]*core.Path, error) { return core.EnumPaths(g, core.PathOpts{Assume: opts.Assume}) }
	return core.ExpandInline(paths, pick, enum, 3, 300000)
}

// isAny builds an interesting-call predicate from callee objects.
func isAny(objs ...*types.Func) func(*core.Call) bool {
	return func(cl *core.Call) bool { return cl.Is(objs...) }
}

// reaches: fn calls (statically, within the module, up to depth) something matching pred.
func (c *Ctx) reaches(fn *ssa.Function, depth int, pred func(*core.Call) bool) bool {
	return c.callsTransitively(fn, depth, pred)
}

// deepestReachingAll returns the declared functions of package pkgRel from which every one of objs is reachable
// (static calls, depth 3) and that do not statically call another such function: the innermost function that still
// does the whole job. Robust against extracting parts of it into helpers and against wrappers around it.
func (c *Ctx) deepestReachingAll(pkgRel string, objs ...*types.Func) []*ssa.Function {
	var cands []*ssa.Function
	for _, f := range c.P.ModFuncs() {
		if f.Parent() != nil || f.Package() == nil || f.Package().Pkg.Path() != c.P.Rel(pkgRel) {
			continue
		}
		all := true
		for _, o := range objs {
			o := o
			if !c.reaches(f, 3, func(cl *core.Call) bool { return cl.Is(o) }) {
				all = false
				break
			}
		}
		if all {
			cands = append(cands, f)
		}
	}
	isCand := map[*ssa.Function]bool{}
	for _, f := range cands {
		isCand[f] = true
	}
	var out []*ssa.Function
	for _, f := range cands {
		callsOther := false
		seen := map[*ssa.Function]bool{}
		var walk func(g *ssa.Function, d int)
		walk = func(g *ssa.Function, d int) {
			if d < 0 || seen[g] {
				return
			}
			seen[g] = true
			for _, cl := range core.CallsIn(g) {
				if _, isGo := cl.Instr.(*ssa.Go); isGo {
					continue
				}
				if cl.Static != nil && cl.Static != f {
					if isCand[cl.Static] {
						callsOther = true
					}
					if cl.Static.Pkg != nil && c.P.IsModPkg(cl.Static.Pkg.Pkg) {
						walk(cl.Static, d-1)
					}
				}
			}
		}
		walk(f, 3)
		if !callsOther {
			out = append(out, f)
		}
	}
	return out
}
