// Package report collects obligations and writes evidence / violation files.
package report

import (
	"bufio"
	"crypto/sha1"
	"encoding/json"
	"fmt"
	"os"
	"path/filepath"
	"sort"
	"strings"
)

type Verdict string

const (
	Discharged Verdict = "discharged"
	Violated   Verdict = "violated"
	Undecided  Verdict = "undecided"
)

// Obligation is one rule instance on one construct.
type Obligation struct {
	Rule    string  `json:"rule"`
	Key     string  `json:"key"`
	Verdict Verdict `json:"verdict"`
	Where   string  `json:"where"`
	Detail  string  `json:"detail,omitempty"`
	Known   bool    `json:"known_finding,omitempty"`
}

// RuleInfo describes one rule and its instance bookkeeping.
type RuleInfo struct {
	ID        string `json:"id"`
	Desc      string `json:"description"`
	Engine    string `json:"engine,omitempty"`
	Min       int    `json:"min_instances"`
	Instances int    `json:"instances"`
	Evals     int    `json:"evaluations"`
}

// Report accumulates everything one property check does.
type Report struct {
	Property    string
	Tier        string
	Obls        []Obligation
	Rules       []*RuleInfo
	byID        map[string]*RuleInfo
	Functions   map[string]bool
	CallSites   int
	Assumptions []string
	Explanation string
	NotCovered  string
	Extra       map[string]interface{}
}

func New(prop, tier string) *Report {
	return &Report{Property: prop, Tier: tier, byID: map[string]*RuleInfo{}, Functions: map[string]bool{}, Extra: map[string]interface{}{}, Assumptions: []string{"go/packages loads the same files the build uses for linux/amd64 (and linux/386 in the thorough tier); third-party libraries behave as documented"}}
}

// Rule registers a rule and returns a handle.
type Rule struct {
	r    *Report
	info *RuleInfo
}

func (r *Report) Rule(id, desc, engine string, min int) *Rule {
	if ri, ok := r.byID[id]; ok {
		return &Rule{r, ri}
	}
	ri := &RuleInfo{ID: id, Desc: desc, Engine: engine, Min: min}
	r.byID[id] = ri
	r.Rules = append(r.Rules, ri)
	return &Rule{r, ri}
}

func (ru *Rule) add(v Verdict, key, where, detail string) {
	ru.info.Instances++
	ru.info.Evals++
	ru.r.Obls = append(ru.r.Obls, Obligation{Rule: ru.info.ID, Key: key, Verdict: v, Where: where, Detail: detail})
}

// OK records a discharged obligation.
func (ru *Rule) OK(key, where, detail string) { ru.add(Discharged, key, where, detail) }

// Fail records a violated obligation.
func (ru *Rule) Fail(key, where, detail string) { ru.add(Violated, key, where, detail) }

// Undecided records an obligation the checker could not decide (fails the check).
func (ru *Rule) Undecided(key, where, detail string) { ru.add(Undecided, key, where, detail) }

// Check records OK or Fail.
func (ru *Rule) Check(ok bool, key, where, okDetail, failDetail string) {
	if ok {
		ru.OK(key, where, okDetail)
	} else {
		ru.Fail(key, where, failDetail)
	}
}

// Evals adds n to the rule's evaluation count (scenario rows, orderings, paths examined).
func (ru *Rule) Evals(n int) { ru.info.Evals += n }

// Anchor fails the check when an anchor object cannot be resolved.
func (ru *Rule) Anchor(ok bool, name string) bool {
	if !ok {
		ru.r.Obls = append(ru.r.Obls, Obligation{Rule: ru.info.ID, Key: "anchor-unresolved|" + name, Verdict: Undecided, Where: "-", Detail: "anchor " + name + " cannot be resolved in the analysed tree (API object renamed or removed): the rule cannot see its construct"})
	}
	return ok
}

// Adopt takes over, under the id `as`, a rule decided in another report (the check of another property run on the same
// program): its description, its instance bookkeeping and every obligation it produced, anchor failures included.
func (r *Report) Adopt(from *Report, ruleID, as, why string) {
	ri := from.byID[ruleID]
	if ri == nil {
		// the lender no longer has that rule: the borrowed obligation cannot be decided (vacuity policy fails it)
		r.Rule(as, "shared with "+ruleID+" ("+why+"): rule not found in the lending check", "", 1)
		return
	}
	nr := r.Rule(as, ri.Desc+" [decided as "+ruleID+"; needed here because "+why+"]", ri.Engine, ri.Min)
	nr.info.Instances += ri.Instances
	nr.info.Evals += ri.Evals
	for _, o := range from.Obls {
		if o.Rule == ruleID {
			o.Rule = as
			r.Obls = append(r.Obls, o)
		}
	}
	for f := range from.Functions {
		r.Functions[f] = true
	}
}

// Fn notes that a function was analysed.
func (r *Report) Fn(name string) { r.Functions[name] = true }

// Assume records an assumption once.
func (r *Report) Assume(s string) {
	for _, a := range r.Assumptions {
		if a == s {
			return
		}
	}
	r.Assumptions = append(r.Assumptions, s)
}

// KnownFindings is the parsed known_findings.txt.
type KnownFindings struct {
	Known map[string]string // property|key -> text
}

func LoadKnown(path string) (*KnownFindings, error) {
	kf := &KnownFindings{Known: map[string]string{}}
	f, err := os.Open(path)
	if err != nil {
		if os.IsNotExist(err) {
			return kf, nil
		}
		return nil, err
	}
	defer f.Close()
	sc := bufio.NewScanner(f)
	sc.Buffer(make([]byte, 1<<20), 1<<20)
	for sc.Scan() {
		line := strings.TrimSpace(sc.Text())
		if !strings.HasPrefix(line, "known:") {
			continue
		}
		rest := strings.TrimSpace(strings.TrimPrefix(line, "known:"))
		var prop, key string
		fields := strings.SplitN(rest, " ", 3)
		if len(fields) < 2 {
			continue
		}
		prop = strings.TrimPrefix(fields[0], "property=")
		key = strings.TrimPrefix(fields[1], "key=")
		text := ""
		if len(fields) == 3 {
			text = fields[2]
		}
		kf.Known[prop+"|"+key] = text
	}
	return kf, sc.Err()
}

// Finish applies vacuity checks and known findings, prints the verdict lines,
// writes evidence and violation files, and returns the process exit code.
func (r *Report) Finish(kf *KnownFindings, evidenceDir string, seed int64, wall float64, trusted []string) int {
	for _, ri := range r.Rules {
		if ri.Instances < ri.Min {
			r.Obls = append(r.Obls, Obligation{Rule: ri.ID, Key: "vacuous|" + ri.ID, Verdict: Undecided, Where: "-",
				Detail: fmt.Sprintf("rule matched %d construct(s), fewer than the %d confirmed by hand: a rule that cannot see its constructs must not pass", ri.Instances, ri.Min)})
		}
	}
	viol := 0
	os.MkdirAll(filepath.Join(evidenceDir, "violations"), 0o755)
	sort.SliceStable(r.Obls, func(i, j int) bool {
		if r.Obls[i].Rule != r.Obls[j].Rule {
			return r.Obls[i].Rule < r.Obls[j].Rule
		}
		return r.Obls[i].Key < r.Obls[j].Key
	})
	discharged := 0
	distinct := map[string]bool{}
	for i := range r.Obls {
		o := &r.Obls[i]
		distinct[o.Rule+"|"+o.Key] = true
		switch o.Verdict {
		case Discharged:
			discharged++
		default:
			if text, ok := kf.Known[r.Property+"|"+o.Rule+"|"+o.Key]; ok {
				o.Known = true
				fmt.Printf("KNOWN-FINDING: property=%s %s|%s %s\n", r.Property, o.Rule, o.Key, text)
				continue
			}
			viol++
			h := sha1.Sum([]byte(o.Rule + "|" + o.Key))
			path := filepath.Join(evidenceDir, "violations", fmt.Sprintf("%s-%s-%x.json", r.Property, o.Rule, h[:5]))
			desc := ""
			if ri := r.byID[o.Rule]; ri != nil {
				desc = ri.Desc
			}
			rep := map[string]interface{}{"property": r.Property, "rule": o.Rule, "rule_description": desc, "key": o.Key, "verdict": o.Verdict, "where": o.Where, "detail": o.Detail}
			buf, _ := json.MarshalIndent(rep, "", " ")
			os.WriteFile(path, buf, 0o644)
			fmt.Printf("VIOLATION property=%s replay=%s\n", r.Property, path)
			fmt.Printf("  rule %s (%s) [%s]\n  %s: %s\n  construct: %s\n", o.Rule, desc, o.Verdict, o.Where, o.Detail, o.Key)
		}
	}
	// evidence
	samples := []interface{}{}
	perRule := map[string]int{}
	for _, o := range r.Obls {
		if perRule[o.Rule] < 3 || o.Verdict != Discharged {
			perRule[o.Rule]++
			samples = append(samples, o)
		}
	}
	evals := 0
	for _, ri := range r.Rules {
		evals += ri.Evals
	}
	fns := make([]string, 0, len(r.Functions))
	for f := range r.Functions {
		fns = append(fns, f)
	}
	sort.Strings(fns)
	cov := map[string]interface{}{
		"explanation":         r.Explanation,
		"not_covered":         r.NotCovered,
		"obligations":         len(r.Obls),
		"discharged":          discharged,
		"evaluations":         evals,
		"distinct_nontrivial": len(distinct),
		"rule":                "one obligation per (rule, construct key); construct keys are built from resolved objects and roles, never line numbers; evaluations additionally count scenario rows / paths / orderings examined inside each obligation; an obligation is non-trivial when its rule matched a real construct of the analysed tree (vacuous rules fail instead of passing)",
		"samples":             samples,
		"rules":               r.Rules,
		"functions_analysed":  fns,
		"call_sites_matched":  r.CallSites,
		"checker_cmd":         fmt.Sprintf("./bin/waspcheck -p %s -tier %s", r.Property, r.Tier),
		"trusted_base":        trusted,
		"exhaustive":          false,
	}
	for k, v := range r.Extra {
		cov[k] = v
	}
	ev := map[string]interface{}{
		"property_id": r.Property,
		"tier":        r.Tier,
		"seed":        seed,
		"level":       "other",
		"coverage":    cov,
		"assumptions": r.Assumptions,
		"wall_s":      wall,
		"violations":  viol,
	}
	buf, _ := json.MarshalIndent(ev, "", " ")
	if err := os.WriteFile(filepath.Join(evidenceDir, r.Property+".json"), buf, 0o644); err != nil {
		fmt.Fprintf(os.Stderr, "cannot write evidence: %v\n", err)
		return 2
	}
	fmt.Printf("%s tier=%s rules=%d obligations=%d discharged=%d violations=%d evaluations=%d wall=%.1fs\n", r.Property, r.Tier, len(r.Rules), len(r.Obls), discharged, viol, evals, wall)
	for _, ri := range r.Rules {
		fmt.Printf("  %-8s instances=%-3d (min %d) evals=%-5d %s\n", ri.ID, ri.Instances, ri.Min, ri.Evals, ri.Desc)
	}
	if viol > 0 {
		return 1
	}
	return 0
}
