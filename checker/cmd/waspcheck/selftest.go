package main

import (
	"encoding/json"
	"fmt"
	"io"
	"io/fs"
	"os"
	"os/exec"
	"path/filepath"
	"sort"
	"strings"

	"waspcheck/internal/core"
	"waspcheck/internal/report"
	"waspcheck/internal/rules"
)

// selfTest re-applies the seeded changes that target property id to a throw-away
// copy of the analysed tree and records which rules fire. Informational: it never changes the exit status.
func selfTest(id, repo, verif, tier string) []map[string]interface{} {
	var out []map[string]interface{}
	metas, _ := filepath.Glob(filepath.Join(verif, "seeded", "*", "meta.json"))
	sort.Strings(metas)
	for _, mp := range metas {
		var m struct {
			Breaks   string              `json:"breaks_property"`
			Detected map[string][]string `json:"detected_by"`
			Summary  string              `json:"summary"`
		}
		b, err := os.ReadFile(mp)
		if err != nil || json.Unmarshal(b, &m) != nil {
			continue
		}
		if m.Breaks != id {
			continue
		}
		sid := filepath.Base(filepath.Dir(mp))
		rec := map[string]interface{}{"seeded": sid, "breaks": m.Breaks, "summary": m.Summary}
		tmp, err := os.MkdirTemp("", "waspcheck-selftest-")
		if err != nil {
			rec["skipped"] = err.Error()
			out = append(out, rec)
			continue
		}
		func() {
			defer os.RemoveAll(tmp)
			if err := copyTree(repo, tmp); err != nil {
				rec["skipped"] = "copy: " + err.Error()
				return
			}
			cmd := exec.Command("git", "apply", filepath.Join(filepath.Dir(mp), "patch.diff"))
			cmd.Dir = tmp
			if o, err := cmd.CombinedOutput(); err != nil {
				rec["skipped"] = "patch does not apply to the analysed tree: " + strings.TrimSpace(string(o))
				return
			}
			p, err := core.Load(tmp, "amd64")
			if err != nil {
				rec["skipped"] = "variant does not load: " + err.Error()
				return
			}
			r := report.New(id, tier)
			defer rules.Forget(p)
			func() {
				defer func() {
					if e := recover(); e != nil {
						rec["skipped"] = fmt.Sprint("checker panic on the variant: ", e)
					}
				}()
				rules.Lookup(id)(&rules.Ctx{P: p, R: r, Tier: tier})
			}()
			fired := map[string]bool{}
			for _, o := range r.Obls {
				if o.Verdict != report.Discharged {
					fired[o.Rule] = true
				}
			}
			var fl []string
			for k := range fired {
				fl = append(fl, k)
			}
			sort.Strings(fl)
			rec["rules_fired"] = fl
			rec["detected"] = len(fl) > 0
		}()
		out = append(out, rec)
	}
	return out
}

func copyTree(src, dst string) error {
	return filepath.WalkDir(src, func(path string, d fs.DirEntry, err error) error {
		if err != nil {
			return err
		}
		rel, _ := filepath.Rel(src, path)
		if rel == "." {
			return nil
		}
		if d.IsDir() {
			if d.Name() == ".git" {
				return filepath.SkipDir
			}
			return os.MkdirAll(filepath.Join(dst, rel), 0o755)
		}
		if !d.Type().IsRegular() {
			return nil
		}
		in, err := os.Open(path)
		if err != nil {
			return err
		}
		defer in.Close()
		outf, err := os.Create(filepath.Join(dst, rel))
		if err != nil {
			return err
		}
		defer outf.Close()
		_, err = io.Copy(outf, in)
		return err
	})
}
