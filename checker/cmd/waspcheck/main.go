// waspcheck decides structural necessary conditions of the wasp properties
// C01..C20 from the source of the analysed tree (go/packages + go/ssa); it
// never executes broker code.
package main

import (
	"flag"
	"fmt"
	"os"
	"path/filepath"
	"runtime/debug"
	"strconv"
	"strings"
	"time"

	"waspcheck/internal/core"
	"waspcheck/internal/report"
	"waspcheck/internal/rules"
)

func main() {
	prop := flag.String("p", "", "property id (C01..C20), comma list, or 'all'")
	tier := flag.String("tier", "quick", "quick | thorough")
	repo := flag.String("repo", "/repo", "tree to analyse")
	verif := flag.String("verif", "", "verif directory (default: parent of the binary's dir)")
	out := flag.String("out", "", "evidence directory (default <verif>/evidence)")
	explain := flag.String("explain", "", "replay: print the obligation recorded in this violation file, re-analysed on the current tree")
	dump := flag.String("dump", "", "debug: print the SSA of module functions whose name contains this string")
	flag.Parse()
	if *dump != "" {
		p, err := core.Load(*repo, "amd64")
		if err != nil {
			fmt.Fprintln(os.Stderr, err)
			os.Exit(2)
		}
		for _, f := range p.ModFuncs() {
			if strings.Contains(p.FuncName(f), *dump) {
				f.WriteTo(os.Stdout)
			}
		}
		return
	}
	if os.Getenv("VERIF_TIER") != "" && *tier == "" {
		*tier = os.Getenv("VERIF_TIER")
	}
	if *verif == "" {
		exe, _ := os.Executable()
		*verif = filepath.Dir(filepath.Dir(exe))
	}
	if *out == "" {
		*out = filepath.Join(*verif, "evidence")
	}
	seed, _ := strconv.ParseInt(os.Getenv("VERIF_SEED"), 10, 64)
	var ids []string
	if *prop == "all" {
		ids = rules.IDs()
	} else {
		for _, s := range strings.Split(*prop, ",") {
			if s = strings.TrimSpace(s); s != "" {
				ids = append(ids, s)
			}
		}
	}
	if len(ids) == 0 {
		fmt.Fprintln(os.Stderr, "usage: waspcheck -p Cxx [-tier quick|thorough] [-repo dir]")
		os.Exit(2)
	}
	kf, err := report.LoadKnown(filepath.Join(*verif, "known_findings.txt"))
	if err != nil {
		fmt.Fprintln(os.Stderr, err)
		os.Exit(2)
	}
	exit := 0
	archs := []string{"amd64"}
	if *tier == "thorough" {
		archs = []string{"amd64", "386"}
	}
	trusted := []string{"go/types and go/packages of the installed Go toolchain", "golang.org/x/tools v0.29.0 go/ssa (vendored)", "waspcheck's own engines (internal/core) and rule tables (internal/rules)"}
	progs := map[string]*core.Prog{}
	loadErrs := map[string]error{}
	for _, a := range archs {
		p, err := core.Load(*repo, a)
		progs[a], loadErrs[a] = p, err
	}
	for _, id := range ids {
		start := time.Now()
		f := rules.Lookup(id)
		r := report.New(id, *tier)
		if f == nil {
			r.Rule(id+"-R0", "property has a registered check", "", 1)
		} else {
			for _, a := range archs {
				lr := r.Rule(id+"-LOAD", "the analysed tree loads and type-checks completely (every build configuration of this tier)", "go/packages", len(archs))
				if loadErrs[a] != nil {
					lr.Undecided("load|linux/"+a, "-", loadErrs[a].Error())
					continue
				}
				lr.OK("load|linux/"+a, "-", fmt.Sprintf("%d module packages, go %s", len(progs[a].Mod), progs[a].GoVersion))
				func() {
					defer func() {
						if e := recover(); e != nil {
							r.Rule(id+"-PANIC", "checker ran to completion", "", 0).Undecided("panic|linux/"+a, "-", fmt.Sprintf("checker panic: %v\n%s", e, debug.Stack()))
						}
					}()
					c := &rules.Ctx{P: progs[a], R: r, Tier: *tier}
					if a != "amd64" {
						c.R = report.New(id, *tier) // secondary configuration: only its verdicts are merged
						f(c)
						for _, o := range c.R.Obls {
							if o.Verdict != report.Discharged {
								o.Key = o.Key + "|linux/" + a
								r.Obls = append(r.Obls, o)
							}
						}
						r.Extra["config_linux_"+a] = fmt.Sprintf("%d obligations re-evaluated", len(c.R.Obls))
						return
					}
					f(c)
				}()
			}
		}
		if *tier == "thorough" && f != nil && os.Getenv("WASPCHECK_NO_SELFTEST") == "" {
			st := selfTest(id, *repo, *verif, *tier)
			det := 0
			for _, x := range st {
				if d, ok := x["detected"].(bool); ok && d {
					det++
				}
			}
			r.Extra["selftest"] = st
			r.Extra["selftest_note"] = fmt.Sprintf("informational, not part of the verdict: %d of %d seeded changes relevant to this property make this check fail when applied to a throw-away copy of the analysed tree", det, len(st))
			fmt.Printf("%s selftest: %d/%d seeded changes detected\n", id, det, len(st))
		}
		if *explain != "" {
			fmt.Printf("re-analysed %s on the current tree; obligations of this property follow\n", id)
		}
		code := r.Finish(kf, *out, seed, time.Since(start).Seconds(), trusted)
		if code > exit {
			exit = code
		}
	}
	os.Exit(exit)
}
