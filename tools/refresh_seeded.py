#!/usr/bin/env python3
"""Re-runs all twenty checks against every seeded change (applied to a scratch worktree of /repo HEAD) and refreshes detected_by in its meta.json."""
import json, os, re, subprocess, sys, glob
W = os.environ.get("SCRATCH", "/tmp/w0")
def sh(cmd, cwd=None):
    p = subprocess.run(cmd, shell=True, cwd=cwd, capture_output=True, text=True)
    return p.returncode, p.stdout + p.stderr
head = subprocess.check_output("git -C /repo rev-parse HEAD", shell=True, text=True).strip()
ids = sys.argv[1:] or sorted(os.path.basename(os.path.dirname(p)) for p in glob.glob("/verif/seeded/*/meta.json"))
for sid in ids:
    mp = f"/verif/seeded/{sid}/meta.json"
    m = json.load(open(mp))
    sh(f"git checkout -q --detach {head} && git reset -q --hard && git clean -qfd", cwd=W)
    rc, out = sh(f"git apply /verif/seeded/{sid}/patch.diff", cwd=W)
    if rc != 0:
        print(sid, "PATCH-DOES-NOT-APPLY"); continue
    rc, out = sh(f"/verif/bin/waspcheck -p all -repo {W} -out /tmp/ev_seed")
    caught, cur = {}, None
    for l in out.splitlines():
        mm = re.match(r"VIOLATION property=(C\d+)", l)
        if mm: cur = mm.group(1)
        m2 = re.match(r"\s+rule (\S+) ", l)
        if m2 and cur: caught.setdefault(cur, set()).add(m2.group(1))
    m["detected_by"] = {k: sorted(v) for k, v in sorted(caught.items())}
    m["detected"] = bool(caught)
    m["detected_by_own_property_check"] = m["breaks_property"] in caught
    m["repo_head"] = head[:7]
    json.dump(m, open(mp, "w"), indent=1)
    print(sid, "own" if m["detected_by_own_property_check"] else ("other" if caught else "MISSED"), " ".join(sorted({r for v in caught.values() for r in v})))
sh("git reset -q --hard && git clean -qfd", cwd=W)
