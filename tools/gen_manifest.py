#!/usr/bin/env python3
"""Generates /verif/MANIFEST.json from the table below (one entry per claimed property)."""
import json, os, sys
HERE = os.path.dirname(os.path.dirname(os.path.abspath(__file__)))
props = [json.loads(l) for l in open(os.path.join(HERE, "properties.jsonl"))]

# id -> (technique, level text, level note (undecided clauses / trusted base), design ref)
CLAIMS = {}
def claim(pid, technique, text, note):
    CLAIMS[pid] = (technique, text, note)

TB = " Trusted base: go/types, go/packages, x/tools v0.29.0 go/ssa, waspcheck's engines and rule tables; third-party libraries (mqtt-protocol, commitlog, memberlist, gotomic, gommap) are contracts."

exec(open(os.path.join(HERE, "tools", "claims.py")).read())

checks = []
na = []
for p in props:
    pid = p["id"]
    if pid in CLAIMS:
        tech, text, note = CLAIMS[pid]
        checks.append({
            "property_id": pid,
            "quick_cmd": "./bin/waspcheck -p %s -tier quick" % pid,
            "thorough_cmd": "./bin/waspcheck -p %s -tier thorough" % pid,
            "evidence_file": "/verif/evidence/%s.json" % pid,
            "replay_cmd_template": "./bin/waspcheck -p %s -tier quick -explain {path}" % pid,
            "engine": "waspcheck",
            "level_claimed": {"category": "other", "text": text, "design_ref": "DESIGN.md §4 %s" % pid},
            "level_note": note + TB,
            "technique": tech,
        })
    else:
        na.append({"property_id": pid, "reason": NA.get(pid, "no static rule built yet for this property in this tree; see DESIGN.md §4/§6")})

m = {
    "version": 1,
    "setup_cmd": "cd /verif/checker && GOFLAGS=-mod=vendor GOPROXY=off GOSUMDB=off GOTOOLCHAIN=local GOWORK=off go build -o /verif/bin/waspcheck ./cmd/waspcheck",
    "hooks": {
        "guard": "verif",
        "enable": "none needed: static analysis reads the source as it is; no hook code exists in /repo (build tag 'verif' reserved, unused)",
        "baseline_off_cmd": "cd /repo && GOFLAGS=-mod=mod GOPROXY=off GOSUMDB=off go test -vet=off -count=1 ./...",
        "source_commits": [],
        "add_only": True,
    },
    "engines": [{
        "name": "waspcheck",
        "path": "/verif/checker",
        "serves_properties": sorted(CLAIMS),
        "kind_free_text": "repository-specific static analysis over go/packages + go/types + go/ssa: path-sensitive rule tables (uninterpreted atoms), dominance, provenance slicing, lockset, order-domain abstract interpretation, loop-alias, recover-frame reachability, struct-field exhaustiveness; reads /repo's working tree on every run, executes no broker code",
    }],
    "checks": checks,
    "not_applicable": na,
    "notes": "All checks are static (no test, model or solver is run). Level 'other': each check decides structural necessary conditions of its property on every path of the current source; undecided clauses are listed per check in level_note and in DESIGN.md §4. 20 genuine defects found by these rules on the pinned tree were repaired by fix: commits in /repo (known_findings.txt).",
}
json.dump(m, open(os.path.join(HERE, "MANIFEST.json"), "w"), indent=1)
print("checks:", len(checks), "not_applicable:", len(na))
