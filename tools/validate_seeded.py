#!/usr/bin/env python3
"""Validates candidate seeded changes (patch + demo) in a scratch worktree and records them under /verif/seeded/<id>/.
usage: validate_seeded.py <candidate dir> <seeded id> [--props C01,C02]   (candidate dir holds patch.diff, demo_test.go / *_test.go, meta.json)"""
import json, os, shutil, subprocess, sys, glob, re
ENV = dict(os.environ, GOFLAGS="-mod=mod", GOPROXY="off", GOSUMDB="off", GOTOOLCHAIN="local")
W = os.environ.get("SCRATCH", "/tmp/w0")
def sh(cmd, cwd=W, timeout=600):
    p = subprocess.run(cmd, shell=True, cwd=cwd, env=ENV, capture_output=True, text=True, errors="replace", timeout=timeout)
    return p.returncode, (p.stdout + p.stderr)
def reset():
    head = subprocess.check_output("git -C /repo rev-parse HEAD", shell=True, text=True).strip()
    sh(f"git checkout -q --detach {head} && git checkout -q -- . && git clean -qfd")
def main():
    cand, sid = sys.argv[1], sys.argv[2]
    meta = json.load(open(os.path.join(cand, "meta.json")))
    patch = os.path.join(cand, "patch.diff")
    demos = [f for f in glob.glob(os.path.join(cand, "*.go"))]
    pkgdir = meta.get("demo_pkg_dir", "").strip("/ ")
    democmd = meta["demo_cmd"]
    i = democmd.find("go test")
    if i > 0:
        democmd = democmd[i:]
    res = {"id": sid, "property": meta["property"], "summary": meta["summary"], "needs": meta["needs"], "files": meta.get("files")}
    reset()
    # demo on the unchanged tree
    for d in demos:
        shutil.copy(d, os.path.join(W, pkgdir, "zz_seed_" + os.path.basename(d)))
    rc0, out0 = sh(democmd)
    res["demo_on_unchanged_tree"] = "pass" if rc0 == 0 else "FAIL"
    rc, out = sh(f"git apply {patch}")
    if rc != 0:
        res["error"] = "patch does not apply: " + out[:300]; print(json.dumps(res, indent=1)); reset(); return 1
    rcb, outb = sh("go build ./...")
    res["builds"] = rcb == 0
    rc1, out1 = sh(democmd)
    res["demo_with_change"] = "fail" if rc1 != 0 else "PASS(unexpected)"
    res["demo_failure_excerpt"] = "\n".join([l for l in out1.splitlines() if re.search(r"--- FAIL|panic:|DATA RACE|_test.go:\d+", l)][:6])
    # existing suite with the change (demo files removed)
    for f in glob.glob(os.path.join(W, pkgdir, "zz_seed_*")):
        os.remove(f)
    rcs, outs = sh("go test -vet=off -count=1 ./...")
    res["existing_suite_with_change"] = "pass" if rcs == 0 else "FAIL"
    # our checks
    props = [f"C{i:02d}" for i in range(1, 21)]
    caught = {}
    rcw, outw = sh(f"{os.environ.get('WASPCHECK','/verif/bin/waspcheck')} -p {','.join(props)} -repo {W} -out /tmp/ev_seed", cwd="/verif")
    cur = None
    for l in outw.splitlines():
        m = re.match(r"VIOLATION property=(C\d+)", l)
        if m: cur = m.group(1)
        m2 = re.match(r"\s+rule (\S+) ", l)
        if m2 and cur: caught.setdefault(cur, set()).add(m2.group(1))
    res["caught_by"] = {k: sorted(v) for k, v in sorted(caught.items())}
    reset()
    ok = res["demo_on_unchanged_tree"] == "pass" and res["builds"] and res["demo_with_change"] == "fail" and res["existing_suite_with_change"] == "pass"
    res["confirmed"] = ok
    if ok:
        dst = f"/verif/seeded/{sid}"
        os.makedirs(dst, exist_ok=True)
        shutil.copy(patch, os.path.join(dst, "patch.diff"))
        for d in demos:
            shutil.copy(d, os.path.join(dst, os.path.basename(d) + ".txt" if False else os.path.basename(d)))
        m = {"breaks_property": meta["property"], "summary": meta["summary"], "needs_to_manifest": meta["needs"], "changed_files": meta.get("files"),
             "demo": {"copy_into": pkgdir, "command": democmd, "on_unchanged_tree": "passes", "with_change": "fails: " + res["demo_failure_excerpt"][:400]},
             "what_was_run": ["git apply patch.diff in a scratch worktree of /repo HEAD", "go build ./...", "go test -vet=off -count=1 ./... (existing suite, passes with the change)", democmd + " (fails with the change, passes without)", "bin/waspcheck -p C01..C20 -repo <scratch> (quick tier)"],
             "repo_head": subprocess.check_output("git -C /repo rev-parse --short HEAD", shell=True, text=True).strip(),
             "detected_by": res["caught_by"], "detected": bool(res["caught_by"]), "detected_by_own_property_check": meta["property"] in res["caught_by"]}
        json.dump(m, open(os.path.join(dst, "meta.json"), "w"), indent=1)
    print(json.dumps({k: res[k] for k in ("id", "property", "confirmed", "demo_on_unchanged_tree", "demo_with_change", "existing_suite_with_change", "caught_by")}, sort_keys=True))
    return 0
sys.exit(main())
