#!/usr/bin/env python3
"""Updates detected_by in seeded/*/meta.json from the output of tools/audit_seeded.sh (files given as arguments)."""
import json, re, sys, subprocess
head = subprocess.check_output("git -C /repo rev-parse --short HEAD", shell=True, text=True).strip()
n = 0
for f in sys.argv[1:]:
    for line in open(f):
        m = re.match(r"(\S+): real\[(.*?)\] only-by-vacuity\[(.*?)\]", line)
        if not m:
            continue
        sid, real = m.group(1), m.group(2).split()
        mp = f"/verif/seeded/{sid}/meta.json"
        try:
            meta = json.load(open(mp))
        except FileNotFoundError:
            continue
        by = {}
        for r in real:
            by.setdefault(r.split("-")[0], []).append(r)
        meta["detected_by"] = {k: sorted(v) for k, v in sorted(by.items())}
        meta["detected"] = bool(by)
        meta["detected_by_own_property_check"] = meta.get("breaks_property") in by
        meta["repo_head"] = head
        json.dump(meta, open(mp, "w"), indent=1)
        n += 1
print("updated", n, "metas")
