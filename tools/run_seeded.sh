#!/bin/bash
# Re-applies every seeded change under /verif/seeded to a scratch worktree of /repo's HEAD and reports which checks flag it.
# Informational self-test of the checker (not a registered check). usage: tools/run_seeded.sh [id ...]
W=${SCRATCH:-/tmp/w0}
[ -d "$W" ] || git -C /repo worktree add -q --detach "$W" HEAD
ids="$@"; [ -z "$ids" ] && ids=$(ls /verif/seeded | grep -v SUMMARY)
for id in $ids; do
  git -C "$W" checkout -q -- . ; git -C "$W" clean -qfd; git -C "$W" checkout -q --detach "$(git -C /repo rev-parse HEAD)"
  if ! git -C "$W" apply /verif/seeded/$id/patch.diff 2>/dev/null; then echo "$id: PATCH-DOES-NOT-APPLY"; continue; fi
  own=$(python3 -c "import json;print(json.load(open('/verif/seeded/$id/meta.json'))['breaks_property'])")
  out=$(${WASPCHECK:-/verif/bin/waspcheck} -p all -repo "$W" -out /tmp/ev_seed 2>&1 | grep -E "^  rule " | awk '{print $2}' | sort -u | tr '\n' ' ')
  echo "$id (breaks $own): ${out:-MISSED}"
done
git -C "$W" checkout -q -- . && git -C "$W" clean -qfd
