#!/bin/bash
# Applies each behaviour-preserving refactoring under $1 (dirs N*/<k>/patch.diff) to a scratch worktree and runs every check: any VIOLATION is a false alarm.
W=${SCRATCH:-/tmp/w0}
[ $# -eq 0 ] && set -- /verif/neutral/*/patch.diff
for p in "$@"; do
  git -C "$W" checkout -q -- . ; git -C "$W" clean -qfd; git -C "$W" checkout -q --detach "$(git -C /repo rev-parse HEAD)"
  if ! git -C "$W" apply "$p" 2>/dev/null; then echo "$p: PATCH-DOES-NOT-APPLY"; continue; fi
  out=$(${WASPCHECK:-/verif/bin/waspcheck} -p all -repo "$W" -out /tmp/ev_neu 2>&1 | grep -E "^VIOLATION|^  rule |^  [a-z-].*: " | cut -c1-260)
  if [ -z "$out" ]; then echo "$p: silent"; else echo "$p: ALARM"; echo "$out"; fi
done
git -C "$W" checkout -q -- . && git -C "$W" clean -qfd
