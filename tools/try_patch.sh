#!/bin/bash
# usage: try_patch.sh <patch.diff> <props>   — applies the patch to a scratch worktree of /repo's HEAD, runs the checks on it, removes the patch.
set -u
W=${SCRATCH:-/tmp/w0}
if [ ! -d "$W" ]; then git -C /repo worktree add -q --detach "$W" HEAD; fi
git -C "$W" checkout -q -- . ; git -C "$W" clean -qfd; git -C "$W" checkout -q --detach "$(git -C /repo rev-parse HEAD)"
git -C "$W" apply "$1" || { echo "PATCH DOES NOT APPLY"; exit 3; }
${WASPCHECK:-/verif/bin/waspcheck} -p "$2" -repo "$W" -out /tmp/ev ${TIER:+-tier $TIER} | grep -E "^VIOLATION|^  rule|^  [a-z].*:[0-9]+ |tier=" | cut -c1-330
git -C "$W" checkout -q -- . && git -C "$W" clean -qfd
