#!/bin/bash
# usage: pair.sh C07 1 [props]  — runs the checks on the repaired refactoring neutral/R-C07-1 (must be silent) and on its
# seeded twin seeded/C07-r8-1 (must be reported), in a scratch worktree.
p=$1; n=$2; props=${3:-all}
W=${SCRATCH:-/tmp/w5}
for kind in neutral seeded; do
  if [ $kind = neutral ]; then f=/verif/neutral/${TW:-R}-$p-$n/patch.diff; else f=/verif/seeded/$p-${RD:-r8}-$n/patch.diff; fi
  git -C "$W" checkout -q -- . ; git -C "$W" clean -qfd; git -C "$W" checkout -q --detach "$(git -C /repo rev-parse HEAD)"
  git -C "$W" apply "$f" || { echo "$kind: PATCH DOES NOT APPLY"; continue; }
  echo "== $kind $f"
  ${WASPCHECK:-/verif/bin/waspcheck} -p "$props" -repo "$W" -out /tmp/ev_pair 2>&1 | grep -E "^VIOLATION|^  [a-z-].*: |^  -: " | cut -c1-${COLS:-330} | sort | uniq | head -${LINES_MAX:-30}
done
git -C "$W" checkout -q -- . ; git -C "$W" clean -qfd
