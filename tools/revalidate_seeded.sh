#!/bin/bash
# usage: revalidate_seeded.sh [ids...] — for every seeded change: the demonstration passes on /repo's HEAD and fails with the patch applied,
# and the patch builds. Prints one line per change; "BAD" marks a change that no longer demonstrates anything (rebase it or drop it).
export GOFLAGS=-mod=mod GOPROXY=off GOSUMDB=off GOTOOLCHAIN=local
W=${SCRATCH:-/tmp/w0}
[ -d "$W" ] || git -C /repo worktree add -q --detach "$W" HEAD
HEAD=$(git -C /repo rev-parse HEAD)
ids=("$@"); [ ${#ids[@]} -eq 0 ] && ids=($(ls /verif/seeded))
cd "$W"
for n in "${ids[@]}"; do
  d=/verif/seeded/$n
  git checkout -q -- . ; git clean -qfd; git checkout -q --detach "$HEAD"
  pk=$(python3 -c "import json;m=json.load(open('$d/meta.json'));print((m.get('demo') or {}).get('copy_into') or m.get('demo_pkg_dir') or '')")
  cmd=$(python3 -c "import json;m=json.load(open('$d/meta.json'));c=(m.get('demo') or {}).get('command') or m.get('demo_cmd') or '';i=c.find('go test');print(c[i:] if i>=0 else c)")
  pk=${pk%/}; pk=${pk#/}
  for f in $d/*_test.go; do [ -f "$f" ] && cp "$f" "$pk/zz_seed_$(basename $f)"; done
  timeout 300 bash -c "$cmd" >/dev/null 2>&1; r0=$?
  if ! git apply "$d/patch.diff" 2>/dev/null; then echo "$n BAD patch does not apply"; continue; fi
  go build ./... >/dev/null 2>&1; rb=$?
  timeout 300 bash -c "$cmd" >/dev/null 2>&1; r1=$?
  if [ $r0 -eq 0 ] && [ $rb -eq 0 ] && [ $r1 -ne 0 ]; then echo "$n ok"; else echo "$n BAD unchanged=$r0 build=$rb changed=$r1"; fi
done
git checkout -q -- . ; git clean -qfd
