#!/bin/bash
# For every seeded change: lists the rules that fire and marks the ones that fire only through the vacuity / anchor
# policy ("the rule cannot see its construct") — a detection for the wrong reason. usage: tools/audit_seeded.sh [ids]
W=${SCRATCH:-/tmp/w0}
ids="$@"; [ -z "$ids" ] && ids=$(ls /verif/seeded | grep -v SUMMARY)
for id in $ids; do
  git -C "$W" checkout -q -- . ; git -C "$W" clean -qfd; git -C "$W" checkout -q --detach "$(git -C /repo rev-parse HEAD)"
  if ! git -C "$W" apply /verif/seeded/$id/patch.diff 2>/dev/null; then echo "$id: PATCH-DOES-NOT-APPLY"; continue; fi
  ${WASPCHECK:-/verif/bin/waspcheck} -p all -repo "$W" -out /tmp/ev_audit 2>&1 | awk -v id="$id" '
    /^  rule /{rule=$2}
    /^  construct: /{ c=$0; sub(/^  construct: /,"",c); if (c ~ /^(vacuous|anchor-unresolved)\|/) weak[rule]=1; else strong[rule]=1 }
    END{ s=""; w=""; for (r in strong) s=s" "r; for (r in weak) if (!(r in strong)) w=w" "r; printf "%s: real[%s ] only-by-vacuity[%s ]\n", id, s, w }'
done
git -C "$W" checkout -q -- . ; git -C "$W" clean -qfd
