# Executed by gen_manifest.py. claim(id, technique, level text, level note); NA = reasons for unclaimed properties.
NA = {}

claim("C16",
      "path-sensitive rule table over the CONNECT handler and the credential handlers; shape rules on sort.Search predicates and constant indexes (go/ssa)",
      "Decides, on every path of the current source, that session state and an accepting CONNACK exist only behind a nil Authenticate error, that both handlers accept only after username and password equalities held, that every sort.Search predicate is monotone, that constant indexes under a length switch are in range, and that the table is sorted by the searched field. Necessary conditions of the property, not the value-level equivalence 'accepted iff configured'.",
      "Not decided: SHA-256/CSV behaviour, contents of the password column, equality of hash values.")
