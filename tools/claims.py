# Executed by gen_manifest.py. claim(id, technique, level text, level note); NA = reasons for unclaimed properties.
NA = {}

claim("C16",
      "path-sensitive rule table over the CONNECT handler and the credential handlers; shape rules on sort.Search predicates and constant indexes (go/ssa)",
      "Decides, on every path of the current source, that session state and an accepting CONNACK exist only behind a nil Authenticate error, that both handlers accept only after username and password equalities held, that every sort.Search predicate is monotone, that constant indexes under a length switch are in range, and that the table is sorted by the searched field. Necessary conditions of the property, not the value-level equivalence 'accepted iff configured'.",
      "Not decided: SHA-256/CSV behaviour, contents of the password column, equality of hash values.")

claim("C05",
      "path-sensitive rule tables (uninterpreted atoms) + dominance + error-discipline over all paths with two loop iterations + closure-ancestry provenance (go/ssa)",
      "Decides on every path of the current source: the completion callback that writes PUBACK/PUBCOMP is reachable only through Distribute's nil-error branch; every append / inter-node error in Distribute forces a non-nil return even if a later destination succeeds; the inbound QoS 2 callback forwards nothing on expiry and the registered PUBLISH exactly once on PUBREL, with PUBCOMP only from the completion callback; PUBREC only after a successful registration. Necessary conditions; no execution.",
      "Not decided: at-most-once across reconnects with reused identifiers, durability on the remote node, commit-log internals.")
claim("C15",
      "dominance + nil-branch path guard + provenance through captured cells + constant/shape rules on the consume loop of wasp/messages/store.go (go/ssa)",
      "Decides the order and provenance of the three effects of the consume loop on every path (callback → nil → persist → truncate within one iteration, same offset), that the resume point is the decoded mapped state, that deletion of log entries happens only through a guarded TruncateBefore(x-c), and the mapping/open flags. Necessary conditions of crash-safety; crash behaviour itself is not executed.",
      "Not decided: commitlog/stream internals, page-cache behaviour on SIGKILL, the run-time bound 'replays at most one message'.")
claim("C02",
      "rule tables over the accept→append→consume→schedule→read-back→write chain: dominance, error discipline, three-valued evaluation of the job discriminator over constructor literals, provenance, constant relations (go/ssa)",
      "Decides that the hand-over chain is unbroken on every path: ack only after a nil Distribute, no lost append error, the consume callback schedules its own offset, the writer's log/direct discriminator is definitely right for both job constructors (offset 0 included), the log branch reads back its own offset, Get seeks to it, truncation keeps a margin larger than the writer queue. Necessary conditions; no execution.",
      "Not decided: segment roll / batching inside commitlog, payload integrity through protobuf, read failures in the writer, queue shutdown drops.")

claim("C03",
      "path-sensitive decision tables of every outbound in-flight callback over uninterpreted atoms (expired, session registered), provenance of packet/identifier/session, nil-branch guards, structural wiring of the sweep and of the ack routing (go/ssa)",
      "Decides, for every outbound registration site, what its callback does in each of the four situations on every path (re-arm same packet / release identifier / advance to PUBREL), that the identifiers and sessions involved are the registered ones, that a failed arming releases the fresh identifier, that the sweep runs on a ticker in a goroutine of Writer.Run and that all four ack packet types reach the in-flight table; plus the in-flight table's winner-takes-callback contract. Necessary conditions; timing is not decided.",
      "Not decided: real deadlines and sweep timing, client behaviour, DUP flag semantics.")
claim("C04",
      "control dependence on atomic operation results, path enumeration from the winning Delete, parameter flow across static calls to an equality test in a scan, heap/index pairing on paths, key-function provenance (go/ssa)",
      "Decides the winner-takes-callback protocol around PutIfMissing/Delete on every path, that no path removes an entry without resolving it exactly once, that each List.Delete implementation selects the item by id inside a scan, that heap and index are co-updated, that acknowledgement requires the expected type, and that keys depend on both session and identifier. Necessary conditions; heap order and time arithmetic are not decided.",
      "Not decided: heap ordering, Round(time.Second) arithmetic, gotomic internals, concurrent schedules (lock discipline under C20).")

claim("C08",
      "abstract interpretation of the LWW predicates in the finite domain of weak orderings (exhaustive: every ordering of the timestamp inputs and 0), use/def scan of timestamps, path-sensitive merge decision table with argument provenance, stamping / visibility / wiring rules (go/ssa)",
      "Decides completely (all weak orderings) that the four crdt predicates have the LWW normal form — exact because they only compare timestamps, which is itself checked; decides on every path of the three merge routines that a remote entry is stored iff the local one is absent or strictly outdated (additions and removals alike, arguments in the right order), that batches are merged element-wise, that mutators stamp with clock(), that queries list exactly IsEntryAdded entries, and that gossip covers every field. The algebraic closure over histories (commutativity etc.) is not executed.",
      "Not decided: the full merge algebra over all multisets of updates, behaviour on timestamp ties, protobuf round trips.")
claim("C09",
      "path enumeration of every mutator (write → broadcast on success paths), provenance of the queued bytes and of the event element, SSA loop-alias analysis honouring the module's go version, dominance of Lock over clock() (go/ssa)",
      "Decides for all ten mutators that every successful path that wrote the store queues a broadcast afterwards, that the queued bytes marshal an event containing the very variable stored, that bulk mutators append per iteration a per-iteration variable (no &loopvar alias under go 1.14 semantics), that queued broadcasts never invalidate others, and that the stamp is read under the lock. Necessary conditions of 'the receiver ends up with the same listing'.",
      "Not decided: value-level equality of listings (needs the merge algebra), memberlist queue limits.")
claim("C10",
      "struct-field exhaustiveness over StateBroadcastEvent, package-internal reachability from LocalState with a who-may-call rule on the visibility predicates, loop-alias analysis, merge decision table on the receiving side (go/ssa)",
      "Decides that the snapshot producer appends to every repeated field of the event, that nothing on the snapshot path filters on IsEntryAdded/IsEntryRemoved (tombstones travel), that the dump loops do not alias one variable, and that MergeRemoteState hands every field to a merge routine that follows the merge table. Necessary conditions; the exchange itself is not executed.",
      "Not decided: memberlist push/pull scheduling, which concurrent history wins (C08), listings after exchange as values.")
claim("C19",
      "dominance and control-dependence rules cross-checked between the two sibling tries (go/ssa)",
      "Decides two structural necessary conditions in both tries — every store into a children map is dominated by a nil-check-and-make of that map; a child is pruned only under a test of both its payload and its children — and that count/iterate/match agree on the emptiness predicate. A small part of the property: map-like behaviour over all operation sequences is not decided.",
      "Not decided: map semantics over operation sequences, dump/load round-trip equality, empty-level aliasing ('a//b', 'a/').")

claim("C11",
      "path-sensitive decision table of the teardown routine (atoms: first caller, record found, record ours, DISCONNECT seen), must-call summaries over deferred calls, path order in the CONNECT handler and the read loop, provenance of keys (go/ssa)",
      "Decides on every path: teardown deletes the registry entry once, every remembered subscription, and the session record whenever it is still ours (also after DISCONNECT); every exit of the per-connection goroutine closes the connection; the keep-alive deadline is armed before that goroutine starts and on every loop iteration; the loop ends only on a decode/processing error; bookkeeping pairs; peer-failure cleanup by peer id; registered sessions always get their goroutine. Necessary conditions; timing is not decided.",
      "Not decided: keep-alive arithmetic / wall-clock behaviour, gossip delivery, quiescent cross-node listings.")
claim("C12",
      "path tables over the CONNECT handler, the PINGREQ arm (type-switch scenario) and the teardown routine; path atoms in SessionMetadatas.Delete (go/ssa)",
      "Decides on every accepting CONNECT path the order lookup → delete found record (by its own id) → create → register → serve → CONNACK, each exactly once; that PINGREQ is answered only when the id resolves to the asking session and otherwise ends it; that teardown never deletes a record that resolves elsewhere and keys every delete by its own id; that deleting an absent record is not an error. Necessary conditions.",
      "Not decided: cross-node interleavings of gossip and takeover; authentication back ends that reuse session ids.")
claim("C13",
      "decision table of the teardown routine for the will, control-dependence of the Disconnected flag on the dispatcher's sentinel and who-returns analysis, loop matcher + provenance in the peer-failure handler, field-by-field capture, merge table for session records (go/ssa)",
      "Decides on every teardown path that no will is published after DISCONNECT and exactly one (this session's, through the normal publish path) otherwise when the record is absent or ours; that the flag is set only under the session-ended sentinel, which only the DISCONNECT and PINGREQ arms return; that survivors append each lost session's will once, qualified with that session's mount point; that the will is captured from the CONNECT fields and stored in the record. Necessary conditions.",
      "Not decided: 'each matching subscriber exactly once' across nodes, retained wills, run-time membership.")

claim("C14",
      "per-iteration path table of the destination loop with provenance of destinations, message and target peer; loop-exit analysis; error discipline with two iterations; control dependence in the writer (go/ssa)",
      "Decides on every path of one destination-loop iteration that the destination set is the distinct peers of the subscriptions matching the publish's own topic, that each destination gets exactly one local append or one remote ScheduleMessage(publish) to that very peer, that no destination failure ends the loop or is masked by a later success, that the remote side appends what it received and returns that error, and that the writer keeps only recipients hosted by its own peer. Necessary conditions.",
      "Not decided: matching semantics (C01), gRPC delivery, publisher-side retries.")
claim("C18",
      "frame analysis over the static call graph (callers, closures, go statements) for deferred non-fatal recover(), reachability of terminating calls from the connection roots with a positive control, control dependence across nested closures, provenance of decoder instances (go/ssa)",
      "Decides containment: every chain from a goroutine root to the MQTT decoder or the dispatcher passes a recovering frame set up before the call; nothing reachable from client-input handling terminates the process; a decode/dispatch error stops only that session's loop; in-flight callbacks touch the received packet only when not expired; decoders are never shared between goroutines. Necessary conditions of 'no client input can crash the broker'.",
      "Not decided: liveness ('stall'), panic-freedom of every index expression for every input, resource exhaustion.")

claim("C17",
      "mounted-topic typestate computed by provenance slicing with interprocedural parameter meet (static and interface call sites), provenance of the trim receiver and of lookup arguments, who-may-call inside the mount-point helpers (go/ssa)",
      "Decides that every topic or filter reaching the replicated state, the message log, the distributor, the hand-off or the writer is mount-qualified on all sources, that PrefixMountPoint is never applied to an already mounted name, that delivery strips the prefix with the mount point of the very recipient being written to, that client-id lookups are scoped by the asking session's mount point (call sites and predicate), and that the helpers concatenate / slice verbatim. Necessary conditions of tenant isolation.",
      "Not decided: value-level identity trim(prefix(t)) == t, mount points containing '/', contents of the audit stream; inter-node and admin RPC requests are trusted to carry mounted names.")

claim("C20",
      "must-hold lockset dataflow over every function of the module with requires-lock summaries over static callers and closure creation sites, receiver-mutation summaries, critical-section structure, provenance of returned guarded containers (go/ssa)",
      "Decides monitor discipline on every path: each of the guarded members (recomputed per run; eleven today) is accessed only under its monitor's lock, exclusively for writes — including writes made through a guarded pointer by a mutating method; locks are released on every path and never re-acquired by a callee; no check-then-act across a lock gap without re-check; no live guarded map/slice leaves its monitor; plus the atomic winner-takes-callback protocol of the in-flight table. Necessary conditions of race freedom; no interleaving is executed.",
      "Not decided: gotomic internals, logical races outside lock discipline, channel protocols; third-party objects (gorilla websocket.Conn) are contracts.")

claim("C01",
      "visibility taint rule on subscription queries, provenance in the writer's log branch, branch-condition non-interference and visit-once path rules on the trie walk, per-recipient path table of the fan-out, merge decision table, end-of-topic path rule for the '#' child, must-pass-through rule on subtree enumerations (go/ssa)",
      "Decides structural necessary conditions only: removed subscriptions never become recipients; recipients are resolved from the topic of the very log entry fanned out; the trie walk's descent decisions never depend on other entries' data and no child is acted upon twice in one step; each registered recipient gets exactly one PUBLISH (none if unregistered); an unsubscribe that overtakes its subscribe is kept; where a topic ends at a trie node the subscribers under its '#' child are emitted too (a/# matches a); enumerations of the trie never stop at a node that holds a value. Apart from that clause, MQTT matching semantics over all topic × filter pairs — the core of the property — is NOT decided.",
      "Not decided: which filters match which topics beyond the parent-level '#' clause (empty levels: 'a/' aliases 'a'), order/history independence as values.")
claim("C06",
      "per-recipient path table of the fan-out, decision table of the outbound in-flight callbacks (shared with C03), lockset on the pool, sort.Search predicate shape; for the allocator itself: bounds of every free-list access decided over the finite models of (list length, search position) consistent with the path guards, exhaustion protocol with three-valued agreement between the pool's sentinel and its callers' tests, contradiction check of guards against the binary search's postcondition (go/ssa)",
      "Decides only the ownership discipline around the pool: each identifier taken is bound to exactly one arming call and released if arming fails; every terminal path of every in-flight callback releases it exactly once, non-terminal paths never; the free list is touched only under the pool mutex; the pool's binary search predicate is monotone; and, of the allocator itself, four necessary conditions: no free-list index or re-slice can be out of range for any list length or search position (no panic from the list), an empty list makes Get return a constant that every caller recognises before using the value (exhaustion is reported, not a duplicate), no guard contradicts the search postcondition (the already-free test looks at the interval that can contain the identifier), and no aliasing insert or bulk loss of intervals. Uniqueness and idempotent release over all Get/Put histories are NOT decided.",
      "Not decided: allocator semantics over all Get/Put histories (value-level interval arithmetic beyond the four conditions); see DESIGN.md §6.")
claim("C07",
      "scenario-row path table of the publish worker with event order, loop matcher and provenance in the subscribe arm, visibility taint on Topics.Get, provenance of the outgoing retain flag, non-interference of the retained trie, merge decision table (go/ssa)",
      "Decides on every path: retain∧empty clears, retain∧payload stores, ¬retain touches nothing, the flag is cleared between storing and distributing; after SUBACK every subscribed filter is looked up and each message found is sent to this session only with that filter's QoS, the loop ending early only with an error; cleared topics are never listed; the outgoing copy takes its flag from the source; the retained trie's descent ignores stored data; a clear that overtakes its publish is kept. Necessary conditions; matching semantics are not decided.",
      "Not decided: trie match semantics over all filters, 'most recent' as timestamp order (C08), exactly-once per topic across nodes.")
