# Executed by gen_manifest.py. claim(id, technique, level text, level note); NA = reasons for unclaimed properties.
NA = {}

claim("C16",
      "path-sensitive rule table over the CONNECT handler and the credential handlers; shape rules on sort.Search predicates and constant indexes (go/ssa)",
      "Decides, on every path of the current source, that session state and an accepting CONNACK exist only behind a nil Authenticate error, that both handlers accept only after username and password equalities held, that every sort.Search predicate is monotone, that constant indexes under a length switch are in range, and that the table is sorted by the searched field. Necessary conditions of the property, not the value-level equivalence 'accepted iff configured'.",
      "Not decided: SHA-256/CSV behaviour, contents of the password column, equality of hash values.")

claim("C05",
      "path-sensitive rule tables (uninterpreted atoms) + dominance + error-discipline over all paths with two loop iterations + closure-ancestry provenance (go/ssa)",
      "Decides on every path of the current source: the completion callback that writes PUBACK/PUBCOMP is reachable only through Distribute's nil-error branch; every append / inter-node error in Distribute forces a non-nil return even if a later destination succeeds; the inbound QoS 2 callback forwards nothing on expiry and the registered PUBLISH exactly once on PUBREL, with PUBCOMP only from the completion callback; PUBREC only after a successful registration. Necessary conditions; no execution.",
      "Not decided: at-most-once across reconnects with reused identifiers, durability on the remote node, commit-log internals.")
claim("C15",
      "dominance + nil-branch path guard + provenance through captured cells + constant/shape rules on the consume loop of wasp/messages/store.go (go/ssa)",
      "Decides the order and provenance of the three effects of the consume loop on every path (callback → nil → persist → truncate within one iteration, same offset), that the resume point is the decoded mapped state, that deletion of log entries happens only through a guarded TruncateBefore(x-c), and the mapping/open flags. Necessary conditions of crash-safety; crash behaviour itself is not executed.",
      "Not decided: commitlog/stream internals, page-cache behaviour on SIGKILL, the run-time bound 'replays at most one message'.")
claim("C02",
      "rule tables over the accept→append→consume→schedule→read-back→write chain: dominance, error discipline, three-valued evaluation of the job discriminator over constructor literals, provenance, constant relations (go/ssa)",
      "Decides that the hand-over chain is unbroken on every path: ack only after a nil Distribute, no lost append error, the consume callback schedules its own offset, the writer's log/direct discriminator is definitely right for both job constructors (offset 0 included), the log branch reads back its own offset, Get seeks to it, truncation keeps a margin larger than the writer queue. Necessary conditions; no execution.",
      "Not decided: segment roll / batching inside commitlog, payload integrity through protobuf, read failures in the writer, queue shutdown drops.")
