#!/usr/bin/env python3
"""Assembles DESIGN.md from tools/design_{head,mid,appendix}.md and the seeded corpus (table of which rules catch which change)."""
import json, glob, os
H = os.path.dirname(os.path.dirname(os.path.abspath(__file__)))
rows = []
missed = []
for d in sorted(glob.glob(os.path.join(H, 'seeded/*/meta.json'))):
    m = json.load(open(d)); sid = d.split('/')[-2]
    rules = sorted({r for v in m['detected_by'].values() for r in v})
    own = m['breaks_property']
    ownrules = [r for r in rules if r.startswith(own)]
    others = [r for r in rules if not r.startswith(own)]
    if not rules: missed.append(sid)
    rows.append('| %s | %s | %s | %s |' % (sid, m['summary'].replace('|', '/')[:150], ', '.join(ownrules) or ('—' if rules else '**missed**'), ', '.join(others)))
table = '| id | change | caught by its own property\'s check | also caught by |\n|----|--------|------|------|\n' + '\n'.join(rows)
table += '\n\n%d confirmed changes, %d detected, %d missed (%s).' % (len(rows), len(rows) - len(missed), len(missed), ', '.join(missed) or 'none')
neutral = open(os.path.join(H, 'tools/design_neutral.md')).read() if os.path.exists(os.path.join(H, 'tools/design_neutral.md')) else 'See tools/design_neutral.md (not yet written).'
mid = open(os.path.join(H, 'tools/design_mid.md')).read().replace('SEEDED_TABLE', table).replace('NEUTRAL_TEXT', neutral)
open(os.path.join(H, 'DESIGN.md'), 'w').write(open(os.path.join(H, 'tools/design_head.md')).read() + mid + open(os.path.join(H, 'tools/design_appendix.md')).read())
print('DESIGN.md written:', len(rows), 'seeded rows')
