package topics

import "testing"

// finding #16 (C19): removing a/b prunes the node of a although it holds a value.
func TestReproRemoveChildKeepsParentValue(t *testing.T) {
	tr := NewTree()
	tr.Insert([]byte("a"), []byte("va"))
	tr.Insert([]byte("a/b"), []byte("vb"))
	if err := tr.Remove([]byte("a/b")); err != nil {
		t.Fatal(err)
	}
	out := [][]byte{}
	tr.Match([]byte("a"), &out)
	if len(out) != 1 || string(out[0]) != "va" {
		t.Fatalf("Match(a) = %q, want [va]", out)
	}
}

// finding #21 (C20): Match takes only the read lock but match() lazily
// allocates n.Children on nodes rebuilt by Load: two concurrent Match calls
// write the same field. Run with -race.
func TestReproMatchWritesUnderReadLock(t *testing.T) {
	src := NewTree()
	src.Insert([]byte("a/b"), []byte("v"))
	buf, err := src.Dump()
	if err != nil {
		t.Fatal(err)
	}
	tr := NewTree()
	if err := tr.Load(buf); err != nil {
		t.Fatal(err)
	}
	done := make(chan struct{})
	for g := 0; g < 2; g++ {
		go func() {
			defer func() { done <- struct{}{} }()
			for i := 0; i < 200; i++ {
				out := [][]byte{}
				tr.Match([]byte("a/b/c"), &out)
			}
		}()
	}
	<-done
	<-done
}
