package topics

import "testing"

// finding #16 (C19): removing a/b prunes the node of a although it holds a value.
func TestReproRemoveChildKeepsParentValue(t *testing.T) {
	tr := NewTree()
	tr.Insert([]byte("a"), []byte("va"))
	tr.Insert([]byte("a/b"), []byte("vb"))
	if err := tr.Remove([]byte("a/b")); err != nil {
		t.Fatal(err)
	}
	out := [][]byte{}
	tr.Match([]byte("a"), &out)
	if len(out) != 1 || string(out[0]) != "va" {
		t.Fatalf("Match(a) = %q, want [va]", out)
	}
}
