package expiration

import (
	"sync"
	"testing"
	"time"
)

func impls() map[string]func() List {
	return map[string]func() List{"pq": newPQList, "skip": newSkipList}
}

// finding #7 (C04): Delete(id, deadline) ignores id.
func TestReproDeleteIgnoresID(t *testing.T) {
	for name, mk := range impls() {
		l := mk()
		d := time.Unix(1000, 0)
		l.Insert("a", d)
		l.Insert("b", d)
		l.Delete("b", d)
		out := l.Expire(d.Add(5 * time.Second))
		if len(out) != 1 || out[0] != "a" {
			t.Errorf("%s: after deleting b, expire returned %v, want [a]", name, out)
		}
	}
}

// finding #8 (C04): a bucket popped by Expire stays in the index, so a later
// insert for that second never expires.
func TestReproInsertIntoSweptSecond(t *testing.T) {
	for name, mk := range impls() {
		l := mk()
		d := time.Unix(1000, 0)
		l.Insert("a", d)
		l.Expire(d.Add(5 * time.Second))
		l.Insert("b", d)
		out := l.Expire(d.Add(5 * time.Second))
		if len(out) != 1 || out[0] != "b" {
			t.Errorf("%s: second sweep returned %v, want [b]", name, out)
		}
	}
}

// finding #17 (C20): bucket.data is read by Expire without the bucket lock
// while insert/Update append to it. Run with -race.
func TestReproRaceExpireVsPut(t *testing.T) {
	for _, mk := range impls() {
		l := mk()
		d := time.Unix(1000, 0)
		l.Insert("seed", d)
		var wg sync.WaitGroup
		wg.Add(2)
		go func() {
			defer wg.Done()
			for i := 0; i < 2000; i++ {
				l.Update(i, d, d)
			}
		}()
		go func() {
			defer wg.Done()
			for i := 0; i < 2000; i++ {
				l.Expire(d.Add(5 * time.Second))
				l.Insert("seed", d)
			}
		}()
		wg.Wait()
	}
}

// finding #20 (C04): the skip list stored the rounded deadline in the item but
// Delete compared against the exact one, so an entry with a fractional
// deadline could not be deleted.
func TestReproDeleteFractionalDeadline(t *testing.T) {
	for name, mk := range impls() {
		for _, frac := range []time.Duration{400 * time.Millisecond, 600 * time.Millisecond} {
			l := mk()
			d := time.Unix(1000, 0).Add(frac)
			l.Insert("a", d)
			l.Delete("a", d)
			if out := l.Expire(d.Add(5 * time.Second)); len(out) != 0 {
				t.Errorf("%s/%v: deleted entry still expired: %v", name, frac, out)
			}
		}
	}
}
