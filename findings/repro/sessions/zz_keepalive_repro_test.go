package sessions

import (
	"net"
	"testing"
	"time"

	"github.com/vx-labs/mqtt-protocol/packet"
)

// C11: a keep-alive of 0 turns the keep-alive mechanism off (MQTT 3.1.1, 3.1.2.10): the session must not end for
// silence. ExtendDeadline armed the connection with a deadline of "now", so the very next read timed out.
func TestReproKeepAliveZeroEndsTheSessionAtOnce(t *testing.T) {
	srv, cli := net.Pipe()
	defer srv.Close()
	defer cli.Close()
	s, err := NewSession("s1", "mp", "tcp", srv, &packet.Connect{Header: &packet.Header{}, ClientId: []byte("c"), KeepaliveTimer: 0, Clean: true})
	if err != nil {
		t.Fatal(err)
	}
	s.ExtendDeadline()
	done := make(chan error, 1)
	go func() {
		buf := make([]byte, 1)
		_, err := srv.Read(buf)
		done <- err
	}()
	select {
	case err := <-done:
		t.Fatalf("a read on the connection of a session with keep-alive 0 ended after no time at all: %v", err)
	case <-time.After(300 * time.Millisecond):
	}
	// a non-zero keep-alive still arms a deadline
	srv2, cli2 := net.Pipe()
	defer srv2.Close()
	defer cli2.Close()
	s2, _ := NewSession("s2", "mp", "tcp", srv2, &packet.Connect{Header: &packet.Header{}, ClientId: []byte("d"), KeepaliveTimer: 1, Clean: true})
	s2.ExtendDeadline()
	go func() {
		buf := make([]byte, 1)
		_, err := srv2.Read(buf)
		done <- err
	}()
	select {
	case <-done:
	case <-time.After(4 * time.Second):
		t.Fatal("keep-alive 1 s: the read did not time out within 4 s")
	}
}
