package distributed

import (
	"testing"

	"github.com/vx-labs/mqtt-protocol/packet"
)

// C09 / C10: a retained PUBLISH whose topic name contains a wildcard character (not a valid topic name, but nothing
// rejected it) was stored on the issuing node under that literal key, while the receiving side of a merge looks the
// local copy up with wildcard semantics: on a node holding two or more matching topics the entry was refused as
// invalid — and the rest of the batch with it. The issuer listed an entry that no peer could ever list.
func TestReproRetainedTopicWithWildcardCharacter(t *testing.T) {
	a, qa := reproNode(1)
	b, _ := reproNode(2)
	set := func(topic, v string) error {
		return a.Topics().Set(&packet.Publish{Header: &packet.Header{Retain: true}, Topic: []byte(topic), Payload: []byte(v)})
	}
	for _, tp := range []string{"mp/x/a", "mp/x/b"} {
		if err := set(tp, "v"); err != nil {
			t.Fatal(err)
		}
		reproShip(t, qa, b)
	}
	_ = set("mp/x/+", "w") // refused after the repair
	if err := set("mp/y", "v"); err != nil {
		t.Fatal(err)
	}
	reproShip(t, qa, b)
	// one full-state exchange on top, as after a join
	b.Distributor().MergeRemoteState(a.Distributor().LocalState(true), true)
	la, err := a.Topics().Get([]byte("mp/#"))
	if err != nil {
		t.Fatal(err)
	}
	lb, err := b.Topics().Get([]byte("mp/#"))
	if err != nil {
		t.Fatal(err)
	}
	if len(la) != len(lb) {
		t.Fatalf("node A lists %d retained messages, node B %d after receiving every broadcast and a full snapshot", len(la), len(lb))
	}
}
