package distributed

import (
	"testing"

	"github.com/hashicorp/memberlist"
	"github.com/vx-labs/wasp/v4/wasp/audit"
)

// C14: a subscription created on behalf of a session hosted by another node (the CreateSubscription RPC passes that
// node's id) must be attributed to that node: publishes matching it are routed to the node named by Peer.
func TestReproCreateFromIgnoresThePeerItIsGiven(t *testing.T) {
	q := &memberlist.TransmitLimitedQueue{NumNodes: func() int { return 1 }, RetransmitMult: 1}
	st := NewState(1, q, audit.StdoutRecorder())
	if err := st.Subscriptions().CreateFrom("session-on-node-2", 2, []byte("mp/devices/#"), 1); err != nil {
		t.Fatal(err)
	}
	subs := st.Subscriptions().ByPattern([]byte("mp/devices/a"))
	if len(subs) != 1 {
		t.Fatalf("ByPattern: %v", subs)
	}
	if subs[0].Peer != 2 {
		t.Fatalf("subscription created for peer 2 is recorded under peer %d: publishes are routed to a node that does not host the session", subs[0].Peer)
	}
}
