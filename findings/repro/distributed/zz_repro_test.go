package distributed

import (
	"testing"

	"github.com/hashicorp/memberlist"
	"github.com/vx-labs/mqtt-protocol/packet"
	"github.com/vx-labs/wasp/v4/wasp/audit"
)

func newNode(peer uint64) (State, *memberlist.TransmitLimitedQueue) {
	q := &memberlist.TransmitLimitedQueue{NumNodes: func() int { return 2 }, RetransmitMult: 1}
	return NewState(peer, q, audit.StdoutRecorder()), q
}
func ship(q *memberlist.TransmitLimitedQueue, to State) int {
	n := 0
	for _, b := range q.GetBroadcasts(0, 1<<30) {
		to.Distributor().NotifyMsg(b)
		n++
	}
	return n
}
func drop(q *memberlist.TransmitLimitedQueue) { q.GetBroadcasts(0, 1<<30) }

// finding #3 (C09): the bulk-delete broadcast carries N copies of the last entry.
func TestReproBulkBroadcastAliases(t *testing.T) {
	a, qa := newNode(1)
	b, _ := newNode(2)
	for _, id := range []string{"s1", "s2", "s3"} {
		if err := a.SessionMetadatas().Create(id, "c-"+id, 1, nil, "mp"); err != nil {
			t.Fatal(err)
		}
		a.Subscriptions().Create(id, []byte("mp/t/"+id), 0)
	}
	ship(qa, b)
	if n := len(b.SessionMetadatas().All()); n != 3 {
		t.Fatalf("b lists %d sessions", n)
	}
	a.SessionMetadatas().DeletePeer(1)
	a.Subscriptions().DeletePeer(1)
	ship(qa, b)
	if n := len(b.SessionMetadatas().All()); n != 0 {
		t.Errorf("after DeletePeer b still lists %d sessions", n)
	}
	if n := len(b.Subscriptions().All()); n != 0 {
		t.Errorf("after DeletePeer b still lists %d subscriptions", n)
	}
}

// finding #3 bis (C10): the snapshot carries N copies of the last entry.
func TestReproSnapshotAliases(t *testing.T) {
	a, _ := newNode(1)
	b, _ := newNode(2)
	for _, id := range []string{"s1", "s2", "s3"} {
		a.SessionMetadatas().Create(id, "c-"+id, 1, nil, "mp")
		a.Subscriptions().Create(id, []byte("mp/t/"+id), 0)
	}
	b.Distributor().MergeRemoteState(a.Distributor().LocalState(false), false)
	if n := len(b.SessionMetadatas().All()); n != 3 {
		t.Errorf("fresh node lists %d sessions after snapshot, want 3", n)
	}
	if n := len(b.Subscriptions().All()); n != 3 {
		t.Errorf("fresh node lists %d subscriptions after snapshot, want 3", n)
	}
}

// finding #4 (C10): removals do not travel in the snapshot.
func TestReproSnapshotOmitsRemovals(t *testing.T) {
	a, qa := newNode(1)
	b, _ := newNode(2)
	for _, id := range []string{"s1", "s2", "s3"} {
		a.SessionMetadatas().Create(id, "c-"+id, 1, nil, "mp")
		a.Subscriptions().Create(id, []byte("mp/t/"+id), 0)
	}
	ship(qa, b)
	a.SessionMetadatas().Delete("s2")
	a.Subscriptions().Delete("s2", []byte("mp/t/s2"))
	drop(qa) // gossip lost
	b.Distributor().MergeRemoteState(a.Distributor().LocalState(false), false)
	if n := len(b.SessionMetadatas().All()); n != 2 {
		t.Errorf("lagging node lists %d sessions after snapshot, want 2", n)
	}
	if n := len(b.Subscriptions().All()); n != 2 {
		t.Errorf("lagging node lists %d subscriptions after snapshot, want 2", n)
	}
}

var _ = packet.Publish{}
