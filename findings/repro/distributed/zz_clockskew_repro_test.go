package distributed

import (
	"testing"

	"github.com/hashicorp/memberlist"
	"github.com/vx-labs/mqtt-protocol/packet"
	"github.com/vx-labs/wasp/v4/wasp/audit"
)

// C08: nodes whose clocks are offset. Node B (clock ahead) retains "v-B" on a topic; node A (clock behind) has merged
// that update and then retains "v-A" on the same topic. Both nodes have now received the same two updates, so both must
// list the same value. Before the repair A's local mutator overwrote the newer-stamped entry with its older stamp (an
// older update overriding a newer one) while B rejected A's update: the replicas disagreed for ever.
func reproNode(peer uint64) (State, *memberlist.TransmitLimitedQueue) {
	q := &memberlist.TransmitLimitedQueue{NumNodes: func() int { return 2 }, RetransmitMult: 1}
	return NewState(peer, q, audit.StdoutRecorder()), q
}
func reproShip(t *testing.T, from *memberlist.TransmitLimitedQueue, to State) {
	for _, b := range from.GetBroadcasts(0, 1<<20) {
		to.Distributor().NotifyMsg(b)
	}
}
func reproRetained(t *testing.T, st State, topic string) string {
	l, err := st.Topics().Get([]byte(topic))
	if err != nil {
		t.Fatal(err)
	}
	if len(l) == 0 {
		return "<none>"
	}
	if len(l) > 1 {
		t.Fatalf("%d retained messages on one topic", len(l))
	}
	return string(l[0].Publish.Payload)
}

func TestReproLocalRetainUnderClockOffset(t *testing.T) {
	saved := clock
	defer func() { clock = saved }()
	a, qa := reproNode(1)
	b, qb := reproNode(2)
	pub := func(v string) *packet.Publish {
		return &packet.Publish{Header: &packet.Header{Retain: true}, Topic: []byte("mp/t"), Payload: []byte(v)}
	}
	clock = func() int64 { return 1000 } // B's clock
	if err := b.Topics().Set(pub("v-B")); err != nil {
		t.Fatal(err)
	}
	reproShip(t, qb, a)
	clock = func() int64 { return 900 } // A's clock is behind
	if err := a.Topics().Set(pub("v-A")); err != nil {
		t.Fatal(err)
	}
	reproShip(t, qa, b)
	va, vb := reproRetained(t, a, "mp/t"), reproRetained(t, b, "mp/t")
	if va != vb {
		t.Fatalf("both nodes received the same two updates, yet node A lists %q and node B lists %q", va, vb)
	}
}

func TestReproLocalClearUnderClockOffset(t *testing.T) {
	saved := clock
	defer func() { clock = saved }()
	a, qa := reproNode(1)
	b, qb := reproNode(2)
	clock = func() int64 { return 1000 }
	if err := b.Topics().Set(&packet.Publish{Header: &packet.Header{Retain: true}, Topic: []byte("mp/t"), Payload: []byte("v-B")}); err != nil {
		t.Fatal(err)
	}
	reproShip(t, qb, a)
	clock = func() int64 { return 900 }
	if err := a.Topics().Delete([]byte("mp/t")); err != nil {
		t.Fatal(err)
	}
	reproShip(t, qa, b)
	va, vb := reproRetained(t, a, "mp/t"), reproRetained(t, b, "mp/t")
	if va != vb {
		t.Fatalf("both nodes received the same two updates, yet node A lists %q and node B lists %q", va, vb)
	}
}

func TestReproSessionRecreatedUnderClockOffset(t *testing.T) {
	saved := clock
	defer func() { clock = saved }()
	a, qa := reproNode(1)
	b, qb := reproNode(2)
	clock = func() int64 { return 900 }
	if err := a.SessionMetadatas().Create("s1", "c1", 1, nil, "mp"); err != nil {
		t.Fatal(err)
	}
	reproShip(t, qa, b)
	clock = func() int64 { return 1000 } // B (clock ahead) ends the session, e.g. on a takeover
	if err := b.SessionMetadatas().Delete("s1"); err != nil {
		t.Fatal(err)
	}
	reproShip(t, qb, a)
	clock = func() int64 { return 950 } // A creates the record again: its stamp is older than the removal it has seen
	if err := a.SessionMetadatas().Create("s1", "c1", 2, nil, "mp"); err != nil {
		t.Fatal(err)
	}
	reproShip(t, qa, b)
	_, ea := a.SessionMetadatas().Get("s1")
	_, eb := b.SessionMetadatas().Get("s1")
	if (ea == nil) != (eb == nil) {
		t.Fatalf("both nodes received the same three updates, yet node A: %v, node B: %v", ea, eb)
	}
}

// A session removed at the very clock value it was created at (or by a node whose clock is behind the creator's): the
// removing node stopped listing it, the others kept it.
func TestReproSessionDeletedAtTheStampItWasCreatedAt(t *testing.T) {
	saved := clock
	defer func() { clock = saved }()
	a, qa := reproNode(1)
	b, _ := reproNode(2)
	clock = func() int64 { return 1000 }
	if err := a.SessionMetadatas().Create("s1", "c1", 1, nil, "mp"); err != nil {
		t.Fatal(err)
	}
	reproShip(t, qa, b)
	if err := a.SessionMetadatas().Delete("s1"); err != nil {
		t.Fatal(err)
	}
	reproShip(t, qa, b)
	_, ea := a.SessionMetadatas().Get("s1")
	_, eb := b.SessionMetadatas().Get("s1")
	if ea == nil || eb == nil {
		t.Fatalf("session deleted on node A, both nodes received the update, yet node A: %v, node B: %v", ea, eb)
	}
}

func TestReproPeerSessionsDeletedByANodeWhoseClockIsBehind(t *testing.T) {
	saved := clock
	defer func() { clock = saved }()
	a, qa := reproNode(1)
	b, qb := reproNode(2)
	clock = func() int64 { return 1000 }
	if err := a.SessionMetadatas().Create("s1", "c1", 1, nil, "mp"); err != nil {
		t.Fatal(err)
	}
	reproShip(t, qa, b)
	clock = func() int64 { return 900 } // B's clock is behind; node A fails and B cleans up after it
	if err := b.SessionMetadatas().DeletePeer(1); err != nil {
		t.Fatal(err)
	}
	reproShip(t, qb, a)
	if l := b.SessionMetadatas().All(); len(l) != 0 {
		t.Fatalf("sessions of the failed peer still listed after DeletePeer: %v", l)
	}
	if la, lb := len(a.SessionMetadatas().All()), len(b.SessionMetadatas().All()); la != lb {
		t.Fatalf("node A lists %d sessions, node B %d", la, lb)
	}
}
