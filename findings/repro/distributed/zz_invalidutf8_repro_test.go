package distributed

import (
	"testing"
)

// C09 / C10: a CONNECT whose client identifier is not valid UTF-8 (the decoder does not check). Create stored the
// session record first and built the broadcast afterwards: the marshalling failed (proto3 strings must be UTF-8), Create
// returned the error — with the record left in the store and nothing broadcast. From then on every full-state snapshot
// of that node failed to marshal as well: LocalState returned nothing, for ever.
func TestReproSessionWithInvalidUTF8ClientID(t *testing.T) {
	a, qa := reproNode(1)
	b, _ := reproNode(2)
	if err := a.SessionMetadatas().Create("s-good", "client-1", 1, nil, "mp"); err != nil {
		t.Fatal(err)
	}
	err := a.SessionMetadatas().Create("s-bad", "bad\xffid", 2, nil, "mp")
	if err == nil {
		t.Skip("the record was accepted and broadcast: nothing to reproduce")
	}
	reproShip(t, qa, b)
	if la, lb := len(a.SessionMetadatas().All()), len(b.SessionMetadatas().All()); la != lb {
		t.Fatalf("Create failed (%v) yet node A lists %d sessions and node B %d: the change took effect locally without a broadcast", err, la, lb)
	}
	c, _ := reproNode(3)
	c.Distributor().MergeRemoteState(a.Distributor().LocalState(true), true)
	if la, lc := len(a.SessionMetadatas().All()), len(c.SessionMetadatas().All()); la != lc {
		t.Fatalf("a fresh node that merged A's snapshot lists %d sessions, A lists %d", lc, la)
	}
}
