package messages

import (
	"context"
	"io/ioutil"
	"os"
	"path"
	"testing"
	"time"

	"github.com/vx-labs/mqtt-protocol/packet"
)

// C15: the process is killed on its very first start between the creation of the consumer's state file and its sizing
// (os.OpenFile(O_CREATE) … fd.Truncate(8)): a 0-byte state file is left behind. Before the repair every later run took
// the "file exists" branch, failed to map the empty file and returned at once: nothing was ever handed over again.
func TestReproEmptyStateFileLeftByACrash(t *testing.T) {
	dir, err := ioutil.TempDir("", "wasp-repro")
	if err != nil {
		t.Fatal(err)
	}
	defer os.RemoveAll(dir)
	l, err := New(dir)
	if err != nil {
		t.Fatal(err)
	}
	defer l.Close()
	// what the crash leaves behind
	if err := ioutil.WriteFile(path.Join(dir, "writer.state"), nil, 0650); err != nil {
		t.Fatal(err)
	}
	if err := l.Append(&packet.Publish{Header: &packet.Header{}, Topic: []byte("t"), Payload: []byte("m0")}); err != nil {
		t.Fatal(err)
	}
	ctx, cancel := context.WithTimeout(context.Background(), 2*time.Second)
	defer cancel()
	got := make(chan uint64, 1)
	errc := make(chan error, 1)
	go func() {
		errc <- l.Consume(ctx, "writer", func(offset uint64, p *packet.Publish) error {
			select {
			case got <- offset:
			default:
			}
			return nil
		})
	}()
	select {
	case off := <-got:
		if off != 0 {
			t.Fatalf("first offset handed over is %d", off)
		}
	case err := <-errc:
		t.Fatalf("the run after the crash consumed nothing: Consume returned %v", err)
	case <-ctx.Done():
		t.Fatalf("the run after the crash consumed nothing within 2s")
	}
}
