package ack

import (
	"testing"
	"time"

	"github.com/vx-labs/mqtt-protocol/packet"
)

// finding #6 (C04): an acknowledgement of the wrong packet type removes the
// in-flight entry and its timeout without resolving it.
func TestReproWrongTypeAckLosesEntry(t *testing.T) {
	q := NewQueue()
	outcomes := 0
	err := q.Insert("s", &packet.Publish{Header: &packet.Header{Qos: 1}, MessageId: 5}, time.Now().Add(-2*time.Second), func(expired bool, s, r packet.Packet) { outcomes++ })
	if err != nil {
		t.Fatal(err)
	}
	if err := q.Ack("s", &packet.PubComp{Header: &packet.Header{}, MessageId: 5}); err == nil {
		t.Fatal("wrong-type ack accepted")
	}
	q.Expire(time.Now().Add(10 * time.Second))
	if outcomes != 1 {
		t.Fatalf("entry resolved %d times, want 1", outcomes)
	}
}
