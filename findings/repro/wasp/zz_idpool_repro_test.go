package wasp

import (
	"context"
	"testing"
)

// C06: when every identifier is outstanding the allocator must report exhaustion, not hand out a duplicate.
func TestReproPoolExhaustionHandsOutDuplicate(t *testing.T) {
	pool := newMIDPool(1, 3)
	out := map[int32]bool{}
	for i := 0; i < 3; i++ {
		id := pool.Get()
		if id < 1 || id > 3 || out[id] {
			t.Fatalf("allocation %d: got %d (outstanding %v)", i, id, out)
		}
		out[id] = true
	}
	if id := pool.Get(); id >= 1 && id <= 3 {
		t.Fatalf("all identifiers are outstanding, yet Get handed out %d again", id)
	}
}

// C06: no sequence of calls makes the allocator panic — releasing one identifier while all are outstanding.
func TestReproPoolPutWhenAllOutstandingPanics(t *testing.T) {
	pool := newMIDPool(1, 3)
	for i := 0; i < 3; i++ {
		pool.Get()
	}
	defer func() {
		if r := recover(); r != nil {
			t.Fatalf("Put panicked: %v", r)
		}
	}()
	pool.Put(2)
	if id := pool.Get(); id != 2 {
		t.Fatalf("the identifier just returned is the only free one, Get gave %d", id)
	}
}

// C06: releasing an identifier on a pool that never handed one out must not panic.
func TestReproPoolPutOnFreshPoolPanics(t *testing.T) {
	pool := newMIDPool(1, 3)
	defer func() {
		if r := recover(); r != nil {
			t.Fatalf("Put panicked: %v", r)
		}
	}()
	pool.Put(2)
}

// C06: returning an identifier that is not outstanding changes nothing.
func TestReproPoolDoublePutDuplicates(t *testing.T) {
	pool := newMIDPool(1, 500)
	for i := 0; i < 3; i++ {
		pool.Get() // 1 2 3
	}
	pool.Put(2)
	pool.Put(2) // not outstanding any more
	a, b := pool.Get(), pool.Get()
	if a == b {
		t.Fatalf("identifier %d handed out twice after a double release", a)
	}
	if b != 4 {
		t.Fatalf("after re-allocating 2 the next free identifier is 4, got %d", b)
	}
}

// C06: the writer recognises the allocator's exhaustion report (it must not use the sentinel as an identifier).
func TestReproWriterUsesExhaustionSentinelAsIdentifier(t *testing.T) {
	w := &writer{midPool: newMIDPool(1, 2)}
	ctx, cancel := context.WithCancel(context.Background())
	defer cancel()
	seen := map[int32]bool{}
	for i := 0; i < 2; i++ {
		id, err := w.getFree(ctx)
		if err != nil || id < 1 || id > 2 || seen[id] {
			t.Fatalf("allocation %d: id %d err %v", i, id, err)
		}
		seen[id] = true
	}
	id, err := w.getFree(ctx)
	if err == nil {
		t.Fatalf("pool exhausted, yet getFree returned identifier %d without an error", id)
	}
}
