package wasp

import (
	"bytes"
	"testing"
	"time"

	"net"

	"github.com/vx-labs/mqtt-protocol/decoder"
	"github.com/vx-labs/mqtt-protocol/packet"
	"github.com/vx-labs/wasp/v4/wasp/ack"
	"github.com/vx-labs/wasp/v4/wasp/sessions"
)

// C02/C03/C05: client and broker pick packet identifiers independently. A client that has a QoS 2 publish with
// identifier 1 under way (PUBREC sent, PUBREL not yet) is also a QoS 1 subscriber; the broker's first delivery to it
// takes identifier 1 from its own pool. Both exchanges were keyed session/1 in the shared in-flight table, so the
// delivery was refused as a duplicate and never sent.
func TestReproInboundAndOutboundIdentifiersCollide(t *testing.T) {
	dstate := newDState(1)
	local := NewState(1)
	inflights := ack.NewQueue()
	w := NewWriter(1, dstate.Subscriptions(), local, inflights)
	w.midPool.Get() // identifier 0 is never used on the wire
	srv, cli := net.Pipe()
	s, _ := sessions.NewSession("s1", "mp", "tcp", srv, connectPkt("c1", 30))
	local.Create("s1", s)
	proc := NewPacketProcessor(local, dstate, w, nopTaps{}, &PublishDistributor{ID: 1, State: dstate.Subscriptions(), Storage: &fakeLog{}}, inflights)

	// the client's QoS 2 PUBLISH, identifier 1: the broker registers the exchange and answers PUBREC
	var sink bytes.Buffer
	if err := proc.Process(bg(), s, &sink, &packet.Publish{Header: &packet.Header{Qos: 2}, MessageId: 1, Topic: []byte("up"), Payload: []byte("x")}); err != nil {
		t.Fatalf("inbound QoS 2 publish refused: %v", err)
	}
	// a QoS 1 delivery to the same client: the pool's first identifier is 1 as well
	got := make(chan *packet.Publish, 1)
	go func() {
		cli.SetReadDeadline(time.Now().Add(3 * time.Second))
		if pkt, err := decoder.New().Decode(cli); err == nil {
			if p, ok := pkt.(*packet.Publish); ok {
				got <- p
			}
		}
	}()
	w.send(bg(), []string{"s1"}, []int32{1}, &packet.Publish{Header: &packet.Header{}, Topic: []byte("mp/t"), Payload: []byte("y")})
	select {
	case p := <-got:
		if p.MessageId != 1 {
			t.Fatalf("expected the delivery to carry identifier 1 (the collision case), got %d", p.MessageId)
		}
	case <-time.After(2 * time.Second):
		t.Fatal("the QoS 1 delivery was never written: its identifier collided with the client's own QoS 2 exchange in the in-flight table")
	}
}
