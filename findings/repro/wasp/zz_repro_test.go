package wasp

import (
	"context"
	"errors"
	"io"
	"net"
	"sync"
	"testing"
	"time"

	"github.com/hashicorp/memberlist"
	"github.com/vx-labs/commitlog/stream"
	"github.com/vx-labs/mqtt-protocol/decoder"
	"github.com/vx-labs/mqtt-protocol/encoder"
	"github.com/vx-labs/mqtt-protocol/packet"
	"github.com/vx-labs/wasp/v4/wasp/ack"
	"github.com/vx-labs/wasp/v4/wasp/audit"
	"github.com/vx-labs/wasp/v4/wasp/auth"
	"github.com/vx-labs/wasp/v4/wasp/distributed"
	"github.com/vx-labs/wasp/v4/wasp/sessions"
	"github.com/vx-labs/wasp/v4/wasp/transport"
	"go.uber.org/zap"
)

type fakeLog struct {
	mu       sync.Mutex
	entries  []*packet.Publish
	failWith error
}

func (f *fakeLog) Close() error { return nil }
func (f *fakeLog) Append(p *packet.Publish) error {
	f.mu.Lock()
	defer f.mu.Unlock()
	if f.failWith != nil {
		return f.failWith
	}
	f.entries = append(f.entries, p)
	return nil
}
func (f *fakeLog) Get(offset uint64) (*packet.Publish, error) {
	f.mu.Lock()
	defer f.mu.Unlock()
	if int(offset) >= len(f.entries) {
		return nil, io.EOF
	}
	return f.entries[offset], nil
}
func (f *fakeLog) Consume(ctx context.Context, n string, fn func(uint64, *packet.Publish) error) error {
	return nil
}
func (f *fakeLog) Stream(ctx context.Context, c stream.Consumer, fn func(*packet.Publish) error) error {
	return nil
}

func bg() context.Context { return StoreLogger(context.Background(), zap.NewNop()) }

type nopTaps struct{}

func (nopTaps) Run(ctx context.Context)                                      {}
func (nopTaps) Dispatch(context.Context, string, *packet.Publish) error { return nil }

func newDState(peer uint64) distributed.State {
	q := &memberlist.TransmitLimitedQueue{NumNodes: func() int { return 1 }, RetransmitMult: 1}
	return distributed.NewState(peer, q, audit.StdoutRecorder())
}

func connectPkt(clientID string, keepalive int32) *packet.Connect {
	return &packet.Connect{Header: &packet.Header{}, ClientId: []byte(clientID), KeepaliveTimer: keepalive, Clean: true}
}

// finding #1 (C02): the log entry at offset 0 is never delivered.
func TestReproOffsetZeroDropped(t *testing.T) {
	ctx, cancel := context.WithCancel(bg())
	defer cancel()
	dstate := newDState(1)
	local := NewState(1)
	w := NewWriter(1, dstate.Subscriptions(), local, ack.NewQueue())
	srv, cli := net.Pipe()
	session, _ := sessions.NewSession("s1", "mp", "tcp", srv, connectPkt("c1", 30))
	local.Create("s1", session)
	dstate.Subscriptions().Create("s1", []byte("mp/t"), 0)
	log := &fakeLog{}
	log.Append(&packet.Publish{Header: &packet.Header{}, Topic: []byte("mp/t"), Payload: []byte("first")})
	go w.Run(ctx, log)
	w.Schedule(ctx, 0)
	cli.SetReadDeadline(time.Now().Add(time.Second))
	pkt, err := decoder.New().Decode(cli)
	if err != nil {
		t.Fatalf("subscriber did not receive the message at offset 0: %v", err)
	}
	if p, ok := pkt.(*packet.Publish); !ok || string(p.Payload) != "first" {
		t.Fatalf("got %v", pkt)
	}
}

// finding #2 (C05/C14): a failed local append is not reported.
func TestReproLocalAppendErrorDropped(t *testing.T) {
	dstate := newDState(1)
	dstate.Subscriptions().Create("s1", []byte("mp/t"), 1)
	d := &PublishDistributor{ID: 1, State: dstate.Subscriptions(), Storage: &fakeLog{failWith: errors.New("disk full")}, Logger: zap.NewNop()}
	err := d.Distribute(bg(), &packet.Publish{Header: &packet.Header{Qos: 1}, Topic: []byte("mp/t")})
	if err == nil {
		t.Fatal("Distribute returned nil although the local log write failed")
	}
}

// finding #5 (C13/C17): a failed peer's wills are appended with their raw topic.
func TestReproPeerFailureWillOutsideMountPoint(t *testing.T) {
	remote := newDState(2)
	remote.SessionMetadatas().Create("s9", "c9", 1, &packet.Publish{Header: &packet.Header{}, Topic: []byte("will"), Payload: []byte("bye")}, "tenant")
	log := &fakeLog{}
	NewNodeMemberManager(1, log, remote).NotifyGossipLeave(2)
	if len(log.entries) != 1 {
		t.Fatalf("appended %d wills", len(log.entries))
	}
	if got := string(log.entries[0].Topic); got != "tenant/will" {
		t.Fatalf("will appended on %q, want tenant/will", got)
	}
	again := remote.SessionMetadatas().ByPeer(2)
	if len(again) == 1 && string(again[0].LWT.Topic) != "will" {
		t.Fatalf("stored will was modified: %q", again[0].LWT.Topic)
	}
}

type tenantAuth struct{}

func (tenantAuth) Authenticate(ctx context.Context, mqtt auth.ApplicationContext, tr auth.TransportContext) (auth.Principal, error) {
	if string(mqtt.Username) == "u" {
		return auth.Principal{ID: "sess-" + string(mqtt.ClientID), MountPoint: auth.DefaultMountPoint}, nil
	}
	return auth.Principal{ID: "sess-" + string(mqtt.Username), MountPoint: string(mqtt.Username)}, nil
}

func newManager(dstate distributed.State, local LocalState) *manager {
	w := NewWriter(1, dstate.Subscriptions(), local, ack.NewQueue())
	pd := &PublishDistributor{ID: 1, State: dstate.Subscriptions(), Storage: &fakeLog{}, Logger: zap.NewNop()}
	pp := NewPacketProcessor(local, dstate, w, nopTaps{}, pd, ack.NewQueue())
	return NewConnectionManager(tenantAuth{}, local, dstate, w, pp, ack.NewQueue()).(*manager)
}

// findings #9 and #10 (C11): after a clean DISCONNECT the session record stays,
// and the connection is never closed by the broker.
func TestReproCleanDisconnectTeardown(t *testing.T) {
	dstate := newDState(1)
	local := NewState(1)
	m := newManager(dstate, local)
	srv, cli := net.Pipe()
	session, _ := sessions.NewSession("s1", "mp", "tcp", srv, connectPkt("c1", 30))
	local.Create("s1", session)
	dstate.SessionMetadatas().Create("s1", "c1", 1, nil, "mp")
	session.Disconnected = true
	m.shutdownSession(bg(), session)
	if n := len(dstate.SessionMetadatas().All()); n != 0 {
		t.Errorf("#9: %d session records listed after clean disconnect", n)
	}
	cli.SetReadDeadline(time.Now().Add(200 * time.Millisecond))
	_, err := cli.Read(make([]byte, 1))
	if err != io.EOF && err != io.ErrClosedPipe {
		t.Errorf("#10: connection not closed by the broker (read: %v)", err)
	}
}

func runBroker(t *testing.T, ctx context.Context) (*manager, func(keepalive int32, user ...string) net.Conn) {
	dstate := newDState(1)
	local := NewState(1)
	m := newManager(dstate, local)
	go m.packetProcessor.Run(ctx)
	go m.Run(ctx)
	return m, func(keepalive int32, user ...string) net.Conn {
		srv, cli := net.Pipe()
		go m.Setup(ctx, transport.Metadata{Name: "tcp", Channel: srv})
		c := connectPkt("c1", keepalive)
		c.Username = []byte("u")
		if len(user) > 0 {
			c.Username = []byte(user[0])
		}
		c.Password = []byte("p")
		go encoder.New().Encode(cli, c)
		cli.SetReadDeadline(time.Now().Add(2 * time.Second))
		pkt, err := decoder.New().Decode(cli)
		if err != nil {
			t.Fatalf("no CONNACK: %v", err)
		}
		if a, ok := pkt.(*packet.ConnAck); !ok || a.ReturnCode != packet.CONNACK_CONNECTION_ACCEPTED {
			t.Fatalf("refused: %v", pkt)
		}
		return cli
	}
}

// finding #11 (C11): an idle period longer than the 3 s CONNECT timeout right
// after CONNECT ends a session whose keep-alive is 30 s.
func TestReproIdleAfterConnect(t *testing.T) {
	ctx, cancel := context.WithCancel(bg())
	defer cancel()
	_, dial := runBroker(t, ctx)
	cli := dial(30)
	time.Sleep(3500 * time.Millisecond)
	go encoder.New().Encode(cli, &packet.PingReq{Header: &packet.Header{}})
	cli.SetReadDeadline(time.Now().Add(2 * time.Second))
	pkt, err := decoder.New().Decode(cli)
	if err != nil {
		t.Fatalf("session was cut while within its keep-alive: %v", err)
	}
	if _, ok := pkt.(*packet.PingResp); !ok {
		t.Fatalf("got %v", pkt)
	}
}

// finding #14 (C18): two bytes crash the process.
func TestReproMalformedPubAckCrashes(t *testing.T) {
	ctx, cancel := context.WithCancel(bg())
	defer cancel()
	_, dial := runBroker(t, ctx)
	cli := dial(30)
	go cli.Write([]byte{0x40, 0x00})
	time.Sleep(300 * time.Millisecond)
	other := dial(30) // the broker is still alive and serving
	other.Close()
}

// finding #18 (C20): GetTopics hands out the slice RemoveTopic rewrites. Run with -race.
func TestReproGetTopicsRace(t *testing.T) {
	srv, _ := net.Pipe()
	session, _ := sessions.NewSession("s1", "mp", "tcp", srv, connectPkt("c1", 30))
	for i := 0; i < 8; i++ {
		session.AddTopic([]byte{byte('a' + i)})
	}
	var wg sync.WaitGroup
	wg.Add(2)
	go func() {
		defer wg.Done()
		for i := 0; i < 2000; i++ {
			session.RemoveTopic([]byte{'a'})
			session.AddTopic([]byte{'a'})
		}
	}()
	go func() {
		defer wg.Done()
		for i := 0; i < 2000; i++ {
			for _, tp := range session.GetTopics() {
				_ = len(tp)
			}
		}
	}()
	wg.Wait()
}

// finding #19 (C17): a client identifier used in one mount point displaces the
// session using the same identifier in another mount point.
func TestReproClientIDAcrossMountPoints(t *testing.T) {
	ctx, cancel := context.WithCancel(bg())
	defer cancel()
	m, dial := runBroker(t, ctx)
	dial(30, "tenant-a")
	dial(30, "tenant-b")
	time.Sleep(100 * time.Millisecond)
	if n := len(m.state.SessionMetadatas().All()); n != 2 {
		t.Fatalf("%d sessions listed after two tenants connected with the same client id, want 2", n)
	}
}

type exhaustedPool struct{}

func (exhaustedPool) Get() int32 { return 0 }
func (exhaustedPool) Put(int32)  {}

// finding #23 (C01/C02): when no packet identifier can be obtained for one QoS>0 recipient the fan-out returned,
// skipping every remaining recipient — including QoS 0 recipients, which need no identifier.
func TestReproFanoutStopsAtFirstRecipientWithoutIdentifier(t *testing.T) {
	dstate := newDState(1)
	local := NewState(1)
	w := NewWriter(1, dstate.Subscriptions(), local, ack.NewQueue())
	w.midPool = exhaustedPool{}
	srv1, _ := net.Pipe()
	s1, _ := sessions.NewSession("s1", "mp", "tcp", srv1, connectPkt("c1", 30))
	local.Create("s1", s1)
	srv2, cli2 := net.Pipe()
	s2, _ := sessions.NewSession("s2", "mp", "tcp", srv2, connectPkt("c2", 30))
	local.Create("s2", s2)
	got := make(chan struct{}, 1)
	go func() {
		cli2.SetReadDeadline(time.Now().Add(3 * time.Second))
		if pkt, err := decoder.New().Decode(cli2); err == nil {
			if _, ok := pkt.(*packet.Publish); ok {
				got <- struct{}{}
			}
		}
	}()
	w.send(bg(), []string{"s1", "s2"}, []int32{1, 0}, &packet.Publish{Header: &packet.Header{}, Topic: []byte("mp/t"), Payload: []byte("x")})
	select {
	case <-got:
	case <-time.After(2 * time.Second):
		t.Fatal("the QoS 0 recipient listed after a recipient for which no identifier was available received nothing")
	}
}
