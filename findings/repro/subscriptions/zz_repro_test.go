package subscriptions

import "testing"

// finding #15 (C19): a tree rebuilt by Load has nil child maps; Upsert panics.
func TestReproUpsertAfterLoad(t *testing.T) {
	tr := NewTree()
	tr.Upsert([]byte("a/b"), func([]byte) []byte { return []byte("x") })
	buf, err := tr.Dump()
	if err != nil {
		t.Fatal(err)
	}
	tr2 := NewTree()
	if err := tr2.Load(buf); err != nil {
		t.Fatal(err)
	}
	tr2.Upsert([]byte("a/b/c"), func([]byte) []byte { return []byte("y") })
	n := 0
	tr2.Iterate(func([]byte) { n++ })
	if n != 2 {
		t.Fatalf("entries=%d want 2", n)
	}
}
