package subscriptions

import "testing"

// C01: a trailing '#' stands for the parent level and everything below it: the filter a/# matches the topic a.
func TestReproMultiLevelWildcardMatchesParentLevel(t *testing.T) {
	tr := NewTree()
	tr.Upsert([]byte("a/#"), func([]byte) []byte { return []byte("sub-on-a/#") })
	tr.Upsert([]byte("b"), func([]byte) []byte { return []byte("sub-on-b") })
	var got []string
	tr.Walk([]byte("a"), func(b []byte) {
		if len(b) > 0 {
			got = append(got, string(b))
		}
	})
	if len(got) != 1 || got[0] != "sub-on-a/#" {
		t.Fatalf("topic a against filters [a/# b]: matched %v, want [sub-on-a/#]", got)
	}
	got = nil
	tr.Walk([]byte("a/x/y"), func(b []byte) {
		if len(b) > 0 {
			got = append(got, string(b))
		}
	})
	if len(got) != 1 {
		t.Fatalf("topic a/x/y against filters [a/# b]: matched %v", got)
	}
}
