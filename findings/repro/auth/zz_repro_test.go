package auth

import (
	"context"
	"io/ioutil"
	"os"
	"strings"
	"testing"
)

func writeFile(t *testing.T, lines []string) string {
	f, err := ioutil.TempFile("", "auth")
	if err != nil {
		t.Fatal(err)
	}
	f.WriteString(strings.Join(lines, "\n") + "\n")
	f.Close()
	return f.Name()
}

// finding #12 (C16): sort.Search with an equality predicate misses entries.
func TestReproFileHandlerFindsEveryUser(t *testing.T) {
	users := []string{"alice", "bob", "carol", "dave"}
	lines := []string{}
	for _, u := range users {
		lines = append(lines, u+":"+fingerprintString("pw-"+u))
	}
	p := writeFile(t, lines)
	defer os.Remove(p)
	h, err := FileHandler(p)
	if err != nil {
		t.Fatal(err)
	}
	for _, u := range users {
		_, err := h.Authenticate(context.Background(), ApplicationContext{Username: []byte(u), Password: []byte("pw-" + u)}, TransportContext{})
		if err != nil {
			t.Errorf("user %s rejected: %v", u, err)
		}
	}
}

// finding #13 (C16): a 3-field line indexes [3].
func TestReproFileHandlerThreeFields(t *testing.T) {
	p := writeFile(t, []string{"alice:" + fingerprintString("pw") + ":tenant"})
	defer os.Remove(p)
	h, err := FileHandler(p)
	if err != nil {
		t.Fatal(err)
	}
	pr, err := h.Authenticate(context.Background(), ApplicationContext{Username: []byte("alice"), Password: []byte("pw")}, TransportContext{})
	if err != nil || pr.MountPoint != "tenant" {
		t.Fatalf("got %v %v", pr, err)
	}
}

// finding #22 (C16): a credential file mixing 2- and 3-field lines is rejected
// as a whole (encoding/csv enforces the field count of the first record).
func TestReproFileHandlerMixedLines(t *testing.T) {
	p := writeFile(t, []string{"alice:" + fingerprintString("pw-a"), "bob:" + fingerprintString("pw-b") + ":tenant"})
	defer os.Remove(p)
	h, err := FileHandler(p)
	if err != nil {
		t.Fatalf("mixed 2- and 3-field file rejected: %v", err)
	}
	pr, err := h.Authenticate(context.Background(), ApplicationContext{Username: []byte("bob"), Password: []byte("pw-b")}, TransportContext{})
	if err != nil || pr.MountPoint != "tenant" {
		t.Fatalf("bob: %v %v", pr, err)
	}
	pr, err = h.Authenticate(context.Background(), ApplicationContext{Username: []byte("alice"), Password: []byte("pw-a")}, TransportContext{})
	if err != nil || pr.MountPoint != DefaultMountPoint {
		t.Fatalf("alice: %v %v", pr, err)
	}
}
