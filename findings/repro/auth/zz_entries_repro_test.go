package auth

import (
	"context"
	"os"
	"testing"
)

// C16: a CONNECT is accepted exactly when username and password match a configured entry — whichever entry it is.
// Two entries may share a username (two passwords valid for one account): only the first one in file order was tried.
func TestReproSecondEntryOfAUserIsNeverTried(t *testing.T) {
	p := writeFile(t, []string{
		"alice:" + fingerprintString("old-password"),
		"bob:" + fingerprintString("pw-bob"),
		"alice:" + fingerprintString("new-password") + ":tenant-a",
	})
	defer os.Remove(p)
	h, err := FileHandler(p)
	if err != nil {
		t.Fatal(err)
	}
	for _, c := range []struct{ pw, mp string }{{"old-password", DefaultMountPoint}, {"new-password", "tenant-a"}} {
		pr, err := h.Authenticate(context.Background(), ApplicationContext{Username: []byte("alice"), Password: []byte(c.pw)}, TransportContext{})
		if err != nil {
			t.Errorf("alice/%s matches a configured entry but was refused: %v", c.pw, err)
			continue
		}
		if pr.MountPoint != c.mp {
			t.Errorf("alice/%s placed in %q, want %q", c.pw, pr.MountPoint, c.mp)
		}
	}
	if _, err := h.Authenticate(context.Background(), ApplicationContext{Username: []byte("alice"), Password: []byte("pw-bob")}, TransportContext{}); err == nil {
		t.Errorf("alice with bob's password was accepted")
	}
}

// C16: the session is placed in the entry's mount point, the default one when none is given: "user:hash:" gives none.
func TestReproEmptyMountPointField(t *testing.T) {
	p := writeFile(t, []string{"alice:" + fingerprintString("pw") + ":"})
	defer os.Remove(p)
	h, err := FileHandler(p)
	if err != nil {
		t.Fatal(err)
	}
	pr, err := h.Authenticate(context.Background(), ApplicationContext{Username: []byte("alice"), Password: []byte("pw")}, TransportContext{})
	if err != nil {
		t.Fatal(err)
	}
	if pr.MountPoint != DefaultMountPoint {
		t.Fatalf("entry without a mount point placed in %q, want the default %q", pr.MountPoint, DefaultMountPoint)
	}
}
